(* Evaluation of negotiation cases (should_gzip). *)
From Coq Require Import String.
From HS Require Import Lib.Base Lib.Bytes Lib.Dec Model.Negot Spec.AcceptEncoding Run.Val.

Definition dec_weight (v : val) : option weight :=
  match v with
  | VL [VN 0; ds; VN dot] => match vlist vnum ds with Some ds => Some {| w_q := QZero ds; w_dot := negb (dot =? 0) |} | None => None end
  | VL [VN 1; VN z; VN dot] => Some {| w_q := QOne (N.to_nat z); w_dot := negb (dot =? 0) |}
  | _ => None
  end.
Definition dec_elem (v : val) : option elem :=
  match v with
  | VL [VB pre; VB c; VL []; VB post] => Some {| e_pre := pre; e_coding := c; e_w := None; e_post := post |}
  | VL [VB pre; VB c; VL [VL [VB w1; VB w2; w]]; VB post] =>
      match dec_weight w with
      | Some w => Some {| e_pre := pre; e_coding := c; e_w := Some (w1, w2, w); e_post := post |}
      | None => None
      end
  | _ => None
  end.

Definition F_RESULT := bs "result"%string.
Definition of_mbool (m : M bool) : val := match m with Ok b => of_bool b | Panic _ => VN 2 end.
Definition nclause (name : string) : val := finding K_SPECFAIL (bs "C16:" ++ bs name) (VL []) (VL []).

Definition negot_tag (hdr : option bytes) : bytes :=
  match hdr with
  | None => bs "absent"
  | Some v => match should_gzip (Some v) with
              | Panic _ => bs "panic"
              | Ok b => (if b then bs "true" else bs "false") ++
                        (match to_str v with
                         | None => bs ":non-ascii"
                         | Some s => match negot_elems {| q_gzip := None; q_identity := None; q_star := None |} (split_on 44 s) with
                                     | Ok None => bs ":unparseable"
                                     | Ok (Some st) =>
                                         (match q_gzip st with Some _ => bs ":gzip" | None => [] end)
                                         ++ (match q_identity st with Some _ => bs ":identity" | None => [] end)
                                         ++ (match q_star st with Some _ => bs ":star" | None => [] end)
                                     | Panic _ => []
                                     end
                         end)
              end
  end.

(* further Accept-Encoding lines of the same request: (bytes, AST) each *)
Definition dec_more (v : val) : option (list (bytes * list elem)) :=
  vlist (fun x => match x with
                  | VL [VB b; ast] => match vlist dec_elem ast with Some l => Some (b, l) | None => None end
                  | _ => None end) v.

(* Several lines: HeaderMap::get gives the first (what the crate and the model evaluate); RFC 7230 3.2.2
   allows a recipient to combine them into one list. C16 speaks of one value. A case with several lines
   makes a claim only where both readings agree. *)
Definition run_negot_lines (h : bytes) (l1 : list elem) (more : list (bytes * list elem)) (obs : val) : list val :=
  let all := l1 ++ flat_map snd more in
  if forallb (fun p => beq_bytes (render_list (snd p)) (fst p)) more && beq_bytes (render_list l1) h then
    if Bool.eqb (prefers_gzip l1) (prefers_gzip all) then
      cmp_field F_RESULT (of_mbool (should_gzip (Some h))) obs
      ++ (if val_eqb obs (of_bool (prefers_gzip l1)) then [] else [nclause "decision-with-repeated-header-lines"])
    else cmp_field (F_RESULT ++ bs ".lines-disagree") (of_mbool (should_gzip (Some h))) obs
  else [finding K_BAD (bs "negot-hint") (VB h) (VL [])].

Definition run_negot (v : val) : val :=
  match v with
  | VL [VL [VL [VB h]; VL [ast]; VL (m1 :: mrest)]; obs] =>
      match vlist dec_elem ast, dec_more (VL (m1 :: mrest)) with
      | Some l1, Some more =>
          VL (finding K_TAG (bs "lines:" ++ negot_tag (Some h)) (VL []) (VL [])
              :: (match obs with VN 2 => [nclause "no-panic"] | _ => [] end) ++ run_negot_lines h l1 more obs)
      | _, _ => VL [finding K_BAD (bs "negot-lines") (VL []) (VL [])]
      end
  | VL [VL (hdr :: hint :: _); obs] =>
      match vopt vbytes hdr with
      | None => VL [finding K_BAD (bs "negot") (VL []) (VL [])]
      | Some h =>
          VL (finding K_TAG (negot_tag h) (VL []) (VL [])
              (* C16 quantifies over grammatical values (the generator supplies their AST): the decision on
                 an ungrammatical value is compared under its own field name, which C16 does not list *)
              :: cmp_field (match h, hint with
                            | Some _, VL [_] => F_RESULT
                            | None, _ => F_RESULT
                            | _, _ => F_RESULT ++ bs ".ungrammatical"
                            end) (of_mbool (should_gzip h)) obs
              ++ (match obs with VN 2 => [nclause "no-panic"] | _ => [] end)
              ++ (match h with
                  | None => match obs with VN 0 => [] | _ => [nclause "absent-header-is-false"] end
                  | Some hv =>
                      match hint with
                      | VL [ast] =>
                          match vlist dec_elem ast with
                          | Some l =>
                              (* the hint must render to the header, else the generator is wrong *)
                              if beq_bytes (render_list l) hv then
                                (if val_eqb obs (of_bool (prefers_gzip l)) then [] else [nclause "decision"])
                              else [finding K_BAD (bs "negot-hint") (VB (render_list l)) (VB hv)]
                          | None => [finding K_BAD (bs "negot-hint-decode") (VL []) (VL [])]
                          end
                      | _ => []
                      end
                  end))
      end
  | _ => VL [finding K_BAD (bs "negot") (VL []) (VL [])]
  end.
