(* Generic values exchanged with the evaluator driver: numbers, byte strings, lists. *)
From HS Require Import Lib.Base.

Inductive val := VN (n : N) | VB (b : bytes) | VL (l : list val).

Definition vopt {A} (f : val -> option A) (v : val) : option (option A) :=
  match v with
  | VL [] => Some None
  | VL [x] => match f x with Some a => Some (Some a) | None => None end
  | _ => None
  end.
Definition vnum (v : val) : option N := match v with VN n => Some n | _ => None end.
Definition vbytes (v : val) : option bytes := match v with VB b => Some b | _ => None end.
Fixpoint vall {A} (f : val -> option A) (l : list val) : option (list A) :=
  match l with
  | [] => Some []
  | x :: t => match f x, vall f t with Some a, Some r => Some (a :: r) | _, _ => None end
  end.
Definition vlist {A} (f : val -> option A) (v : val) : option (list A) :=
  match v with VL l => vall f l | _ => None end.
Definition vpair {A B} (f : val -> option A) (g : val -> option B) (v : val) : option (A * B) :=
  match v with
  | VL [x; y] => match f x, g y with Some a, Some b => Some (a, b) | _, _ => None end
  | _ => None
  end.
Definition vbool (v : val) : option bool :=
  match v with VN 0 => Some false | VN 1 => Some true | _ => None end.

Definition of_opt {A} (f : A -> val) (o : option A) : val :=
  match o with None => VL [] | Some a => VL [f a] end.
Definition of_bool (b : bool) : val := VN (if b then 1 else 0).
Definition of_pair {A B} (f : A -> val) (g : B -> val) (p : A * B) : val := VL [f (fst p); g (snd p)].
Definition of_list {A} (f : A -> val) (l : list A) : val := VL (map f l).

Fixpoint val_eqb (a b : val) {struct a} : bool :=
  match a, b with
  | VN x, VN y => x =? y
  | VB x, VB y => beq_bytes x y
  | VL x, VL y =>
      (fix go (x y : list val) {struct x} : bool :=
         match x, y with
         | [], [] => true
         | p :: x', q :: y' => val_eqb p q && go x' y'
         | _, _ => false
         end) x y
  | _, _ => false
  end.

(* findings reported by a run: kind, field, model value, implementation value *)
Definition K_DIVERGE : bytes := [68;73;86].    (* DIV *)
Definition K_SPECFAIL : bytes := [83;80;69;67]. (* SPEC *)
Definition K_DRIFT : bytes := [68;82;73;70;84]. (* DRIFT *)
Definition K_TAG : bytes := [84;65;71].        (* TAG *)
Definition K_BAD : bytes := [66;65;68].        (* BAD: undecodable case *)
Definition finding (kind field : bytes) (model impl : val) : val := VL [VB kind; VB field; model; impl].
Definition cmp_field (field : bytes) (model impl : val) : list val :=
  if val_eqb model impl then [] else [finding K_DIVERGE field model impl].
