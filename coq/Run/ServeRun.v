(* Evaluation of one serve-engine case: decode the input, run the model, compare with the
   implementation's observation field by field, run the executable property oracles. *)
From Coq Require Import String.
From HS Require Import Lib.Base Lib.Bytes Lib.Dec Model.Range Model.Etag Model.Body Model.Serve Run.Val.

Record sinput := {
  i_now : N; i_ent : entity; i_req : request;
  i_dates : list (bytes * option N);
  i_streams : list (list ev);
  i_npolls : nat;
  i_hints : val
}.

Definition dec_hdrs := vlist (vpair vbytes vbytes).
Definition dec_entity (v : val) : option entity :=
  match v with
  | VL [l; et; lm; h] =>
      match vnum l, vopt vbytes et, vopt vnum lm, dec_hdrs h with
      | Some l, Some et, Some lm, Some h => Some {| e_len := l; e_etag := et; e_lm := lm; e_hdrs := h |}
      | _, _, _, _ => None
      end
  | _ => None
  end.
Definition dec_request (v : val) : option request :=
  match v with
  | VL [m; a; b; c; d; e; f] =>
      match vbytes m, vopt vbytes a, vopt vbytes b, vopt vbytes c, vopt vbytes d, vopt vbytes e, vopt vbytes f with
      | Some m, Some a, Some b, Some c, Some d, Some e, Some f =>
          Some {| r_meth := m; r_range := a; r_if_range := b; r_if_match := c; r_inm := d; r_ims := e; r_ius := f |}
      | _, _, _, _, _, _, _ => None
      end
  | _ => None
  end.
Definition dec_ev (v : val) : option ev :=
  match v with
  | VN 0 => Some EvPending
  | VB b => Some (EvData b)
  | VL [VN c] => Some (EvErr c)
  | _ => None
  end.
Definition dec_sinput (v : val) : option sinput :=
  match v with
  | VL [now; ent; req; dates; streams; np; hints] =>
      match vnum now, dec_entity ent, dec_request req, vlist (vpair vbytes (vopt vnum)) dates,
            vlist (vlist dec_ev) streams, vnum np with
      | Some now, Some ent, Some req, Some dates, Some streams, Some np =>
          Some {| i_now := now; i_ent := ent; i_req := req; i_dates := dates; i_streams := streams;
                  i_npolls := N.to_nat np; i_hints := hints |}
      | _, _, _, _, _, _ => None
      end
  | _ => None
  end.

(* oracle instances used for evaluation *)
Definition fmt_date_eval (s : N) : bytes := 64 :: dec s.          (* "@<secs>": the harness normalises dates the same way *)
Fixpoint lookup_date (t : list (bytes * option N)) (s : bytes) : option N :=
  match t with [] => None | (k, v) :: r => if beq_bytes k s then v else lookup_date r s end.

Definition of_perr (e : perr) : val :=
  match e with ErrEntity c => VL [VN 0; VN c] | ErrShort n => VL [VN 1; VN n] | ErrLong n => VL [VN 2; VN n] end.
Definition of_pollres (r : pollres) : val :=
  match r with PPending => VN 0 | PData d => VB d | PEnd => VN 1 | PErr e => of_perr e end.
Definition V_PANIC : val := VN 2.

(* the model's observation of a body polled n times: list of (result, hint, eos) *)
Fixpoint run_polls (n : nat) (streams : list (list ev)) (b : body) : list val * body :=
  match n with
  | O => ([], b)
  | S n' =>
      match body_poll streams b with
      | Panic t => ([VL [V_PANIC; VN t; VN 0]], b)
      | Ok (b', r) =>
          let (l, bf) := run_polls n' streams b' in
          (VL [of_pollres r; VN (body_hint b'); of_bool (body_eos b')] :: l, bf)
      end
  end.

Definition of_hdrs (h : list (bytes * bytes)) : val := of_list (of_pair VB VB) h.
Definition of_calls (c : list (N * N)) : val := of_list (of_pair VN VN) c.

(* multiset comparison of header lists *)
Fixpoint remove_first (x : val) (l : list val) : option (list val) :=
  match l with
  | [] => None
  | y :: t => if val_eqb x y then Some t else option_map (cons y) (remove_first x t)
  end.
Fixpoint multiset_eqb (a b : list val) : bool :=
  match a with
  | [] => match b with [] => true | _ => false end
  | x :: t => match remove_first x b with Some b' => multiset_eqb t b' | None => false end
  end.

(* The constant texts of the 400 / 405 / 412 / 413 bodies are not constrained by any property: the
   model takes the text from the observation (the first data frame) and keeps the structure -- one
   frame of exactly the hinted length, then the end. A different text is reported in the field
   "text", which no property lists (model drift). *)
Definition first_frame (impl : val) : option bytes :=
  match impl with
  | VL [_; _; _; _; VL (VL [VB d; _; _] :: _); _] => Some d
  | _ => None
  end.
Definition adapt_plan (p : plan) (impl : val) : plan :=
  match p with
  | PlOnce (Some t) => match first_frame impl with Some (x :: d) => PlOnce (Some (x :: d)) | _ => p end
  | _ => p
  end.
Definition F_TEXT := bs "text"%string.
Definition cmp_text (i : sinput) (impl : val) : list val :=
  match serve_model fmt_date_eval (lookup_date (i_dates i)) (i_now i) (i_ent i) (i_req i) with
  | Ok r => match rplan r, first_frame impl with
            | PlOnce (Some t), Some d => cmp_field F_TEXT (VB t) (VB d)
            | _, _ => []
            end
  | _ => []
  end.

Definition model_obs (i : sinput) (impl : val) : val :=
  match serve_model fmt_date_eval (lookup_date (i_dates i)) (i_now i) (i_ent i) (i_req i) with
  | Panic t => VL [VB (bs "PANIC"%string); VN t]
  | Ok r =>
      let (b, calls0) := body_init (i_streams i) (adapt_plan (rplan r) impl) in
      let (polls, bf) := run_polls (i_npolls i) (i_streams i) b in
      VL [VN (status r); of_hdrs (hdrs r); VN (body_hint b); of_bool (body_eos b); VL polls;
          of_calls (body_calls bf calls0)]
  end.

Definition F_STATUS := bs "status"%string.
Definition F_HDRS := bs "hdrs"%string.
Definition F_HINT0 := bs "hint0"%string.
Definition F_EOS0 := bs "eos0"%string.
Definition F_POLLS := bs "polls"%string.
Definition F_POLL_RES := bs "poll.res"%string.
Definition F_POLL_HINT := bs "poll.hint"%string.
Definition F_POLL_EOS := bs "poll.eos"%string.
Definition F_CALLS := bs "calls"%string.
Definition F_SHAPE := bs "shape"%string.

(* The size hint and the end-of-stream flag are functions of how much has been delivered: they are
   compared wherever model and implementation have delivered the same number of bytes (dm, di) and
   reported the same kind of result -- at every poll when the framing agrees, at the common cut
   points when it does not. *)
Definition data_len (r : val) : N := match r with VB d => lenN d | _ => 0 end.
Definition same_kind (a b : val) : bool :=
  match a, b with
  | VB _, VB _ => true
  | VN x, VN y => x =? y
  | VL _, VL _ => true
  | _, _ => false
  end.
Definition is_terminal_res (r : val) : bool :=
  match r with VN 1 => true | VN 2 => true | VB _ => false | VN _ => false | _ => true end.
(* `live`: neither side has reported its end, an error or a panic yet; what the hint and the flag
   say after a failed or finished body is constrained only by "nothing more comes" (oracles) *)
Fixpoint cmp_polls (live : bool) (idx dm di : N) (m i : list val) : list val :=
  match m, i with
  | [], [] => []
  | VL [mr; mh; me] :: m', VL [ir; ih; ie] :: i' =>
      let dm' := dm + data_len mr in
      let di' := di + data_len ir in
      let live' := live && negb (is_terminal_res mr) && negb (is_terminal_res ir) in
      let f := cmp_field F_POLL_RES (VL [VN idx; mr]) (VL [VN idx; ir])
               ++ (if live' && (dm' =? di') && same_kind mr ir then
                     cmp_field F_POLL_HINT (VL [VN idx; mh]) (VL [VN idx; ih])
                     ++ cmp_field F_POLL_EOS (VL [VN idx; me]) (VL [VN idx; ie])
                   else []) in
      f ++ cmp_polls live' (idx + 1) dm' di' m' i'        (* keep going: a later field may be the constrained one *)
  | _, _ => [finding K_DIVERGE F_POLLS (VL m) (VL i)]
  end.

(* response headers are compared name by name, as multisets of values *)
Fixpoint dedup (l : list bytes) : list bytes :=
  match l with
  | [] => []
  | x :: t => if existsb (beq_bytes x) t then dedup t else x :: dedup t
  end.
Definition hdr_vals (name : bytes) (h : list val) : list val :=
  flat_map (fun kv => match kv with VL [VB k; v] => if beq_bytes k name then [v] else [] | _ => [] end) h.
Definition hdr_names (h : list val) : list bytes :=
  flat_map (fun kv => match kv with VL [VB k; _] => [k] | _ => [] end) h.
Definition F_HDR := bs "hdr:"%string.
Definition cmp_hdrs (mh ih : list val) : list val :=
  flat_map (fun name =>
              let mv := hdr_vals name mh in let iv := hdr_vals name ih in
              if multiset_eqb mv iv then [] else [finding K_DIVERGE (F_HDR ++ name) (VL mv) (VL iv)])
           (dedup (hdr_names mh ++ hdr_names ih)).

(* ---- derived fields: what a body did, independent of how it was cut into frames and of how
   errors are worded. A property lists the coarsest fields its statement constrains (vprops.py). ---- *)
(* kind of a poll result: 0 pending, 1 clean end, 2 error, 3 panic, 4 data, 5 empty data *)
Definition res_kind (r : val) : N :=
  match r with
  | VN 0 => 0 | VN 1 => 1 | VN 2 => 3
  | VB [] => 5 | VB _ => 4
  | _ => 2
  end.
Definition poll_res (p : val) : val := match p with VL (r :: _) => r | _ => VN 9 end.
(* (data before the first terminal event, its kind -- 0 if none was reached --, kinds of the results after it) *)
Fixpoint split_body (polls : list val) : bytes * N * list N :=
  match polls with
  | [] => ([], 0, [])
  | p :: t =>
      let r := poll_res p in
      let k := res_kind r in
      if (k =? 1) || (k =? 2) || (k =? 3) then ([], k, map (fun q => res_kind (poll_res q)) t)
      else let '(d, term, after) := split_body t in
           ((match r with VB b => b | _ => [] end) ++ d, term, after)
  end.
Definition status_class (s : val) : val :=
  match s with
  | VN n => if n =? 405 then VN 405
            else if existsb (N.eqb n) [200; 206; 304; 400; 412; 413; 416] then VN 1 else VN 0
  | _ => VN 0
  end.
Definition lower_nospace (b : bytes) : bytes :=
  flat_map (fun c => if (c =? 32) || (c =? 9) then [] else [if (65 <=? c) && (c <=? 90) then c + 32 else c]) b.
Definition after_kind (k : N) : N := if (k =? 4) || (k =? 3) then k else 0.
Definition F_BODY_BYTES := bs "body.bytes"%string.
Definition F_BODY_LEN := bs "body.len"%string.
Definition F_BODY_END := bs "body.end"%string.
Definition F_BODY_PANIC := bs "body.panic"%string.
Definition F_BODY_AFTER := bs "body.after"%string.
Definition F_STATUS_CLASS := bs "status.class"%string.
Definition F_ALLOW := bs "allow"%string.
Definition F_CALLS405 := bs "calls.405"%string.
Definition H_ALLOW_ := bs "allow"%string.

(* C20's proviso: the entity's streams stay finished once they have failed (an error is the last event) *)
Definition ev_is_err_ (e : ev) : bool := match e with EvErr _ => true | _ => false end.
Definition fused_stream (s : list ev) : bool :=
  match rev s with
  | [] => true
  | _ :: before => negb (existsb ev_is_err_ before)
  end.
(* `mx`: the model's polls run far enough to reach its terminal event whatever the framing *)
Definition cmp_derived (fused : bool) (ms is_ : val) (mh ih : list val) (mx ip : list val) (mc ic : val) : list val :=
  let '(md, mt, ma) := split_body mx in
  let '(id, it, ia) := split_body ip in
  cmp_field F_STATUS_CLASS (status_class ms) (status_class is_)
  ++ cmp_field F_ALLOW (VL (map (fun v => match v with VB b => VB (lower_nospace b) | _ => v end) (hdr_vals H_ALLOW_ mh)))
                       (VL (map (fun v => match v with VB b => VB (lower_nospace b) | _ => v end) (hdr_vals H_ALLOW_ ih)))
  ++ (if val_eqb (status_class ms) (VN 405) then cmp_field F_CALLS405 mc ic else [])
  ++ cmp_field F_BODY_PANIC (of_bool (mt =? 3)) (of_bool (it =? 3))
  ++ (if it =? 0 then []          (* the implementation was not polled to its end: the per-poll fields are the comparison *)
      else cmp_field F_BODY_END (VN mt) (VN it)
           ++ cmp_field F_BODY_LEN (VN (lenN md)) (VN (lenN id))
           ++ cmp_field F_BODY_BYTES (VB md) (VB id)
           (* after the terminal event only "no data, no panic" is constrained: which of end / error / pending
              a finished body answers is not *)
           ++ (if fused then cmp_field F_BODY_AFTER (of_list VN (map after_kind (firstn (length ia) ma))) (of_list VN (map after_kind ia))
               else [])).

(* The entity reads. Once the body has reached its terminal event they are compared exactly. While it has
   not (the harness stopped polling), a body may have opened the next part's stream a poll earlier or
   later than the model: then one list must be a prefix of the other (the order of the reads is what
   the properties fix, not the poll at which a stream is opened). *)
Fixpoint val_prefix (a b : list val) : bool :=
  match a, b with
  | [], _ => true
  | x :: a', y :: b' => val_eqb x y && val_prefix a' b'
  | _ :: _, [] => false
  end.
Definition cmp_calls (impl_term : N) (mc mcx ic : val) : list val :=
  if impl_term =? 0 then
    match mc, ic with
    | VL m, VL i => if val_prefix m i || val_prefix i m then [] else cmp_field F_CALLS mc ic
    | _, _ => cmp_field F_CALLS mc ic
    end
  else cmp_field F_CALLS mcx ic.      (* mcx: the reads of the model polled to ITS terminal event *)

Definition cmp_obs (fused : bool) (model impl : val) (mx : list val) (mcx : val) : list val :=
  match model, impl with
  | VL [ms; VL mh; mh0; me0; VL mp; mc], VL [is_; VL ih; ih0; ie0; VL ip; ic] =>
      (* Where the multipart length cannot be announced in 64 bits the code answers 413; the properties allow
         that (C01, C13) and equally the complete 200 (C03: "either a multipart 206 ... or a complete 200").
         A 200 where the model says 413 is therefore no broken correspondence: it is compared under its own
         field name, and what the 200 must look like is the oracles' business *)
      if val_eqb ms (VN 413) && val_eqb is_ (VN 200) then cmp_field (bs "status.413-or-200") ms is_ else
      cmp_field F_STATUS ms is_
      ++ (if val_eqb ms is_ then cmp_hdrs mh ih else [])     (* headers of different statuses are not comparable *)
      ++ cmp_field F_HINT0 mh0 ih0 ++ cmp_field F_EOS0 me0 ie0
      ++ firstn 12 (cmp_polls true 0 0 0 mp ip) ++ cmp_calls (snd (fst (split_body ip))) mc mcx ic
      ++ cmp_derived fused ms is_ mh ih mx ip mc ic
  | _, _ => cmp_field F_SHAPE model impl
  end.

(* the model's body polled until well past its terminal event: its polls and its entity reads *)
Definition model_ext (i : sinput) (impl : val) : list val * val :=
  match serve_model fmt_date_eval (lookup_date (i_dates i)) (i_now i) (i_ent i) (i_req i) with
  | Panic t => ([], VL [])
  | Ok r =>
      let (b, calls0) := body_init (i_streams i) (adapt_plan (rplan r) impl) in
      let slack := (fold_left (fun a s => a + length s + 2) (i_streams i) 8)%nat in
      let (polls, bf) := run_polls (i_npolls i + slack) (i_streams i) b in
      (polls, of_calls (body_calls bf calls0))
  end.
Definition model_polls_ext (i : sinput) (impl : val) : list val := fst (model_ext i impl).
