(* Replays one executed schedule of the real chunker on the model of Model/ChunkerConc.v. *)
From Coq Require Import String.
From HS Require Import Lib.Base Lib.Bytes Model.Chunker Model.ChunkerConc Run.Val Run.StreamRun.

Definition dec_pop (v : val) : option cop :=
  match v with
  | VL [VN 0; VB d] => Some (OWrite d)
  | VL [VN 2] => Some OFlush
  | VL [VN 3] => Some OAbort
  | VL [VN 4] => Some ODropWriter
  | VL [VN 8] => Some (OPoll 0)          (* wait-until-parked: no effect on the shared state (placeholder) *)
  | _ => None
  end.

Definition xclause (name : string) : val := finding K_SPECFAIL (bs "C10:" ++ bs name) (VL []) (VL []).
Definition F_X_TRACE := bs "trace".

(* replay state: the model state, the index of the producer's current operation, whether its
   critical section has been applied, and its result awaiting the return event *)
Record rp := { rp_k : kst; rp_idx : N; rp_applied : bool; rp_res : option copres; rp_fail : list val }.

Definition is_wait (o : cop) : bool := match o with OPoll _ => true | _ => false end.

Definition apply_pcs (r : rp) : rp :=
  (* the semantic critical section of the current operation *)
  match k_prog (rp_k r) with
  | op :: rest =>
      if is_wait op then
        {| rp_k := {| k_s := k_s (rp_k r); k_pend := k_pend (rp_k r); k_prog := rest; k_cons := k_cons (rp_k r); k_woken := k_woken (rp_k r) |};
           rp_idx := rp_idx r; rp_applied := true; rp_res := Some RUnit; rp_fail := rp_fail r |}
      else
      match kstep (rp_k r) P_cs with
      | Some (k', res) => {| rp_k := k'; rp_idx := rp_idx r; rp_applied := true; rp_res := Some res; rp_fail := rp_fail r |}
      | None => {| rp_k := rp_k r; rp_idx := rp_idx r; rp_applied := true; rp_res := None;
                   rp_fail := rp_fail r ++ [finding K_DIVERGE F_X_TRACE (VB (bs "P_cs not enabled in the model")) (VN (rp_idx r))] |}
      end
  | [] => {| rp_k := rp_k r; rp_idx := rp_idx r; rp_applied := true; rp_res := None;
             rp_fail := rp_fail r ++ [finding K_DIVERGE F_X_TRACE (VB (bs "no producer operation left")) (VN (rp_idx r))] |}
  end.

Definition add_fail (r : rp) (f : list val) : rp :=
  {| rp_k := rp_k r; rp_idx := rp_idx r; rp_applied := rp_applied r; rp_res := rp_res r; rp_fail := rp_fail r ++ f |}.

Definition replay_event (r : rp) (e : val) : rp :=
  match e with
  | VL [VN 0; VN k] =>                       (* P finished a critical section of operation k *)
      if (k =? rp_idx r) && negb (rp_applied r) then apply_pcs r
      else r                                  (* a further section of the same operation: no shared effect expected *)
  | VL [VN 1; VN w] =>                       (* a wake-up of waker w *)
      match kstep (rp_k r) P_wake with
      | Some (k', _) =>
          if match k_pend (rp_k r) with Some w' => w' =? w | None => false end
          then {| rp_k := k'; rp_idx := rp_idx r; rp_applied := rp_applied r; rp_res := rp_res r; rp_fail := rp_fail r |}
          else add_fail r [finding K_DIVERGE F_X_TRACE (VB (bs "woke a different waker")) (VN w)]
      | None => add_fail r [finding K_DIVERGE F_X_TRACE (VB (bs "wake without a taken waker")) (VN w)]
      end
  | VL [VN 2; VN k; res; VN nlocks] =>        (* operation k returned *)
      let r1 := if rp_applied r then r else apply_pcs r in     (* an operation without a critical section *)
      (* once the body is gone C11 fixes only the failing cases (trace clauses below); whether the other calls
         still succeed is compared under its own field name *)
      let fld := if c_reader (k_s (rp_k r1)) then F_X_TRACE else (F_X_TRACE ++ bs ".after-body-drop") in
      let f := match rp_res r1 with
               | Some m => cmp_field fld (VL [VN k; of_copres m]) (VL [VN k; res])
               | None => []
               end
               in
      {| rp_k := rp_k r1; rp_idx := rp_idx r1 + 1; rp_applied := false; rp_res := None; rp_fail := rp_fail r1 ++ f |}
  | VL [VN 3; VN w; res] =>                  (* a consumer poll *)
      match kstep (rp_k r) (C_poll w) with
      | Some (k', m) =>
          {| rp_k := k'; rp_idx := rp_idx r; rp_applied := rp_applied r; rp_res := rp_res r;
             rp_fail := rp_fail r ++ cmp_field F_X_TRACE (VL [VN 3; VN w; of_copres m]) (VL [VN 3; VN w; res]) |}
      | None => add_fail r [finding K_DIVERGE F_X_TRACE (VB (bs "poll after the consumer finished")) (VN w)]
      end
  | VL [VN 4] =>
      match kstep (rp_k r) C_drop with
      | Some (k', _) => {| rp_k := k'; rp_idx := rp_idx r; rp_applied := rp_applied r; rp_res := rp_res r; rp_fail := rp_fail r |}
      | None => add_fail r [finding K_DIVERGE F_X_TRACE (VB (bs "drop after the consumer finished")) (VL [])]
      end
  | VL [VN 5; VN _] => r                     (* the consumer re-takes the lock within one poll: no model step *)
  | _ => add_fail r [finding K_BAD (bs "sched-event") e (VL [])]
  end.

(* ---- framing-independent replay of data polls ----
   How the bytes are cut into frames is no part of C10 / C11 (a writer may merge a short flushed chunk
   into one still queued; a reader may hand over several queued chunks at once): the byte streams of
   model and implementation are aligned, not their frames. sur = bytes the model has delivered beyond
   what the implementation has. *)
(* s_lost: bytes that were queued when an abort discarded the queue. A body may still hand over chunks it
   had already taken out of the shared queue before it reports the error (C11 only asks that what is
   delivered before the error be a prefix of what was written): such data is matched against s_lost. *)
Record rps := { s_r : rp; s_sur : bytes; s_lost : bytes }.
(* the model polls while it delivers data, until `need` bytes are there; stops (without consuming the
   event) at the first poll that would not deliver data *)
Fixpoint pull_model (fuel : nat) (w : N) (need : N) (k : kst) (sur : bytes) : kst * bytes :=
  if need <=? lenN sur then (k, sur) else
  match fuel with
  | O => (k, sur)
  | S f =>
      match kstep k (C_poll w) with
      | Some (k', RPoll (Some (Some (Some d1)))) => pull_model f w need k' (sur ++ d1)
      | _ => (k, sur)
      end
  end.
Definition with_k (r : rp) (k : kst) : rp :=
  {| rp_k := k; rp_idx := rp_idx r; rp_applied := rp_applied r; rp_res := rp_res r; rp_fail := rp_fail r |}.
Definition queued (k : kst) : bytes := match c_st (k_s k) with SOk ready _ _ => concat ready | _ => [] end.
Definition replay_event2 (x : rps) (e : val) : rps :=
  let r := s_r x in
  match e with
  | VL [VN 3; VN w; VB d] =>                  (* a consumer poll that delivered d *)
      let '(k', sur) := pull_model (S (List.length d)) w (lenN d) (rp_k r) (s_sur x) in
      if lenN d <=? lenN sur then
        if starts_with d sur
        then {| s_r := with_k r k'; s_sur := skipn (List.length d) sur; s_lost := s_lost x |}
        else {| s_r := add_fail r [finding K_DIVERGE F_X_TRACE (VL [VN 3; VN w; VB (firstn (List.length d) sur)]) (VL [VN 3; VN w; VB d])];
                s_sur := s_sur x; s_lost := s_lost x |}
      else
        (* the model has no more data to deliver: chunks queued at the time of an abort? *)
        let avail := sur ++ s_lost x in
        if starts_with d avail
        then {| s_r := with_k r k'; s_sur := []; s_lost := skipn (List.length d - List.length sur) (s_lost x) |}
        else {| s_r := add_fail r [finding K_DIVERGE F_X_TRACE (VB (bs "the model has fewer bytes to deliver")) (VL [VN 3; VN w; VB d])];
                s_sur := s_sur x; s_lost := s_lost x |}
  | VL [VN 3; VN w; res] =>                   (* Pending, end or error: nothing may be outstanding *)
      match s_sur x with
      | _ :: _ => {| s_r := add_fail r [finding K_DIVERGE F_X_TRACE (VB (bs "the model has delivered more bytes")) (VL [VN 3; VN w; res])];
                     s_sur := s_sur x; s_lost := s_lost x |}
      | [] => {| s_r := replay_event r e; s_sur := []; s_lost := s_lost x |}
      end
  | VL [VN 0; VN k] =>                        (* a producer critical section: an abort discards what is queued *)
      let is_abort := (k =? rp_idx r) && negb (rp_applied r) &&
                      match k_prog (rp_k r) with OAbort :: _ => true | _ => false end in
      {| s_r := replay_event r e; s_sur := s_sur x;
         s_lost := if is_abort then s_lost x ++ queued (rp_k r) else s_lost x |}
  | VL (VN 6 :: _) => x                       (* a size_hint sample: no effect on the shared state *)
  | _ => {| s_r := replay_event r e; s_sur := s_sur x; s_lost := s_lost x |}
  end.

(* ---- oracles over the executed trace alone (no model state): the outcome clauses of C10 / C11 ---- *)
Record tr := { t_acc : bytes; t_del : bytes; t_abort : bool; t_alive : bool; t_term : option bool (* true = clean end *);
               t_fail : list string;
               t_dropped : bool;              (* the body has been dropped (event [4] seen) *)
               t_cur : option (N * bool);     (* operation whose events have begun, and whether the body was already dropped then *)
               t_buf : N;                     (* bytes accepted but not yet handed over (the writer's buffer) *)
               t_hints : list (N * N * option N) (* size_hint samples: (bytes delivered so far, lower, upper) *) }.
Definition tr_set (t : tr) (acc del : bytes) (abort alive : bool) (term : option bool) : tr :=
  {| t_acc := acc; t_del := del; t_abort := abort; t_alive := alive; t_term := term; t_fail := t_fail t;
     t_dropped := t_dropped t; t_cur := t_cur t; t_buf := t_buf t; t_hints := t_hints t |}.
Definition tr_fail (t : tr) (c : string) : tr :=
  {| t_acc := t_acc t; t_del := t_del t; t_abort := t_abort t; t_alive := t_alive t; t_term := t_term t;
     t_fail := if existsb (String.eqb c) (t_fail t) then t_fail t else t_fail t ++ [c];
     t_dropped := t_dropped t; t_cur := t_cur t; t_buf := t_buf t; t_hints := t_hints t |}.
Definition tr_aux (t : tr) (dropped : bool) (cur : option (N * bool)) (buf : N) : tr :=
  {| t_acc := t_acc t; t_del := t_del t; t_abort := t_abort t; t_alive := t_alive t; t_term := t_term t; t_fail := t_fail t;
     t_dropped := dropped; t_cur := cur; t_buf := buf; t_hints := t_hints t |}.
(* operation k begins (its first event): remember whether the body was already gone *)
Definition tr_begin (t : tr) (k : N) : tr :=
  match t_cur t with
  | Some (k', _) => if k' =? k then t else tr_aux t (t_dropped t) (Some (k, t_dropped t)) (t_buf t)
  | None => tr_aux t (t_dropped t) (Some (k, t_dropped t)) (t_buf t)
  end.
Definition began_after_drop (t : tr) : bool := match t_cur t with Some (_, b) => b | None => false end.
Definition trace_event (cap : N) (prog : list cop) (t : tr) (e : val) : tr :=
  match e with
  | VL [VN 0; VN k] =>                       (* a critical section of operation k *)
      let t := tr_begin t k in
      match nth_error prog (N.to_nat k) with
      | Some OAbort => if t_alive t then tr_set t (t_acc t) (t_del t) true false (t_term t) else t
      | _ => t
      end
  | VL [VN 2; VN k; res; VN _] =>
      let t := tr_begin t k in
      match nth_error prog (N.to_nat k), res with
      | Some (OWrite d), VL [VN 0; VN n] =>
          let t' := tr_set t (t_acc t ++ firstn (N.to_nat n) d) (t_del t) (t_abort t) (t_alive t) (t_term t) in
          let t' := if t_abort t && negb (n =? 0) then tr_fail t' "write-accepted-after-abort" else t' in
          (* the whole operation ran after the body was dropped and it completed a chunk: it must have failed *)
          let t' := if began_after_drop t && (0 <? cap) && (cap <=? t_buf t + n)
                    then tr_fail t' "chunk-completing-write-succeeds-after-the-body-was-dropped" else t' in
          tr_aux t' (t_dropped t') (t_cur t') (if cap <=? t_buf t + n then 0 else t_buf t + n)
      | Some OFlush, VL [VN 2] =>
          let t' := if t_abort t then tr_fail t "flush-succeeds-after-abort" else t in
          let t' := if began_after_drop t && (0 <? t_buf t)
                    then tr_fail t' "flush-of-buffered-bytes-succeeds-after-the-body-was-dropped" else t' in
          tr_aux t' (t_dropped t') (t_cur t') 0
      | Some ODropWriter, _ | Some OAbort, _ => tr_set t (t_acc t) (t_del t) (t_abort t) false (t_term t)
      | _, _ => t
      end
  | VL [VN 3; VN _; VB d] =>
      let t' := tr_set t (t_acc t) (t_del t ++ d) (t_abort t) (t_alive t) (t_term t) in
      match t_term t with Some _ => tr_fail t' "data-after-the-terminal-event" | None => t' end
  | VL [VN 3; VN _; VL [VN 5]] =>
      let t' := tr_set t (t_acc t) (t_del t) (t_abort t) (t_alive t) (Some true) in
      if t_abort t then tr_fail t' "clean-end-after-abort" else t'
  | VL [VN 3; VN _; VL [VN 6]] => tr_set t (t_acc t) (t_del t) (t_abort t) (t_alive t) (Some false)
  | VL [VN 4] => tr_aux t true (t_cur t) (t_buf t)          (* the body has been dropped *)
  | VL [VN 6; VN lo; hi] =>                                (* the consumer sampled size_hint() *)
      {| t_acc := t_acc t; t_del := t_del t; t_abort := t_abort t; t_alive := t_alive t; t_term := t_term t; t_fail := t_fail t;
         t_dropped := t_dropped t; t_cur := t_cur t; t_buf := t_buf t;
         t_hints := (lenN (t_del t), lo, match hi with VL [VN h] => Some h | _ => None end) :: t_hints t |}
  | _ => t
  end.
Fixpoint bytes_contains (needle hay : bytes) : bool :=
  match hay with
  | [] => match needle with [] => true | _ => false end
  | _ :: t => starts_with needle hay || bytes_contains needle t
  end.
Definition contains_str (needle hay : string) : bool := bytes_contains (bs needle) (bs hay).
Definition trace_clauses (cap : N) (prog : list cop) (trace : list val) : list string :=
  let t := fold_left (trace_event cap prog) trace
             {| t_acc := []; t_del := []; t_abort := false; t_alive := true; t_term := None; t_fail := [];
                t_dropped := false; t_cur := None; t_buf := 0; t_hints := [] |} in
  t_fail t
  (* C12 under interleavings: at a clean end every sampled hint bounded the bytes that were still to come *)
  ++ (match t_term t with
      | Some true =>
          if forallb (fun s => let '(at_, lo, hi) := s in
                               let still := lenN (t_del t) - at_ in
                               (lo <=? still) && match hi with Some h => still <=? h | None => true end) (t_hints t)
          then [] else ["hint-bounds-bytes-still-to-come"%string]
      | _ => []
      end)
  ++ (if starts_with (t_del t) (t_acc t) then [] else ["delivered-bytes-are-not-a-prefix-of-the-accepted-bytes"%string])
  ++ match t_term t with
     | Some true => if beq_bytes (t_del t) (t_acc t) then [] else ["clean-end-without-everything-accepted"%string]
     | Some false => if existsb (fun o => match o with OAbort => true | _ => false end) prog then [] else ["error-without-abort"%string]
     | None => []
     end.

(* the no-lost-wakeup condition J of Proofs/ConcP.v, evaluated on the replayed model state *)
Definition j_holds (k : kst) : bool :=
  match k_cons k with
  | CParked w =>
      if mem_w w (k_woken k) || match k_pend k with Some w' => w' =? w | None => false end then true
      else match c_st (k_s k), c_waker (k_s k) with
           | SOk [] _ false, Some w' => w' =? w
           | _, _ => false
           end
  | _ => true
  end.

Definition run_sched (v : val) : val :=
  match v with
  | VL [VL (VN cap :: prog :: VL trace :: _); VL [VN stuck; VN timeout; VN wwl]] =>
      match vlist dec_pop prog with
      | None => VL [finding K_BAD (bs "sched") (VL []) (VL [])]
      | Some prog =>
          let r0 := {| rp_k := kinit cap prog; rp_idx := 0; rp_applied := false; rp_res := None; rp_fail := [] |} in
          (* the invariant J is evaluated after every event, not only at the end *)
          let rf := s_r (fold_left (fun x e => let x' := replay_event2 x e in
                                          if j_holds (rp_k (s_r x')) then x'
                                          else {| s_r := add_fail (s_r x') [xclause "parked-consumer-with-data-or-termination-pending-and-no-wake-in-flight"];
                                                  s_sur := s_sur x'; s_lost := s_lost x' |})
                              trace {| s_r := r0; s_sur := []; s_lost := [] |}) in
          let tag := match k_cons (rp_k rf) with CDone => bs "consumer-done" | CParked _ => bs "consumer-parked" | CRun => bs "consumer-running" end
                     ++ (match c_st (k_s (rp_k rf)) with SErr => bs ":err" | SFused => bs ":fused" | SOk _ _ true => bs ":dropped" | SOk _ _ false => bs ":open" end) in
          VL (finding K_TAG tag (VL []) (VL [])
              :: rp_fail rf
              ++ (if j_holds (rp_k rf) then [] else [xclause "parked-consumer-with-data-or-termination-pending-and-no-wake-in-flight"])
              ++ (if stuck =? 0 then [] else [xclause "consumer-asleep-while-termination-pending"])
              ++ (if timeout =? 0 then [] else [xclause "thread-blocked-deadlock"])
              ++ (if wwl =? 0 then [] else [xclause "wake-while-holding-the-lock"])
              ++ flat_map (fun c => (* the hint clause is C12's, the disconnect clauses are C11's alone *)
                                    if contains_str "hint-bounds" c then [finding K_SPECFAIL (bs "C12:" ++ bs c) (VL []) (VL [])] else
                                    (if contains_str "body-was-dropped" c then [] else [finding K_SPECFAIL (bs "C10:" ++ bs c) (VL []) (VL [])])
                                    ++ [finding K_SPECFAIL (bs "C11:" ++ bs c) (VL []) (VL [])]) (trace_clauses cap prog trace)
              ++ (if (negb (stuck =? 0)) && existsb (fun o => match o with OAbort => true | _ => false end) prog
                  then [finding K_SPECFAIL (bs "C11:consumer-never-sees-the-abort-error") (VL []) (VL [])] else []))
      end
  | _ => VL [finding K_BAD (bs "sched") (VL []) (VL [])]
  end.
