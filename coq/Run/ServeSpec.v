(* Executable property oracles over the implementation's observation of one serve case.
   They are the search for a concrete failing input when a proof obligation or the
   correspondence breaks; they are tests, never a substitute for the theorems. *)
From Coq Require Import String.
From HS Require Import Lib.Base Lib.Bytes Lib.Dec Model.Range Model.Etag Model.Body Model.Serve
  Spec.RangeGrammar Spec.Multipart Spec.Validators Run.Val Run.ServeRun.

(* ---- decoded observation ---- *)
Inductive ores := OPending | OData (b : bytes) | OEnd | OErr (kind n : N) | OPanic | OOther.
Record sobs := {
  o_status : N; o_hdrs : list (bytes * bytes); o_hint0 : option N; o_eos0 : bool;
  o_polls : list (ores * option N * bool); o_calls : list (N * N)
}.
Definition dec_ores (v : val) : ores :=
  match v with
  | VN 0 => OPending
  | VB b => OData b
  | VN 1 => OEnd
  | VN 2 => OPanic
  | VL [VN k; VN n] => OErr k n
  | VL [VN k; _] => OErr k 0
  | _ => OOther
  end.
Definition dec_hint (v : val) : option N := match v with VN n => Some n | _ => None end.   (* exact hints only *)
Definition dec_poll (v : val) : option (ores * option N * bool) :=
  match v with
  | VL [r; h; e] => match vbool e with Some e => Some (dec_ores r, dec_hint h, e) | None => None end
  | _ => None
  end.
Definition dec_sobs (v : val) : option sobs :=
  match v with
  | VL [s; h; h0; e0; p; c] =>
      match vnum s, dec_hdrs h, vbool e0, vlist dec_poll p, vlist (vpair vnum vnum) c with
      | Some s, Some h, Some e0, Some p, Some c =>
          Some {| o_status := s; o_hdrs := h; o_hint0 := dec_hint h0; o_eos0 := e0; o_polls := p; o_calls := c |}
      | _, _, _, _, _ => None
      end
  | _ => None
  end.

Definition hdr_values (name : bytes) (h : list (bytes * bytes)) : list bytes :=
  map snd (filter (fun kv => beq_bytes (fst kv) name) h).
Definition hdr1 (name : bytes) (h : list (bytes * bytes)) : option bytes :=
  match hdr_values name h with [v] => Some v | _ => None end.
Definition has_hdr (name : bytes) (h : list (bytes * bytes)) : bool :=
  match hdr_values name h with [] => false | _ => true end.

Definition is_err (r : ores) : bool := match r with OErr _ _ => true | _ => false end.
Definition is_end (r : ores) : bool := match r with OEnd => true | _ => false end.
Definition data_of (r : ores) : bytes := match r with OData b => b | _ => [] end.

(* polls up to and including the first terminal event *)
Fixpoint until_terminal (p : list (ores * option N * bool)) : list (ores * option N * bool) * option ores :=
  match p with
  | [] => ([], None)
  | (r, h, e) :: t =>
      if is_err r || is_end r || (match r with OPanic => true | _ => false end) then ([], Some r)
      else let (l, term) := until_terminal t in ((r, h, e) :: l, term)
  end.
Definition all_data (p : list (ores * option N * bool)) : bytes := flat_map (fun x => data_of (fst (fst x))) p.

(* the entity's content function (shared with the harness) *)
Definition content (p : N) : N := ((p mod 251) + 7 * ((p / 251) mod 13) + ((p / 65536) mod 256)) mod 256.
Definition content_range := Spec.Multipart.content_range content.

Definition ev_data (e : ev) : bytes := match e with EvData b => b | _ => [] end.
Definition ev_is_err (e : ev) : bool := match e with EvErr _ => true | _ => false end.
(* a scripted stream honours the contract for range (a, e) *)
Definition honest_stream (s : list ev) (r : N * N) : bool :=
  negb (existsb ev_is_err s) && (snd r - fst r <=? 1048576) &&
  beq_bytes (flat_map ev_data s) (content_range (fst r) (snd r)).
Fixpoint honest_all (ss : list (list ev)) (calls : list (N * N)) : bool :=
  match ss, calls with
  | s :: ss', c :: cs' => honest_stream s c && honest_all ss' cs'
  | _, [] => true
  | [], _ :: _ => false
  end.

(* "The stream must return exactly range.end - range.start bytes or fail early with an Err": a scripted
   stream that is honest, or that fails while bytes are still owed and from then on only fails again,
   stays pending or ends (what ChunkedReadFile does on a truncated file) *)
Fixpoint split_at_err (s : list ev) : list ev * option (list ev) :=
  match s with
  | [] => ([], None)
  | EvErr _ :: t => ([], Some t)
  | e :: t => let (a, b) := split_at_err t in (e :: a, b)
  end.
Definition contract_stream (s : list ev) (r : N * N) : bool :=
  (snd r - fst r <=? 1048576) &&
  match split_at_err s with
  | (pre, None) => beq_bytes (flat_map ev_data pre) (content_range (fst r) (snd r))
  | (pre, Some post) =>
      let d := flat_map ev_data pre in
      (lenN d <? snd r - fst r) && starts_with d (content_range (fst r) (snd r)) &&
      negb (existsb (fun e => match e with EvData _ => true | _ => false end) post)
  end.
Fixpoint contract_all (ss : list (list ev)) (calls : list (N * N)) : bool :=
  match ss, calls with
  | s :: ss', c :: cs' => contract_stream s c && contract_all ss' cs'
  | _, [] => true
  | [], _ :: _ => false
  end.

Definition clause (prop name : string) : val := finding K_SPECFAIL (bs prop ++ [58] ++ bs name) (VL []) (VL []).
Definition check (b : bool) (prop name : string) : list val := if b then [] else [clause prop name].

Definition is_get (i : sinput) : bool := beq_bytes (r_meth (i_req i)) GET.
Definition is_head (i : sinput) : bool := beq_bytes (r_meth (i_req i)) HEAD.

Definition opt_eqb (a b : option N) : bool :=
  match a, b with Some x, Some y => x =? y | None, None => true | _, _ => false end.
Definition optb_eqb (a b : option bytes) : bool :=
  match a, b with Some x, Some y => beq_bytes x y | None, None => true | _, _ => false end.
Definition memN (x : N) (l : list N) : bool := existsb (N.eqb x) l.
Fixpoint calls_eqb (a b : list (N * N)) : bool :=
  match a, b with
  | [], [] => true
  | (x, y) :: a', (u, v) :: b' => (x =? u) && (y =? v) && calls_eqb a' b'
  | _, _ => false
  end.

Definition is_multipart (o : sobs) : bool :=
  (o_status o =? 206) && negb (has_hdr H_CONTENT_RANGE (o_hdrs o)) && has_hdr H_CONTENT_TYPE (o_hdrs o).
Definition MP_CLOSE : bytes := [13; 10] ++ bs "--B--" ++ [13; 10].
Definition ends_with (suffix s : bytes) : bool := starts_with (rev suffix) (rev s).
Fixpoint calls_total (calls : list (N * N)) : N := match calls with [] => 0 | (a, e) :: t => (e - a) + calls_total t end.

(* ---- C01: announced length equals delivered bytes ---- *)
Definition spec_c01 (i : sinput) (o : sobs) : list val :=
  let cl := hdr_values H_CONTENT_LENGTH (o_hdrs o) in
  let (pre, term) := until_terminal (o_polls o) in
  let delivered := lenN (all_data pre) in
  let total_delivered := lenN (all_data (o_polls o)) in
  check (match o_hint0 o with Some _ => true | None => false end) "C01" "hint-exact"
  ++ (if memN (o_status o) [200; 206] then
        check (match cl, o_hint0 o with
               | [v], Some h => if is_get i then beq_bytes v (dec h) else true
               | _, _ => false end) "C01" "content-length-present-and-equals-hint"
      else check (match cl with [] => true | _ => false end) "C01" "no-content-length-on-non-2xx")
  ++ (if is_get i then
        check (match o_hint0 o with Some h => total_delivered <=? h | None => true end) "C01" "never-more-than-announced"
        ++ match term with
           | Some OEnd => check (opt_eqb (o_hint0 o) (Some delivered)) "C01" "clean-end-delivers-announced"
           | Some _ =>
               (* an honest entity whose representation was delivered completely (every byte of every
                  requested range; for multipart up to and including the closing delimiter), but the
                  body does not end cleanly: the complete body's length must still be the announced one *)
               if memN (o_status o) [200; 206] && honest_all (i_streams i) (o_calls o) &&
                  (if is_multipart o then ends_with MP_CLOSE (all_data pre)
                   else match o_calls o with [_] => calls_total (o_calls o) <=? delivered | _ => false end)
               then check (opt_eqb (o_hint0 o) (Some delivered)) "C01" "complete-body-differs-from-announced-length"
               else []
           | None => []
           end
      else []).

(* ---- C02: body bytes are the entity bytes the headers denote ---- *)
Definition parse_content_range (v : bytes) : option (N * N * N) :=
  match strip_prefix (bs "bytes ") v with
  | None => None
  | Some r =>
      match split_once 45 r with
      | None => None
      | Some (a, r2) =>
          match split_once 47 r2 with
          | None => None
          | Some (b, l) =>
              match parse_pos a, parse_pos b, parse_pos l with
              | Some a, Some b, Some l => Some (a, b, l)
              | _, _, _ => None
              end
          end
      end
  end.

(* ---- reading a multipart/byteranges body back (independent of the model's renderer): the parts as
   (a, b, L, bytes) from each part's own Content-Range line ---- *)
Definition CRLF_ : bytes := [13; 10].
(* one header line: up to CRLF *)
Fixpoint take_line (fuel : nat) (s : bytes) : option (bytes * bytes) :=
  match fuel with
  | O => None
  | S f =>
      match s with
      | 13 :: 10 :: t => Some ([], t)
      | c :: t => match take_line f t with Some (l, r) => Some (c :: l, r) | None => None end
      | [] => None
      end
  end.
(* header lines up to the blank line; returns the Content-Range value if any *)
Fixpoint part_headers (fuel : nat) (s : bytes) (cr : option bytes) : option (option bytes * bytes) :=
  match fuel with
  | O => None
  | S f =>
      match take_line (length s) s with
      | None => None
      | Some ([], rest) => Some (cr, rest)
      | Some (line, rest) =>
          let cr' := match strip_prefix (bs "Content-Range: ") line with Some v => Some v | None => cr end in
          part_headers f rest cr'
      end
  end.
Fixpoint parse_parts (fuel : nat) (boundary : bytes) (s : bytes) : option (list (N * N * N * bytes)) :=
  match fuel with
  | O => None
  | S f =>
      match strip_prefix (CRLF_ ++ bs "--" ++ boundary) s with
      | None => None
      | Some r =>
          match strip_prefix (bs "--" ++ CRLF_) r with
          | Some [] => Some []
          | Some _ => None
          | None =>
              match strip_prefix CRLF_ r with
              | None => None
              | Some r1 =>
                  match part_headers (length r1) r1 None with
                  | Some (Some crv, body) =>
                      match parse_content_range crv with
                      | Some (a, b, l) =>
                          let n := N.to_nat (b + 1 - a) in
                          if (a <=? b) && (n <=? length body)%nat then
                            match parse_parts f boundary (skipn n body) with
                            | Some ps => Some ((a, b, l, firstn n body) :: ps)
                            | None => None
                            end
                          else None
                      | None => None
                      end
                  | _ => None
                  end
              end
          end
      end
  end.
Definition boundary_of (ct : bytes) : option bytes :=
  match strip_prefix (bs "multipart/byteranges; boundary=") ct with Some b => Some b | None => None end.

(* C02 for multipart bodies: every part carries exactly the entity bytes its own Content-Range line
   names, within the entity, and those are the ranges that were read, in that order *)
Definition spec_c02_multipart (i : sinput) (o : sobs) : list val :=
  let L := e_len (i_ent i) in
  let (pre, term) := until_terminal (o_polls o) in
  match term, hdr1 H_CONTENT_TYPE (o_hdrs o) with
  | Some OEnd, Some ct =>
      if honest_all (i_streams i) (o_calls o) && (lenN (all_data pre) <=? 1048576) then
        match boundary_of ct with
        | None => []
        | Some bd =>
            match parse_parts (S (length (o_calls o) + 2)) bd (all_data pre) with
            | None => [clause "C02" "multipart-body-does-not-parse-into-parts-with-content-range"]
            | Some ps =>
                check (forallb (fun p => match p with (a, b, l, d) => (b <? l) && (l =? L) && beq_bytes d (content_range a (b + 1)) end) ps)
                      "C02" "multipart-part-carries-the-bytes-its-content-range-names"
                ++ check (calls_eqb (o_calls o) (map (fun p => match p with (a, b, _, _) => (a, b + 1) end) ps))
                         "C02" "multipart-reads-exactly-the-ranges-its-parts-name"
            end
        end
      else []
  | _, _ => []
  end.

Definition spec_c02 (i : sinput) (o : sobs) : list val :=
  if negb (is_get i) then [] else
  let L := e_len (i_ent i) in
  let (pre, term) := until_terminal (o_polls o) in
  let honest := honest_all (i_streams i) (o_calls o) in
  let clean := match term with Some OEnd => true | _ => false end in
  let multipart := has_hdr H_CONTENT_TYPE (o_hdrs o) && (o_status o =? 206)
                   && negb (has_hdr H_CONTENT_RANGE (o_hdrs o)) in
  if o_status o =? 200 then
    check (calls_eqb (o_calls o) [(0, L)]) "C02" "200-reads-whole-entity-once"
    ++ check (negb (has_hdr H_CONTENT_RANGE (o_hdrs o))) "C02" "200-has-no-content-range"
    ++ (if honest && clean && (L <=? 1048576) then
          check (beq_bytes (all_data pre) (content_range 0 L)) "C02" "200-body-is-entity" else [])
  else if (o_status o =? 206) && negb multipart then
    match hdr1 H_CONTENT_RANGE (o_hdrs o) with
    | None => [clause "C02" "206-content-range-missing"]
    | Some v =>
        match parse_content_range v with
        | None => [clause "C02" "206-content-range-unparseable"]
        | Some (a, b, l) =>
            check ((a <=? b) && (b <? l) && (l =? L)) "C02" "206-content-range-bounds"
            ++ check (calls_eqb (o_calls o) [(a, b + 1)]) "C02" "206-reads-exactly-that-range"
            ++ (if honest && clean && (b + 1 - a <=? 1048576) then
                  check (beq_bytes (all_data pre) (content_range a (b + 1))) "C02" "206-body-is-range" else [])
        end
    end
  else if multipart then spec_c02_multipart i o    (* the wire format as a whole is C06's *)
  else check (match o_calls o with [] => true | _ => false end) "C02" "no-entity-bytes-on-other-statuses".

(* ---- C03: Range resolution ---- *)
(* hints: association list ( (key value) ... ) supplied by the generator *)
Fixpoint hint_get (k : N) (l : list val) : option val :=
  match l with
  | [] => None
  | VL [VN k'; v] :: t => if k =? k' then Some v else hint_get k t
  | _ :: t => hint_get k t
  end.
Definition hints_of (v : val) : list val := match v with VL l => l | _ => [] end.

Inductive range_hint := RHAst (l : list (bytes * rspec)) | RHNonGrammatical | RHUnknown.
Definition dec_rspec (v : val) : option rspec :=
  match v with
  | VL [VN 0; VB a; VB b] => Some (FromTo a b)
  | VL [VN 1; VB a] => Some (From a)
  | VL [VN 2; VB n] => Some (Suffix n)
  | _ => None
  end.
Definition dec_range_hint (v : val) : range_hint :=
  match hint_get 0 (hints_of v), hint_get 1 (hints_of v) with
  | Some ast, _ =>
      match vlist (vpair vbytes dec_rspec) ast with Some l => RHAst l | None => RHUnknown end
  | None, Some _ => RHNonGrammatical
  | None, None => RHUnknown
  end.

Definition ds_bounded (s : bytes) : bool := dval s <? U64.
Definition rspec_bounded (s : rspec) : bool :=
  match s with FromTo a b => ds_bounded a && ds_bounded b | From a => ds_bounded a | Suffix n => ds_bounded n end.

Definition only_range (r : request) : bool :=
  match r_if_range r, r_if_match r, r_inm r, r_ims r, r_ius r with
  | None, None, None, None, None => true
  | _, _, _, _, _ => false
  end.

Fixpoint sum_lens (rs : list (N * N)) : N := match rs with [] => 0 | (a, e) :: t => (e - a) + sum_lens t end.

(* What the response to a request whose Range header is in force must look like. *)
Definition range_expect (prop : string) (i : sinput) (hint : range_hint) (o : sobs) : list val :=
  let L := e_len (i_ent i) in
  let cr := hdr_values H_CONTENT_RANGE (o_hdrs o) in
  let ignored :=
    check (o_status o =? 200) prop "ignored-range-gives-200"
    ++ check (match cr with [] => true | _ => false end) prop "ignored-range-no-content-range"
    ++ (if is_get i then check (calls_eqb (o_calls o) [(0, L)]) prop "ignored-range-full-body" else []) in
  match r_range (i_req i), hint with
  | None, _ => ignored
  | Some _, RHNonGrammatical => ignored
  | Some _, RHUnknown => []
  | Some _, RHAst ast =>
      if negb (forallb (fun p => rspec_bounded (snd p)) ast) then ignored else
      match filter_map (resolve1 L) (map snd ast) with
      | [] =>
          check (o_status o =? 416) prop "nothing-satisfiable-gives-416"
          ++ check (match cr with [v] => beq_bytes v (bs "bytes */" ++ dec L) | _ => false end) prop "416-content-range"
          ++ check (match o_calls o with [] => true | _ => false end) prop "416-reads-nothing"
      | [(a, e)] =>
          check (o_status o =? 206) prop "one-range-gives-206"
          ++ check (match cr with [v] => beq_bytes v (bs "bytes " ++ dec a ++ [45] ++ dec (e - 1) ++ [47] ++ dec L) | _ => false end)
               prop "206-content-range-is-that-range"
          ++ (if is_get i then check (calls_eqb (o_calls o) [(a, e)]) prop "206-reads-that-range" else [])
      | rs =>
          let n := lenN rs in
          let multipart := (o_status o =? 206) && match cr with [] => true | _ => false end in
          check (multipart || (o_status o =? 200) || (o_status o =? 413)) prop "several-ranges-multipart-or-200"
          ++ (if (2 * (sum_lens rs + 80 * n) <? L) && (lenN (each_part_headers (e_hdrs (i_ent i))) <? 4096)
              then check multipart prop "multipart-when-under-half" else [])
          ++ (if (L <=? sum_lens rs) then check (negb multipart) prop "never-multipart-when-covering" else [])
          (* "either a multipart 206 ... or a complete 200", and never multipart here: so the complete 200
             (413 is for a multipart length that cannot be announced, which is not attempted here) *)
          ++ (if (L <=? sum_lens rs) then check (o_status o =? 200) prop "complete-200-when-the-ranges-cover-the-entity" else [])
          ++ (if multipart && is_get i then
                check (calls_eqb (o_calls o) (firstn (List.length (o_calls o)) rs)) prop "multipart-ranges-in-request-order"
                (* "a multipart 206 of exactly those ranges": a body that ended cleanly has read every one of them *)
                ++ (match snd (until_terminal (o_polls o)) with
                    | Some OEnd => check (calls_eqb (o_calls o) rs) prop "multipart-of-exactly-those-ranges"
                    | _ => []
                    end)
              else [])
          ++ (if (o_status o =? 200) then
                check (match cr with [] => true | _ => false end) prop "fallback-200-no-content-range"
                ++ (if is_get i then check (calls_eqb (o_calls o) [(0, L)]) prop "fallback-200-full-body" else [])
              else [])
      end
  end.

Definition spec_c03 (i : sinput) (hint : range_hint) (o : sobs) : list val :=
  if negb (only_range (i_req i)) || negb (is_get i || is_head i) then [] else range_expect "C03" i hint o.

(* ---- C04: conditional headers ---- *)
Definition dec_tag (v : val) : option tag :=
  match v with
  | VL [VN w; VB o] => Some {| t_weak := negb (w =? 0); t_opaque := o |}
  | _ => None
  end.
Definition dec_tag_list (v : val) : option tag_list :=
  match v with
  | VL [VN 0] => Some TStar
  | VL [VN 1; VL (t :: r)] =>
      match dec_tag t, vall (vpair vbytes dec_tag) r with
      | Some t, Some r => Some (TList t r)
      | _, _ => None
      end
  | _ => None
  end.
(* the entity's own tag as an AST (hint key 4) *)
Definition hint_tag (k : N) (i : sinput) : option (option tag) :=
  match hint_get k (hints_of (i_hints i)) with
  | Some v => match vopt dec_tag v with Some t => Some t | None => None end
  | None => None
  end.
Definition hint_tags (k : N) (i : sinput) (present : bool) : option (option tag_list) :=
  if negb present then Some None else
  match hint_get k (hints_of (i_hints i)) with
  | Some v => match dec_tag_list v with Some l => Some (Some l) | None => None end
  | None => None
  end.
Definition is_some {A} (o : option A) : bool := match o with Some _ => true | None => false end.
(* a date header is well-formed when the oracle parses it *)
Definition hint_date (i : sinput) (h : option bytes) : option (option N) :=
  match h with
  | None => Some None
  | Some v => match to_str v with
              | None => None
              | Some s => match lookup_date (i_dates i) s with Some d => Some (Some d) | None => None end
              end
  end.

Definition spec_c04 (i : sinput) (o : sobs) : list val :=
  if negb (is_get i || is_head i) then [] else
  let r := i_req i in
  match hint_tag 4 i, hint_tags 2 i (is_some (r_if_match r)), hint_tags 3 i (is_some (r_inm r)),
        hint_date i (r_ims r), hint_date i (r_ius r) with
  | Some etag, Some im, Some inm, Some ims, Some ius =>
      match decide etag (option_map (fun m => m / NS) (e_lm (i_ent i))) im inm ims ius with
      | D412 => check (o_status o =? 412) "C04" "expected-412"
      | D304 => check (o_status o =? 304) "C04" "expected-304"
      | DContinue => check (negb (memN (o_status o) [412; 304; 400])) "C04" "expected-to-continue-to-range-selection"
      end
  | _, _, _, _, _ => []       (* not a well-formed-validators case: no claim *)
  end.

(* A request whose conditional headers are NOT all well-formed (a tag list the generator did not render
   from an AST and the recogniser does not accept; a date the oracle does not parse): which of 400 / 412 /
   304 / go-on such a request gets is fixed by no property (C04 speaks of well-formed validators, C13 only
   of the status set and of panics), so differences between model and implementation on these cases are
   drift, not a broken correspondence. *)
Definition conds_malformed (i : sinput) : bool :=
  let r := i_req i in
  match hint_tags 2 i (is_some (r_if_match r)), hint_tags 3 i (is_some (r_inm r)), hint_date i (r_ims r), hint_date i (r_ius r) with
  | Some _, Some _, Some _, Some _ => false
  | _, _, _, _ => true
  end.
Definition as_malformed_drift (f : val) : val :=
  match f with
  | VL [VB k; VB field; a; b] => if beq_bytes k K_DIVERGE then VL [VB k; VB (bs "malformed-validators:" ++ field); a; b] else f
  | _ => f
  end.

(* ---- C05: If-Range ---- *)
Definition only_range_ifrange (r : request) : bool :=
  match r_if_match r, r_inm r, r_ims r, r_ius r with
  | None, None, None, None => true
  | _, _, _, _ => false
  end.
Definition spec_c05 (i : sinput) (hint : range_hint) (o : sobs) : list val :=
  if negb (is_get i || is_head i) then [] else
  match r_if_range (i_req i) with
  | None => []
  | Some ifr =>
      let matching := match e_etag (i_ent i) with
                      | Some e => beq_bytes ifr e && starts_with [34] e
                      | None => false
                      end in
      if matching then
        (if only_range_ifrange (i_req i) then range_expect "C05" i hint o else [])
      else
        check (negb (o_status o =? 206)) "C05" "never-206-without-identical-strong-validator"
        ++ check (negb (has_hdr H_CONTENT_RANGE (o_hdrs o)) || (o_status o =? 416) && false) "C05" "no-content-range-when-if-range-fails"
        ++ (if only_range_ifrange (i_req i) then
              check (o_status o =? 200) "C05" "complete-200-when-if-range-fails"
              ++ (if is_get i then check (calls_eqb (o_calls o) [(0, e_len (i_ent i))]) "C05" "complete-body-when-if-range-fails" else [])
            else [])
  end.

(* ---- C06: multipart wire format ---- *)
Definition spec_c06 (i : sinput) (hint : range_hint) (o : sobs) : list val :=
  if negb (is_multipart o) then [] else
  let L := e_len (i_ent i) in
  let ehdrs := match r_if_range (i_req i) with Some _ => [] | None => e_hdrs (i_ent i) end in
  check (match hdr_values H_CONTENT_TYPE (o_hdrs o) with
         | [v] => starts_with (bs "multipart/byteranges") v && beq_bytes v (bs "multipart/byteranges; boundary=B")
         | _ => false end) "C06" "content-type-multipart-byteranges-with-boundary"
  ++ match hint with
     | RHAst ast =>
         let rs := filter_map (resolve1 L) (map snd ast) in
         check (match hdr_values H_CONTENT_LENGTH (o_hdrs o) with
                | [v] => beq_bytes v (dec (mp_wire_len L ehdrs rs)) | _ => false end) "C06" "content-length-equals-wire-length"
         ++ (if is_get i then
               let (pre, term) := until_terminal (o_polls o) in
               let honest := honest_all (i_streams i) (o_calls o) in
               if honest && (sum_lens rs <=? 1048576) then
                 let wire := mp_wire content L ehdrs rs in
                 (* at every moment: a prefix of the wire format, reads in request order, no error *)
                 check (starts_with (all_data pre) wire) "C06" "body-is-a-prefix-of-the-multipart-wire-format"
                 ++ check (calls_eqb (o_calls o) (firstn (length (o_calls o)) rs)) "C06" "reads-follow-the-ranges-in-request-order"
                 ++ match term with
                    | Some OEnd =>
                        check (beq_bytes (all_data pre) wire) "C06" "body-is-the-multipart-wire-format"
                        ++ check (calls_eqb (o_calls o) rs) "C06" "one-read-per-range-in-request-order"
                    | Some _ => [clause "C06" "honest-entity-but-the-multipart-body-fails"]
                    | None => []
                    end
               else []
             else [])
     | _ => []
     end.

(* ---- C07: short, long or failing entity streams ---- *)
Fixpoint stream_total (s : list ev) : N := match s with [] => 0 | e :: t => lenN (ev_data e) + stream_total t end.
Fixpoint streams_complete (ss : list (list ev)) (calls : list (N * N)) : bool :=
  match ss, calls with
  | s :: ss', (a, e) :: cs' => negb (existsb ev_is_err s) && (stream_total s =? e - a) && streams_complete ss' cs'
  | _, [] => true
  | [], _ :: _ => false
  end.
(* no non-empty data once the announced number of bytes has been delivered *)
Fixpoint no_data_beyond (announced : N) (p : list (ores * option N * bool)) : bool :=
  match p with
  | [] => true
  | (r, _, _) :: t =>
      let n := lenN (data_of r) in
      if announced <? n then false else no_data_beyond (announced - n) t
  end.
Definition spec_c07 (i : sinput) (o : sobs) : list val :=
  if negb (is_get i) || negb (memN (o_status o) [200; 206]) then [] else
  let (pre, term) := until_terminal (o_polls o) in
  (match term with
   | Some OEnd => check (streams_complete (i_streams i) (o_calls o)) "C07" "clean-end-only-when-every-stream-was-complete"
   | _ => []
   end)
  ++ (* "error skips the trailer": a multipart body never reaches its closing delimiter once a part's
        stream was short, long or failed -- whatever happens afterwards (error, end, or a panic) *)
     (if is_multipart o && negb (streams_complete (i_streams i) (o_calls o)) then
        check (negb (ends_with MP_CLOSE (all_data (o_polls o))))
          "C07" "closing-delimiter-only-after-every-part-was-complete"
      else [])
  ++ match o_hint0 o with
     | Some h => check (no_data_beyond h (o_polls o)) "C07" "nothing-beyond-announced-length"
     | None => []
     end.

(* ---- C12: size hints and end-of-stream flag ---- *)
Fixpoint hints_truthful (p : list (ores * option N * bool)) : bool * N :=
  (* returns (ok, bytes delivered from here to the end) *)
  match p with
  | [] => (true, 0)
  | (r, h, e) :: t =>
      let (ok, rest) := hints_truthful t in
      (* the hint sampled after this poll must equal what is still to come *)
      (ok && opt_eqb h (Some rest), lenN (data_of r) + rest)
  end.
Fixpoint eos_truthful (p : list (ores * option N * bool)) (eos_before : bool) : bool :=
  match p with
  | [] => true
  | (r, _, e) :: t =>
      (if eos_before then negb (is_err r) && (lenN (data_of r) =? 0) else true) && eos_truthful t (eos_before || e)
  end.
Definition spec_c12 (i : sinput) (o : sobs) : list val :=
  let (pre, term) := until_terminal (o_polls o) in
  check (is_some (o_hint0 o)) "C12" "serve-bodies-give-exact-hints"
  ++ (match term with
      | Some OEnd =>
          if streams_complete (i_streams i) (o_calls o) then
            let (ok, total) := hints_truthful pre in
            check ok "C12" "hint-equals-bytes-still-to-come-at-every-step"
            ++ check (opt_eqb (o_hint0 o) (Some total)) "C12" "initial-hint-equals-body-length"
          else []
      | _ => []
      end)
  ++ (if contract_all (i_streams i) (o_calls o) then
        check (eos_truthful (o_polls o) (o_eos0 o)) "C12" "end-of-stream-flag-means-nothing-more-comes"
      else []).

(* ---- C13: totality ---- *)
Definition has_panic (p : list (ores * option N * bool)) : bool :=
  existsb (fun x => match fst (fst x) with OPanic => true | _ => false end) p.
Definition lower (b : N) : N := if (65 <=? b) && (b <=? 90) then b + 32 else b.
Fixpoint contains (needle hay : bytes) : bool :=
  match hay with
  | [] => match needle with [] => true | _ => false end
  | _ :: t => starts_with needle hay || contains needle t
  end.
Definition spec_c13 (i : sinput) (o : sobs) : list val :=
  check (negb (has_panic (o_polls o))) "C13" "draining-never-panics"
  ++ check (memN (o_status o) [200; 206; 304; 400; 405; 412; 413; 416]) "C13" "status-in-allowed-set"
  ++ (if is_get i || is_head i then [] else
        check (o_status o =? 405) "C13" "other-methods-get-405"
        ++ check (match hdr_values H_ALLOW (o_hdrs o) with
                  | [v] => let lv := map lower v in contains (bs "get") lv && contains (bs "head") lv
                  | _ => false end) "C13" "allow-names-get-and-head"
        ++ check (match o_calls o with [] => true | _ => false end) "C13" "405-reads-no-entity-data"
        ++ check (negb (has_hdr H_ETAG (o_hdrs o)) && negb (has_hdr H_LAST_MODIFIED (o_hdrs o))
                  && forallb (fun kv => negb (has_hdr (fst kv) (o_hdrs o))) (e_hdrs (i_ent i))) "C13" "405-carries-no-entity-metadata").

(* ---- C14: validators and metadata ---- *)
Definition at_secs (v : bytes) : option N := match v with 64 :: d => parse_pos d | _ => None end.
Definition spec_c14 (i : sinput) (o : sobs) : list val :=
  let ent := i_ent i in
  (if memN (o_status o) [200; 206; 304; 412; 416] then
     check (match hdr_values H_ACCEPT_RANGES (o_hdrs o) with [v] => beq_bytes v (bs "bytes") | _ => false end) "C14" "accept-ranges-bytes"
     ++ check (match e_etag ent, hdr_values H_ETAG (o_hdrs o) with
               | Some e, [v] => beq_bytes e v | None, [] => true | _, _ => false end) "C14" "etag-verbatim"
     ++ match e_lm ent with
        | None => []
        | Some m =>
            match option_map at_secs (hdr1 H_DATE (o_hdrs o)), option_map at_secs (hdr1 H_LAST_MODIFIED (o_hdrs o)) with
            | Some (Some d), Some (Some l) =>
                check (l <=? d) "C14" "last-modified-not-after-date"
                ++ check (if m / NS <=? d then l =? m / NS else l =? d) "C14" "last-modified-is-mtime-truncated-unless-future"
            | _, _ => [clause "C14" "date-and-last-modified-present-and-well-formed"]
            end
        end
   else [])
  ++ (let carries_all := forallb (fun kv => existsb (beq_bytes (snd kv)) (hdr_values (fst kv) (o_hdrs o))) (e_hdrs ent) in
      let carries_none := forallb (fun kv => negb (has_hdr (fst kv) (o_hdrs o))) (e_hdrs ent) in
      if (o_status o =? 200) || ((o_status o =? 206) && has_hdr H_CONTENT_RANGE (o_hdrs o) && negb (is_some (r_if_range (i_req i))))
      then check carries_all "C14" "200-and-206-without-if-range-carry-entity-headers"
      else if memN (o_status o) [304; 412; 416] then check carries_none "C14" "304-412-416-carry-no-entity-headers"
      else [])
  ++ (* echo histories: hint key 5 = expected outcome of a request that echoes served validators:
        0 -> must be 304; 1 -> must not be 412; 2 -> must be 206 *)
     match hint_get 5 (hints_of (i_hints i)) with
     | Some (VN 0) => check (o_status o =? 304) "C14" "echoed-validator-yields-304"
     | Some (VN 1) => check (negb (o_status o =? 412)) "C14" "echoed-validator-does-not-yield-412"
     | Some (VN 2) => check (o_status o =? 206) "C14" "echoed-strong-etag-in-if-range-yields-206"
     | _ => []
     end.

(* ---- C15: HEAD ---- *)
Definition spec_c15 (i : sinput) (o : sobs) : list val :=
  if negb (is_head i) then [] else
  check (match o_calls o with [] => true | _ => false end) "C15" "head-reads-no-entity-bytes"
  ++ (if memN (o_status o) [200; 206; 304; 416] then
        check (lenN (all_data (o_polls o)) =? 0) "C15" "head-body-empty" else []).

(* ---- C20: terminated bodies stay terminated (scripts are fused by construction) ---- *)
Fixpoint after_terminal_ok (p : list (ores * option N * bool)) (terminated : bool) : bool :=
  match p with
  | [] => true
  | (r, _, _) :: t =>
      (* never further data, never a panic; a stream that is not itself finished (the body's own
         too-long error) may still be Pending or hand over an empty chunk *)
      (if terminated then (is_end r || is_err r || match r with OPending => true | OData [] => true | _ => false end) else true)
      && after_terminal_ok t (terminated || is_end r || is_err r)
  end.
Definition spec_c20 (i : sinput) (o : sobs) : list val :=
  if forallb fused_stream (i_streams i) then
    check (after_terminal_ok (o_polls o) false) "C20" "no-data-after-end-or-error"
    ++ check (negb (has_panic (o_polls o))) "C20" "extra-polls-never-panic"
  else [].

Definition spec_serve_all (i : sinput) (o : sobs) : list val :=
  let hint := dec_range_hint (i_hints i) in
  spec_c01 i o ++ spec_c02 i o ++ spec_c03 i hint o ++ spec_c04 i o ++ spec_c05 i hint o ++ spec_c06 i hint o
  ++ spec_c07 i o ++ spec_c12 i o ++ spec_c13 i o ++ spec_c14 i o ++ spec_c15 i o ++ spec_c20 i o.

(* coverage tag of the model's own decision, for branch-coverage accounting *)
Definition tag_serve (i : sinput) : bytes :=
  match serve_model fmt_date_eval (lookup_date (i_dates i)) (i_now i) (i_ent i) (i_req i) with
  | Panic _ => bs "panic"
  | Ok r =>
      dec (status r) ++ [58] ++
      match rplan r with
      | PlOnce None => bs "empty"
      | PlOnce (Some _) => bs "text"
      | PlExact _ _ => if has_hdr H_CONTENT_RANGE (hdrs r) then bs "single" else bs "full"
      | PlMulti _ _ _ => bs "multipart"
      end
      ++ (if (status r =? 200) && match range_parse (r_range (i_req i)) (e_len (i_ent i)) with RSat (_ :: _ :: _) => true | _ => false end
          then bs ":fallback" else [])
  end.
