(* Executable property oracles over the implementation's observation of one serve case.
   They are the search for a concrete failing input when a proof obligation or the
   correspondence breaks; they are tests, never a substitute for the theorems. *)
From Coq Require Import String.
From HS Require Import Lib.Base Lib.Bytes Lib.Dec Model.Range Model.Etag Model.Body Model.Serve
  Spec.RangeGrammar Run.Val Run.ServeRun.

(* ---- decoded observation ---- *)
Inductive ores := OPending | OData (b : bytes) | OEnd | OErr (kind n : N) | OPanic | OOther.
Record sobs := {
  o_status : N; o_hdrs : list (bytes * bytes); o_hint0 : option N; o_eos0 : bool;
  o_polls : list (ores * option N * bool); o_calls : list (N * N)
}.
Definition dec_ores (v : val) : ores :=
  match v with
  | VN 0 => OPending
  | VB b => OData b
  | VN 1 => OEnd
  | VN 2 => OPanic
  | VL [VN k; VN n] => OErr k n
  | VL [VN k; _] => OErr k 0
  | _ => OOther
  end.
Definition dec_hint (v : val) : option N := match v with VN n => Some n | _ => None end.   (* exact hints only *)
Definition dec_poll (v : val) : option (ores * option N * bool) :=
  match v with
  | VL [r; h; e] => match vbool e with Some e => Some (dec_ores r, dec_hint h, e) | None => None end
  | _ => None
  end.
Definition dec_sobs (v : val) : option sobs :=
  match v with
  | VL [s; h; h0; e0; p; c] =>
      match vnum s, dec_hdrs h, vbool e0, vlist dec_poll p, vlist (vpair vnum vnum) c with
      | Some s, Some h, Some e0, Some p, Some c =>
          Some {| o_status := s; o_hdrs := h; o_hint0 := dec_hint h0; o_eos0 := e0; o_polls := p; o_calls := c |}
      | _, _, _, _, _ => None
      end
  | _ => None
  end.

Definition hdr_values (name : bytes) (h : list (bytes * bytes)) : list bytes :=
  map snd (filter (fun kv => beq_bytes (fst kv) name) h).
Definition hdr1 (name : bytes) (h : list (bytes * bytes)) : option bytes :=
  match hdr_values name h with [v] => Some v | _ => None end.
Definition has_hdr (name : bytes) (h : list (bytes * bytes)) : bool :=
  match hdr_values name h with [] => false | _ => true end.

Definition is_err (r : ores) : bool := match r with OErr _ _ => true | _ => false end.
Definition is_end (r : ores) : bool := match r with OEnd => true | _ => false end.
Definition data_of (r : ores) : bytes := match r with OData b => b | _ => [] end.

(* polls up to and including the first terminal event *)
Fixpoint until_terminal (p : list (ores * option N * bool)) : list (ores * option N * bool) * option ores :=
  match p with
  | [] => ([], None)
  | (r, h, e) :: t =>
      if is_err r || is_end r || (match r with OPanic => true | _ => false end) then ([], Some r)
      else let (l, term) := until_terminal t in ((r, h, e) :: l, term)
  end.
Definition all_data (p : list (ores * option N * bool)) : bytes := flat_map (fun x => data_of (fst (fst x))) p.

(* the entity's content function (shared with the harness) *)
Definition content (p : N) : N := ((p mod 251) + 7 * ((p / 251) mod 13) + ((p / 65536) mod 256)) mod 256.
Fixpoint content_from (a : N) (n : nat) : bytes :=
  match n with O => [] | S k => content a :: content_from (a + 1) k end.
Definition content_range (a e : N) : bytes := content_from a (N.to_nat (e - a)).

Definition ev_data (e : ev) : bytes := match e with EvData b => b | _ => [] end.
Definition ev_is_err (e : ev) : bool := match e with EvErr _ => true | _ => false end.
(* a scripted stream honours the contract for range (a, e) *)
Definition honest_stream (s : list ev) (r : N * N) : bool :=
  negb (existsb ev_is_err s) && (snd r - fst r <=? 1048576) &&
  beq_bytes (flat_map ev_data s) (content_range (fst r) (snd r)).
Fixpoint honest_all (ss : list (list ev)) (calls : list (N * N)) : bool :=
  match ss, calls with
  | s :: ss', c :: cs' => honest_stream s c && honest_all ss' cs'
  | _, [] => true
  | [], _ :: _ => false
  end.

Definition clause (prop name : string) : val := finding K_SPECFAIL (bs prop ++ [58] ++ bs name) (VL []) (VL []).
Definition check (b : bool) (prop name : string) : list val := if b then [] else [clause prop name].

Definition is_get (i : sinput) : bool := beq_bytes (r_meth (i_req i)) GET.
Definition is_head (i : sinput) : bool := beq_bytes (r_meth (i_req i)) HEAD.

Definition opt_eqb (a b : option N) : bool :=
  match a, b with Some x, Some y => x =? y | None, None => true | _, _ => false end.
Definition optb_eqb (a b : option bytes) : bool :=
  match a, b with Some x, Some y => beq_bytes x y | None, None => true | _, _ => false end.
Definition memN (x : N) (l : list N) : bool := existsb (N.eqb x) l.
Fixpoint calls_eqb (a b : list (N * N)) : bool :=
  match a, b with
  | [], [] => true
  | (x, y) :: a', (u, v) :: b' => (x =? u) && (y =? v) && calls_eqb a' b'
  | _, _ => false
  end.

(* ---- C01: announced length equals delivered bytes ---- *)
Definition spec_c01 (i : sinput) (o : sobs) : list val :=
  let cl := hdr_values H_CONTENT_LENGTH (o_hdrs o) in
  let (pre, term) := until_terminal (o_polls o) in
  let delivered := lenN (all_data pre) in
  let total_delivered := lenN (all_data (o_polls o)) in
  check (match o_hint0 o with Some _ => true | None => false end) "C01" "hint-exact"
  ++ (if memN (o_status o) [200; 206] then
        check (match cl, o_hint0 o with
               | [v], Some h => if is_get i then beq_bytes v (dec h) else true
               | _, _ => false end) "C01" "content-length-present-and-equals-hint"
      else check (match cl with [] => true | _ => false end) "C01" "no-content-length-on-non-2xx")
  ++ (if is_get i then
        check (match o_hint0 o with Some h => total_delivered <=? h | None => true end) "C01" "never-more-than-announced"
        ++ match term with
           | Some OEnd => check (opt_eqb (o_hint0 o) (Some delivered)) "C01" "clean-end-delivers-announced"
           | _ => []
           end
      else []).

(* ---- C02: body bytes are the entity bytes the headers denote ---- *)
Definition parse_content_range (v : bytes) : option (N * N * N) :=
  match strip_prefix (bs "bytes ") v with
  | None => None
  | Some r =>
      match split_once 45 r with
      | None => None
      | Some (a, r2) =>
          match split_once 47 r2 with
          | None => None
          | Some (b, l) =>
              match parse_pos a, parse_pos b, parse_pos l with
              | Some a, Some b, Some l => Some (a, b, l)
              | _, _, _ => None
              end
          end
      end
  end.

Definition spec_c02 (i : sinput) (o : sobs) : list val :=
  if negb (is_get i) then [] else
  let L := e_len (i_ent i) in
  let (pre, term) := until_terminal (o_polls o) in
  let honest := honest_all (i_streams i) (o_calls o) in
  let clean := match term with Some OEnd => true | _ => false end in
  let multipart := has_hdr H_CONTENT_TYPE (o_hdrs o) && (o_status o =? 206)
                   && negb (has_hdr H_CONTENT_RANGE (o_hdrs o)) in
  if o_status o =? 200 then
    check (calls_eqb (o_calls o) [(0, L)]) "C02" "200-reads-whole-entity-once"
    ++ check (negb (has_hdr H_CONTENT_RANGE (o_hdrs o))) "C02" "200-has-no-content-range"
    ++ (if honest && clean && (L <=? 1048576) then
          check (beq_bytes (all_data pre) (content_range 0 L)) "C02" "200-body-is-entity" else [])
  else if (o_status o =? 206) && negb multipart then
    match hdr1 H_CONTENT_RANGE (o_hdrs o) with
    | None => [clause "C02" "206-content-range-missing"]
    | Some v =>
        match parse_content_range v with
        | None => [clause "C02" "206-content-range-unparseable"]
        | Some (a, b, l) =>
            check ((a <=? b) && (b <? l) && (l =? L)) "C02" "206-content-range-bounds"
            ++ check (calls_eqb (o_calls o) [(a, b + 1)]) "C02" "206-reads-exactly-that-range"
            ++ (if honest && clean && (b + 1 - a <=? 1048576) then
                  check (beq_bytes (all_data pre) (content_range a (b + 1))) "C02" "206-body-is-range" else [])
        end
    end
  else if multipart then []    (* C06 covers multipart bodies *)
  else check (match o_calls o with [] => true | _ => false end) "C02" "no-entity-bytes-on-other-statuses".

(* ---- C03: Range resolution ---- *)
Inductive range_hint := RHAst (l : list (bytes * rspec)) | RHNonGrammatical | RHUnknown.
Definition dec_rspec (v : val) : option rspec :=
  match v with
  | VL [VN 0; VB a; VB b] => Some (FromTo a b)
  | VL [VN 1; VB a] => Some (From a)
  | VL [VN 2; VB n] => Some (Suffix n)
  | _ => None
  end.
Definition dec_range_hint (v : val) : range_hint :=
  match v with
  | VL [VL [VN 0; ast]] =>
      match vlist (vpair vbytes dec_rspec) ast with Some l => RHAst l | None => RHUnknown end
  | VL [VL [VN 1]] => RHNonGrammatical
  | _ => RHUnknown
  end.

Definition ds_bounded (s : bytes) : bool := dval s <? U64.
Definition rspec_bounded (s : rspec) : bool :=
  match s with FromTo a b => ds_bounded a && ds_bounded b | From a => ds_bounded a | Suffix n => ds_bounded n end.

Definition only_range (r : request) : bool :=
  match r_if_range r, r_if_match r, r_inm r, r_ims r, r_ius r with
  | None, None, None, None, None => true
  | _, _, _, _, _ => false
  end.

Fixpoint sum_lens (rs : list (N * N)) : N := match rs with [] => 0 | (a, e) :: t => (e - a) + sum_lens t end.

Definition spec_c03 (i : sinput) (hint : range_hint) (o : sobs) : list val :=
  if negb (only_range (i_req i)) || negb (is_get i || is_head i) then [] else
  let L := e_len (i_ent i) in
  let cr := hdr_values H_CONTENT_RANGE (o_hdrs o) in
  let ignored :=
    check (o_status o =? 200) "C03" "ignored-range-gives-200"
    ++ check (match cr with [] => true | _ => false end) "C03" "ignored-range-no-content-range"
    ++ (if is_get i then check (calls_eqb (o_calls o) [(0, L)]) "C03" "ignored-range-full-body" else []) in
  match r_range (i_req i), hint with
  | None, _ => ignored
  | Some _, RHNonGrammatical => ignored
  | Some _, RHUnknown => []
  | Some _, RHAst ast =>
      if negb (forallb (fun p => rspec_bounded (snd p)) ast) then ignored else
      match filter_map (resolve1 L) (map snd ast) with
      | [] =>
          check (o_status o =? 416) "C03" "nothing-satisfiable-gives-416"
          ++ check (match cr with [v] => beq_bytes v (bs "bytes */" ++ dec L) | _ => false end) "C03" "416-content-range"
          ++ check (match o_calls o with [] => true | _ => false end) "C03" "416-reads-nothing"
      | [(a, e)] =>
          check (o_status o =? 206) "C03" "one-range-gives-206"
          ++ check (match cr with [v] => beq_bytes v (bs "bytes " ++ dec a ++ [45] ++ dec (e - 1) ++ [47] ++ dec L) | _ => false end)
               "C03" "206-content-range-is-that-range"
          ++ (if is_get i then check (calls_eqb (o_calls o) [(a, e)]) "C03" "206-reads-that-range" else [])
      | rs =>
          let n := lenN rs in
          let multipart := (o_status o =? 206) && match cr with [] => true | _ => false end in
          check (multipart || (o_status o =? 200) || (o_status o =? 413)) "C03" "several-ranges-multipart-or-200"
          ++ (if (2 * (sum_lens rs + 80 * n) <? L) then check multipart "C03" "multipart-when-under-half" else [])
          ++ (if (L <=? sum_lens rs) then check (negb multipart) "C03" "never-multipart-when-covering" else [])
          ++ (if multipart && is_get i then
                (* the body asks for exactly those ranges in request order (as far as it was polled) *)
                check (calls_eqb (o_calls o) (firstn (List.length (o_calls o)) rs)) "C03" "multipart-ranges-in-request-order"
              else [])
          ++ (if (o_status o =? 200) then
                check (match cr with [] => true | _ => false end) "C03" "fallback-200-no-content-range" else [])
      end
  end.

(* coverage tag of the model's own decision, for branch-coverage accounting *)
Definition tag_serve (i : sinput) : bytes :=
  match serve_model fmt_date_eval (lookup_date (i_dates i)) (i_now i) (i_ent i) (i_req i) with
  | Panic _ => bs "panic"
  | Ok r =>
      dec (status r) ++ [58] ++
      match rplan r with
      | PlOnce None => bs "empty"
      | PlOnce (Some _) => bs "text"
      | PlExact _ _ => if has_hdr H_CONTENT_RANGE (hdrs r) then bs "single" else bs "full"
      | PlMulti _ _ _ => bs "multipart"
      end
      ++ (if (status r =? 200) && match range_parse (r_range (i_req i)) (e_len (i_ent i)) with RSat (_ :: _ :: _) => true | _ => false end
          then bs ":fallback" else [])
  end.
