(* Evaluation of dir-engine cases (FsDir::get). *)
From Coq Require Import String.
From HS Require Import Lib.Base Lib.Bytes Model.Negot Model.Dir Run.Val.

Definition dec_open_res (v : val) : option open_res :=
  match v with
  | VL [VN 0] => Some ONotFound
  | VL [VN 1; VN k] => Some (OError k)
  | VL [VN 2; VN ino; VN d] => Some (OOpened ino (negb (d =? 0)))
  | _ => None
  end.
Fixpoint lookup_open (t : list (bytes * open_res)) (name : bytes) : open_res :=
  match t with [] => OError 99 | (k, v) :: r => if beq_bytes k name then v else lookup_open r name end.

Definition of_path_err (e : path_err) : N := match e with ENul => 0 | EAbsolute => 1 | EDotDot => 2 end.
Definition of_get_res (r : get_res) : val :=
  match r with
  | GInvalid e => VL [VN 0; VN (of_path_err e)]
  | GNotFound => VL [VN 1]
  | GError k => VL [VN 2; VN k]
  | GNode ino gz ag =>
      VL [VN 3; VN ino; of_bool gz; of_opt VB (node_encoding gz);
          of_list (of_pair VB VB) (node_headers gz ag)]
  end.

Definition dclause (name : string) : val := finding K_SPECFAIL (bs "C19:" ++ bs name) (VL []) (VL []).
Definition F_D_RES := bs "result".

(* independent reading of the property: which name must have been opened *)
Definition has_dotdot_segment (p : bytes) : bool := existsb (fun s => beq_bytes s [46; 46]) (split_on 47 p).
Definition must_reject (p : bytes) : bool :=
  existsb (N.eqb 0) p || match p with 47 :: _ => true | _ => false end || has_dotdot_segment p.

Definition run_dir (v : val) : val :=
  match v with
  | VL [VL [VN auto; VB path; ae; table]; obs] =>
      match vopt vbytes ae, vlist (vpair vbytes dec_open_res) table with
      | Some ae, Some table =>
          let auto := negb (auto =? 0) in
          let model := match fsdir_get (lookup_open table) auto path ae with
                       | Ok (r, _) => of_get_res r
                       | Panic _ => VL [VN 9]
                       end in
          let tag := match model with
                     | VL (VN 0 :: _) => bs "rejected"
                     | VL (VN 1 :: _) => bs "notfound"
                     | VL (VN 2 :: _) => bs "error"
                     | VL [VN 3; _; VN 1; _; _] => bs "node:gz"
                     | VL (VN 3 :: _) => bs "node:plain"
                     | _ => bs "panic"
                     end in
          let sg := match should_gzip ae with Ok b => b | Panic _ => false end in
          let oracle :=
            if must_reject path then
              match obs with VL [VN 0; _] => [] | _ => [dclause "hostile-path-must-be-rejected"] end
            else
              let sibling_due := auto && sg && match lookup_open table (path ++ DOT_GZ) with OOpened _ false => true | _ => false end in
              match obs with
              | VL [VN 0; _] => [dclause "harmless-path-rejected"]
              | VL [VN 3; VN ino; VN gz; enc; hdrs] =>
                  (* the node is exactly the file the property names *)
                  let expect_gz := auto && sg && match lookup_open table (path ++ DOT_GZ) with OOpened _ false => true | _ => false end in
                  let expect_ino := if expect_gz then lookup_open table (path ++ DOT_GZ) else lookup_open table path in
                  (match expect_ino with
                   | OOpened i _ => if i =? ino then [] else [dclause "opened-a-different-file"]
                   | _ => [dclause "opened-a-file-that-does-not-open"]
                   end)
                  ++ (if Bool.eqb (negb (gz =? 0)) expect_gz then [] else [dclause "gz-substitution-exactly-when-specified"])
                  ++ (if val_eqb enc (of_opt VB (node_encoding expect_gz)) then [] else [dclause "encoding-reports-gzip-exactly-then"])
                  ++ (if val_eqb hdrs (of_list (of_pair VB VB) (node_headers expect_gz auto)) then [] else [dclause "encoding-headers"])
              | VL [VN 1] =>
                  (match lookup_open table path with ONotFound => [] | _ => [dclause "not-found-but-the-file-opens"] end)
                  (* the sibling that had to be substituted is there (and the plain file is not) *)
                  ++ (if sibling_due then [dclause "gz-substitution-exactly-when-specified"] else [])
              | VL [VN 2; _] =>
                  (* "or fails the way opening that file fails": an error although the file opens is
                     tolerated only when the sibling that would have been substituted is there but fails to
                     open -- not when it cannot exist (its name is too long: kind 5) or is simply absent *)
                  let sibling_fails := auto && sg && match lookup_open table (path ++ DOT_GZ) with
                                                      | OError k => negb (k =? 5) | _ => false end in
                  (match lookup_open table path with
                   | OOpened _ _ => if sibling_fails then [] else [dclause "fails-although-the-file-opens"]
                   | _ => []
                   end)
                  ++ (if sibling_due then [dclause "gz-substitution-exactly-when-specified"] else [])
              | _ => [dclause "panic-or-malformed"]
              end in
          (* which of its defects a rejected path is blamed for is not constrained ("returns an error"):
             compared under its own field name *)
          let norm := fun v => match v with VL [VN 0; _] => VL [VN 0] | _ => v end in
          VL (finding K_TAG tag (VL []) (VL []) :: cmp_field F_D_RES (norm model) (norm obs)
              ++ (match model, obs with
                  | VL [VN 0; a], VL [VN 0; b] => cmp_field (F_D_RES ++ bs ".reason") a b
                  | _, _ => []
                  end) ++ oracle)
      | _, _ => VL [finding K_BAD (bs "dir") (VL []) (VL [])]
      end
  | _ => VL [finding K_BAD (bs "dir") (VL []) (VL [])]
  end.
