(* Evaluation of once-engine cases: bodies built with Body::empty() and the four Body::from
   conversions (src/body.rs), polled by hand with size_hint / is_end_stream sampled at every step. *)
From Coq Require Import String.
From HS Require Import Lib.Base Lib.Bytes Lib.Dec Model.Body Run.Val Run.ServeRun Run.ServeSpec.

(* input: ( kind bytes ), kind 0 = Body::empty(), 1 = From<&'static [u8]>, 2 = From<&'static str>,
   3 = From<Vec<u8>>, 4 = From<String>; observation: ( hint0 eos0 ( (res hint eos) ... ) ) *)
Definition once_body (kind : N) (d : bytes) : body := BOnce (if kind =? 0 then None else Some d).

Definition of_pollres (r : pollres) : val :=
  match r with PPending => VN 0 | PData d => VB d | PEnd => VN 1 | PErr e => of_perr e end.

Fixpoint once_polls (n : nat) (b : body) : list val :=
  match n with
  | O => []
  | S k =>
      match body_poll [] b with
      | Ok (b', r) => VL [of_pollres r; VN (body_hint b'); of_bool (body_eos b')] :: once_polls k b'
      | Panic t => [VL [VN 2; VN t; VN 0]]
      end
  end.

Definition F_ONCE_HINT0 := bs "once.hint0"%string.
Definition F_ONCE_BYTES := bs "once.bytes"%string.
Definition F_ONCE_EOS0 := bs "once.flag"%string.      (* drift only *)
Definition F_ONCE_POLLS := bs "once.framing"%string.   (* drift only *)
Definition cmp_drift := cmp_field.

Fixpoint data_total (p : list (ores * option N * bool)) : bytes :=
  match p with [] => [] | (r, _, _) :: t => data_of r ++ data_total t end.

(* every step: the hint is exact and equals the bytes still to come; once the flag is set nothing
   more comes; after the first terminal event no data and no panic *)
Fixpoint once_steps_ok (p : list (ores * option N * bool)) : bool :=
  match p with
  | [] => true
  | (r, h, e) :: t =>
      (match h with Some n => n =? lenN (data_total t) | None => false end)
      && (if e then forallb (fun x => match fst (fst x) with OEnd => true | OData [] => true | _ => false end) t else true)
      && once_steps_ok t
  end.

Definition run_once (v : val) : val :=
  match v with
  | VL [VL [VN kind; VB d]; VL [h0; e0; VL polls]] =>
      let b := once_body kind d in
      let tag := finding K_TAG (bs "once:" ++ dec kind) (VL []) (VL []) in
      match vlist dec_poll (VL polls), vbool e0 with
      | Some p, Some e0b =>
          let want := if kind =? 0 then [] else d in
          VL (tag
              (* compared with the model: what the property fixes -- the exact initial hint and the bytes
                 delivered; the flag and the framing are constrained by the clauses below only (a flag that
                 stays false although nothing more comes, or an empty frame, would not violate C12) *)
              :: cmp_field F_ONCE_HINT0 (VN (body_hint b)) h0
              ++ cmp_field F_ONCE_BYTES (VB (flat_map (fun v => match v with VL (VB x :: _) => x | _ => [] end) (once_polls (List.length polls) b)))
                                        (VB (data_total p))
              ++ cmp_drift F_ONCE_EOS0 (of_bool (body_eos b)) e0
              ++ cmp_drift F_ONCE_POLLS (VL (once_polls (List.length polls) b)) (VL polls)
              (* C12: exact hint = length, at every step; the flag is truthful *)
              ++ check (match dec_hint h0 with Some n => n =? lenN want | None => false end) "C12" "body-from-gives-exact-hint-equal-to-its-length"
              ++ check (once_steps_ok p) "C12" "body-from-hint-and-flag-truthful-at-every-step"
              ++ check (if e0b then (lenN (data_total p) =? 0) else true) "C12" "body-from-end-of-stream-flag-then-more"
              ++ check (beq_bytes (data_total p) want) "C12" "body-from-delivers-its-bytes"
              (* C20: after the first terminal event: no data, no panic *)
              ++ check (after_terminal_ok p false) "C20" "no-data-after-end-or-error"
              ++ check (negb (has_panic p)) "C20" "extra-polls-never-panic")
      | _, _ => VL [finding K_BAD (bs "once") (VL []) (VL [])]
      end
  | VL [VL [VN kind; VB d]; VL [VB _]] =>        (* the conversion itself panicked *)
      VL [finding K_TAG (bs "once:panic") (VL []) (VL []); clause "C20" "extra-polls-never-panic"; clause "C12" "body-from-gives-exact-hint-equal-to-its-length"]
  | _ => VL [finding K_BAD (bs "once") (VL []) (VL [])]
  end.
