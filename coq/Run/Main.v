(* Entry point of the extracted evaluator. *)
From Coq Require Import String.
From HS Require Import Lib.Base Run.Val Run.ServeRun.

Definition E_SERVE := bs "serve"%string.

Definition run_case (engine : bytes) (v : val) : val :=
  if beq_bytes engine E_SERVE then
    match v with
    | VL [inp; obs] =>
        match dec_sinput inp with
        | None => VL [finding K_BAD engine (VL []) (VL [])]
        | Some i => VL (cmp_obs (model_obs i) obs)
        end
    | _ => VL [finding K_BAD engine (VL []) (VL [])]
    end
  else VL [finding K_BAD engine (VL []) (VL [])].
