(* Entry point of the extracted evaluator. *)
From Coq Require Import String.
From HS Require Import Lib.Base Model.Serve Run.Val Run.ServeRun Run.ServeSpec Run.NegotRun Run.StreamRun Run.DirRun Run.FileRun Run.SchedRun Run.OnceRun.

Definition E_SERVE := bs "serve"%string.
Definition E_NEGOT := bs "negot"%string.
Definition E_STREAM := bs "stream"%string.
Definition E_DIR := bs "dir"%string.
Definition E_FILE := bs "file"%string.
Definition E_SCHED := bs "sched"%string.
Definition E_ONCE := bs "once"%string.

Definition run_case (engine : bytes) (v : val) : val :=
  if beq_bytes engine E_SERVE then
    match v with
    | VL [inp; obs] =>
        match dec_sinput inp with
        | None => VL [finding K_BAD engine (VL []) (VL [])]
        | Some i =>
            VL (finding K_TAG (tag_serve i) (VL []) (VL [])
                :: (let fs := (let mx := model_ext i obs in cmp_obs (forallb fused_stream (i_streams i)) (model_obs i obs) obs (fst mx) (snd mx)) ++ cmp_text i obs in
                    if conds_malformed i then map as_malformed_drift fs else fs)
                ++ match dec_sobs obs with
                   | None =>          (* serve itself panicked (or the observation is malformed) *)
                       match obs with
                       | VL [VB _] =>
                           clause "C13" "serve-panicked"
                           :: (* C03: "no Range value, however large its numbers, makes serve fail" *)
                              (if is_some (r_range (i_req i)) && only_range (i_req i) && (is_get i || is_head i)
                               then [clause "C03" "range-value-makes-serve-fail"] else [])
                           ++ (* C04: "it answers 412 exactly when ..., 304 exactly when ... and otherwise continues":
                                 a request whose only headers are conditional ones gets no answer at all *)
                              (if (is_get i || is_head i) && negb (only_range_ifrange (i_req i)) &&
                                  negb (is_some (r_range (i_req i))) && negb (is_some (r_if_range (i_req i)))
                               then [clause "C04" "conditional-request-gets-no-answer"] else [])
                           ++ (* C14: a plain GET / HEAD is a 200 that must carry the validators *)
                              (if (is_get i || is_head i) && only_range (i_req i) && negb (is_some (r_range (i_req i)))
                               then [clause "C14" "plain-request-gets-no-response"] else [])
                       | _ => []
                       end
                   | Some o => spec_serve_all i o
                   end)
        end
    | _ => VL [finding K_BAD engine (VL []) (VL [])]
    end
  else if beq_bytes engine E_NEGOT then run_negot v
  else if beq_bytes engine E_STREAM then run_stream v
  else if beq_bytes engine E_DIR then run_dir v
  else if beq_bytes engine E_FILE then run_file v
  else if beq_bytes engine E_SCHED then run_sched v
  else if beq_bytes engine E_ONCE then run_once v
  else VL [finding K_BAD engine (VL []) (VL [])].
