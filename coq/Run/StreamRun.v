(* Evaluation of stream-engine cases (streaming_body / BodyWriter / chunker). *)
From Coq Require Import String.
From HS Require Import Lib.Base Lib.Bytes Lib.Dec Model.Negot Model.Builder Model.Chunker Model.GzWriter Run.Val.

(* s_sg: what the implementation's own should_gzip answered for s_ae (absent in old corpus cases) *)
(* what the gzip encoder handed to its sink, call by call, for the calls BodyWriter made (obtained by the
   harness from a shadow encoder of the same construction): one entry per executed operation *)
Inductive gzent :=
| GzW (n : N) (em : bytes)                    (* one GzEncoder::write call: accepted n, emitted em *)
| GzWA (calls : list (N * bytes)) (len : N)   (* write_all: the write calls it made *)
| GzF (e1 e2 : bytes)                         (* flush: the two GzEncoder::flush calls *)
| GzD (em : bytes)                            (* drop: try_finish *)
| GzA | GzP (w : N) | GzR.                    (* abort, poll, drop of the body *)
Record stinput := { s_cap : N; s_level : N; s_meth : bytes; s_ae : option bytes; s_parts : bool; s_ops : list cop;
                    s_sg : option bool; s_gz : list gzent }.

Definition dec_cop (v : val) : option cop :=
  match v with
  | VL [VN 0; VB d] => Some (OWrite d)
  | VL [VN 1; VB d] => Some (OWriteAll d)
  | VL [VN 2] => Some OFlush
  | VL [VN 3] => Some OAbort
  | VL [VN 4] => Some ODropWriter
  | VL [VN 5; VN w] => Some (OPoll w)
  | VL [VN 6] => Some ODropReader
  (* write_vectored(slices): BodyWriter does not override it, so it is std's default -- one write of the
     first non-empty slice (of the empty slice when there is none) *)
  | VL [VN 8; VL ds] =>
      match vall vbytes ds with
      | Some l => Some (OWrite (match filter (fun d => negb (lenN d =? 0)) l with d :: _ => d | [] => [] end))
      | None => None
      end
  | _ => None
  end.
(* The builder calls of a case: an optional list of earlier setter calls ([0; n] = with_chunk_size(n),
   [1; l] = with_gzip_level(l)), always followed by with_chunk_size(cap) and with_gzip_level(level).
   The chunk size and level in force are what the model's setters (Model/Builder.v) leave behind. *)
Definition dec_call (v : val) : option (N * N) := match v with VL [VN k; VN x] => Some (k, x) | _ => None end.
Definition apply_call (b : builder) (c : N * N) : builder :=
  if fst c =? 0 then with_chunk_size b (snd c) else with_gzip_level b (snd c).
Definition effective (pre : list (N * N)) (cap level : N) : builder :=
  fold_left apply_call (pre ++ [(0, cap); (1, level)])
    {| b_chunk_size := 4096; b_gzip_level := 6; b_should_gzip := false; b_body_needed := true |}.
Definition dec_gzent (v : val) : option gzent :=
  match v with
  | VL [VN 0; VN n; VB em] => Some (GzW n em)
  | VL [VN 1; VL calls; VN len] =>
      match vall (fun c => match c with VL [VN n; VB em] => Some (n, em) | _ => None end) calls with
      | Some l => Some (GzWA l len) | None => None end
  | VL [VN 2; VB e1; VB e2] => Some (GzF e1 e2)
  | VL [VN 4; VB em] => Some (GzD em)
  | VL [VN 3] => Some GzA
  | VL [VN 5; VN w] => Some (GzP w)
  | VL [VN 6] => Some GzR
  | _ => None
  end.
Definition dec_stinput (v : val) : option stinput :=
  match v with
  | VL (VN cap :: VN level :: VB m :: ae :: VN p :: ops :: rest) =>
      let pre := match rest with _ :: VL l :: _ => match vlist dec_call (VL l) with Some c => c | None => [] end | _ => [] end in
      let gzs := match rest with [_; _; VL l] => match vall dec_gzent l with Some g => g | None => [] end | _ => [] end in
      let b := effective pre cap level in
      match vopt vbytes ae, vlist dec_cop ops with
      | Some ae, Some ops => Some {| s_cap := b_chunk_size b; s_level := b_gzip_level b; s_meth := m; s_ae := ae; s_parts := negb (p =? 0); s_ops := ops;
                                    s_sg := match rest with VN 0 :: _ => Some false | VN 1 :: _ => Some true | _ => None end; s_gz := gzs |}
      | _, _ => None
      end
  | _ => None
  end.

Definition HEAD_ : bytes := [72;69;65;68].
(* C17 is stated relative to should_gzip ("as should_gzip decides"): the builder's decision is predicted
   from the implementation's own answer when the case carries it; that answer against the model of
   should_gzip is the field "should_gzip" (C16's subject, drift here) *)
Definition model_sg (i : stinput) : bool := match should_gzip (s_ae i) with Ok b => b | Panic _ => false end.
Definition gzip_on (i : stinput) : bool :=
  (match s_sg i with Some b => b | None => model_sg i end) && (0 <? s_level i).
Definition has_writer (i : stinput) : bool := negb (beq_bytes (s_meth i) HEAD_).

Definition of_copres (r : copres) : val :=
  match r with
  | RUnit => VN 0
  | RWrite (Some n) => VL [VN 0; VN n]
  | RWrite None => VL [VN 1]
  | RIo true => VL [VN 2]
  | RIo false => VL [VN 3]
  | RPoll None => VL [VN 4]
  | RPoll (Some None) => VL [VN 5]
  | RPoll (Some (Some None)) => VL [VN 6]
  | RPoll (Some (Some (Some d))) => VB d
  | RNoReader => VL [VN 7]
  end.
Definition of_hint (h : N * option N) : val := VL [VN (fst h); of_opt VN (snd h)].
Definition sample_of (s : cstate) : val * val :=
  if c_reader s then (of_hint (chunker_hint s), of_bool (chunker_eos s)) else (VL [], VL []).

(* a request for HEAD gets no writer: the chunker::Writer is dropped inside build() *)
Definition stream_init (i : stinput) : cstate :=
  let s := cinit (s_cap i) in
  if has_writer i then s else fst (fst (cstep s ODropWriter)).

(* without a writer the harness reports Err for writer operations (there is nothing to call) *)
Fixpoint model_results (s : cstate) (ops : list cop) : list val :=
  match ops with
  | [] => []
  | o :: t =>
      let '(s1, r, wk) := cstep s o in
      let (h, e) := sample_of s1 in
      VL [of_copres r; of_list VN wk; h; e] :: model_results s1 t
  end.
(* C08 leaves open how much of a buffer one `write` accepts ("at least one byte"): where the implementation
   reports that it accepted MORE than the model's write would (up to the whole buffer), the model follows
   it -- the bytes are taken as by a write_all of that prefix -- so that everything after stays comparable.
   The count itself is then reported as Ok(n) with the implementation's n. *)
Fixpoint model_results_following (s : cstate) (ops : list cop) (obs : list val) : list val :=
  match ops with
  | [] => []
  | o :: t =>
      let ob := match obs with x :: _ => Some x | [] => None end in
      let '(s1, r, wk) := cstep s o in
      let '(s1, r, wk) :=
        match o, r, ob with
        | OWrite d, RWrite (Some n), Some (VL (VL [VN 0; VN n'] :: _)) =>
            if (n <? n') && (n' <=? lenN d) then
              let '(s2, r2, wk2) := cstep s (OWriteAll (firstn (N.to_nat n') d)) in
              match r2 with RIo true => (s2, RWrite (Some n'), wk2) | _ => (s1, r, wk) end
            else (s1, r, wk)
        | _, _, _ => (s1, r, wk)
        end in
      let (h, e) := sample_of s1 in
      VL [of_copres r; of_list VN wk; h; e] :: model_results_following s1 t (tl obs)
  end.

Definition F_S_HDRS := bs "hdrs".
Definition F_S_WRITER := bs "writer".
Definition F_S_HINT0 := bs "hint0".
Definition F_S_EOS0 := bs "eos0".
Definition F_S_RES := bs "op.res".
Definition F_S_WOKEN := bs "op.woken".
Definition F_S_HINT := bs "op.hint".
Definition F_S_EOS := bs "op.eos".
Definition F_S_OPS := bs "ops".

(* The size hint and the end-of-stream flag are functions of how much has been delivered; they are
   compared wherever model and implementation have delivered the same number of bytes (dm, di: bytes
   delivered so far) -- everywhere when the framing agrees, at the common cut points when it does not. *)
Definition data_len (r : val) : N := match r with VB d => lenN d | _ => 0 end.
Fixpoint cmp_results (idx dm di : N) (m o : list val) : list val :=
  match m, o with
  | [], [] => []
  | VL [mr; mw; mh; me] :: m', VL [orr; ow; oh; oe] :: o' =>
      let dm' := dm + data_len mr in
      let di' := di + data_len orr in
      let f := cmp_field F_S_RES (VL [VN idx; mr]) (VL [VN idx; orr])
               ++ cmp_field F_S_WOKEN (VL [VN idx; mw]) (VL [VN idx; ow])
               ++ (if dm' =? di' then
                     cmp_field F_S_HINT (VL [VN idx; mh]) (VL [VN idx; oh])
                     ++ cmp_field F_S_EOS (VL [VN idx; me]) (VL [VN idx; oe])
                   else []) in
      (* keep comparing after a difference: a later field may be the one a property constrains *)
      f ++ cmp_results (idx + 1) dm' di' m' o'
  | _, _ => [finding K_DIVERGE F_S_OPS (VL m) (VL o)]
  end.

(* ---- derived fields: independent of how the body is cut into frames ---- *)
Definition F_S_WRES := bs "op.wres".
Definition F_S_WEOS := bs "op.weos".
Definition F_S_DELIVERED := bs "stream.delivered".
Definition F_S_END := bs "stream.end".
Definition F_S_HDR_VARY := bs "hdr:vary".
Definition F_S_HDR_CE := bs "hdr:content-encoding".
Definition is_producer (o : cop) : bool :=
  match o with OWrite _ | OWriteAll _ | OFlush | OAbort | ODropWriter => true | _ => false end.
(* results and end-of-stream samples of the producer's operations only *)
(* Once the body has been dropped, C11 fixes only that a flush of buffered bytes and a chunk-completing write
   fail (its own oracle clauses); whether the other producer calls still succeed is the implementation's
   business: from there on the results go under their own field name *)
Definition F_S_WRES_GONE := bs "op.wres.after-body-drop".
Fixpoint cmp_producer_g (gone : bool) (idx : N) (ops : list cop) (m o : list val) : list val :=
  match ops, m, o with
  | op :: ops', VL [mr; _; _; me] :: m', VL [orr; _; _; oe] :: o' =>
      (if is_producer op
       then cmp_field (if gone then F_S_WRES_GONE else F_S_WRES) (VL [VN idx; mr]) (VL [VN idx; orr])
            ++ (if gone then [] else cmp_field F_S_WEOS (VL [VN idx; me]) (VL [VN idx; oe]))
       else [])
      ++ cmp_producer_g (gone || match op with ODropReader => true | _ => false end) (idx + 1) ops' m' o'
  | _, _, _ => []
  end.
Definition cmp_producer := cmp_producer_g false.
(* what the consumer received over the history: the data, and the first terminal event
   (0 none, 1 clean end, 2 error, 3 panic) *)
Fixpoint received (rs : list val) : bytes * N :=
  match rs with
  | [] => ([], 0)
  | VL (r :: _) :: t =>
      match r with
      | VL [VN 5] => ([], 1)
      | VL [VN 6] => ([], 2)
      | VL [VN 9] => ([], 3)
      | VB d => let (x, k) := received t in (d ++ x, k)
      | _ => received t
      end
  | _ :: t => received t
  end.
(* the model polled on, after the history, until its terminal event *)
Fixpoint drain_model (fuel : nat) (s : cstate) : list val :=
  match fuel with
  | O => []
  | S f =>
      let '(s1, r, _) := cstep s (OPoll 0) in
      match r with
      | RPoll (Some (Some (Some d))) => VL [VB d] :: drain_model f s1
      | RPoll None => []                                   (* Pending: nothing more will come without the producer *)
      | _ => [VL [of_copres r]]
      end
  end.
Fixpoint final_state (s : cstate) (ops : list cop) : cstate :=
  match ops with [] => s | o :: t => final_state (fst (fst (cstep s o))) t end.
Definition cmp_received (s0 : cstate) (ops : list cop) (mres ores : list val) : list val :=
  let (od, ok) := received ores in
  if (ok =? 0) || negb (c_reader (final_state s0 ops)) then []      (* not drained to the end by the implementation: no claim *)
  else
    let sf := final_state s0 ops in
    let (md, mk) := received (mres ++ (if snd (received mres) =? 0 then drain_model (S (S (match c_st sf with SOk ready _ _ => length ready | _ => O end))) sf else [])) in
    cmp_field F_S_END (VN mk) (VN ok)
    (* after an abort what was delivered before it depends on the framing: only the clean end fixes the bytes *)
    ++ (if (mk =? 1) && (ok =? 1) then cmp_field F_S_DELIVERED (VB md) (VB od) else []).
Definition hdr_vals_s (name : bytes) (h : val) : val :=
  match h with
  | VL l => VL (flat_map (fun kv => match kv with VL [VB k; v] => if beq_bytes k name then [v] else [] | _ => [] end) l)
  | _ => VL []
  end.

Definition model_hdrs (i : stinput) : val :=
  VL ((if gzip_on i then [VL [VB (bs "content-encoding"); VB (bs "gzip")]] else [])
      ++ [VL [VB (bs "vary"); VB (bs "accept-encoding")]]).

(* ---------------------------------------------------------------- observation decoding *)
Inductive sres := SUnit | SWrote (n : N) | SWriteErr | SIoOk | SIoErr | SPending | SEnd | SError | SData (d : bytes)
                | SNoReader | SPanic | SOther.
Definition dec_sres (v : val) : sres :=
  match v with
  | VN 0 => SUnit
  | VL [VN 0; VN n] => SWrote n
  | VL [VN 1] => SWriteErr
  | VL [VN 2] => SIoOk
  | VL [VN 3] => SIoErr
  | VL [VN 4] => SPending
  | VL [VN 5] => SEnd
  | VL [VN 6] => SError
  | VB d => SData d
  | VL [VN 7] => SNoReader
  | VL [VN 9] => SPanic
  | _ => SOther
  end.
Record sobsop := { so_res : sres; so_woken : list N; so_hint : option (N * option N); so_eos : option bool }.
Definition dec_hint2 (v : val) : option (N * option N) :=
  match v with VL [VN lo; hi] => match vopt vnum hi with Some hi => Some (lo, hi) | None => None end | _ => None end.
Definition dec_sobsop (v : val) : option sobsop :=
  match v with
  | VL [r; w; h; e] =>
      match vlist vnum w with
      | Some w => Some {| so_res := dec_sres r; so_woken := w; so_hint := dec_hint2 h;
                          so_eos := match e with VN 0 => Some false | VN 1 => Some true | _ => None end |}
      | None => None
      end
  | _ => None
  end.

Definition sclause (prop name : string) : val := finding K_SPECFAIL (bs prop ++ [58] ++ bs name) (VL []) (VL []).
Definition scheck (b : bool) (prop name : string) : list val := if b then [] else [sclause prop name].

(* walk the history keeping: accepted bytes (None once indeterminate), delivered bytes, flags *)
Record walk := {
  k_accepted : bytes; k_exact : bool;         (* accepted so far; exact = no partial write_all failure *)
  k_delivered : bytes;
  k_writer : bool;                            (* BodyWriter alive and not known dead *)
  k_aborted : bool; k_reader : bool; k_dead : bool;   (* dead: an operation has failed *)
  k_flushed : bool;                           (* last writer-side op was an Ok flush or the drop: nothing may be buffered *)
  k_terminal : option sres;                   (* first terminal poll result *)
  k_eos_seen : bool;                          (* is_end_stream() was true at some sample *)
  k_fail : list val
}.

Definition is_data (r : sres) : bool := match r with SData _ => true | _ => false end.
Fixpoint is_prefix (a b : bytes) : bool :=
  match a, b with
  | [], _ => true
  | x :: a', y :: b' => (x =? y) && is_prefix a' b'
  | _ :: _, [] => false
  end.

Definition step_walk (raw : bool) (k : walk) (oo : cop * sobsop) : walk :=
  let (o, ob) := oo in
  let r := so_res ob in
  let add (f : list val) (k : walk) : walk :=
    {| k_accepted := k_accepted k; k_exact := k_exact k; k_delivered := k_delivered k; k_writer := k_writer k;
       k_aborted := k_aborted k; k_reader := k_reader k; k_dead := k_dead k; k_flushed := k_flushed k;
       k_terminal := k_terminal k; k_eos_seen := k_eos_seen k; k_fail := k_fail k ++ f |} in
  let live := k_writer k && negb (k_aborted k) && negb (k_dead k) in
  let k1 :=
    match o, r with
    | OWrite d, SWrote n =>
        add (scheck (n <=? lenN d) "C08" "write-accepts-at-most-the-buffer"
             ++ (if live && k_reader k && negb (lenN d =? 0) then scheck (1 <=? n) "C08" "write-to-live-body-accepts-at-least-one-byte" else [])
             ++ (if k_aborted k then [sclause "C11" "write-after-abort-must-fail"] else []))
          {| k_accepted := k_accepted k ++ firstn (N.to_nat n) d; k_exact := k_exact k; k_delivered := k_delivered k;
             k_writer := k_writer k; k_aborted := k_aborted k; k_reader := k_reader k; k_dead := k_dead k;
             k_flushed := false; k_terminal := k_terminal k; k_eos_seen := k_eos_seen k; k_fail := k_fail k |}
    | OWrite d, SWriteErr =>
        add (if live && k_reader k then [sclause "C08" "write-to-live-body-failed"] else [])
          {| k_accepted := k_accepted k; k_exact := k_exact k; k_delivered := k_delivered k;
             k_writer := k_writer k; k_aborted := k_aborted k; k_reader := k_reader k; k_dead := true;
             k_flushed := k_flushed k; k_terminal := k_terminal k; k_eos_seen := k_eos_seen k; k_fail := k_fail k |}
    | OWriteAll d, SIoOk =>
        add (if k_aborted k && negb (lenN d =? 0) then [sclause "C11" "write-after-abort-must-fail"] else [])
          {| k_accepted := k_accepted k ++ d; k_exact := k_exact k; k_delivered := k_delivered k;
             k_writer := k_writer k; k_aborted := k_aborted k; k_reader := k_reader k; k_dead := k_dead k;
             k_flushed := (lenN d =? 0) && k_flushed k; k_terminal := k_terminal k; k_eos_seen := k_eos_seen k; k_fail := k_fail k |}
    | OWriteAll d, SIoErr =>
        add (if live && k_reader k then [sclause "C08" "write-all-to-live-body-failed"] else [])
          {| k_accepted := k_accepted k; k_exact := false; k_delivered := k_delivered k;
             k_writer := k_writer k; k_aborted := k_aborted k; k_reader := k_reader k; k_dead := true;
             k_flushed := k_flushed k; k_terminal := k_terminal k; k_eos_seen := k_eos_seen k; k_fail := k_fail k |}
    | OFlush, SIoOk =>
        add (if k_aborted k then [sclause "C11" "flush-after-abort-must-fail"] else [])
          {| k_accepted := k_accepted k; k_exact := k_exact k; k_delivered := k_delivered k;
             k_writer := k_writer k; k_aborted := k_aborted k; k_reader := k_reader k; k_dead := k_dead k;
             k_flushed := true; k_terminal := k_terminal k; k_eos_seen := k_eos_seen k; k_fail := k_fail k |}
    | OFlush, SIoErr =>
        add (if live && k_reader k then [sclause "C08" "flush-on-live-body-failed"] else [])
          {| k_accepted := k_accepted k; k_exact := k_exact k; k_delivered := k_delivered k;
             k_writer := k_writer k; k_aborted := k_aborted k; k_reader := k_reader k; k_dead := true;
             k_flushed := k_flushed k; k_terminal := k_terminal k; k_eos_seen := k_eos_seen k; k_fail := k_fail k |}
    | OAbort, _ =>
          {| k_accepted := k_accepted k; k_exact := k_exact k; k_delivered := k_delivered k;
             k_writer := k_writer k; k_aborted := k_aborted k || live; k_reader := k_reader k; k_dead := k_dead k;
             k_flushed := false; k_terminal := k_terminal k; k_eos_seen := k_eos_seen k; k_fail := k_fail k |}
    | ODropWriter, _ =>
          {| k_accepted := k_accepted k; k_exact := k_exact k; k_delivered := k_delivered k;
             k_writer := false; k_aborted := k_aborted k; k_reader := k_reader k; k_dead := k_dead k;
             k_flushed := live || k_flushed k; k_terminal := k_terminal k; k_eos_seen := k_eos_seen k; k_fail := k_fail k |}
    | ODropReader, _ =>
          {| k_accepted := k_accepted k; k_exact := k_exact k; k_delivered := k_delivered k;
             k_writer := k_writer k; k_aborted := k_aborted k; k_reader := false; k_dead := k_dead k;
             k_flushed := k_flushed k; k_terminal := k_terminal k; k_eos_seen := k_eos_seen k; k_fail := k_fail k |}
    | OPoll _, _ =>
        let delivered' := match r with SData d => k_delivered k ++ d | _ => k_delivered k end in
        let f :=
          (match r with SData [] => [sclause "C08" "every-frame-non-empty"] | _ => [] end)
          ++ (match r with SPanic => [sclause "C20" "poll-never-panics"] | _ => [] end)
          (* C20: after the first terminal event only a clean end follows *)
          ++ (match k_terminal k, r with
              | Some _, SEnd => []
              | Some _, SNoReader => []
              | Some _, _ => [sclause "C20" "terminated-body-stays-terminated"]
              | None, _ => []
              end)
          (* C12: is_end_stream() true earlier means no data and no error later *)
          ++ (if k_eos_seen k && (is_data r || match r with SError => true | _ => false end)
              then [sclause "C12" "end-of-stream-flag-then-more"] else [])
          (* C11: after an abort the terminal event is an error *)
          ++ (match k_terminal k, r with
              | None, SEnd => if k_aborted k && negb (k_dead k) then [sclause "C11" "abort-ended-cleanly"] else []
              | _, _ => []
              end)
          (* C08: what is delivered is a prefix of what was accepted (raw coding) *)
          ++ (if raw && k_exact k then scheck (is_prefix delivered' (k_accepted k)) "C08" "delivered-is-prefix-of-accepted" else [])
          (* C08: nothing is held back after a flush / the drop: when the consumer finds nothing
             more (Pending or End) everything accepted has been delivered *)
          ++ (match r with
              | SPending | SEnd =>
                  if raw && k_exact k && k_flushed k && negb (k_aborted k) && negb (k_dead k) && k_reader k
                  then scheck (beq_bytes delivered' (k_accepted k)) "C08" "flushed-bytes-available-without-producer-action" else []
              | _ => []
              end)
          (* C08: after the drop the body ends cleanly *)
          ++ (match k_terminal k, r with
              | None, SError => if negb (k_aborted k) then [sclause "C08" "error-without-abort"] else []
              | None, SPending => if negb (k_writer k) && negb (k_aborted k) then [sclause "C10" "pending-after-writer-gone"] else []
              | _, _ => []
              end) in
        add f
          {| k_accepted := k_accepted k; k_exact := k_exact k; k_delivered := delivered';
             k_writer := k_writer k; k_aborted := k_aborted k; k_reader := k_reader k; k_dead := k_dead k;
             k_flushed := k_flushed k;
             k_terminal := match k_terminal k, r with
                           | None, SEnd => Some SEnd | None, SError => Some SError | t, _ => t end;
             k_eos_seen := k_eos_seen k; k_fail := k_fail k |}
    | _, _ => add [finding K_BAD (bs "stream-op-result") (VL []) (VL [])] k
    end in
  (* samples taken after the operation *)
  let k2 :=
    match so_eos ob with
    | Some true =>
        add (if k_aborted k1 && match k_terminal k1 with None => true | _ => false end && k_reader k1 && negb (k_dead k)
             then [sclause "C11" "end-of-stream-claimed-while-abort-error-pending"] else [])
          {| k_accepted := k_accepted k1; k_exact := k_exact k1; k_delivered := k_delivered k1; k_writer := k_writer k1;
             k_aborted := k_aborted k1; k_reader := k_reader k1; k_dead := k_dead k1; k_flushed := k_flushed k1;
             k_terminal := k_terminal k1; k_eos_seen := true; k_fail := k_fail k1 |}
    | _ => k1
    end in
  k2.

Fixpoint zip_ops (ops : list cop) (obs : list sobsop) : list (cop * sobsop) :=
  match ops, obs with o :: t, b :: u => (o, b) :: zip_ops t u | _, _ => [] end.

(* C12 for the streaming body: lower <= bytes still to come <= upper, when the history ends cleanly *)
Fixpoint future_bytes (l : list (cop * sobsop)) : N :=
  match l with
  | [] => 0
  | (_, ob) :: t => match so_res ob with SData d => lenN d + future_bytes t | _ => future_bytes t end
  end.
Fixpoint ends_cleanly (l : list (cop * sobsop)) : bool :=
  match l with
  | [] => false
  | (_, ob) :: t => match so_res ob with SEnd => true | SError => false | _ => ends_cleanly t end
  end.
Fixpoint hints_ok (l : list (cop * sobsop)) : bool :=
  match l with
  | [] => true
  | (_, ob) :: t =>
      (match so_hint ob with
       | Some (lo, hi) =>
           if ends_cleanly t then
             (lo <=? future_bytes t) && match hi with Some h => future_bytes t <=? h | None => true end
           else true
       | None => true
       end) && hints_ok t
  end.

(* C11, disconnect: once the body has been dropped, a flush with buffered bytes and any
   chunk-completing write must fail (raw writer: the buffered count is known exactly) *)
Fixpoint disconnect_walk (raw : bool) (cap buffered : N) (gone failed : bool) (l : list (cop * sobsop)) : list val :=
  match l with
  | [] => []
  | (o, ob) :: t =>
      match o, so_res ob with
      | ODropReader, _ => disconnect_walk raw cap buffered true failed t
      | OWrite d, SWrote n =>
          (if gone && raw && (cap <=? buffered + n) then [sclause "C11" "chunk-completing-write-after-disconnect-must-fail"] else [])
          ++ (if failed then [sclause "C11" "operation-succeeded-after-a-failure"] else [])
          ++ disconnect_walk raw cap ((buffered + n) mod cap) gone failed t
      | OWriteAll d, SIoOk =>
          (if gone && raw && (cap <=? buffered + lenN d) then [sclause "C11" "chunk-completing-write-after-disconnect-must-fail"] else [])
          ++ (if failed && negb (lenN d =? 0) then [sclause "C11" "operation-succeeded-after-a-failure"] else [])
          ++ disconnect_walk raw cap ((buffered + lenN d) mod cap) gone failed t
      | OFlush, SIoOk =>
          (if gone && (negb raw || (0 <? buffered)) then [sclause "C11" "flush-after-disconnect-must-fail"] else [])
          ++ (if failed then [sclause "C11" "operation-succeeded-after-a-failure"] else [])
          ++ disconnect_walk raw cap 0 gone failed t
      | OWrite _, SWriteErr | OWriteAll _, SIoErr | OFlush, SIoErr => disconnect_walk raw cap buffered gone true t
      | _, _ => disconnect_walk raw cap buffered gone failed t
      end
  end.

(* ---- the Gzipped BodyWriter (Model/GzWriter.v) run with the observed emissions as its encoder ---- *)
Definition encq := list (bytes * N).
Definition q_write (e : encq) (_ : bytes) : encq * bytes * N := match e with (em, n) :: t => (t, em, n) | [] => ([], [], 0) end.
Definition q_flush (e : encq) : encq * bytes := match e with (em, _) :: t => (t, em) | [] => ([], []) end.
Definition q_finish (e : encq) : bytes := match e with (em, _) :: _ => em | [] => [] end.
Definition qstep := gstep encq q_write q_flush q_finish.
Definition refill (g : gin encq) (q : encq) : gin encq := match g with GGz _ _ => GGz encq q | GOff _ => GOff encq end.
(* std's write_all over BodyWriter::write: one write call per recorded call, until the data is used up *)
Fixpoint gz_write_all (s : cstate) (g : gin encq) (calls : list (N * bytes)) (left : N) : cstate * gin encq * copres :=
  match calls with
  | [] => (s, g, RIo (left =? 0))
  | (n, em) :: t =>
      let '(s1, g1, r, _, _) := qstep s (refill g [(em, n)]) (OWrite []) in
      match r with
      | RWrite (Some k) => if k =? 0 then (s1, g1, RIo false) else gz_write_all s1 g1 t (left - k)
      | _ => (s1, g1, RIo false)
      end
  end.
Fixpoint gz_model_results (s : cstate) (g : gin encq) (es : list gzent) : list val :=
  match es with
  | [] => []
  | e :: t =>
      let '(s1, g1, r) :=
        match e with
        | GzW n em => let '(s1, g1, r, _, _) := qstep s (refill g [(em, n)]) (OWrite []) in (s1, g1, r)
        | GzWA calls len =>
            match g, calls with
            | GOff _, _ => let '(s1, r, _) := cstep s (OWriteAll (repeat 0 (N.to_nat (N.min len 1)))) in (s1, g, r)
            | _, _ => gz_write_all s g calls len
            end
        | GzF e1 e2 => let '(s1, g1, r, _, _) := qstep s (refill g [(e1, 0); (e2, 0)]) OFlush in (s1, g1, r)
        | GzD em => let '(s1, g1, r, _, _) := qstep s (refill g [(em, 0)]) ODropWriter in (s1, g1, r)
        | GzA => let '(s1, g1, r, _, _) := qstep s g OAbort in (s1, g1, r)
        | GzP w => let '(s1, g1, r, _, _) := qstep s g (OPoll w) in (s1, g1, r)
        | GzR => let '(s1, g1, r, _, _) := qstep s g ODropReader in (s1, g1, r)
        end in
      of_copres r :: gz_model_results s1 g1 t
  end.
Definition F_S_GZ := bs "gz.results".
(* frame boundaries are the implementation's business: consecutive data frames are compared as one *)
Fixpoint merge_frames (l : list val) : list val :=
  match l with
  | VB a :: t => match merge_frames t with VB b :: t' => VB (a ++ b) :: t' | t' => VB a :: t' end
  | x :: t => x :: merge_frames t
  | [] => []
  end.

Definition run_stream (v : val) : val :=
  match v with
  | VL [inp; obs] =>
      match dec_stinput inp with
      | None => VL [finding K_BAD (bs "stream") (VL []) (VL [])]
      | Some i =>
          match obs with
          | VL [ohdrs; ow; oh0; oe0; VL ores] =>
              let gz := gzip_on i in
              let s0 := stream_init i in
              let (mh0, me0) := sample_of s0 in
              let tag := (if gz then bs "gzip" else bs "raw") ++ (if has_writer i then [] else bs ":head") in
              let common :=
                cmp_field F_S_HDRS (model_hdrs i) ohdrs
                ++ (match s_sg i with Some b => cmp_field (bs "should_gzip") (of_bool (model_sg i)) (of_bool b) | None => [] end)
                ++ cmp_field F_S_HDR_VARY (hdr_vals_s (bs "vary") (model_hdrs i)) (hdr_vals_s (bs "vary") ohdrs)
                ++ cmp_field F_S_HDR_CE (hdr_vals_s (bs "content-encoding") (model_hdrs i)) (hdr_vals_s (bs "content-encoding") ohdrs)
                ++ cmp_field F_S_WRITER (of_bool (has_writer i)) ow
                ++ cmp_field F_S_HINT0 mh0 oh0 ++ cmp_field F_S_EOS0 me0 oe0 in
              let mres := model_results_following s0 (s_ops i) ores in
              let gz_part :=
                if gz && has_writer i then
                  match s_gz i with
                  | [] => []                       (* cases recorded before the shadow encoder existed *)
                  | es =>
                      (* compared: the bytes delivered over the whole history, the first terminal event, and the
                         results of the producer's calls -- not frame boundaries nor at which poll a byte arrives *)
                      let mres := gz_model_results s0 (GGz encq []) es in
                      let ores1 := map (fun o => match o with VL (r :: _) => r | x => x end) ores in
                      let wrap := map (fun r => VL [r]) in
                      let nonpoll := fun (rs : list val) => map snd (filter (fun p => match fst p with GzP _ => false | _ => true end) (combine es rs)) in
                      (* byte 9 of a gzip member is the OS field of its header (RFC 1952: informational) *)
                      let norm_os := fun (b : bytes) => if 10 <=? lenN b then firstn 9 b ++ 0 :: skipn 10 b else b in
                      let (mb, mk) := received (wrap mres) in
                      let (ob, ok) := received (wrap ores1) in
                      let mb := norm_os mb in let ob := norm_os ob in
                      (* a history that did not reach a terminal event on both sides: how much has arrived by its
                         last poll depends on the framing, so only prefix-compatibility is required of the bytes *)
                      let bytes_agree := if (negb (mk =? 0)) && (negb (ok =? 0)) then beq_bytes mb ob
                                         else starts_with mb ob || starts_with ob mb in
                      firstn 3 ((if bytes_agree then [] else cmp_field F_S_GZ (VB mb) (VB ob))
                                ++ (if (mk =? 0) || (ok =? 0) then [] else cmp_field F_S_GZ (VN mk) (VN ok))
                                ++ cmp_field F_S_GZ (VL (nonpoll mres)) (VL (nonpoll ores1)))
                  end
                else [] in
              let model_part := gz_part ++ if gz then [] else firstn 12 (cmp_results 0 0 0 mres ores)
                                                    ++ firstn 12 (cmp_producer 0 (s_ops i) mres ores)
                                                    ++ cmp_received s0 (s_ops i) mres ores in
              let oracle :=
                match vall dec_sobsop ores with
                | None => [finding K_BAD (bs "stream-obs") (VL []) (VL [])]
                | Some obl =>
                    let z := zip_ops (s_ops i) obl in
                    let k0 := {| k_accepted := []; k_exact := true; k_delivered := []; k_writer := has_writer i;
                                 k_aborted := false; k_reader := true; k_dead := false; k_flushed := negb (has_writer i);
                                 k_terminal := None; k_eos_seen := match oe0 with VN 1 => true | _ => false end; k_fail := [] |} in
                    let kf := fold_left (step_walk (negb gz)) z k0 in
                    k_fail kf
                    ++ (if has_writer i && (0 <? s_cap i) then disconnect_walk (negb gz) (s_cap i) 0 false false z else [])
                    ++ scheck (hints_ok z) "C12" "hint-bounds-bytes-still-to-come"
                    ++ (* C17: headers *)
                       scheck (val_eqb (hdr_vals_s (bs "vary") ohdrs) (VL [VB (bs "accept-encoding")])
                               && val_eqb (hdr_vals_s (bs "content-encoding") ohdrs) (hdr_vals_s (bs "content-encoding") (model_hdrs i)))
                              "C17" "vary-and-content-encoding-match-negotiation"
                    ++ scheck (val_eqb ow (of_bool (has_writer i))) "C17" "writer-iff-not-head"
                    ++ (* C17: without Content-Encoding the body is the written bytes verbatim *)
                       (let header_gzip := match ohdrs with
                                           | VL hs => existsb (fun h => val_eqb h (VL [VB (bs "content-encoding"); VB (bs "gzip")])) hs
                                           | _ => false end in
                        if negb header_gzip && k_exact kf && negb (k_aborted kf) && negb (k_dead kf)
                           && match k_terminal kf with Some SEnd => true | _ => false end
                        then scheck (beq_bytes (k_delivered kf) (k_accepted kf)) "C17" "identity-coded-body-is-the-written-bytes"
                        else [])
                end in
              VL (finding K_TAG tag (VL []) (VL []) :: common ++ model_part ++ oracle)
          | _ => VL [finding K_TAG (bs "panic") (VL []) (VL []); finding K_DIVERGE (bs "shape") (VL []) obs;
                     sclause "C17" "build-panicked"]
          end
      end
  | _ => VL [finding K_BAD (bs "stream") (VL []) (VL [])]
  end.
