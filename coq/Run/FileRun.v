(* Evaluation of file-engine cases (ChunkedReadFile). *)
From Coq Require Import String.
From HS Require Import Lib.Base Lib.Bytes Lib.Hex Model.File Run.Val.

Definition fclause (name : string) : val := finding K_SPECFAIL (bs "C18:" ++ bs name) (VL []) (VL []).
Definition F_F_META := bs "meta".
Definition F_F_POLLS := bs "polls".
Definition F_F_NEW := bs "new".

Definition of_rres (r : rres) : val :=
  match r with RData d => VL [VN 0; VN (lenN d)] | RErrEof => VL [VN 1] | REnd => VL [VN 2] end.

Fixpoint nth_or (l : list N) (k : nat) (d : N) : N := match l, k with x :: _, O => x | _ :: t, S k' => nth_or t k' d | [], _ => d end.

(* an empty table means: the file keeps a length beyond every range, no read is cut short *)
Fixpoint model_polls (flens shorts : list N) (k : nat) (s : rstate) : list val :=
  match k with
  | O => []
  | S k' =>
      let (s1, r) := read_poll (fun _ => 0) (fun i => match flens with [] => U64 | _ => nth_or flens i 0 end)
                               (fun i => match shorts with [] => U64 | _ => nth_or shorts i 0 end) s in
      of_rres r :: model_polls flens shorts k' s1
  end.

(* independent reading of the property over the observed polls *)
Fixpoint obs_total (p : list val) : N :=
  match p with VL [VN 0; VN n; _] :: t => n + obs_total t | _ :: t => obs_total t | [] => 0 end.
Definition obs_has (code : N) (p : list val) : bool :=
  existsb (fun v => match v with VL (VN c :: _) => c =? code | _ => false end) p.
(* every chunk is non-empty and carries the file's bytes (ok = 1: compared by the harness); the size of
   a chunk is the implementation's business ("independent of the internal read size") *)
Definition obs_chunks_ok (p : list val) : bool :=
  forallb (fun v => match v with VL [VN 0; VN n; VN ok] => (1 <=? n) && (ok =? 1) | _ => true end) p.
Fixpoint before_end (p : list val) : list val :=
  match p with VL [VN 2] :: _ => [] | x :: t => x :: before_end t | [] => [] end.
(* the polls up to and including the first terminal event (error or end): what a finished or failed
   stream answers afterwards is not part of the property *)
Fixpoint upto_terminal (p : list val) : list val :=
  match p with
  | [] => []
  | VL [VN 1] :: _ => [VL [VN 1]]
  | VL [VN 2] :: _ => [VL [VN 2]]
  | x :: t => x :: upto_terminal t
  end.
(* (bytes delivered before the first terminal event, its kind: 0 none, 1 error, 2 end) *)
Fixpoint summary (p : list val) : N * N :=
  match p with
  | [] => (0, 0)
  | VL [VN 1] :: _ => (0, 1)
  | VL [VN 2] :: _ => (0, 2)
  | VL (VN 0 :: VN n :: _) :: t => let (b, k) := summary t in (n + b, k)
  | _ :: t => summary t
  end.
Definition F_F_TOTAL := bs "file.total".
Definition F_F_END := bs "file.end".

Definition run_file (v : val) : val :=
  match v with
  | VL [VL (VN kind :: VN ino :: VN size :: VN mtime :: VN a :: VN e :: flens :: shorts :: VN np :: rest); obs] =>
      (* an optional last field: 1 when the modification time lies before the epoch (mtime is its distance) *)
      let neg := match rest with [VN 1] => true | _ => false end in
      match vlist vnum flens, vlist vnum shorts with
      | Some flens, Some shorts =>
          let m := {| f_is_file := (kind =? 0) || (kind =? 3) || (kind =? 4); f_ino := ino; f_len := size; f_mtime_ns := mtime; f_mtime_neg := neg |} in
          match crf_new m, obs with
          | None, VL [VN 0] => VL [finding K_TAG (bs "refused") (VL []) (VL [])]
          | None, _ => VL [finding K_TAG (bs "refused") (VL []) (VL []); finding K_DIVERGE F_F_NEW (VL [VN 0]) obs;
                           fclause "non-regular-file-must-be-refused"]
          | Some ent, VL [VN 1; oetag; olen; omtime; VL opolls] =>
              let mpolls := model_polls flens shorts (N.to_nat np) {| r_start := a; r_end := e; r_reads := 0 |} in
              let opolls2 := map (fun v => match v with VL [VN 0; n; _] => VL [VN 0; n] | x => x end) opolls in
              (* framing-independent comparison: the model is polled far enough to reach its terminal event *)
              (* (used for files that are not truncated: every read sees the full length and is not cut short) *)
              let opolls := upto_terminal opolls in
              let truncated := existsb (fun l => l <? e) flens in
              let tag := if truncated then bs "truncated" else if a =? e then bs "empty-range" else bs "intact" in
              VL (finding K_TAG tag (VL []) (VL [])
                  :: cmp_field F_F_META (VL [VB (crf_etag ent); VN (crf_len ent); (if crf_last_modified_neg ent then VL [VN 1; VN (crf_last_modified ent)] else VN (crf_last_modified ent))]) (VL [oetag; olen; omtime])
                  ++ cmp_field F_F_POLLS (VL mpolls) (VL opolls2)
                  ++ (let (ob, ok) := summary opolls in
                      (* when the file is truncated under the stream, where the failure lands depends on how the
                         reads are cut: the oracle below states what is required then *)
                      if (ok =? 0) || truncated || (16777216 <? e - a) then [] else
                      (* (evaluated only here: the extracted code is strict, and a range of gigabytes means 65 536 model polls) *)
                      let (mb, mk) := summary (model_polls [] [] (N.to_nat ((e - a) / 65536) + 4) {| r_start := a; r_end := e; r_reads := 0 |}) in
                      cmp_field F_F_END (VN mk) (VN ok) ++ (if (ok =? 2) && (mk =? 2) then cmp_field F_F_TOTAL (VN mb) (VN ob) else []))
                  ++ (if obs_chunks_ok opolls then [] else [fclause "chunks-non-empty-and-the-file-bytes"])
                  ++ (if negb truncated then
                        (* the harness stops after 16 polls or 4 MiB: a stream that has not finished by then must have
                           delivered only good chunks within the range so far *)
                        (if snd (summary opolls) =? 0 then
                           (if obs_total opolls <=? e - a then [] else [fclause "intact-file-yields-exactly-the-range-then-ends"])
                         else if obs_has 2 opolls && negb (obs_has 1 (before_end opolls)) && (obs_total (before_end opolls) =? e - a) then []
                         else [fclause "intact-file-yields-exactly-the-range-then-ends"])
                      else
                        (* truncated below the range end before some read: if the stream ended cleanly it must
                           have delivered the whole range (the truncation came too late); otherwise it must fail *)
                        (if obs_has 2 opolls then
                           (if obs_total (before_end opolls) =? e - a then [] else [fclause "ended-short-after-truncation"])
                         else if obs_has 1 opolls then [] else [fclause "truncated-file-must-fail-within-bounded-polls"]))
                  ++ (match oetag with
                      | VB t => match t with
                                | 34 :: r => if existsb (N.eqb 34) (removelast r) then [fclause "etag-is-a-strong-tag"] else
                                             match rev t with 34 :: _ => [] | _ => [fclause "etag-is-a-strong-tag"] end
                                | _ => [fclause "etag-is-a-strong-tag"]
                                end
                      | _ => [fclause "etag-is-a-strong-tag"]
                      end))
          | Some _, _ => VL [finding K_TAG (bs "panic") (VL []) (VL []); finding K_DIVERGE F_F_NEW (VL [VN 1]) obs;
                             fclause "regular-file-refused-or-panic"]
          end
      | _, _ => VL [finding K_BAD (bs "file") (VL []) (VL [])]
      end
  | _ => VL [finding K_BAD (bs "file") (VL []) (VL [])]
  end.
