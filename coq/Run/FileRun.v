(* Evaluation of file-engine cases (ChunkedReadFile). *)
From Coq Require Import String.
From HS Require Import Lib.Base Lib.Bytes Lib.Hex Model.File Run.Val.

Definition fclause (name : string) : val := finding K_SPECFAIL (bs "C18:" ++ bs name) (VL []) (VL []).
Definition F_F_META := bs "meta".
Definition F_F_POLLS := bs "polls".
Definition F_F_NEW := bs "new".

Definition of_rres (r : rres) : val :=
  match r with RData d => VL [VN 0; VN (lenN d)] | RErrEof => VL [VN 1] | REnd => VL [VN 2] end.

Fixpoint nth_or (l : list N) (k : nat) (d : N) : N := match l, k with x :: _, O => x | _ :: t, S k' => nth_or t k' d | [], _ => d end.

Fixpoint model_polls (flens shorts : list N) (k : nat) (s : rstate) : list val :=
  match k with
  | O => []
  | S k' =>
      let (s1, r) := read_poll (fun _ => 0) (fun i => nth_or flens i 0) (fun i => nth_or shorts i 0) s in
      of_rres r :: model_polls flens shorts k' s1
  end.

(* independent reading of the property over the observed polls *)
Fixpoint obs_total (p : list val) : N :=
  match p with VL [VN 0; VN n; _] :: t => n + obs_total t | _ :: t => obs_total t | [] => 0 end.
Definition obs_has (code : N) (p : list val) : bool :=
  existsb (fun v => match v with VL (VN c :: _) => c =? code | _ => false end) p.
Definition obs_chunks_ok (p : list val) : bool :=
  forallb (fun v => match v with VL [VN 0; VN n; VN ok] => (1 <=? n) && (n <=? 65536) && (ok =? 1) | _ => true end) p.
Fixpoint before_end (p : list val) : list val :=
  match p with VL [VN 2] :: _ => [] | x :: t => x :: before_end t | [] => [] end.

Definition run_file (v : val) : val :=
  match v with
  | VL [VL [VN kind; VN ino; VN size; VN mtime; VN a; VN e; flens; shorts; VN np]; obs] =>
      match vlist vnum flens, vlist vnum shorts with
      | Some flens, Some shorts =>
          let m := {| f_is_file := kind =? 0; f_ino := ino; f_len := size; f_mtime_ns := mtime |} in
          match crf_new m, obs with
          | None, VL [VN 0] => VL [finding K_TAG (bs "refused") (VL []) (VL [])]
          | None, _ => VL [finding K_TAG (bs "refused") (VL []) (VL []); finding K_DIVERGE F_F_NEW (VL [VN 0]) obs;
                           fclause "non-regular-file-must-be-refused"]
          | Some ent, VL [VN 1; oetag; olen; omtime; VL opolls] =>
              let mpolls := model_polls flens shorts (N.to_nat np) {| r_start := a; r_end := e; r_reads := 0 |} in
              let opolls2 := map (fun v => match v with VL [VN 0; n; _] => VL [VN 0; n] | x => x end) opolls in
              let truncated := existsb (fun l => l <? e) flens in
              let tag := if truncated then bs "truncated" else if a =? e then bs "empty-range" else bs "intact" in
              VL (finding K_TAG tag (VL []) (VL [])
                  :: cmp_field F_F_META (VL [VB (crf_etag ent); VN (crf_len ent); VN (crf_last_modified ent)]) (VL [oetag; olen; omtime])
                  ++ cmp_field F_F_POLLS (VL mpolls) (VL opolls2)
                  ++ (if obs_chunks_ok opolls then [] else [fclause "chunks-non-empty-at-most-64KiB-and-the-file-bytes"])
                  ++ (if negb truncated then
                        (if obs_has 2 opolls && negb (obs_has 1 (before_end opolls)) && (obs_total (before_end opolls) =? e - a) then []
                         else [fclause "intact-file-yields-exactly-the-range-then-ends"])
                      else
                        (* truncated below the range end before some read: if the stream ended cleanly it must
                           have delivered the whole range (the truncation came too late); otherwise it must fail *)
                        (if obs_has 2 opolls then
                           (if obs_total (before_end opolls) =? e - a then [] else [fclause "ended-short-after-truncation"])
                         else if obs_has 1 opolls then [] else [fclause "truncated-file-must-fail-within-bounded-polls"]))
                  ++ (match oetag with
                      | VB t => match t with
                                | 34 :: r => if existsb (N.eqb 34) (removelast r) then [fclause "etag-is-a-strong-tag"] else
                                             match rev t with 34 :: _ => [] | _ => [fclause "etag-is-a-strong-tag"] end
                                | _ => [fclause "etag-is-a-strong-tag"]
                                end
                      | _ => [fclause "etag-is-a-strong-tag"]
                      end))
          | Some _, _ => VL [finding K_TAG (bs "panic") (VL []) (VL []); finding K_DIVERGE F_F_NEW (VL [VN 1]) obs;
                             fclause "regular-file-refused-or-panic"]
          end
      | _, _ => VL [finding K_BAD (bs "file") (VL []) (VL [])]
      end
  | _ => VL [finding K_BAD (bs "file") (VL []) (VL [])]
  end.
