(* Extraction of the executable model, specs and comparison to OCaml.
   Only ExtrOcamlBasic is used: N, positive, nat stay inductive datatypes. *)
From Coq Require Extraction.
From Coq Require Import ExtrOcamlBasic.
From HS Require Import Run.Main.
Extraction Language OCaml.
Extraction "../eval/hs_model.ml" run_case.
