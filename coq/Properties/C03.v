(* C03 -- Range headers resolve as RFC 7233 prescribes.
   This file only states the property theorems and closes each with a lemma proved in
   Proofs/; `Check` pins every statement, `Print Assumptions` shows what each rests on. *)
From Coq Require Import String.
From HS Require Import Lib.Base Lib.Bytes Lib.Dec Model.Range Model.Body Model.Serve Spec.RangeGrammar Proofs.RangeP Proofs.BodyP Proofs.ServeP Proofs.ServeProps Proofs.DecisionP Spec.Validators Spec.Multipart Spec.Response Model.Etag Proofs.MultipartP Proofs.EchoP Proofs.EndToEnd.

(* Every grammatical byte-range-set -- any number of specs of the three forms, optional
   whitespace after commas (and before the first element), leading zeros, all numbers
   below 2^64 -- resolves, for every entity length below 2^64, to exactly the ranges
   RFC 7233 names, in request order; unsatisfiable specs are dropped; 416 iff none is left. *)
Theorem c03_parse : forall L ws0 x l,
  L < U64 -> elem_ok (ws0, x) -> bounded x -> Forall (fun p => elem_ok p /\ bounded (snd p)) l ->
  range_parse (Some (bytes_eq_prefix ++ render_set ws0 x l)) L = spec_resolve L (x :: map snd l).
Proof. exact range_parse_grammar. Qed.

(* A number of 2^64 or more anywhere in an otherwise grammatical header: ignored. *)
Theorem c03_overflow_ignored : forall L ws0 x l,
  elem_ok (ws0, x) -> Forall elem_ok l ->
  Exists (fun s => ~ bounded s) (x :: map snd l) ->
  range_parse (Some (bytes_eq_prefix ++ render_set ws0 x l)) L = RNone.
Proof. exact range_parse_overflow. Qed.

(* Whatever is not ignored is "bytes=" + a grammatical set with 64-bit numbers: so another
   unit, a sign, a missing '-', an empty element, a non-ASCII byte ... are all ignored. *)
Theorem c03_ignore : forall h L,
  range_parse (Some h) L <> RNone ->
  exists ws0 x l, h = bytes_eq_prefix ++ render_set ws0 x l /\
    elem_ok (ws0, x) /\ bounded x /\ Forall (fun p => elem_ok p /\ bounded (snd p)) l.
Proof. exact range_parse_not_ignored. Qed.

(* Every satisfiable result is a non-empty list of non-empty ranges inside the entity. *)
Theorem c03_ranges_within_entity : forall h L l, range_parse h L = RSat l ->
  l <> [] /\ Forall (fun p => fst p < snd p /\ snd p <= L) l.
Proof. exact range_parse_sat_wf. Qed.

(* Dispatch, for a GET/HEAD request carrying only a Range header, any entity length < 2^64:
   ignored -> complete 200 without Content-Range; nothing satisfiable -> 416 with bytes */L;
   one range -> 206 of exactly that range; several -> multipart 206 of exactly those ranges in
   request order iff the 80-byte-per-part estimate is below L (413 iff the true multipart length
   then reaches 2^64), else a complete 200. Hence: never multipart when the ranges alone total L
   or more (est_sum >= their total), always multipart-or-413 when the estimate is below L. *)
Theorem c03_dispatch : forall fmt_date parse_date now ent req r,
  e_len ent < U64 -> is_get_or_head req -> only_range req ->
  ~ In H_CONTENT_RANGE (map fst (e_hdrs ent)) ->
  serve_model fmt_date parse_date now ent req = Ok r ->
  match range_parse (r_range req) (e_len ent) with
  | RNone => status r = 200 /\ values H_CONTENT_RANGE (hdrs r) = [] /\
             (r_meth req = GET -> rplan r = PlExact 0 (e_len ent))
  | RNotSat => status r = 416 /\ rplan r = PlOnce None /\
               hdrs r = h0_of fmt_date now ent ++ [(H_CONTENT_RANGE, bs "bytes */" ++ dec (e_len ent))]
  | RSat [(a, e)] => status r = 206 /\ (r_meth req = GET -> rplan r = PlExact a e) /\
               In (H_CONTENT_RANGE, content_range_value a e (e_len ent)) (hdrs r)
  | RSat rs =>
      (est_sum rs < e_len ent ->
         (status r = 206 /\ In (H_CONTENT_TYPE, V_MULTIPART) (hdrs r) /\
          (r_meth req = GET -> exists ph total, rplan r = PlMulti ph rs total))
         \/ (status r = 413 /\ U64 <= tail_len (map (hdr_of (e_len ent) (each_part_headers (e_hdrs ent))) rs) rs + TRAILER_LEN))
      /\ (e_len ent <= est_sum rs -> status r = 200 /\ (r_meth req = GET -> rplan r = PlExact 0 (e_len ent)))
  end.
Proof. exact range_dispatch. Qed.

(* the estimate is at least the ranges' total, so "ranges alone total L or more" implies "estimate >= L" *)
Theorem c03_estimate_covers_total : forall rs, Forall (fun p => fst p <= snd p) rs ->
  fold_right (fun p acc => (snd p - fst p) + acc) 0 rs <= est_sum rs.
Proof.
  induction rs as [|[a e] t IH]; intros HF; cbn [fold_right est_sum fst snd]; [lia|].
  inversion HF; subst. specialize (IH H2). lia.
Qed.

(* The pinned tree: a suffix of zero selected an empty range; a suffix >= L was unsatisfiable;
   a leading '+' was accepted; last-byte-pos u64::MAX overflowed. *)
Example c03_legacy_refuted :
  range_elem_legacy 10 (bs "-0") = LPush (10, 10) /\ range_elem 10 (bs "-0") = ESkip /\
  range_elem_legacy 10 (bs "-10") = LSkip /\ range_elem 10 (bs "-10") = EPush (0, 10) /\
  range_elem_legacy 10 (bs "+1-2") = LPush (1, 3) /\ range_elem 10 (bs "+1-2") = EBad /\
  range_elem_legacy 10 (bs "0-18446744073709551615") = LPanic /\ range_elem 10 (bs "0-18446744073709551615") = EPush (0, 10).
Proof. vm_compute. repeat split; reflexivity. Qed.

(* non-vacuity: a concrete grammatical header meets the hypotheses of c03_parse *)
Example c03_parse_instance :
  range_parse (Some (bytes_eq_prefix ++ render_set [] (FromTo [48] [49]) [([32], Suffix [53])])) 10
  = RSat [(0, 2); (5, 10)].
Proof. reflexivity. Qed.

Check c03_parse : forall L ws0 x l,
  L < U64 -> elem_ok (ws0, x) -> bounded x -> Forall (fun p => elem_ok p /\ bounded (snd p)) l ->
  range_parse (Some (bytes_eq_prefix ++ render_set ws0 x l)) L = spec_resolve L (x :: map snd l).
Check c03_ignore : forall h L,
  range_parse (Some h) L <> RNone ->
  exists ws0 x l, h = bytes_eq_prefix ++ render_set ws0 x l /\
    elem_ok (ws0, x) /\ bounded x /\ Forall (fun p => elem_ok p /\ bounded (snd p)) l.
(* The same resolution seen end to end, with conditional headers and If-Range present: status, entity
   reads and body bytes are those of the AST-level specification Spec/Response.v (Proofs/EndToEnd.v). *)
Theorem c03_end_to_end : forall fmt_date parse_date content now (et : option tag) ent req im inm ims ius rast streams,
  e_len ent < U64 -> e_etag ent = option_map render_tag et -> r_meth req = GET ->
  wf_conds parse_date req im inm ims ius -> range_rel (e_len ent) (r_range req) rast ->
  let L := e_len ent in
  let in_force := match r_if_range req with
                  | None => true
                  | Some ifr => match e_etag ent with Some e => beq_bytes ifr e && starts_with DQ e | None => false end
                  end in
  let eh := match r_if_range req with Some _ => [] | None => e_hdrs ent end in
  let o := spec_outcome content et (option_map (fun m => m / NS) (e_lm ent)) im inm ims ius
                        (if in_force then rast else None) L eh in
  exists r, serve_model fmt_date parse_date now ent req = Ok r /\ status r = spec_status o /\
    snd (body_init streams (rplan r)) = (match o with OMulti _ => [] | _ => spec_reads L o end) /\
    (honest_for content streams (spec_reads L o) ->
     forall n rs_ bf, run n streams (fst (body_init streams (rplan r))) = Ok (rs_, bf) ->
       existsb is_perr rs_ = false /\
       forall body, spec_body content L eh o = Some body ->
         (exists rest, data_bytes rs_ ++ rest = body) /\ (existsb is_pend rs_ = true -> data_bytes rs_ = body)).
Proof. exact serve_refines_spec. Qed.

Print Assumptions c03_parse.
Print Assumptions c03_overflow_ignored.
Print Assumptions c03_ignore.
Print Assumptions c03_ranges_within_entity.
Print Assumptions c03_dispatch.
Print Assumptions c03_estimate_covers_total.
Print Assumptions c03_end_to_end.
