(* C03 -- Range headers resolve as RFC 7233 prescribes.
   This file only states the property theorems and closes each with a lemma proved in
   Proofs/; `Check` pins every statement, `Print Assumptions` shows what each rests on. *)
From HS Require Import Lib.Base Lib.Bytes Lib.Dec Model.Range Spec.RangeGrammar Proofs.RangeP.

(* Every grammatical byte-range-set -- any number of specs of the three forms, optional
   whitespace after commas (and before the first element), leading zeros, all numbers
   below 2^64 -- resolves, for every entity length below 2^64, to exactly the ranges
   RFC 7233 names, in request order; unsatisfiable specs are dropped; 416 iff none is left. *)
Theorem c03_parse : forall L ws0 x l,
  L < U64 -> elem_ok (ws0, x) -> bounded x -> Forall (fun p => elem_ok p /\ bounded (snd p)) l ->
  range_parse (Some (bytes_eq_prefix ++ render_set ws0 x l)) L = spec_resolve L (x :: map snd l).
Proof. exact range_parse_grammar. Qed.

(* A number of 2^64 or more anywhere in an otherwise grammatical header: ignored. *)
Theorem c03_overflow_ignored : forall L ws0 x l,
  elem_ok (ws0, x) -> Forall elem_ok l ->
  Exists (fun s => ~ bounded s) (x :: map snd l) ->
  range_parse (Some (bytes_eq_prefix ++ render_set ws0 x l)) L = RNone.
Proof. exact range_parse_overflow. Qed.

(* Whatever is not ignored is "bytes=" + a grammatical set with 64-bit numbers: so another
   unit, a sign, a missing '-', an empty element, a non-ASCII byte ... are all ignored. *)
Theorem c03_ignore : forall h L,
  range_parse (Some h) L <> RNone ->
  exists ws0 x l, h = bytes_eq_prefix ++ render_set ws0 x l /\
    elem_ok (ws0, x) /\ bounded x /\ Forall (fun p => elem_ok p /\ bounded (snd p)) l.
Proof. exact range_parse_not_ignored. Qed.

(* Every satisfiable result is a non-empty list of non-empty ranges inside the entity. *)
Theorem c03_ranges_within_entity : forall h L l, range_parse h L = RSat l ->
  l <> [] /\ Forall (fun p => fst p < snd p /\ snd p <= L) l.
Proof. exact range_parse_sat_wf. Qed.

(* non-vacuity: a concrete grammatical header meets the hypotheses of c03_parse *)
Example c03_parse_instance :
  range_parse (Some (bytes_eq_prefix ++ render_set [] (FromTo [48] [49]) [([32], Suffix [53])])) 10
  = RSat [(0, 2); (5, 10)].
Proof. reflexivity. Qed.

Check c03_parse : forall L ws0 x l,
  L < U64 -> elem_ok (ws0, x) -> bounded x -> Forall (fun p => elem_ok p /\ bounded (snd p)) l ->
  range_parse (Some (bytes_eq_prefix ++ render_set ws0 x l)) L = spec_resolve L (x :: map snd l).
Check c03_ignore : forall h L,
  range_parse (Some h) L <> RNone ->
  exists ws0 x l, h = bytes_eq_prefix ++ render_set ws0 x l /\
    elem_ok (ws0, x) /\ bounded x /\ Forall (fun p => elem_ok p /\ bounded (snd p)) l.
Print Assumptions c03_parse.
Print Assumptions c03_overflow_ignored.
Print Assumptions c03_ignore.
Print Assumptions c03_ranges_within_entity.
