(* C05 -- If-Range: partial content only against an identical strong validator. *)
From HS Require Import Lib.Base Lib.Bytes Model.Etag Model.Serve Spec.Validators Proofs.ServeP Proofs.DecisionP Proofs.EchoP.

(* The gate, for every ETag and every If-Range value (any bytes): the Range header stays in force
   iff If-Range is absent, or the entity has an ETag that begins with a double quote (is strong)
   and the If-Range value is byte-identical to it. Dates, weak tags on either side, prefixes,
   case variants, garbage: Range is dropped. *)
Theorem c05_gate : forall etag req,
  if_range_gate etag req =
  match r_if_range req with
  | None => (r_range req, true)
  | Some ifr =>
      match etag with
      | Some e => if beq_bytes ifr e && starts_with DQ e then (r_range req, false) else (None, true)
      | None => (None, true)
      end
  end.
Proof. exact gate_spec. Qed.

(* Never 206 unless If-Range is absent or matches: for every request and entity. *)
Theorem c05_never_206 : forall fmt_date parse_date now ent req r,
  e_len ent < U64 -> serve_model fmt_date parse_date now ent req = Ok r -> status r = 206 ->
  r_if_range req = None \/ exists ifr, r_if_range req = Some ifr /\ if_range_matches (e_etag ent) ifr.
Proof. exact never_206_without_matching_if_range. Qed.

Theorem c05_mismatch_ignores_range : forall etag req ifr,
  r_if_range req = Some ifr -> ~ if_range_matches etag ifr -> if_range_gate etag req = (None, true).
Proof. exact if_range_mismatch_ignores_range. Qed.
(* with the matching strong tag the Range header is still honoured (and entity headers are
   left out of the partial response, RFC 7233 section 4.1) *)
Theorem c05_match_keeps_range : forall etag req ifr,
  r_if_range req = Some ifr -> if_range_matches etag ifr -> if_range_gate etag req = (r_range req, false).
Proof. exact if_range_match_keeps_range. Qed.

Print Assumptions c05_gate.
Print Assumptions c05_never_206.
Print Assumptions c05_mismatch_ignores_range.
Print Assumptions c05_match_keeps_range.
