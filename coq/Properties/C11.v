(* C11 -- theorems being added *)
From HS Require Import Lib.Base.
