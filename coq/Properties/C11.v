(* C11 -- abort and disconnect are signalled to the other side, never swallowed (sequential part;
   the interleavings with a concurrently polling consumer are C10's transition system). *)
From HS Require Import Lib.Base Model.Chunker Proofs.ChunkerP Proofs.ChunkerHist.

(* abort: the queue is replaced by the error, the registered consumer is woken, the body does
   not claim to be at end-of-stream, the writer is dead *)
Theorem c11_abort : forall s, Live s ->
  let '(s', r, wk) := cstep s OAbort in
  c_st s' = SErr /\ c_w s' = WDead /\ c_buf s' = [] /\ wk = opt_list (c_waker s) /\ chunker_eos s' = false.
Proof. exact abort_effect. Qed.
(* the next terminal event is that error -- never a clean end -- and then the body is fused *)
Theorem c11_abort_is_reported : forall s w, c_st s = SErr -> c_reader s = true ->
  let '(s', r, wk) := cstep s (OPoll w) in r = RPoll (Some (Some None)) /\ c_st s' = SFused.
Proof. exact pending_error_is_reported. Qed.
(* no data is delivered from the error / fused states: what was delivered before the abort is
   a prefix of what was accepted (c08_accounting up to the abort) and stays all there is *)
Theorem c11_no_data_after_abort : forall s w, c_st s = SErr \/ c_st s = SFused ->
  let '(s', r, wk) := cstep s (OPoll w) in delivered_of r = [] /\ (c_st s' = SErr \/ c_st s' = SFused).
Proof. exact no_data_after_error. Qed.
(* every later write or flush fails *)
Theorem c11_dead_writer_refuses : forall s, c_w s = WDead ->
  (forall d, cstep s (OWrite d) = (s, RWrite None, [])) /\
  cstep s OFlush = (s, RIo false, []) /\
  (forall d, d <> [] -> exists wk, cstep s (OWriteAll d) = (s, RIo false, wk)).
Proof. exact dead_writer_refuses. Qed.

(* disconnect (with fix F9): dropping the body releases what was queued ... *)
Theorem c11_disconnect : forall s, c_reader s = true ->
  let '(s', r, wk) := cstep s ODropReader in c_st s' = SFused /\ pending s' = [] /\ c_waker s' = None /\ c_buf s' = c_buf s.
Proof. exact disconnect_effect. Qed.
(* ... a flush with buffered bytes fails and kills the writer ... *)
Theorem c11_flush_after_disconnect : forall s, c_st s = SFused -> c_w s = WRaw -> c_buf s <> [] ->
  let '(s', r, wk) := cstep s OFlush in r = RIo false /\ c_w s' = WDead /\ c_buf s' = [].
Proof. exact flush_after_disconnect. Qed.
(* ... a chunk-completing write fails; otherwise the buffer stays below cap: never unbounded *)
Theorem c11_write_after_disconnect : forall s d, CInv s -> c_st s = SFused -> c_w s = WRaw ->
  let '(s', r, wk) := cstep s (OWrite d) in
  (c_cap s <= lenN (c_buf s) + lenN d -> r = RWrite None /\ c_w s' = WDead /\ c_buf s' = []) /\
  (lenN (c_buf s) + lenN d < c_cap s -> r = RWrite (Some (lenN d)) /\ lenN (c_buf s') < c_cap s).
Proof. exact write_after_disconnect. Qed.

(* ---- whole histories (and, by c10_schedules_are_histories, all interleavings) ---- *)
(* An abort at any point of any fault-free history, followed by ANY operations in any order: every
   later write and flush fails (write_all of a non-empty buffer too), nothing is ever delivered or
   woken again, and the first poll of the body reports the error -- never an end before it. *)
Theorem c11_abort_history : forall s ops, Good s -> Live s ->
  let '(s1, _, _) := cstep s OAbort in
  let '(sf, rs) := crun s1 ops in
  Forall2 (fun o p => refused o (fst p) /\ delivered_of (fst p) = [] /\ snd p = []) ops rs /\
  match first_poll ops rs with Some r => r = RPoll (Some (Some None)) | None => True end.
Proof. exact abort_history. Qed.

(* A body drop at any point of any history, followed by ANY operations: the queue is and stays
   released, nothing is delivered or woken, and the writer never holds a full chunk. *)
Theorem c11_disconnect_history : forall s ops, Gen s -> c_reader s = true ->
  let '(s1, _, _) := cstep s ODropReader in
  let '(sf, rs) := crun s1 ops in
  c_st sf = SFused /\ pending sf = [] /\ lenN (c_buf sf) < c_cap s /\
  Forall (fun p => delivered_of (fst p) = [] /\ snd p = []) rs.
Proof. exact disconnect_history. Qed.

(* After the first failed write or flush everything fails: the failure leaves a writer that is not
   Raw, and such a writer refuses every operation of every continuation. *)
Theorem c11_failure_is_final : forall s o, NonOk s -> CInv s ->
  let '(s', r, wk) := cstep s o in
  (match o, r with OWrite _, RWrite None => True | OFlush, RIo false => True | _, _ => False end) ->
  c_w s' <> WRaw /\
  forall ops, let '(sf, rs) := crun s' ops in Forall2 (fun o p => refused o (fst p)) ops rs.
Proof. exact failure_is_final. Qed.

(* the pinned tree: the body drop changed nothing, so 3 x (write a chunk, flush) all succeeded *)
Example c11_legacy_refuted :
  let run := fold_left (fun s o => fst (fst (cstep_legacy s o))) [ODropReader] (cinit 2) in
  let '(s1, r1, _) := cstep_legacy run (OWrite [1; 2]) in
  let '(s2, r2, _) := cstep_legacy s1 OFlush in
  let '(s3, r3, _) := cstep (fst (fst (cstep (cinit 2) ODropReader))) (OWrite [1; 2]) in
  (r1, r2, r3) = (RWrite (Some 2), RIo true, RWrite None).
Proof. vm_compute. reflexivity. Qed.

Print Assumptions c11_abort.
Print Assumptions c11_abort_is_reported.
Print Assumptions c11_no_data_after_abort.
Print Assumptions c11_dead_writer_refuses.
Print Assumptions c11_disconnect.
Print Assumptions c11_flush_after_disconnect.
Print Assumptions c11_write_after_disconnect.
Print Assumptions c11_abort_history.
Print Assumptions c11_disconnect_history.
Print Assumptions c11_failure_is_final.
