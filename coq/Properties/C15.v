(* C15 -- HEAD mirrors GET without touching entity data. *)
From HS Require Import Lib.Base Lib.Bytes Model.Body Model.Serve Model.Negot Model.Builder Proofs.ServeP Proofs.ServeProps Proofs.BuilderP.

(* For any request, entity, clock and date oracle: the response to the request sent with HEAD
   has the same status and the same header list (Content-Length, Content-Range, the multipart
   Content-Type included) as the response to it sent with GET; the body plan is the GET plan
   with every entity-reading body replaced by the empty body. *)
Theorem c15_head_mirrors_get : forall fmt_date parse_date now ent req,
  serve_model fmt_date parse_date now ent (with_meth HEAD req) =
  match serve_model fmt_date parse_date now ent (with_meth GET req) with
  | Ok g => Ok {| status := status g; hdrs := hdrs g; rplan := head_plan (rplan g) |}
  | Panic t => Panic t
  end.
Proof. exact head_mirrors_get. Qed.

(* Serving HEAD never asks the entity for body bytes (no get_range call is made at serve time,
   and a Once body makes none later), and for 200 / 206 / 304 / 416 the body is empty. *)
Theorem c15_head_reads_nothing : forall fmt_date parse_date now ent req r streams,
  e_len ent < U64 -> r_meth req = HEAD ->
  serve_model fmt_date parse_date now ent req = Ok r ->
  snd (body_init streams (rplan r)) = [] /\
  (In (status r) [200; 206; 304; 416] -> rplan r = PlOnce None).
Proof. exact head_reads_nothing. Qed.

(* `streaming_body` likewise: for any Accept-Encoding value and any sequence of builder calls, the
   request sent with HEAD makes build() return what it returns for the same request with any other
   method -- the same headers (Vary, Content-Encoding), or the same refusal of a zero chunk size --
   but no writer; any other method gets a writer. *)
Theorem c15_streaming_head_mirrors : forall meth ae cs, beq_bytes meth HEAD_M = false ->
  exists bh bg, streaming_body HEAD_M ae = Ok bh /\ streaming_body meth ae = Ok bg /\
  match build (fold_left bapply cs bg) with
  | Ok (h, w) => build (fold_left bapply cs bh) = Ok (h, None) /\ w <> None
  | Panic t => build (fold_left bapply cs bh) = Panic t
  end.
Proof. exact streaming_head_mirrors. Qed.

Print Assumptions c15_head_mirrors_get.
Print Assumptions c15_head_reads_nothing.
Print Assumptions c15_streaming_head_mirrors.
