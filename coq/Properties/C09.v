(* C09 -- streaming_body (gzip): one valid gzip member; flush makes data decodable.
   What Coq carries is the transport: whatever byte strings the encoder emits reach the client
   exactly once and in order through the chunk writer's partial writes (the retry loops of
   flate2 -- write_header, zio::Writer::dump, the trailer loop -- are std::io::Write::write_all
   over the chunk writer: `write_all_loop`), a flush leaves nothing behind, the drop publishes the
   rest and ends the body. The DEFLATE/gzip bit stream itself is flate2/miniz_oxide's: it enters as
   the stated contract `codec_ok` and is checked on every run by an independent inflater. *)
From HS Require Import Lib.Base Model.Chunker Model.GzWriter Proofs.ChunkerP Proofs.GzP.

(* one emission of the encoder pushed through the chunk writer: all of it is accepted, in order,
   whatever the chunk size and the fill level; the loop terminates (each write accepts >= 1 byte) *)
Theorem c09_push_all : forall fuel s d woken, CInv s -> Live s -> (length d <= fuel)%nat ->
  exists s' wk, write_all_loop fuel bw_write s d woken = (s', true, wk) /\
    CInv s' /\ Live s' /\ c_reader s' = c_reader s /\ c_cap s' = c_cap s /\
    pending s' ++ c_buf s' = pending s ++ c_buf s ++ d.
Proof. exact write_all_live. Qed.

(* a session: emissions e1 .. ek, each pushed (OWriteAll), with flushes and consumer polls
   anywhere, then the drop: what is delivered, queued and buffered is the concatenation of the
   emissions *)
Theorem c09_transport : forall ops s, Good s -> Forall benign ops ->
  let '(sf, rs) := crun s ops in
  Good sf /\ pending s ++ c_buf s ++ acc_total ops rs = del_total rs ++ pending sf ++ c_buf sf.
Proof. exact history_accounting. Qed.

Section Codec.
  (* the encoder's contract: `member payload stream` = stream is exactly one well-formed gzip
     member of payload; `decodes_prefix payload stream` = a streaming decoder fed stream has
     reproduced payload. Abstract: supplied by flate2, checked by the inflater oracle. *)
  Variable member : bytes -> bytes -> Prop.
  Variable decodes_prefix : bytes -> bytes -> Prop.

  (* If what the encoder emitted over the session is one gzip member of the payload, then so is
     the body the client receives: the transport adds, drops and reorders nothing. *)
  Theorem c09_member : forall ops cap payload, 0 < cap -> Forall benign ops ->
    let '(sf, rs) := crun (cinit cap) ops in
    pending sf = [] -> c_buf sf = [] ->
    member payload (acc_total ops rs) -> member payload (del_total rs).
  Proof.
    intros ops cap payload Hcap HB. pose proof (history_accounting ops (cinit cap) (good_init cap Hcap) HB) as H.
    destruct (crun (cinit cap) ops) as [sf rs]. destruct H as [_ Eq]. intros Hp Hb Hm.
    cbn [pending cinit c_st c_buf concat app] in Eq. rewrite Hp, Hb, !app_nil_r in Eq. now rewrite <- Eq.
  Qed.

  (* After a flush (nothing buffered) and a drain (nothing queued) the client holds everything the
     encoder emitted so far: if that decodes to everything written before the flush, so does
     what the client holds. *)
  Theorem c09_flush_decodable : forall ops cap payload, 0 < cap -> Forall benign ops ->
    let '(sf, rs) := crun (cinit cap) ops in
    pending sf = [] -> c_buf sf = [] ->
    decodes_prefix payload (acc_total ops rs) -> decodes_prefix payload (del_total rs).
  Proof.
    intros ops cap payload Hcap HB. pose proof (history_accounting ops (cinit cap) (good_init cap Hcap) HB) as H.
    destruct (crun (cinit cap) ops) as [sf rs]. destruct H as [_ Eq]. intros Hp Hb Hm.
    cbn [pending cinit c_st c_buf concat app] in Eq. rewrite Hp, Hb, !app_nil_r in Eq. now rewrite <- Eq.
  Qed.
End Codec.

(* The Gzipped BodyWriter itself (Model/GzWriter.v: src/gzip.rs over an abstract encoder). For EVERY
   encoder -- the functions that say what write, flush and finish emit are arbitrary --, every chunk
   size and every interleaving of consumer polls: while the session is alive every write and flush
   succeeds; what the encoder emitted is, in order and once, what was delivered, is queued or is
   buffered; after a flush nothing is held back in the writer ... *)
Theorem c09_gz_live : forall enc enc_write enc_flush enc_finish ops s e, Good s -> Live s -> Forall session_op ops ->
  let '(sf, gf, rs, ems) := grun enc enc_write enc_flush enc_finish s (GGz enc e) ops in
  Good sf /\ Live sf /\ c_cap sf = c_cap s /\
  Forall2 (fun o p => succeeded o (fst p)) ops rs /\
  (exists ef, gf = GGz enc ef /\ forall rest, session enc enc_write enc_flush enc_finish e (ops ++ rest) = ems ++ session enc enc_write enc_flush enc_finish ef rest) /\
  pending s ++ c_buf s ++ ems = del_total rs ++ pending sf ++ c_buf sf /\
  (match rev ops with OFlush :: _ => c_buf sf = [] | _ => True end).
Proof. exact gz_live_run. Qed.

(* ... and when the writer is dropped -- after any writes and flushes, or none at all -- the finish
   emission is pushed exactly once, so that the client, draining the body, receives exactly
   `session e0 ops`, the encoder's own output for that sequence of operations, and then the clean end.
   (With flate2's contract for `session` -- one gzip member of the bytes written; decodable up to each
   sync flush -- these are the two clauses of the property; that contract is what the inflater checks.) *)
Theorem c09_gz_session : forall enc enc_write enc_flush enc_finish cap e0 body, 0 < cap -> Forall session_op body ->
  let '(s, g, rs, ems) := grun enc enc_write enc_flush enc_finish (cinit cap) (GGz enc e0) (body ++ [ODropWriter]) in
  ems = session enc enc_write enc_flush enc_finish e0 (body ++ [ODropWriter]) /\
  exists q rb, c_st s = SOk q rb true /\ c_w s = WGone /\ Good s /\
    del_total rs ++ concat q = ems /\
    let '(sf, rs2) := crun s (repeat (OPoll 0) (S (length q))) in
    c_st sf = SFused /\ del_total rs ++ del_total rs2 = session enc enc_write enc_flush enc_finish e0 (body ++ [ODropWriter]) /\
    exists rs0, rs2 = rs0 ++ [(RPoll (Some None), [])].
Proof. exact gz_session. Qed.

(* non-vacuity with a toy encoder (header "H", each byte doubled, flush mark "F", trailer "T"):
   a session with no write at all still delivers header-less finish output -- here "T" *)
Example c09_gz_instance :
  let ew := fun (e : bool) (d : bytes) => (true, (if e then [] else [72]) ++ flat_map (fun b => [b; b]) d, lenN d) in
  let ef := fun (e : bool) => (true, (if e then [] else [72]) ++ [70]) in
  let fin := fun (e : bool) => (if e then [] else [72]) ++ [84] in
  (let '(_, _, rs, _) := grun bool ew ef fin (cinit 2) (GGz bool false) [OWrite [1]; OFlush; OPoll 0; OPoll 0; ODropWriter; OPoll 0; OPoll 0] in del_total rs)
  = [72; 1; 1; 70; 70; 84] /\
  (let '(_, _, rs, _) := grun bool ew ef fin (cinit 2) (GGz bool false) [ODropWriter; OPoll 0] in del_total rs) = [72; 84].
Proof. vm_compute. split; reflexivity. Qed.

Print Assumptions c09_push_all.
Print Assumptions c09_transport.
Print Assumptions c09_member.
Print Assumptions c09_flush_decodable.
Print Assumptions c09_gz_live.
Print Assumptions c09_gz_session.
