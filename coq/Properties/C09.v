(* C09 -- streaming_body (gzip): one valid gzip member; flush makes data decodable.
   What Coq carries is the transport: whatever byte strings the encoder emits reach the client
   exactly once and in order through the chunk writer's partial writes (the retry loops of
   flate2 -- write_header, zio::Writer::dump, the trailer loop -- are std::io::Write::write_all
   over the chunk writer: `write_all_loop`), a flush leaves nothing behind, the drop publishes the
   rest and ends the body. The DEFLATE/gzip bit stream itself is flate2/miniz_oxide's: it enters as
   the stated contract `codec_ok` and is checked on every run by an independent inflater. *)
From HS Require Import Lib.Base Model.Chunker Proofs.ChunkerP.

(* one emission of the encoder pushed through the chunk writer: all of it is accepted, in order,
   whatever the chunk size and the fill level; the loop terminates (each write accepts >= 1 byte) *)
Theorem c09_push_all : forall fuel s d woken, CInv s -> Live s -> (length d <= fuel)%nat ->
  exists s' wk, write_all_loop fuel bw_write s d woken = (s', true, wk) /\
    CInv s' /\ Live s' /\ c_reader s' = c_reader s /\ c_cap s' = c_cap s /\
    pending s' ++ c_buf s' = pending s ++ c_buf s ++ d.
Proof. exact write_all_live. Qed.

(* a session: emissions e1 .. ek, each pushed (OWriteAll), with flushes and consumer polls
   anywhere, then the drop: what is delivered, queued and buffered is the concatenation of the
   emissions *)
Theorem c09_transport : forall ops s, Good s -> Forall benign ops ->
  let '(sf, rs) := crun s ops in
  Good sf /\ pending s ++ c_buf s ++ acc_total ops rs = del_total rs ++ pending sf ++ c_buf sf.
Proof. exact history_accounting. Qed.

Section Codec.
  (* the encoder's contract: `member payload stream` = stream is exactly one well-formed gzip
     member of payload; `decodes_prefix payload stream` = a streaming decoder fed stream has
     reproduced payload. Abstract: supplied by flate2, checked by the inflater oracle. *)
  Variable member : bytes -> bytes -> Prop.
  Variable decodes_prefix : bytes -> bytes -> Prop.

  (* If what the encoder emitted over the session is one gzip member of the payload, then so is
     the body the client receives: the transport adds, drops and reorders nothing. *)
  Theorem c09_member : forall ops cap payload, 0 < cap -> Forall benign ops ->
    let '(sf, rs) := crun (cinit cap) ops in
    pending sf = [] -> c_buf sf = [] ->
    member payload (acc_total ops rs) -> member payload (del_total rs).
  Proof.
    intros ops cap payload Hcap HB. pose proof (history_accounting ops (cinit cap) (good_init cap Hcap) HB) as H.
    destruct (crun (cinit cap) ops) as [sf rs]. destruct H as [_ Eq]. intros Hp Hb Hm.
    cbn [pending cinit c_st c_buf concat app] in Eq. rewrite Hp, Hb, !app_nil_r in Eq. now rewrite <- Eq.
  Qed.

  (* After a flush (nothing buffered) and a drain (nothing queued) the client holds everything the
     encoder emitted so far: if that decodes to everything written before the flush, so does
     what the client holds. *)
  Theorem c09_flush_decodable : forall ops cap payload, 0 < cap -> Forall benign ops ->
    let '(sf, rs) := crun (cinit cap) ops in
    pending sf = [] -> c_buf sf = [] ->
    decodes_prefix payload (acc_total ops rs) -> decodes_prefix payload (del_total rs).
  Proof.
    intros ops cap payload Hcap HB. pose proof (history_accounting ops (cinit cap) (good_init cap Hcap) HB) as H.
    destruct (crun (cinit cap) ops) as [sf rs]. destruct H as [_ Eq]. intros Hp Hb Hm.
    cbn [pending cinit c_st c_buf concat app] in Eq. rewrite Hp, Hb, !app_nil_r in Eq. now rewrite <- Eq.
  Qed.
End Codec.

Print Assumptions c09_push_all.
Print Assumptions c09_transport.
Print Assumptions c09_member.
Print Assumptions c09_flush_decodable.
