(* C20 -- terminated bodies stay terminated. *)
From HS Require Import Lib.Base Model.Body Model.Chunker Proofs.BodyP Proofs.BodyRun Proofs.AbortSteps.

(* Once a body (Once, ExactLen, Multipart) has reported its end or an error, no number of
   further polls yields another byte -- provided the entity's own streams stay finished once
   they have failed (`bfused`). That no such poll panics is c20_no_panic. *)
Theorem c20_no_more_data : forall n1 n2 streams b rs1 r bm rs2 bf,
  BInv b -> bfused b ->
  run n1 streams b = Ok (rs1 ++ [r], bm) -> is_terminal r = true ->
  run n2 streams bm = Ok (rs2, bf) ->
  Forall (fun r => data_len r = 0) rs2.
Proof. exact terminated_stays_terminated. Qed.

Theorem c20_no_panic : forall n streams b, BInv b -> exists rs bf, run n streams b = Ok (rs, bf) /\ BInv bf.
Proof. exact run_total. Qed.

(* A multipart body is fused after any terminal event (with fix F8 this includes the stream of
   the failed part): every further poll is a clean None and the state no longer changes. *)
Theorem c20_multipart_fused : forall streams m m' r, MInv m -> mp_poll MP_FUEL streams m = Ok (m', r) ->
  is_terminal r = true -> mp_poll MP_FUEL streams m' = Ok (m', PEnd).
Proof.
  intros streams m m' r HI HH Ht. destruct (mp_terminal_fuses streams m m' r HI HH Ht) as (H1 & H2 & H3).
  now apply mp_done_stays.
Qed.

(* The streaming body under a consumer that polls from inside the wake-up, i.e. BETWEEN the two steps of
   BodyWriter::abort (publish the error and wake; then drop the chunk writer): the poll takes the error,
   the drop that follows queues nothing -- whatever was still buffered in the writer --, and every later
   poll is a clean end. (The model's OAbort is exactly these two steps: abort_is_two_steps.) *)
Theorem c20_poll_between_the_steps_of_abort : forall s w q rb wd, c_reader s = true -> c_st s = SOk q rb wd ->
  let '(s1, _) := abort_section s in
  let '(s2, r, _) := cstep s1 (OPoll w) in
  let '(s3, _) := drop_writer_inner (set_w s2 WDead) in
  r = RPoll (Some (Some None)) /\ c_st s3 = SFused /\ c_buf s3 = [] /\
  forall w', cstep s3 (OPoll w') = (s3, RPoll (Some None), []).
Proof. exact poll_between_the_steps_of_abort. Qed.

(* The pinned tree violated this: after an entity error inside a part, the next poll polled
   the failed part again and the one after indexed past the part list. *)
Example c20_legacy_refuted :
  let m := {| m_cur := None; m_state := 0; m_ph := [[1]; [2]]; m_ranges := [(0, 1); (5, 6)]; m_rem := 13; m_calls := [] |} in
  let streams := [[EvErr 7]] in
  match mp_poll_legacy MP_FUEL streams m with
  | Ok (m1, _) =>
      match mp_poll_legacy MP_FUEL streams m1 with
      | Ok (m2, r2) =>
          match mp_poll_legacy MP_FUEL streams m2 with
          | Ok (m3, r3) => (r2, r3, mp_poll_legacy MP_FUEL streams m3)
          | Panic t => (r2, PEnd, Panic t)
          end
      | Panic t => (PEnd, PEnd, Panic t)
      end
  | Panic t => (PEnd, PEnd, Panic t)
  end = (PErr (ErrEntity 7), PErr (ErrShort 1), Panic P_INDEX).
Proof. vm_compute. reflexivity. Qed.

Print Assumptions c20_no_more_data.
Print Assumptions c20_no_panic.
Print Assumptions c20_multipart_fused.
Print Assumptions c20_poll_between_the_steps_of_abort.
