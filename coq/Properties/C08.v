(* C08 -- streaming_body (identity): the client gets exactly the written bytes, once, in order. *)
From HS Require Import Lib.Base Model.Chunker Proofs.ChunkerP Proofs.ChunkerHist Proofs.StreamSession.

(* For any sequence of write, write_all, flush and poll operations and the drop of the writer --
   any length, any chunk size >= 1, any interleaving of consumer polls -- the concatenation of the
   byte prefixes that write reported as accepted equals, in order, what has been delivered, then
   what is queued, then what is still buffered; the state stays well-formed (`Good`). *)
Theorem c08_accounting : forall ops s, Good s -> Forall benign ops ->
  let '(sf, rs) := crun s ops in
  Good sf /\ pending s ++ c_buf s ++ acc_total ops rs = del_total rs ++ pending sf ++ c_buf sf.
Proof. exact history_accounting. Qed.
Theorem c08_initial_state_good : forall cap, 0 < cap -> Good (cinit cap).
Proof. exact good_init. Qed.

(* Once the writer has been dropped, polling delivers every queued chunk in order and then ends cleanly. *)
Theorem c08_delivery : forall ready s rb, Good s -> c_w s = WGone -> c_st s = SOk ready rb true ->
  let '(sf, rs) := crun s (repeat (OPoll 0) (S (length ready))) in
  c_st sf = SFused /\ del_total rs = concat ready /\
  (exists rs0, rs = rs0 ++ [(RPoll (Some None), [])]).
Proof. exact drain_finished. Qed.

(* After flush returns Ok every byte accepted so far is in the shared queue (nothing is left in
   the writer), i.e. available to the consumer without any further producer action. *)
Theorem c08_flush : forall s, Good s -> Live s ->
  let '(s', r, wk) := cstep s OFlush in r = RIo true /\ c_buf s' = [] /\ pending s' = pending s ++ c_buf s.
Proof. exact flush_publishes. Qed.

(* A write of a non-empty buffer to a live body accepts at least one byte (and at most all). *)
Theorem c08_progress : forall s d, Good s -> Live s -> d <> [] ->
  exists s' n wk, cstep s (OWrite d) = (s', RWrite (Some n), wk) /\ 1 <= n /\ n <= lenN d.
Proof. exact write_progress. Qed.

(* Every frame is non-empty. *)
Theorem c08_frames_nonempty : forall s w s' d wk, CInv s ->
  cstep s (OPoll w) = (s', RPoll (Some (Some (Some d))), wk) -> d <> [].
Proof. exact frames_nonempty. Qed.

Example c08_instance :
  let '(sf, rs) := crun (cinit 4) [OWrite [1;2;3;4;5;6]; OWrite [5;6]; OFlush; ODropWriter; OPoll 1; OPoll 1; OPoll 1] in
  map fst rs = [RWrite (Some 4); RWrite (Some 2); RIo true; RUnit;
                RPoll (Some (Some (Some [1;2;3;4]))); RPoll (Some (Some (Some [5;6]))); RPoll (Some None)].
Proof. vm_compute. reflexivity. Qed.

(* In EVERY history from a fresh body -- any operations in any order, aborts and body drops
   included, any chunk size -- what the consumer has received is a prefix of what the writes
   accepted: nothing is ever reordered, duplicated or invented, whatever goes wrong. *)
Theorem c08_delivered_prefix_of_accepted : forall cap ops, 0 < cap ->
  let '(sf, rs) := crun (cinit cap) ops in exists rest, acc_total ops rs = del_total rs ++ rest.
Proof. exact delivered_prefix_of_accepted. Qed.

(* ... and a clean end (the first terminal event) is reported only once everything accepted has
   been delivered. *)
Theorem c08_clean_end_complete : forall cap ops w, 0 < cap ->
  let '(s, rs) := crun (cinit cap) ops in
  IsOk s -> snd (fst (cstep s (OPoll w))) = RPoll (Some None) -> acc_total ops rs = del_total rs.
Proof. exact clean_end_complete. Qed.

(* A whole identity session, for every chunk size: write_all and flush in any order with consumer
   polls anywhere all succeed; after the drop of the writer everything written has been delivered or
   is queued, and draining delivers the rest in order and then the clean end: the client holds
   exactly the bytes written, once and in order. *)
Theorem c08_session : forall cap body, 0 < cap -> Forall raw_op body ->
  let '(s, rs) := crun (cinit cap) (body ++ [ODropWriter]) in
  exists q rb, c_st s = SOk q rb true /\ c_w s = WGone /\ Good s /\
    del_total rs ++ concat q = written body /\
    let '(sf, rs2) := crun s (repeat (OPoll 0) (S (length q))) in
    c_st sf = SFused /\ del_total rs ++ del_total rs2 = written body /\
    exists rs0, rs2 = rs0 ++ [(RPoll (Some None), [])].
Proof. exact raw_session. Qed.
Theorem c08_session_live : forall ops s, Good s -> Live s -> Forall raw_op ops ->
  let '(sf, rs) := crun s ops in
  Good sf /\ Live sf /\ c_cap sf = c_cap s /\
  Forall2 (fun o p => raw_ok o (fst p)) ops rs /\
  pending s ++ c_buf s ++ written ops = del_total rs ++ pending sf ++ c_buf sf.
Proof. exact raw_live_run. Qed.

Print Assumptions c08_accounting.
Print Assumptions c08_initial_state_good.
Print Assumptions c08_delivery.
Print Assumptions c08_flush.
Print Assumptions c08_progress.
Print Assumptions c08_frames_nonempty.
Print Assumptions c08_delivered_prefix_of_accepted.
Print Assumptions c08_clean_end_complete.
Print Assumptions c08_session.
Print Assumptions c08_session_live.
