(* C14 -- validators and entity metadata are exposed faithfully and round-trip. *)
From Coq Require Import String.
From HS Require Import Lib.Base Lib.Bytes Lib.Dec Model.Etag Model.Serve Spec.Validators
  Proofs.EtagP Proofs.ServeP Proofs.ServeProps Proofs.DecisionP Proofs.EchoP.

(* Every 200, 206, 304, 412 and 416 begins with the same block of headers ... *)
Theorem c14_validators_exposed : forall fmt_date parse_date now ent req r,
  e_len ent < U64 -> serve_model fmt_date parse_date now ent req = Ok r ->
  In (status r) [200; 206; 304; 412; 416] ->
  exists rest, hdrs r = h0_of fmt_date now ent ++ rest.
Proof. exact validators_exposed. Qed.

(* ... which is: Accept-Ranges: bytes; the ETag verbatim; and with a modification time m: Date = now,
   Last-Modified = l with l <= now, l = m truncated to the second unless that lies in the future. *)
Theorem c14_h0_contents : forall fmt_date (parse_date : bytes -> option N) now ent,
  In (H_ACCEPT_RANGES, bs "bytes") (h0_of fmt_date now ent) /\
  (forall e, e_etag ent = Some e -> In (H_ETAG, e) (h0_of fmt_date now ent)) /\
  (forall m, e_lm ent = Some m ->
     In (H_DATE, fmt_date now) (h0_of fmt_date now ent) /\
     exists l, In (H_LAST_MODIFIED, fmt_date l) (h0_of fmt_date now ent) /\ l <= now /\
               (m / NS <= now -> l = m / NS) /\ (now < m / NS -> l = now)).
Proof. exact h0_contents. Qed.

(* 200 and single-range 206 without If-Range end with every header the entity supplies (multipart
   carries them in every part, C06); 304 / 412 carry exactly the block above, 416 adds Content-Range. *)
Theorem c14_entity_headers : forall fmt_date parse_date now ent req r,
  e_len ent < U64 -> serve_model fmt_date parse_date now ent req = Ok r ->
  (status r = 200 -> exists pre, hdrs r = pre ++ e_hdrs ent) /\
  (status r = 206 -> r_if_range req = None -> values H_CONTENT_TYPE (hdrs r) <> [bs "multipart/byteranges; boundary=B"] ->
     exists pre, hdrs r = pre ++ e_hdrs ent) /\
  (In (status r) [304; 412] -> hdrs r = h0_of fmt_date now ent) /\
  (status r = 416 -> hdrs r = h0_of fmt_date now ent ++ [(H_CONTENT_RANGE, bs "bytes */" ++ dec (e_len ent))]).
Proof. exact entity_headers_policy. Qed.

(* Echo histories. A client echoes any subset of what it was served -- the ETag in If-None-Match
   (b_inm) and, if strong, in If-Match (b_im); the Last-Modified second in If-Modified-Since (b_ims)
   and If-Unmodified-Since (b_ius), where the served Last-Modified is the entity's own second
   (modification time not in the future: the class of the recorded known finding is excluded by
   exactly this). Then: never 412, never 400, and 304 whenever the ETag was echoed in
   If-None-Match or, without that, the date in If-Modified-Since. Under the stated oracle
   hypothesis parse (fmt s) = s. *)
Theorem c14_echo : forall fmt_date parse_date now (et : option tag) ent req r (b_inm b_im b_ims b_ius : bool),
  e_len ent < U64 -> date_roundtrip fmt_date parse_date -> is_get_or_head req ->
  e_etag ent = option_map render_tag et -> match et with Some t => tag_ok t | None => True end ->
  (b_im = true -> match et with Some t => t_weak t = false | None => True end) ->
  echo_conds fmt_date et (option_map (fun m => m / NS) (e_lm ent)) b_inm b_im b_ims b_ius req ->
  serve_model fmt_date parse_date now ent req = Ok r ->
  status r <> 412 /\ status r <> 400 /\
  ((b_inm = true /\ et <> None) \/ ((b_inm = false \/ et = None) /\ b_ims = true /\ e_lm ent <> None) -> status r = 304).
Proof. exact echo_gets_cache_friendly_answer. Qed.

(* If-Range with the served strong ETag keeps the requested Range in force (so the request gets
   the 206 the Range alone would get: C03 / C05) *)
Theorem c14_echo_if_range : forall (t : tag) ent req, t_weak t = false ->
  e_etag ent = Some (render_tag t) -> r_if_range req = Some (render_tag t) ->
  if_range_gate (e_etag ent) req = (r_range req, false).
Proof. exact echo_if_range_keeps_range. Qed.

(* the known finding's class is not empty: a witness where the echoed clock-derived date fails *)
Example c14_future_mtime_witness :
  let m_s := 2000 in let now := 1000 in
  let served := N.min m_s now in
  precondition_fails None (Some m_s) None (Some served) = true /\
  not_modified None (Some m_s) None (Some served) = false.
Proof. exact future_mtime_echo_witness. Qed.

Print Assumptions c14_validators_exposed.
Print Assumptions c14_h0_contents.
Print Assumptions c14_entity_headers.
Print Assumptions c14_echo.
Print Assumptions c14_echo_if_range.
