(* C13 -- serve() is total on untrusted request input. *)
From Coq Require Import String.
From HS Require Import Lib.Base Lib.Bytes Lib.Dec Model.Range Model.Body Model.Serve Proofs.BodyP Proofs.BodyRun Proofs.ServeP.

(* For every method, every combination of header values (arbitrary byte strings; the request
   record holds the first value of each name, as HeaderMap::get does), every entity of length
   < 2^64 with any ETag / modification time / headers, and any date parser and printer: serve
   returns a response (no panic site of the model is reachable: u64 overflow and underflow,
   slice indexing, debug assertions), its status is one of the eight, and its body satisfies the
   invariant under which draining is total. *)
Theorem c13_serve_total : forall fmt_date parse_date now ent req streams, e_len ent < U64 ->
  exists r, serve_model fmt_date parse_date now ent req = Ok r /\ In (status r) STATUSES /\
            BInv (fst (body_init streams (rplan r))).
Proof. exact serve_total. Qed.

(* Draining never panics: any number of polls, any behaviour of the entity's streams. *)
Theorem c13_drain_total : forall n streams b, BInv b -> exists rs bf, run n streams b = Ok (rs, bf) /\ BInv bf.
Proof. exact run_total. Qed.

(* Any other method: 405, Allow names GET and HEAD, constant text, no entity data or metadata. *)
Theorem c13_other_methods_405 : forall fmt_date parse_date now ent req, r_meth req <> GET -> r_meth req <> HEAD ->
  serve_model fmt_date parse_date now ent req
  = Ok {| status := 405; hdrs := [(H_ALLOW, bs "get, head")]; rplan := PlOnce (Some BODY_405) |}.
Proof. exact serve_405. Qed.

Example c13_statuses : STATUSES = [200; 206; 304; 400; 405; 412; 413; 416].
Proof. reflexivity. Qed.
Example c13_instance :    (* the header that panicked the pinned tree *)
  range_parse (Some (bs "bytes=0-18446744073709551615")) 10 = RSat [(0, 10)].
Proof. vm_compute. reflexivity. Qed.

Print Assumptions c13_serve_total.
Print Assumptions c13_drain_total.
Print Assumptions c13_other_methods_405.
