(* C06 -- multipart/byteranges bodies are well-formed, complete and in request order. *)
From Coq Require Import String.
From HS Require Import Lib.Base Lib.Bytes Lib.Dec Model.Range Model.Body Model.Serve Spec.Multipart
  Proofs.BodyP Proofs.BodyRun Proofs.EchoP Proofs.ServeP Proofs.ServeProps Proofs.MultipartP.

(* The wire format (Spec/Multipart.v): for each range in request order CRLF "--B" CRLF
   "Content-Range: bytes a-b/L" CRLF, the entity's own headers, CRLF, the bytes a..=b; then
   CRLF "--B--" CRLF. The model's pre-rendered part header is that part head ... *)
Theorem c06_part_header : forall L eh r, hdr_of L (each_part_headers eh) r = mp_part_head L eh r.
Proof. exact hdr_of_is_part_head. Qed.

(* ... and the pre-computed total is the length of the wire format: for every number of ranges,
   every digit width (entity lengths up to 2^64-1) and every set of entity headers. *)
Theorem c06_length : forall content L eh rs, Forall (fun r => fst r <= snd r) rs ->
  tail_len (map (hdr_of L (each_part_headers eh)) rs) rs + TRAILER_LEN = lenN (mp_wire content L eh rs).
Proof. exact multipart_total_is_wire_length. Qed.

(* Every 206 without a top-level Content-Range (i.e. every multi-range 206) to GET: the ranges are
   the satisfiable ranges of the Range header in force, in request order, at least two; the
   headers are the validator block plus Content-Length = |wire format| and Content-Type
   multipart/byteranges; boundary=B; entity headers are inside the parts iff there was no If-Range;
   and for an entity whose streams honour the contract -- however they chunk, with empty chunks
   and Pendings -- the body never reports an error, is at every moment a prefix of the wire format,
   and is exactly the wire format when it ends. *)
Theorem c06_multipart_response : forall fmt_date parse_date content now ent req r streams,
  e_len ent < U64 -> serve_model fmt_date parse_date now ent req = Ok r -> r_meth req = GET ->
  status r = 206 -> values H_CONTENT_RANGE (hdrs r) = [] ->
  exists rs total,
    let eh := if snd (if_range_gate (e_etag ent) req) then e_hdrs ent else [] in
    ranges_wf (e_len ent) rs /\ (2 <= length rs)%nat /\
    range_parse (fst (if_range_gate (e_etag ent) req)) (e_len ent) = RSat rs /\
    hdrs r = h0_of fmt_date now ent ++ [(H_CONTENT_LENGTH, dec total); (H_CONTENT_TYPE, V_MULTIPART)] /\
    total = lenN (mp_wire content (e_len ent) eh rs) /\
    (honest_for content streams rs ->
     forall n rs_ bf, run n streams (fst (body_init streams (rplan r))) = Ok (rs_, bf) ->
       existsb is_perr rs_ = false /\
       (exists rest, data_bytes rs_ ++ rest = mp_wire content (e_len ent) eh rs) /\
       (existsb is_pend rs_ = true -> data_bytes rs_ = mp_wire content (e_len ent) eh rs) /\
       (* ... and it does end: within one poll per part header, one per chunk or Pending of each
          part's stream, one for the closing delimiter and one for the end *)
       ((hm streams 0 (length rs) <= n)%nat -> existsb is_pend rs_ = true)).
Proof. exact multipart_response. Qed.

(* the streaming invariant behind it, including the order of the entity reads: one get_range call
   per range, in request order (`rev (m_calls m) = firstn (length (m_calls m)) (m_ranges m)` is
   part of WState) *)
Theorem c06_wire_step : forall content streams m pend, MInv m -> honest_for content streams (m_ranges m) ->
  WState content m pend ->
  exists m' r, mp_poll MP_FUEL streams m = Ok (m', r) /\ is_perr r = false /\ MInv m' /\
               m_ranges m' = m_ranges m /\
               (exists pend', WState content m' pend' /\ pend = res_bytes r ++ pend' /\ (r = PEnd -> pend = [])) /\
               (r = PEnd \/ wm streams m = S (wm streams m')).
Proof. exact wire_step. Qed.

(* liveness: every poll of an honest multipart body makes progress by the measure wm, so the clean
   end is reached within wm m polls -- however the entity chunks its streams, with empty chunks and
   Pendings counted as one poll each *)
Theorem c06_honest_body_ends : forall content streams k m pend rs bf, MInv m -> honest_for content streams (m_ranges m) ->
  WState content m pend -> (wm streams m <= k)%nat -> run k streams (BMulti m) = Ok (rs, bf) -> existsb is_pend rs = true.
Proof. exact wire_terminates. Qed.
Example c06_measure_instance :
  hm [[EvData [1;2]; EvPending; EvData [3]]; [EvData [4]]] 0 2 = 8%nat.   (* 2 headers + 3 + 1 events + delimiter + end *)
Proof. reflexivity. Qed.

Example c06_instance :
  mp_wire (fun p => p) 240 [(bs "content-type", bs "t")] [(0, 2); (3, 5)] =
  [13;10] ++ bs "--B" ++ [13;10] ++ bs "Content-Range: bytes 0-1/240" ++ [13;10] ++ bs "content-type: t" ++ [13;10;13;10] ++ [0;1]
  ++ [13;10] ++ bs "--B" ++ [13;10] ++ bs "Content-Range: bytes 3-4/240" ++ [13;10] ++ bs "content-type: t" ++ [13;10;13;10] ++ [3;4]
  ++ [13;10] ++ bs "--B--" ++ [13;10].
Proof. vm_compute. reflexivity. Qed.

Print Assumptions c06_part_header.
Print Assumptions c06_length.
Print Assumptions c06_multipart_response.
Print Assumptions c06_wire_step.
Print Assumptions c06_honest_body_ends.
