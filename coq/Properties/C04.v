(* C04 -- theorem statements are being added; see DESIGN.md. *)
From HS Require Import Lib.Base.
