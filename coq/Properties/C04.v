(* C04 -- conditional headers follow RFC 7232 precedence and comparison functions. *)
From HS Require Import Lib.Base Lib.Bytes Model.Etag Model.Serve Spec.Validators Proofs.EtagP Proofs.ServeP Proofs.DecisionP.

(* Tag lists are matched element by element: the byte-level iterator applied to the rendering of
   any list of tags -- any length, any OWS after the commas, tag contents with commas and spaces,
   anything but a double quote -- yields exactly those tags in order, not corrupt. *)
Theorem c04_list : forall t l, tag_ok t -> Forall elem_ok l ->
  etag_list (render_tag_list (TList t l)) = (map render_tag (tags_of (TList t l)), false).
Proof. exact etag_list_tags. Qed.

(* the byte-level comparisons are RFC 7232's strong and weak comparison functions *)
Theorem c04_strong_eq : forall a b, strong_eq (render_tag a) (render_tag b) = strong_eq_spec a b.
Proof. exact strong_eq_render. Qed.
Theorem c04_weak_eq : forall a b, weak_eq (render_tag a) (render_tag b) = weak_eq_spec a b.
Proof. exact weak_eq_render. Qed.

(* With well-formed validators (entity tag, If-Match / If-None-Match lists or "*", parseable
   dates), for GET and HEAD: 412 exactly when `decide` says D412, else 304 exactly when D304, else
   neither (range selection runs). `decide` is the property's sentence over ASTs: If-Match by strong
   comparison ("*" passes), else If-Unmodified-Since earlier than the modification second;
   If-None-Match by weak comparison ("*" matches), else modification second <= If-Modified-Since. *)
Theorem c04_decision : forall fmt_date parse_date now (et : option tag) ent req r im inm ims ius,
  e_len ent < U64 -> e_etag ent = option_map render_tag et -> is_get_or_head req ->
  wf_conds parse_date req im inm ims ius ->
  serve_model fmt_date parse_date now ent req = Ok r ->
  match decide et (option_map (fun m => m / NS) (e_lm ent)) im inm ims ius with
  | D412 => status r = 412
  | D304 => status r = 304
  | DContinue => ~ In (status r) [400; 412; 304]
  end.
Proof. exact conditional_decision. Qed.

(* the "ignored whenever" clauses are read off `decide` *)
Theorem c04_ims_ignored_with_inm : forall et lm im inm ims ims' ius, inm <> None ->
  decide et lm im inm ims ius = decide et lm im inm ims' ius.
Proof. intros et lm im inm ims ims' ius H. destruct inm as [l|]; [|congruence]. unfold decide, not_modified. destruct l; reflexivity. Qed.
Theorem c04_ius_ignored_with_im : forall et lm im inm ims ius ius', im <> None ->
  decide et lm im inm ims ius = decide et lm im inm ims ius'.
Proof. intros et lm im inm ims ius ius' H. destruct im as [l|]; [|congruence]. unfold decide, precondition_fails. destruct l; reflexivity. Qed.
Theorem c04_dates_ignored_without_mtime : forall et im inm ims ius ims' ius',
  decide et None im inm ims ius = decide et None im inm ims' ius'.
Proof. intros. unfold decide, precondition_fails, not_modified. destruct im as [[|]|], inm as [[|]|]; reflexivity. Qed.

(* the pinned tree compared at nanosecond resolution: echoing the served second was "earlier" *)
Example c04_legacy_refuted :
  let req := {| r_meth := GET; r_range := None; r_if_range := None; r_if_match := None; r_inm := None;
                r_ims := None; r_ius := Some [65] |} in
  let parse := fun _ : bytes => Some 784111777 in
  parse_modified_hdrs_legacy parse None req (Some 784111777500000000) = COk true false /\
  parse_modified_hdrs parse None req (Some 784111777500000000) = COk false false.
Proof. vm_compute. split; reflexivity. Qed.

Print Assumptions c04_list.
Print Assumptions c04_strong_eq.
Print Assumptions c04_weak_eq.
Print Assumptions c04_decision.
Print Assumptions c04_ims_ignored_with_inm.
Print Assumptions c04_ius_ignored_with_im.
Print Assumptions c04_dates_ignored_without_mtime.
