(* C02 -- serve(): body bytes are exactly the entity bytes the headers denote. *)
From HS Require Import Lib.Base Lib.Dec Model.Body Model.Serve Proofs.BodyP Proofs.BodyRun Proofs.ServeP Proofs.ServeProps Proofs.EchoP.

(* A 200 to GET reads the entity's complete byte range, once (get_range (0, L) is the only source
   of body bytes). *)
Theorem c02_full : forall fmt_date parse_date now ent req r,
  e_len ent < U64 -> serve_model fmt_date parse_date now ent req = Ok r -> status r = 200 -> r_meth req = GET ->
  forall streams, body_init streams (rplan r) = (BExact {| x_s := stream_of streams 0; x_rem := e_len ent |}, [(0, e_len ent)]).
Proof. exact full_200. Qed.

(* A single-range 206 carries Content-Range: bytes a-(e-1)/L with a < e <= L (i.e. a <= b < L),
   L the entity length, and reads exactly entity bytes a..e (half-open), nothing else. *)
Theorem c02_single_range : forall fmt_date parse_date now ent req r,
  e_len ent < U64 -> ~ In H_CONTENT_RANGE (map fst (e_hdrs ent)) ->
  serve_model fmt_date parse_date now ent req = Ok r -> status r = 206 -> values H_CONTENT_RANGE (hdrs r) <> [] ->
  exists a e, a < e /\ e <= e_len ent /\
    values H_CONTENT_RANGE (hdrs r) = [content_range_value a e (e_len ent)] /\
    (r_meth req = GET -> forall streams, body_init streams (rplan r) = (BExact {| x_s := stream_of streams 0; x_rem := e - a |}, [(a, e)])).
Proof. exact single_range_206. Qed.

(* What such a body hands on is, byte for byte and in order, what the entity's stream produced
   for that range -- no byte reordered, duplicated, dropped or invented, for every chunking. *)
Theorem c02_bytes_pass_through : forall n streams x rs bf, run n streams (BExact x) = Ok (rs, bf) ->
  existsb is_perr rs = false ->
  exists x', bf = BExact x' /\ data_bytes rs ++ stream_bytes (x_s x') = stream_bytes (x_s x).
Proof. exact exact_passes_bytes. Qed.
Theorem c02_clean_end_whole_range : forall n streams x rs bf, run n streams (BExact x) = Ok (rs, bf) ->
  existsb is_perr rs = false -> existsb is_pend rs = true -> data_bytes rs = stream_bytes (x_s x).
Proof. exact exact_clean_end_bytes. Qed.

(* No other response reads entity bytes at all (multipart 206 bodies are C06). *)
Theorem c02_other_statuses_read_nothing : forall fmt_date parse_date now ent req r streams,
  e_len ent < U64 -> serve_model fmt_date parse_date now ent req = Ok r ->
  ~ In (status r) [200; 206] -> snd (body_init streams (rplan r)) = [] /\ exists o, rplan r = PlOnce o.
Proof. exact other_statuses_read_nothing. Qed.

Print Assumptions c02_full.
Print Assumptions c02_single_range.
Print Assumptions c02_bytes_pass_through.
Print Assumptions c02_clean_end_whole_range.
Print Assumptions c02_other_statuses_read_nothing.
