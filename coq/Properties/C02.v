(* C02 -- serve(): body bytes are exactly the entity bytes the headers denote. *)
From HS Require Import Lib.Base Lib.Dec Model.Body Model.Serve Proofs.BodyP Proofs.BodyRun Proofs.ServeP Proofs.ServeProps Proofs.EchoP Spec.RangeGrammar Spec.Validators Spec.Multipart Spec.Response Model.Range Model.Etag Lib.Bytes Proofs.RangeP Proofs.DecisionP Proofs.MultipartP Proofs.EndToEnd.

(* A 200 to GET reads the entity's complete byte range, once (get_range (0, L) is the only source
   of body bytes). *)
Theorem c02_full : forall fmt_date parse_date now ent req r,
  e_len ent < U64 -> serve_model fmt_date parse_date now ent req = Ok r -> status r = 200 -> r_meth req = GET ->
  forall streams, body_init streams (rplan r) = (BExact {| x_s := stream_of streams 0; x_rem := e_len ent |}, [(0, e_len ent)]).
Proof. exact full_200. Qed.

(* A single-range 206 carries Content-Range: bytes a-(e-1)/L with a < e <= L (i.e. a <= b < L),
   L the entity length, and reads exactly entity bytes a..e (half-open), nothing else. *)
Theorem c02_single_range : forall fmt_date parse_date now ent req r,
  e_len ent < U64 -> ~ In H_CONTENT_RANGE (map fst (e_hdrs ent)) ->
  serve_model fmt_date parse_date now ent req = Ok r -> status r = 206 -> values H_CONTENT_RANGE (hdrs r) <> [] ->
  exists a e, a < e /\ e <= e_len ent /\
    values H_CONTENT_RANGE (hdrs r) = [content_range_value a e (e_len ent)] /\
    (r_meth req = GET -> forall streams, body_init streams (rplan r) = (BExact {| x_s := stream_of streams 0; x_rem := e - a |}, [(a, e)])).
Proof. exact single_range_206. Qed.

(* What such a body hands on is, byte for byte and in order, what the entity's stream produced
   for that range -- no byte reordered, duplicated, dropped or invented, for every chunking. *)
Theorem c02_bytes_pass_through : forall n streams x rs bf, run n streams (BExact x) = Ok (rs, bf) ->
  existsb is_perr rs = false ->
  exists x', bf = BExact x' /\ data_bytes rs ++ stream_bytes (x_s x') = stream_bytes (x_s x).
Proof. exact exact_passes_bytes. Qed.
Theorem c02_clean_end_whole_range : forall n streams x rs bf, run n streams (BExact x) = Ok (rs, bf) ->
  existsb is_perr rs = false -> existsb is_pend rs = true -> data_bytes rs = stream_bytes (x_s x).
Proof. exact exact_clean_end_bytes. Qed.

(* No other response reads entity bytes at all (multipart 206 bodies are C06). *)
Theorem c02_other_statuses_read_nothing : forall fmt_date parse_date now ent req r streams,
  e_len ent < U64 -> serve_model fmt_date parse_date now ent req = Ok r ->
  ~ In (status r) [200; 206] -> snd (body_init streams (rplan r)) = [] /\ exists o, rplan r = PlOnce o.
Proof. exact other_statuses_read_nothing. Qed.

(* End to end (a composition of C02-C06's theorems, Proofs/EndToEnd.v): for every GET whose conditional
   headers are well-formed and whose Range header is absent, grammatical (any number of specs, OWS,
   64-bit numbers) or ignored, every entity length < 2^64 and every entity whose streams honour the
   contract, `serve` answers with the status the AST-level specification Spec/Response.v names, reads
   the entity exactly at the specified ranges, and its body -- however chunked, however often polled --
   never errs, is at every moment a prefix of the specified bytes (the complete entity, the range, or
   the multipart wire format) and equals them at the clean end. *)
Theorem c02_serve_refines_spec : forall fmt_date parse_date content now (et : option tag) ent req im inm ims ius rast streams,
  e_len ent < U64 -> e_etag ent = option_map render_tag et -> r_meth req = GET ->
  wf_conds parse_date req im inm ims ius -> range_rel (e_len ent) (r_range req) rast ->
  let L := e_len ent in
  let in_force := match r_if_range req with
                  | None => true
                  | Some ifr => match e_etag ent with Some e => beq_bytes ifr e && starts_with DQ e | None => false end
                  end in
  let eh := match r_if_range req with Some _ => [] | None => e_hdrs ent end in
  let o := spec_outcome content et (option_map (fun m => m / NS) (e_lm ent)) im inm ims ius
                        (if in_force then rast else None) L eh in
  exists r, serve_model fmt_date parse_date now ent req = Ok r /\ status r = spec_status o /\
    snd (body_init streams (rplan r)) = (match o with OMulti _ => [] | _ => spec_reads L o end) /\
    (honest_for content streams (spec_reads L o) ->
     forall n rs_ bf, run n streams (fst (body_init streams (rplan r))) = Ok (rs_, bf) ->
       existsb is_perr rs_ = false /\
       forall body, spec_body content L eh o = Some body ->
         (exists rest, data_bytes rs_ ++ rest = body) /\ (existsb is_pend rs_ = true -> data_bytes rs_ = body)).
Proof. exact serve_refines_spec. Qed.

Print Assumptions c02_full.
Print Assumptions c02_single_range.
Print Assumptions c02_bytes_pass_through.
Print Assumptions c02_clean_end_whole_range.
Print Assumptions c02_other_statuses_read_nothing.
Print Assumptions c02_serve_refines_spec.
