(* C01 -- serve(): announced length equals the bytes actually delivered. *)
From HS Require Import Lib.Base Lib.Dec Model.Body Model.Serve Proofs.BodyP Proofs.BodyRun Proofs.ServeP Proofs.ServeProps.

(* No body ever delivers more than was announced: over any number of polls of any body
   (Once, ExactLen, Multipart) and any behaviour of the entity's streams -- any chunking, empty
   chunks, Pending polls, faults -- delivered + still-announced <= initially announced, with
   equality as long as no error was reported. *)
Theorem c01_never_more : forall n streams b rs bf, run n streams b = Ok (rs, bf) ->
  delivered rs + body_hint bf <= body_hint b /\
  (existsb is_perr rs = false -> delivered rs + body_hint bf = body_hint b).
Proof. exact run_never_more. Qed.

(* A body that ends cleanly has delivered exactly the number of bytes its exact size hint announced. *)
Theorem c01_clean_end : forall n streams b rs bf, run n streams b = Ok (rs, bf) ->
  existsb is_perr rs = false -> existsb is_pend rs = true -> delivered rs = body_hint b.
Proof. exact run_clean_end. Qed.

(* Every 200 and 206 carries exactly one Content-Length; for GET it is the decimal rendering of
   the body's exact size hint (hence, by c01_clean_end, of the bytes delivered); every other
   status carries none. For every request, every entity length < 2^64, every header set. *)
Theorem c01_content_length : forall fmt_date parse_date now ent req r streams,
  e_len ent < U64 -> no_framing_headers ent ->
  serve_model fmt_date parse_date now ent req = Ok r ->
  if (status r =? 200) || (status r =? 206) then
    exists n, values H_CONTENT_LENGTH (hdrs r) = [dec n] /\
              (r_meth req = GET -> body_hint (fst (body_init streams (rplan r))) = n)
  else values H_CONTENT_LENGTH (hdrs r) = [].
Proof. exact content_length_announces_body. Qed.

(* 304, 400, 405, 412, 413, 416: no Content-Length (above), yet an exact size: a constant text or nothing. *)
Theorem c01_exact_without_content_length : forall fmt_date parse_date now ent req r,
  e_len ent < U64 -> serve_model fmt_date parse_date now ent req = Ok r ->
  In (status r) [304; 400; 405; 412; 413; 416] ->
  exists o, rplan r = PlOnce o /\
    forall streams, body_hint (fst (body_init streams (rplan r))) = match o with Some t => lenN t | None => 0 end.
Proof. exact other_statuses_exact_hint. Qed.

(* non-vacuity: a two-chunk stream through an ExactLen body of 3 bytes *)
Example c01_instance :
  run 3 [] (BExact {| x_s := [EvData [1; 2]; EvPending; EvData [3]]; x_rem := 3 |})
  = Ok ([PData [1; 2]; PPending; PData [3]], BExact {| x_s := []; x_rem := 0 |}).
Proof. reflexivity. Qed.

Check c01_never_more : forall n streams b rs bf, run n streams b = Ok (rs, bf) ->
  delivered rs + body_hint bf <= body_hint b /\
  (existsb is_perr rs = false -> delivered rs + body_hint bf = body_hint b).
Print Assumptions c01_never_more.
Print Assumptions c01_clean_end.
Print Assumptions c01_content_length.
Print Assumptions c01_exact_without_content_length.
