(* C07 -- a short, long or failing entity stream never yields a complete-looking body. *)
From HS Require Import Lib.Base Model.Body Proofs.BodyP Proofs.BodyRun.

(* If the body for a full or single-range response reports a clean end without having reported
   an error first, then the entity's stream delivered exactly the announced number of bytes and
   never failed. Contrapositive: an early end, an error, a missing or an extra byte -- at any chunk
   index, after any Pendings or empty chunks -- is reported as an error, never as a clean end. *)
Theorem c07_clean_end_means_complete : forall n streams x rs bf,
  run n streams (BExact x) = Ok (rs, bf) -> existsb is_perr rs = false -> existsb is_pend rs = true ->
  stream_total (x_s x) = x_rem x /\ existsb ev_is_err (x_s x) = false.
Proof. exact exact_clean_end_means_complete. Qed.

(* the three fault kinds, one poll each *)
Theorem c07_early_end_is_error : forall x, x_s x = [] -> x_rem x <> 0 ->
  xl_poll x = ({| x_s := []; x_rem := 0 |}, PErr (ErrShort (x_rem x))).
Proof. exact xl_short_is_error. Qed.
Theorem c07_failure_is_error : forall x c t, x_s x = EvErr c :: t -> snd (xl_poll x) = PErr (ErrEntity c).
Proof. exact xl_error_is_error. Qed.
(* a chunk larger than what is still owed is not passed on *)
Theorem c07_too_long_is_error : forall x d t, x_s x = EvData d :: t -> x_rem x < lenN d ->
  snd (xl_poll x) = PErr (ErrLong (lenN d - x_rem x)).
Proof. exact xl_long_is_error. Qed.
Theorem c07_data_within_announced : forall x x' d, xl_poll x = (x', PData d) -> lenN d <= x_rem x.
Proof. exact xl_data_within. Qed.

(* every part of a multipart body is wrapped in the same check; its error is passed on at once,
   fuses the body (no trailer follows: the next polls return None, see C20) *)
Theorem c07_multipart_part_error : forall f streams m x x' e, m_cur m = Some x -> xl_poll x = (x', PErr e) ->
  exists m', mp_poll (S f) streams m = Ok (m', PErr e) /\ m_rem m' = 0 /\ m_cur m' = None /\ m_state m' = mp_end_state m'.
Proof. exact mp_forwards_part_error. Qed.

(* nothing beyond the announced length is ever passed on, for any body and any stream *)
Theorem c07_never_beyond_announced : forall n streams b rs bf, run n streams b = Ok (rs, bf) ->
  delivered rs + body_hint bf <= body_hint b /\
  (existsb is_perr rs = false -> delivered rs + body_hint bf = body_hint b).
Proof. exact run_never_more. Qed.

Example c07_instance :   (* one byte short at the second chunk: error, then fused *)
  fst (match run 3 [] (BExact {| x_s := [EvData [1; 2]]; x_rem := 3 |}) with Ok p => p | Panic _ => ([], BOnce None) end)
  = [PData [1; 2]; PErr (ErrShort 1); PEnd].
Proof. reflexivity. Qed.

Print Assumptions c07_clean_end_means_complete.
Print Assumptions c07_early_end_is_error.
Print Assumptions c07_failure_is_error.
Print Assumptions c07_too_long_is_error.
Print Assumptions c07_data_within_announced.
Print Assumptions c07_multipart_part_error.
Print Assumptions c07_never_beyond_announced.
