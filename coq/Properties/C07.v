(* C07 -- a short, long or failing entity stream never yields a complete-looking body. *)
From HS Require Import Lib.Base Model.Body Proofs.BodyP Proofs.BodyRun Proofs.MultipartComplete.

(* If the body for a full or single-range response reports a clean end without having reported
   an error first, then the entity's stream delivered exactly the announced number of bytes and
   never failed. Contrapositive: an early end, an error, a missing or an extra byte -- at any chunk
   index, after any Pendings or empty chunks -- is reported as an error, never as a clean end. *)
Theorem c07_clean_end_means_complete : forall n streams x rs bf,
  run n streams (BExact x) = Ok (rs, bf) -> existsb is_perr rs = false -> existsb is_pend rs = true ->
  stream_total (x_s x) = x_rem x /\ existsb ev_is_err (x_s x) = false.
Proof. exact exact_clean_end_means_complete. Qed.

(* the three fault kinds, one poll each *)
Theorem c07_early_end_is_error : forall x, x_s x = [] -> x_rem x <> 0 ->
  xl_poll x = ({| x_s := []; x_rem := 0 |}, PErr (ErrShort (x_rem x))).
Proof. exact xl_short_is_error. Qed.
Theorem c07_failure_is_error : forall x c t, x_s x = EvErr c :: t -> snd (xl_poll x) = PErr (ErrEntity c).
Proof. exact xl_error_is_error. Qed.
(* a chunk larger than what is still owed is not passed on *)
Theorem c07_too_long_is_error : forall x d t, x_s x = EvData d :: t -> x_rem x < lenN d ->
  snd (xl_poll x) = PErr (ErrLong (lenN d - x_rem x)).
Proof. exact xl_long_is_error. Qed.
Theorem c07_data_within_announced : forall x x' d, xl_poll x = (x', PData d) -> lenN d <= x_rem x.
Proof. exact xl_data_within. Qed.

(* every part of a multipart body is wrapped in the same check; its error is passed on at once,
   fuses the body (no trailer follows: the next polls return None, see C20) *)
Theorem c07_multipart_part_error : forall f streams m x x' e, m_cur m = Some x -> xl_poll x = (x', PErr e) ->
  exists m', mp_poll (S f) streams m = Ok (m', PErr e) /\ m_rem m' = 0 /\ m_cur m' = None /\ m_state m' = mp_end_state m'.
Proof. exact mp_forwards_part_error. Qed.

(* The same for a multipart body, whatever the part streams do: a clean end without a reported
   error means that every part's stream delivered exactly the length of its range and never
   failed, and that the ranges were read in order, each exactly once. Contrapositive: when any
   part -- the first, a middle one, the last -- ends early, runs long or fails at any chunk, the
   body reports an error; the closing delimiter and a clean end never follow. *)
Theorem c07_multipart_clean_end_means_complete : forall n streams m rs bf,
  MInv m -> m_state m = 0%nat -> m_cur m = None -> m_calls m = [] ->
  run n streams (BMulti m) = Ok (rs, bf) -> existsb is_perr rs = false -> existsb is_pend rs = true ->
  (forall j a e, nth_error (m_ranges m) j = Some (a, e) ->
     stream_total (stream_of streams j) = e - a /\ existsb ev_is_err (stream_of streams j) = false) /\
  exists m', bf = BMulti m' /\ rev (m_calls m') = m_ranges m.
Proof. exact multipart_clean_end_means_complete. Qed.

(* the hypotheses are satisfiable (honest parts: clean end), and a part one byte short is an error *)
Definition c07_ex_m : mp :=
  {| m_cur := None; m_state := 0; m_ph := [[7]; [8]]; m_ranges := [(0, 2); (3, 5)];
     m_rem := 1 + 2 + 1 + 2 + TRAILER_LEN; m_calls := [] |}.
Example c07_multipart_instance_inv : MInv c07_ex_m.
Proof.
  split; [reflexivity|]. split; [repeat constructor; cbn; lia|].
  apply (MS_header _ 0); try reflexivity. cbn; lia.
Qed.
Example c07_multipart_instance_ok :
  match run 8 [[EvData [0; 1]]; [EvData [3]; EvData [4]]] (BMulti c07_ex_m) with
  | Ok (rs, _) => (existsb is_perr rs, existsb is_pend rs) = (false, true)
  | Panic _ => False end.
Proof. vm_compute. reflexivity. Qed.
Example c07_multipart_instance_short :
  match run 8 [[EvData [0; 1]]; [EvData [3]]] (BMulti c07_ex_m) with
  | Ok (rs, _) => rs = [PData [7]; PData [0; 1]; PData [8]; PData [3]; PErr (ErrShort 1); PEnd; PEnd; PEnd]
  | Panic _ => False end.
Proof. vm_compute. reflexivity. Qed.

(* nothing beyond the announced length is ever passed on, for any body and any stream *)
Theorem c07_never_beyond_announced : forall n streams b rs bf, run n streams b = Ok (rs, bf) ->
  delivered rs + body_hint bf <= body_hint b /\
  (existsb is_perr rs = false -> delivered rs + body_hint bf = body_hint b).
Proof. exact run_never_more. Qed.

Example c07_instance :   (* one byte short at the second chunk: error, then fused *)
  fst (match run 3 [] (BExact {| x_s := [EvData [1; 2]]; x_rem := 3 |}) with Ok p => p | Panic _ => ([], BOnce None) end)
  = [PData [1; 2]; PErr (ErrShort 1); PEnd].
Proof. reflexivity. Qed.

Print Assumptions c07_clean_end_means_complete.
Print Assumptions c07_early_end_is_error.
Print Assumptions c07_failure_is_error.
Print Assumptions c07_too_long_is_error.
Print Assumptions c07_data_within_announced.
Print Assumptions c07_multipart_part_error.
Print Assumptions c07_never_beyond_announced.
Print Assumptions c07_multipart_clean_end_means_complete.
