(* C18 -- ChunkedReadFile: exact file bytes and stable, change-sensitive validators. *)
From HS Require Import Lib.Base Lib.Bytes Lib.Dec Lib.Hex Model.Range Model.Etag Model.Body Model.Serve Model.File
  Spec.RangeGrammar Spec.Validators Spec.Multipart Spec.Response
  Proofs.BodyP Proofs.BodyRun Proofs.EchoP Proofs.ServeP Proofs.DecisionP Proofs.MultipartP Proofs.EndToEnd Proofs.FileP Proofs.FileServe Proofs.FileEndToEnd.

(* For any file content, any range within the length, and any short-read behaviour of pread: while
   the file is not truncated below the range end the stream yields exactly the range's bytes in
   non-empty chunks of at most 64 KiB and ends, within (range length + 1) polls. *)
Theorem c18_bytes : forall content flen short m s,
  (N.to_nat (r_end s - r_start s) <= m)%nat -> r_start s <= r_end s ->
  (forall k, r_end s <= flen k) ->
  let '(rs, sf) := read_run content flen short (S m) s in
  In REnd rs /\ ~ In RErrEof rs /\ Forall (chunk_ok) rs /\
  all_rdata rs = bytes_from content (r_start s) (N.to_nat (r_end s - r_start s)).
Proof. exact read_exact. Qed.

(* If the file has been truncated below the range end, the stream never reports a clean end with
   bytes outstanding and fails within (range length) polls: it neither ends short nor loops. *)
Theorem c18_truncate : forall content flen short m s,
  (N.to_nat (r_end s - r_start s) <= m)%nat -> r_start s < r_end s ->
  truncated_from flen (r_reads s) (r_end s) ->
  let '(rs, sf) := read_run content flen short m s in In RErrEof rs /\ ~ In REnd rs.
Proof. exact read_truncated. Qed.

(* The ETag is identical for every instance with the same inode, length and modification time (a time
   before 1970 included: magnitude and side of the epoch) and differs as soon as one of them changes ... *)
Theorem c18_etag_injective : forall m m', crf_etag m = crf_etag m' <->
  (f_ino m = f_ino m' /\ f_len m = f_len m' /\ f_mtime_ns m = f_mtime_ns m' /\ f_mtime_neg m = f_mtime_neg m').
Proof. exact etag_injective. Qed.
(* ... and is a syntactically valid strong tag *)
Theorem c18_etag_strong : forall m, exists opaque, crf_etag m = [34] ++ opaque ++ [34] /\ ~ In 34 opaque.
Proof. exact etag_is_strong_tag. Qed.

(* construction refuses non-regular files and captures length and modification time *)
Theorem c18_new : forall m, (f_is_file m = false -> crf_new m = None) /\
  (f_is_file m = true -> exists e, crf_new m = Some e /\ crf_len e = f_len m /\ crf_last_modified e = f_mtime_ns m /\
                         crf_last_modified_neg e = f_mtime_neg m).
Proof. exact crf_new_spec. Qed.

(* ... served through `serve` with Range headers. Seen as an entity stream (the events of
   Model/Body.v), the file stream for a range is honest -- exactly the range's bytes, no failure --
   while the file is not shorter than the range's end, whatever short reads pread makes; once the
   file is truncated below it the stream carries a failure (which the body turns into an error, C07). *)
Theorem c18_stream_is_honest : forall content flen short a e, a <= e -> (forall k, e <= flen k) ->
  stream_bytes (file_events content flen short a e) = content_range content a e /\
  existsb ev_is_err (file_events content flen short a e) = false.
Proof. exact file_stream_honest. Qed.
Theorem c18_truncated_stream_fails : forall content flen short a e, a < e -> truncated_from flen 0 e ->
  existsb ev_is_err (file_events content flen short a e) = true.
Proof. exact file_stream_truncated. Qed.

(* Hence for every grammatical GET -- any Range, conditional headers and If-Range -- on an entity
   backed by a file of content `content` that stays at least L bytes long: the status is the
   specified one and the body, however it is chunked and polled, never errs, is at every moment a
   prefix of the specified bytes (the file's bytes for 200 / single-range 206, the multipart wire
   format of the file's ranges) and equals them at the clean end. *)
Theorem c18_through_serve : forall fmt_date parse_date content now (et : option tag) ent req im inm ims ius rast streams,
  e_len ent < U64 -> e_etag ent = option_map render_tag et -> r_meth req = GET ->
  wf_conds parse_date req im inm ims ius -> range_rel (e_len ent) (r_range req) rast ->
  let L := e_len ent in
  let in_force := match r_if_range req with
                  | None => true
                  | Some ifr => match e_etag ent with Some e => beq_bytes ifr e && starts_with DQ e | None => false end
                  end in
  let eh := match r_if_range req with Some _ => [] | None => e_hdrs ent end in
  let o := spec_outcome content et (option_map (fun m => m / NS) (e_lm ent)) im inm ims ius
                        (if in_force then rast else None) L eh in
  (forall i a e, nth_error (spec_reads L o) i = Some (a, e) ->
     exists flen short, (forall k, L <= flen k) /\ stream_of streams i = file_events content flen short a e) ->
  exists r, serve_model fmt_date parse_date now ent req = Ok r /\ status r = spec_status o /\
    forall n rs_ bf, run n streams (fst (body_init streams (rplan r))) = Ok (rs_, bf) ->
      existsb is_perr rs_ = false /\
      forall body, spec_body content L eh o = Some body ->
        (exists rest, data_bytes rs_ ++ rest = body) /\ (existsb is_pend rs_ = true -> data_bytes rs_ = body).
Proof. exact file_through_serve. Qed.

Print Assumptions c18_bytes.
Print Assumptions c18_truncate.
Print Assumptions c18_etag_injective.
Print Assumptions c18_etag_strong.
Print Assumptions c18_new.
Print Assumptions c18_stream_is_honest.
Print Assumptions c18_truncated_stream_fails.
Print Assumptions c18_through_serve.
