(* C18 -- ChunkedReadFile: exact file bytes and stable, change-sensitive validators. *)
From HS Require Import Lib.Base Lib.Bytes Lib.Hex Model.File Proofs.FileP.

(* For any file content, any range within the length, and any short-read behaviour of pread: while
   the file is not truncated below the range end the stream yields exactly the range's bytes in
   non-empty chunks of at most 64 KiB and ends, within (range length + 1) polls. *)
Theorem c18_bytes : forall content flen short m s,
  (N.to_nat (r_end s - r_start s) <= m)%nat -> r_start s <= r_end s ->
  (forall k, r_end s <= flen k) ->
  let '(rs, sf) := read_run content flen short (S m) s in
  In REnd rs /\ ~ In RErrEof rs /\ Forall (chunk_ok) rs /\
  all_rdata rs = bytes_from content (r_start s) (N.to_nat (r_end s - r_start s)).
Proof. exact read_exact. Qed.

(* If the file has been truncated below the range end, the stream never reports a clean end with
   bytes outstanding and fails within (range length) polls: it neither ends short nor loops. *)
Theorem c18_truncate : forall content flen short m s,
  (N.to_nat (r_end s - r_start s) <= m)%nat -> r_start s < r_end s ->
  truncated_from flen (r_reads s) (r_end s) ->
  let '(rs, sf) := read_run content flen short m s in In RErrEof rs /\ ~ In REnd rs.
Proof. exact read_truncated. Qed.

(* The ETag is identical for every instance with the same inode, length and modification time and
   differs as soon as one of them changes ... *)
Theorem c18_etag_injective : forall m m', crf_etag m = crf_etag m' <->
  (f_ino m = f_ino m' /\ f_len m = f_len m' /\ f_mtime_ns m = f_mtime_ns m').
Proof. exact etag_injective. Qed.
(* ... and is a syntactically valid strong tag *)
Theorem c18_etag_strong : forall m, exists opaque, crf_etag m = [34] ++ opaque ++ [34] /\ ~ In 34 opaque.
Proof. exact etag_is_strong_tag. Qed.

(* construction refuses non-regular files and captures length and modification time *)
Theorem c18_new : forall m, (f_is_file m = false -> crf_new m = None) /\
  (f_is_file m = true -> exists e, crf_new m = Some e /\ crf_len e = f_len m /\ crf_last_modified e = f_mtime_ns m).
Proof. exact crf_new_spec. Qed.

Print Assumptions c18_bytes.
Print Assumptions c18_truncate.
Print Assumptions c18_etag_injective.
Print Assumptions c18_etag_strong.
Print Assumptions c18_new.
