(* C16 -- should_gzip implements the RFC 7231 5.3.4 preference of gzip vs identity. *)
From Coq Require Import String.
From HS Require Import Lib.Base Lib.Bytes Model.Negot Spec.AcceptEncoding Proofs.NegotP.

(* every grammatical qvalue ("0", "0.", "0.d", "0.dd", "0.ddd", "1", "1.", "1.0", "1.00", "1.000")
   parses to its value in thousandths, at most 1000 (a finite family, enumerated in the kernel) *)
Theorem c16_qvalue : forall w, weight_ok w ->
  parse_qvalue (render_weight w) = Ok (Some (weight_value w)) /\ weight_value w <= 1000.
Proof. exact parse_qvalue_grammar. Qed.

(* For every grammatical Accept-Encoding value -- element lists of any length, any coding tokens,
   any grammatical weights, any OWS around "," and ";" -- should_gzip is exactly: gzip acceptable
   (listed or covered by "*", with non-zero quality) and its quality not lower than identity's,
   identity taking its own quality, else "*"'s, else 1/1000 (the least-preferred acceptable coding). *)
Theorem c16_decision : forall l, l <> [] -> Forall elem_wf l ->
  should_gzip (Some (render_list l)) = Ok (prefers_gzip l).
Proof. exact should_gzip_grammar. Qed.

(* false when the header is absent, empty, or names only other codings *)
Theorem c16_absent_or_empty : should_gzip None = Ok false /\ should_gzip (Some []) = Ok false.
Proof. exact should_gzip_absent. Qed.
Theorem c16_only_other_codings : forall l, l <> [] -> Forall elem_wf l ->
  Forall (fun e => e_coding e <> bs "gzip" /\ e_coding e <> bs "*") l ->
  should_gzip (Some (render_list l)) = Ok false.
Proof. exact should_gzip_others. Qed.

(* no header value (arbitrary bytes) makes it panic: the u16 product in the qvalue parser included *)
Theorem c16_total : forall h, exists b, should_gzip h = Ok b.
Proof. exact should_gzip_total. Qed.

Example c16_instance :
  should_gzip (Some (bs "identity;q=0.5, gzip;q=1.0")) = Ok true /\
  should_gzip (Some (bs "gzip;q=0.001")) = Ok true /\
  should_gzip (Some (bs "gzip;q=0, *")) = Ok false.
Proof. vm_compute. repeat split; reflexivity. Qed.

(* empty list elements (RFC 7230 section 7: a recipient must accept and ignore them) are covered by the
   theorems above as elements with an empty coding; instances: *)
Example c16_empty_elements :
  should_gzip (Some (bs "*, , gzip;q=0")) = Ok false /\ should_gzip (Some (bs ", gzip")) = Ok true /\
  should_gzip (Some (bs "gzip;q=0.5, ,identity")) = Ok false /\ should_gzip (Some (bs "identity;q=0.5, , gzip")) = Ok true.
Proof. vm_compute. repeat split. Qed.

Print Assumptions c16_qvalue.
Print Assumptions c16_decision.
Print Assumptions c16_absent_or_empty.
Print Assumptions c16_only_other_codings.
Print Assumptions c16_total.
