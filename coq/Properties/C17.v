(* C17 -- streaming_body: coding headers agree with negotiation and with the body. *)
From Coq Require Import String.
From HS Require Import Lib.Base Lib.Bytes Model.Chunker Model.GzWriter Model.Negot Model.Builder Proofs.NegotP Proofs.BuilderP Proofs.GzP Proofs.StreamSession.

(* For every method, Accept-Encoding value (any bytes), gzip level and chunk size >= 1:
   the response always carries Vary: accept-encoding; it carries Content-Encoding: gzip exactly
   when should_gzip prefers gzip and the level is above 0; and the writer is the gzip writer
   exactly in that case (one boolean decides both), no writer at all for HEAD. *)
Theorem c17_headers_and_writer : forall meth ae level cap, 0 < cap ->
  exists sg, should_gzip ae = Ok sg /\
  match streaming_body meth ae with
  | Ok b =>
      build (with_gzip_level (with_chunk_size b cap) level) =
      Ok ([(bs "vary", bs "accept-encoding")] ++ (if sg && (0 <? level) then [(bs "content-encoding", bs "gzip")] else []),
          if beq_bytes meth HEAD_M then None else Some (if sg && (0 <? level) then KGzip level else KRaw))
  | Panic _ => False
  end.
Proof.
  intros meth ae level cap Hcap. destruct (should_gzip_total ae) as [sg Hsg]. exists sg. split; [exact Hsg|].
  unfold streaming_body. rewrite Hsg. cbn [bind]. unfold build, with_gzip_level, with_chunk_size.
  cbn [b_chunk_size b_gzip_level b_should_gzip b_body_needed].
  destruct (N.eqb_spec cap 0); [lia|]. destruct (beq_bytes meth HEAD_M); reflexivity.
Qed.

(* the decision `sg` is C16's: for grammatical Accept-Encoding values it is the RFC preference *)
Theorem c17_negotiation_is_c16 : forall l, l <> [] -> Forall elem_wf l ->
  should_gzip (Some (Spec.AcceptEncoding.render_list l)) = Ok (Spec.AcceptEncoding.prefers_gzip l).
Proof. exact should_gzip_grammar. Qed.

(* The builder's options may be set any number of times, in any order (layered configuration): only
   the value set last counts, and neither the negotiation result nor the method is affected -- so the
   statement above holds with `level` and `cap` read as "the last level / chunk size set". *)
Theorem c17_builder_calls : forall meth ae cs b, streaming_body meth ae = Ok b ->
  0 < last_chunk cs (b_chunk_size b) ->
  build (fold_left bapply cs b) =
  build {| b_chunk_size := last_chunk cs 4096; b_gzip_level := last_level cs 6;
           b_should_gzip := b_should_gzip b; b_body_needed := b_body_needed b |}.
Proof. exact build_after_calls. Qed.

(* The body's actual coding matches the header. For every request, every sequence of builder calls and
   EVERY encoder (what write, flush and finish emit is arbitrary; `enc_init l` is the encoder created
   for level l): when build() hands out a writer, either the response does not say gzip and a whole
   session -- write_all and flush in any order, consumer polls anywhere, the drop, the drain -- hands the
   client exactly the bytes written, verbatim, in order and once, then the clean end; or it says gzip,
   the level is the last one set and above 0, and the client receives exactly the output of the encoder
   of that level for that sequence of operations (under flate2's contract: one gzip member of what was
   written), then the clean end. Chunk size: the last one set. *)
Theorem c17_coding_matches_header : forall enc enc_write enc_flush enc_finish (enc_init : N -> enc) meth ae cs b h k,
  streaming_body meth ae = Ok b -> build (fold_left bapply cs b) = Ok (h, Some k) ->
  let cap := last_chunk cs 4096 in
  0 < cap /\
  match k with
  | KRaw => says_gzip h = false /\
            forall body, Forall raw_op body -> raw_received cap body = (written body, true)
  | KGzip l => says_gzip h = true /\ l = last_level cs 6 /\ 0 < l /\
            forall body, Forall session_op body ->
              gz_received enc enc_write enc_flush enc_finish cap (enc_init l) body =
              (session enc enc_write enc_flush enc_finish (enc_init l) (body ++ [ODropWriter]), true)
  end.
Proof. exact coding_matches_header. Qed.

Example c17_instance :   (* identity session through 3-byte chunks *)
  raw_received 3 [OWriteAll [1;2;3;4]; OPoll 0; OFlush; OWriteAll [5]; OPoll 0] = ([1;2;3;4;5], true).
Proof. vm_compute. reflexivity. Qed.

Print Assumptions c17_headers_and_writer.
Print Assumptions c17_negotiation_is_c16.
Print Assumptions c17_builder_calls.
Print Assumptions c17_coding_matches_header.
