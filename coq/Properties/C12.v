(* C12 -- body size hints and the end-of-stream flag are truthful at every step. *)
From HS Require Import Lib.Base Model.Body Model.Chunker Proofs.BodyP Proofs.BodyRun Proofs.ChunkerP Proofs.EosContract.

(* Bodies from serve (Once, ExactLen, Multipart) and from Body::from / Body::empty (Once) give an
   exact hint (body_hint is a number, lower = upper). At every point of every run that goes on to
   end cleanly, that hint equals the number of bytes still delivered: split a run anywhere. *)
Theorem c12_hint_truthful_at_every_step : forall n1 n2 streams b rs1 rs2 bm bf,
  run n1 streams b = Ok (rs1, bm) -> run n2 streams bm = Ok (rs2, bf) ->
  existsb is_perr rs2 = false -> existsb is_pend rs2 = true ->
  body_hint bm = delivered rs2.
Proof. exact hint_truthful_at_every_step. Qed.

(* The hint is never below what will still come, even when the run ends in an error. *)
Theorem c12_hint_upper_bound : forall n streams b rs bf, run n streams b = Ok (rs, bf) ->
  delivered rs + body_hint bf <= body_hint b /\
  (existsb is_perr rs = false -> delivered rs + body_hint bf = body_hint b).
Proof. exact run_never_more. Qed.

(* Whenever a body says it is at end-of-stream, no further poll delivers a byte ... *)
Theorem c12_eos_no_more_data : forall n streams b rs bf,
  body_eos b = true -> run n streams b = Ok (rs, bf) -> delivered rs = 0.
Proof. exact eos_no_more_data. Qed.

(* ... and, over an entity stream that honours its contract, none reports an error; the body
   reaches its clean end within (events left + 1) polls. *)
Theorem c12_honest_no_error : forall n streams x rs bf, honest_x x ->
  run n streams (BExact x) = Ok (rs, bf) -> existsb is_perr rs = false.
Proof. exact honest_exact_no_error. Qed.
Theorem c12_honest_ends : forall streams x, honest_x x ->
  exists rs bf, run (S (length (x_s x))) streams (BExact x) = Ok (rs, bf) /\ existsb is_pend rs = true.
Proof. exact honest_exact_ends. Qed.

(* The flag clause at full strength for ExactLen bodies (200 and single-range 206): over EVERY entity
   stream within the get_range contract -- exactly the announced bytes, or an early failure after which
   the stream only fails again, stays pending or ends -- at every point of every run, once the body says
   it is at end-of-stream no later poll delivers a byte or reports an error. *)
Theorem c12_eos_means_nothing_more : forall n1 n2 streams x rs1 bm rs2 bf, contract_x x ->
  run n1 streams (BExact x) = Ok (rs1, bm) -> body_eos bm = true ->
  run n2 streams bm = Ok (rs2, bf) ->
  existsb is_perr rs2 = false /\ delivered rs2 = 0.
Proof. exact eos_means_nothing_more. Qed.

(* Multipart bodies, for ANY part streams: the flag is set only once the body is done (after the closing
   delimiter, or fused after an error), and from then on every poll is a clean end. *)
Theorem c12_multipart_eos_means_nothing_more : forall n streams m rs bf, MInv m -> body_eos (BMulti m) = true ->
  run n streams (BMulti m) = Ok (rs, bf) -> existsb is_perr rs = false /\ delivered rs = 0 /\ bf = BMulti m.
Proof. exact mp_eos_means_nothing_more. Qed.

(* Body::from(..) / Body::empty(): exact hint = length; at end-of-stream exactly when taken or empty *)
Theorem c12_once : forall o, body_hint (BOnce o) = match o with Some d => lenN d | None => 0 end /\
                             (body_eos (BOnce o) = true <-> o = None).
Proof. intros [d|]; cbn; split; try reflexivity; split; congruence. Qed.

(* the streaming body (chunker): lower bound = bytes queued (all of which will be delivered);
   an upper bound is given only once the writer is gone, and then equals it *)
Theorem c12_chunker_hint : forall s, CInv s ->
  fst (chunker_hint s) = lenN (pending s) /\
  (forall u, snd (chunker_hint s) = Some u -> u = lenN (pending s) /\ exists ready rb, c_st s = SOk ready rb true).
Proof. exact chunker_hint_is_queue. Qed.
(* it never says end-of-stream while chunks or an abort error are undelivered ... *)
Theorem c12_chunker_not_early : forall s, CInv s -> chunker_eos s = true -> pending s = [] /\ c_st s <> SErr.
Proof. exact eos_not_early. Qed.
(* ... and once it does, every later poll is a clean end: no data, no error *)
Theorem c12_chunker_eos_final : forall s w, CInv s -> chunker_eos s = true -> c_reader s = true ->
  let '(s', r, wk) := cstep s (OPoll w) in r = RPoll (Some None) /\ chunker_eos s' = true.
Proof. exact eos_then_only_end. Qed.

Print Assumptions c12_chunker_hint.
Print Assumptions c12_chunker_not_early.
Print Assumptions c12_chunker_eos_final.
Print Assumptions c12_hint_truthful_at_every_step.
Print Assumptions c12_hint_upper_bound.
Print Assumptions c12_eos_no_more_data.
Print Assumptions c12_honest_no_error.
Print Assumptions c12_honest_ends.
Print Assumptions c12_once.
Print Assumptions c12_eos_means_nothing_more.
Print Assumptions c12_multipart_eos_means_nothing_more.
