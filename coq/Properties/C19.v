(* C19 -- FsDir::get never leaves the base directory and opens exactly the right file. *)
From Coq Require Import String.
From HS Require Import Lib.Base Lib.Bytes Model.Negot Model.Dir Proofs.DirP.

(* A path is accepted exactly when it has no NUL byte, is not absolute and none of its
   '/'-separated segments is ".." (names merely containing dots pass): for every byte string. *)
Theorem c19_validate : forall p,
  validate_path p = None <-> (~ In 0 p /\ (forall t, p <> 47 :: t) /\ ~ In DOTDOT (split_on 47 p)).
Proof. exact validate_path_spec. Qed.
Theorem c19_validate_errors : forall p,
  (In 0 p -> validate_path p = Some ENul) /\
  (~ In 0 p -> (exists t, p = 47 :: t) -> validate_path p = Some EAbsolute).
Proof. exact validate_path_errors. Qed.

(* a rejected path opens nothing *)
Theorem c19_rejected_opens_nothing : forall openat auto path ae e,
  validate_path path = Some e -> fsdir_get openat auto path ae = Ok (GInvalid e, []).
Proof. exact get_rejected. Qed.

(* an accepted path: for every behaviour of openat, the .gz sibling is tried first exactly when
   auto_gzip and should_gzip; it is used exactly when it opened a non-directory; NotFound or a
   directory fall back to the plain name; any other error is returned; the node is the file named
   by the last successful call (or the way opening it fails) *)
Theorem c19_lookup : forall openat auto path ae, validate_path path = None ->
  exists sg, should_gzip ae = Ok sg /\
  fsdir_get openat auto path ae = Ok
    (let plain calls := match openat path with
                        | OOpened ino _ => (GNode ino false auto, calls ++ [path])
                        | ONotFound => (GNotFound, calls ++ [path])
                        | OError k => (GError k, calls ++ [path])
                        end in
     if auto && sg then
       match openat (path ++ DOT_GZ) with
       | OOpened ino false => (GNode ino true auto, [path ++ DOT_GZ])
       | OOpened _ true | ONotFound => plain [path ++ DOT_GZ]
       | OError k => if k =? K_NAMETOOLONG then plain [path ++ DOT_GZ] else (GError k, [path ++ DOT_GZ])
       end
     else plain []).
Proof. exact get_accepted. Qed.

(* "opens exactly the file that path names (or fails the way opening that file fails)": when the path
   itself opens, get fails only if the sibling it had to substitute is there to be opened and fails -- never
   because the sibling is absent or cannot exist (a name made too long by the ".gz" suffix) *)
Theorem c19_fails_only_for_sibling : forall openat auto path ae k calls ino d, validate_path path = None ->
  openat path = OOpened ino d -> fsdir_get openat auto path ae = Ok (GError k, calls) ->
  auto = true /\ should_gzip ae = Ok true /\ openat (path ++ DOT_GZ) = OError k /\ k <> K_NAMETOOLONG.
Proof. exact get_fails_only_for_sibling. Qed.

(* The pinned tree violated this: a file whose name is within NAME_MAX but becomes too long with ".gz"
   appended could not be fetched by a client that prefers gzip (F11). *)
Example c19_legacy_refuted :
  let openat := fun p : bytes => if lenN p <=? 3 then OOpened 7 false else OError K_NAMETOOLONG in
  fsdir_get_legacy openat true (bs "abc") (Some (bs "gzip")) = Ok (GError K_NAMETOOLONG, [bs "abc.gz"]) /\
  fsdir_get openat true (bs "abc") (Some (bs "gzip")) = Ok (GNode 7 false true, [bs "abc.gz"; bs "abc"]).
Proof. vm_compute. split; reflexivity. Qed.

(* gzip is reported exactly when the .gz branch was taken, which needs auto_gzip, a client that
   prefers gzip, and a .gz sibling that is not a directory *)
Theorem c19_encoding : forall openat auto path ae ino gz ag calls,
  fsdir_get openat auto path ae = Ok (GNode ino gz ag, calls) ->
  ag = auto /\ (gz = true <-> calls = [path ++ DOT_GZ]) /\
  (gz = true -> auto = true /\ should_gzip ae = Ok true /\ openat (path ++ DOT_GZ) = OOpened ino false).
Proof. exact get_encoding. Qed.
Theorem c19_encoding_headers : forall gz auto,
  (In (bs "content-encoding", bs "gzip") (node_headers gz auto) <-> gz = true) /\
  (In (bs "vary", bs "accept-encoding") (node_headers gz auto) <-> auto = true) /\
  (node_encoding gz = Some (bs "gzip") <-> gz = true).
Proof. exact node_headers_spec. Qed.

(* containment, in a symlink-free tree: resolving an accepted path from the base ("" and "."
   stay, a name descends, ".." would ascend) never goes above the base directory *)
Theorem c19_contained : forall p, validate_path p = None -> exists d, walk 0 (split_on 47 p) = Some d.
Proof. exact accepted_path_contained. Qed.

Example c19_instance :
  validate_path (bs "sub/..a/a..") = None /\ validate_path (bs "sub/../a") = Some EDotDot /\
  validate_path (bs "/etc/passwd") = Some EAbsolute /\ walk 0 (split_on 47 (bs "sub/../../x")) = None.
Proof. vm_compute. repeat split; reflexivity. Qed.

Print Assumptions c19_validate.
Print Assumptions c19_validate_errors.
Print Assumptions c19_rejected_opens_nothing.
Print Assumptions c19_lookup.
Print Assumptions c19_fails_only_for_sibling.
Print Assumptions c19_encoding.
Print Assumptions c19_encoding_headers.
Print Assumptions c19_contained.
