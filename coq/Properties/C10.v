(* C10 -- streaming bodies make progress under every producer/consumer interleaving. *)
From HS Require Import Lib.Base Model.Chunker Model.ChunkerConc Proofs.ChunkerP Proofs.ConcP Proofs.ChunkerHist Proofs.AbortSteps.

(* The transition system: the producer runs its program one critical section at a time and owes
   the wake-up of the waker it took as a separate step (the real code wakes after unlocking); the
   consumer polls -- with the same or a fresh waker, also spuriously while parked -- or drops the
   body; a schedule is any list of choices. For every chunk size, every producer program over
   write / flush / abort / drop and every schedule of any length: *)

(* J: a parked consumer that was not woken and has no wake-up in flight has nothing to receive
   and is the registered waker; K: once the writer is gone the stream is never open again. *)
Theorem c10_no_lost_wakeup : forall cap prog sched k,
  krun (kinit cap prog) sched = Some k -> J k /\ K k.
Proof. exact no_lost_wakeup. Qed.

(* It never sleeps forever while the termination is pending: after the writer is dropped, aborted
   or dead, and the producer's wake-up (if any) was delivered, a parked consumer has been woken. *)
Theorem c10_woken_after_termination : forall cap prog sched k w,
  krun (kinit cap prog) sched = Some k -> c_w (k_s k) <> WRaw -> k_pend k = None ->
  k_cons k = CParked w -> mem_w w (k_woken k) = true.
Proof. exact never_sleeps_after_writer_gone. Qed.

(* ... nor while chunks are queued. *)
Theorem c10_not_asleep_on_data : forall cap prog sched k w,
  krun (kinit cap prog) sched = Some k -> k_pend k = None -> k_cons k = CParked w -> mem_w w (k_woken k) = false ->
  exists rb, c_st (k_s k) = SOk [] rb false.
Proof. exact never_sleeps_on_data. Qed.

(* Every publishing critical section that took a waker is followed, before anything else the
   producer does, by the wake-up of exactly that waker. *)
Theorem c10_publish_then_wake : forall k k' r, kstep k P_cs = Some (k', r) ->
  k_pend k' <> None -> kstep k' P_cs = None /\ exists k'', kstep k' P_wake = Some (k'', RUnit) /\ k_pend k'' = None.
Proof. exact publish_then_wake. Qed.

(* Once the writer is gone the consumer, polling on, receives every queued chunk in order and then
   the end within |queue| + 1 polls (the schedule no longer matters: the producer cannot touch the
   shared state any more). *)
Theorem c10_bounded_end : forall ready s rb, Good s -> c_w s = WGone -> c_st s = SOk ready rb true ->
  let '(sf, rs) := crun s (repeat (OPoll 0) (S (length ready))) in
  c_st sf = SFused /\ del_total rs = concat ready /\
  (exists rs0, rs = rs0 ++ [(RPoll (Some None), [])]).
Proof. exact drain_finished. Qed.

(* Every schedule executes the sequential operations of some history (the producer's program
   interleaved with the consumer's polls and drop): the shared state it reaches is the state that
   history reaches. Every theorem about all histories therefore holds under all interleavings. *)
Theorem c10_schedules_are_histories : forall cs k kf, krun k cs = Some kf ->
  k_s kf = fst (crun (k_s k) (kops k cs)).
Proof. exact schedule_is_history. Qed.

(* "it receives everything flushed before a clean end", under every interleaving: what has been
   delivered is always a prefix of what was accepted (with c08_clean_end_complete: all of it at a
   clean end), and the shared state keeps the general invariant. *)
Theorem c10_prefix_under_all_schedules : forall cap prog sched k, 0 < cap -> krun (kinit cap prog) sched = Some k ->
  let '(sf, rs) := crun (cinit cap) (kops (kinit cap prog) sched) in
  k_s k = sf /\ exists rest, acc_total (kops (kinit cap prog) sched) rs = del_total rs ++ rest.
Proof. exact schedule_prefix. Qed.
Theorem c10_invariant_under_all_schedules : forall cap prog sched k, 0 < cap ->
  krun (kinit cap prog) sched = Some k -> Gen (k_s k).
Proof. exact schedule_gen. Qed.

(* non-vacuity: a schedule in which the consumer parks, the producer publishes, and the wake-up
   is delivered only after a further consumer step *)
Example c10_instance :
  match krun (kinit 1 [OWrite [7]; ODropWriter]) [C_poll 1; P_cs; C_poll 2; P_wake; P_cs; C_poll 2] with
  | Some k => (k_cons k, k_woken k, k_pend k)
  | None => (CRun, [], None)
  end = (CDone, [1], None).
Proof. vm_compute. reflexivity. Qed.

(* However many chunks are queued -- one or a million -- that many consecutive polls deliver exactly them, in
   order, each as data: the consumer is never told Pending while the queue is non-empty, so it needs no
   further wake-up to get what a flush has made available (and after the last chunk of a dropped writer's
   queue the body is at its end). *)
Theorem c10_queued_chunks_are_delivered : forall q s rb wd w, c_reader s = true -> c_st s = SOk q rb wd ->
  let '(sf, rs) := crun s (repeat (OPoll w) (length q)) in
  del_total rs = concat q /\ Forall (fun p => exists d, fst p = RPoll (Some (Some (Some d)))) rs /\
  (c_st sf = SOk [] (rb - lenN (concat q)) wd \/ (q <> [] /\ wd = true /\ c_st sf = SFused)).
Proof. exact queued_chunks_are_delivered. Qed.

Print Assumptions c10_no_lost_wakeup.
Print Assumptions c10_woken_after_termination.
Print Assumptions c10_not_asleep_on_data.
Print Assumptions c10_publish_then_wake.
Print Assumptions c10_bounded_end.
Print Assumptions c10_schedules_are_histories.
Print Assumptions c10_prefix_under_all_schedules.
Print Assumptions c10_invariant_under_all_schedules.
Print Assumptions c10_queued_chunks_are_delivered.
