#!/bin/sh
# regenerate the Makefile for the current file list and build (developer convenience)
cd "$(dirname "$0")"
coq_makefile -f _CoqProject $(find . -name '*.v' | sed 's|^\./||' | sort) -o Makefile >/dev/null
timeout 1700 make -j16 "$@" 2>&1 | grep -v '^COQDEP\|WARNING conda\|^COQC '
