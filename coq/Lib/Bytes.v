(* Models of the Rust str / slice helpers the crate uses, with characterising lemmas. *)
From HS Require Import Lib.Base.
Ltac Zify.zify_post_hook ::= Z.div_mod_to_equations.

(* str::split(sep): always at least one piece. *)
Fixpoint split_on (sep : N) (s : bytes) : list bytes :=
  match s with
  | [] => [[]]
  | b :: t => if b =? sep then [] :: split_on sep t
              else match split_on sep t with [] => [[b]] | h :: r => (b :: h) :: r end
  end.

(* str::trim_start_matches([' ', '\t']) *)
Fixpoint trim_start (s : bytes) : bytes :=
  match s with b :: t => if is_ows b then trim_start t else s | [] => [] end.

(* str::trim() restricted to what HeaderValue::to_str lets through: SP and HT
   (to_str admits only 0x20..0x7e and HT, so no other Unicode whitespace can occur). *)
Definition trim_end (s : bytes) : bytes := rev (trim_start (rev s)).
Definition trim (s : bytes) : bytes := trim_end (trim_start s).

(* str::find(char): index of first occurrence *)
Fixpoint find (c : N) (s : bytes) : option nat :=
  match s with [] => None | b :: t => if b =? c then Some O else option_map S (find c t) end.

(* strip_prefix *)
Fixpoint strip_prefix (p s : bytes) : option bytes :=
  match p, s with
  | [], _ => Some s
  | a :: p', b :: s' => if a =? b then strip_prefix p' s' else None
  | _ :: _, [] => None
  end.
Definition starts_with (p s : bytes) : bool :=
  match strip_prefix p s with Some _ => true | None => false end.

(* str::split_once(c) *)
Definition split_once (c : N) (s : bytes) : option (bytes * bytes) :=
  match find c s with None => None | Some i => Some (firstn i s, skipn (S i) s) end.

(* HeaderValue::to_str: visible ASCII, SP and HT only. *)
Definition is_visible (b : N) : bool := ((32 <=? b) && (b <? 127)) || (b =? 9).
Definition to_str (s : bytes) : option bytes := if forallb is_visible s then Some s else None.

(* ---------- lemmas ---------- *)

Lemma split_on_nosep sep x : ~ In sep x -> split_on sep x = [x].
Proof.
  induction x as [|b t IH]; cbn [split_on]; intros H; [reflexivity|].
  destruct (N.eqb_spec b sep) as [->|Hne]; [exfalso; apply H; now left|].
  rewrite IH by (intros Hin; apply H; now right). reflexivity.
Qed.

Lemma split_on_app sep x rest : ~ In sep x ->
  split_on sep (x ++ sep :: rest) = x :: split_on sep rest.
Proof.
  induction x as [|b t IH]; cbn [split_on app]; intros H.
  - now rewrite N.eqb_refl.
  - destruct (N.eqb_spec b sep) as [->|Hne]; [exfalso; apply H; now left|].
    rewrite IH by (intros Hin; apply H; now right). reflexivity.
Qed.

Lemma split_on_nonempty sep s : split_on sep s <> [].
Proof.
  induction s as [|b t IH]; cbn [split_on]; [discriminate|].
  destruct (b =? sep); [discriminate|]. destruct (split_on sep t); discriminate.
Qed.

(* join is the inverse direction: every piece is sep-free and the pieces rebuild the input *)
Fixpoint join (sep : N) (l : list bytes) : bytes :=
  match l with
  | [] => []
  | [x] => x
  | x :: r => x ++ sep :: join sep r
  end.

Lemma join_split sep s : join sep (split_on sep s) = s.
Proof.
  induction s as [|b t IH]; cbn [split_on]; [reflexivity|].
  pose proof (split_on_nonempty sep t) as Hn. revert IH Hn.
  destruct (split_on sep t) as [|h r]; intros IH Hn; [congruence|].
  destruct (N.eqb_spec b sep) as [->|Hne].
  - change (join sep ([] :: h :: r)) with ([] ++ sep :: join sep (h :: r)).
    cbn [app]. now f_equal.
  - destruct r as [|h2 r2]; cbn [join app] in *; now f_equal.
Qed.

Lemma split_on_pieces_nosep sep s : Forall (fun x => ~ In sep x) (split_on sep s).
Proof.
  induction s as [|b t IH]; cbn [split_on].
  - constructor; [intros []|constructor].
  - destruct (N.eqb_spec b sep) as [->|Hne].
    + constructor; [intros []|exact IH].
    + destruct (split_on sep t) as [|h r]; [constructor; [|constructor]|].
      * intros [H|[]]. congruence.
      * inversion IH as [|? ? Hh Hr]; subst. constructor; [|exact Hr].
        intros [H|H]; [congruence|contradiction].
Qed.

Lemma split_join sep l : l <> [] -> Forall (fun x => ~ In sep x) l ->
  split_on sep (join sep l) = l.
Proof.
  induction l as [|x r IH]; [congruence|]; intros _ HF.
  inversion HF as [|? ? Hx Hr]; subst.
  destruct r as [|y r']; [cbn [join]; now apply split_on_nosep|].
  change (join sep (x :: y :: r')) with (x ++ sep :: join sep (y :: r')).
  rewrite split_on_app by assumption. f_equal. apply IH; [congruence|assumption].
Qed.

Definition all_ows (ws : bytes) : Prop := forallb is_ows ws = true.

Lemma trim_start_app ws s : all_ows ws -> trim_start (ws ++ s) = trim_start s.
Proof.
  unfold all_ows. induction ws as [|b ws IH]; cbn [app trim_start forallb]; intros H; [reflexivity|].
  apply andb_prop in H. destruct H as [Hb Hw]. rewrite Hb. auto.
Qed.
Lemma trim_start_id s b : is_ows b = false -> trim_start (b :: s) = b :: s.
Proof. intros H. cbn [trim_start]. now rewrite H. Qed.
Lemma trim_start_nil : trim_start [] = [].
Proof. reflexivity. Qed.

Lemma trim_start_decomp s : exists ws, all_ows ws /\ s = ws ++ trim_start s /\
  (match trim_start s with [] => True | b :: _ => is_ows b = false end).
Proof.
  induction s as [|b t IH].
  - exists []. repeat split.
  - cbn [trim_start]. destruct (is_ows b) eqn:Hb.
    + destruct IH as (ws & Hw & He & Hh). exists (b :: ws). repeat split.
      * unfold all_ows in *. cbn [forallb]. now rewrite Hb, Hw.
      * cbn [app]. now f_equal.
      * exact Hh.
    + exists []. repeat split. exact Hb.
Qed.

Lemma find_app_no c x s : ~ In c x -> find c (x ++ c :: s) = Some (length x).
Proof.
  induction x as [|b t IH]; cbn [find app length]; intros H.
  - now rewrite N.eqb_refl.
  - destruct (N.eqb_spec b c) as [->|Hne]; [exfalso; apply H; now left|].
    rewrite IH by (intros Hin; apply H; now right). reflexivity.
Qed.
Lemma find_none c x : ~ In c x -> find c x = None.
Proof.
  induction x as [|b t IH]; cbn [find]; intros H; [reflexivity|].
  destruct (N.eqb_spec b c) as [->|Hne]; [exfalso; apply H; now left|].
  rewrite IH by (intros Hin; apply H; now right). reflexivity.
Qed.
Lemma find_some c s i : find c s = Some i ->
  s = firstn i s ++ c :: skipn (S i) s /\ ~ In c (firstn i s) /\ length (firstn i s) = i.
Proof.
  revert i; induction s as [|b t IH]; cbn [find]; intros i H; [discriminate|].
  destruct (N.eqb_spec b c) as [->|Hne].
  - inversion H; subst. cbn. repeat split. intros [].
  - destruct (find c t) as [j|] eqn:E; [|discriminate]. cbn in H. inversion H; subst.
    destruct (IH j eq_refl) as (H1 & H2 & H3). cbn [firstn skipn app length]. repeat split.
    + f_equal. exact H1.
    + intros [Hb|Hin]; [congruence|contradiction].
    + now f_equal.
Qed.
Lemma find_none_inv c s : find c s = None -> ~ In c s.
Proof.
  induction s as [|b t IH]; cbn [find]; intros H; [intros []|].
  destruct (N.eqb_spec b c) as [->|Hne]; [discriminate|].
  destruct (find c t); [discriminate|]. intros [E|Hin]; [congruence|now apply IH].
Qed.

Lemma firstn_len {A} (x s : list A) : firstn (length x) (x ++ s) = x.
Proof. rewrite firstn_app, Nat.sub_diag, firstn_all. cbn. now rewrite app_nil_r. Qed.
Lemma skipn_S_len {A} (x : list A) c s : skipn (S (length x)) (x ++ c :: s) = s.
Proof. induction x as [|b t IH]; cbn [length app]; [reflexivity|]. exact IH. Qed.

Lemma strip_prefix_app p s : strip_prefix p (p ++ s) = Some s.
Proof. induction p as [|a p IH]; cbn [strip_prefix app]; [reflexivity|]. now rewrite N.eqb_refl. Qed.
Lemma strip_prefix_some p s r : strip_prefix p s = Some r -> s = p ++ r.
Proof.
  revert s; induction p as [|a p IH]; intros s H; cbn [strip_prefix] in H.
  - now inversion H.
  - destruct s as [|b s]; [discriminate|]. destruct (N.eqb_spec a b) as [->|]; [|discriminate].
    cbn [app]. f_equal. now apply IH.
Qed.
Lemma starts_with_app p s : starts_with p (p ++ s) = true.
Proof. unfold starts_with. now rewrite strip_prefix_app. Qed.
Lemma starts_with_iff p s : starts_with p s = true <-> exists r, s = p ++ r.
Proof.
  unfold starts_with. split.
  - destruct (strip_prefix p s) as [r|] eqn:E; [|discriminate]. intros _. exists r. now apply strip_prefix_some.
  - intros [r ->]. now rewrite strip_prefix_app.
Qed.
