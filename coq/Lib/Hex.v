(* Lower-case hexadecimal rendering ({:x} of u64 / u32) and its injectivity. *)
From HS Require Import Lib.Base.
Ltac Zify.zify_post_hook ::= Z.div_mod_to_equations.

Definition hex_digit (d : N) : N := if d <? 10 then 48 + d else 87 + d.    (* 0-9, a-f *)
Definition is_hex (b : N) : bool := ((48 <=? b) && (b <=? 57)) || ((97 <=? b) && (b <=? 102)).
Definition hex_val (b : N) : N := if b <=? 57 then b - 48 else b - 87.

Fixpoint hex_fuel (f : nat) (n : N) (acc : bytes) : bytes :=
  match f with O => acc | S f' => let acc' := hex_digit (n mod 16) :: acc in
     if n / 16 =? 0 then acc' else hex_fuel f' (n / 16) acc' end.
Definition hex (n : N) : bytes := hex_fuel (S (N.to_nat (N.log2 n))) n [].

Fixpoint hvalue (s : bytes) (acc : N) : N :=
  match s with [] => acc | b :: t => hvalue t (acc * 16 + hex_val b) end.

Lemma hvalue_app s t acc : hvalue (s ++ t) acc = hvalue t (hvalue s acc).
Proof. revert acc; induction s as [|b s IH]; intros acc; cbn [hvalue app]; [reflexivity|apply IH]. Qed.

Lemma hex_fuel_acc f : forall n acc, hex_fuel f n acc = hex_fuel f n [] ++ acc.
Proof.
  induction f as [|f IH]; intros n acc; cbn [hex_fuel]; [reflexivity|].
  destruct (n / 16 =? 0); [reflexivity|].
  rewrite IH. rewrite (IH (n / 16) [hex_digit (n mod 16)]). rewrite <- app_assoc. reflexivity.
Qed.

Lemma hex_digit_ok d : d < 16 -> is_hex (hex_digit d) = true /\ hex_val (hex_digit d) = d.
Proof.
  intros H. unfold hex_digit, is_hex, hex_val. destruct (N.ltb_spec d 10) as [Hl|Hg].
  - destruct (N.leb_spec (48 + d) 57); split; lia.
  - destruct (N.leb_spec (87 + d) 57); split; lia.
Qed.

Lemma hex_fuel_value f : forall n, n < 2 ^ N.of_nat f ->
  forallb is_hex (hex_fuel f n []) = true /\ (forall k, hvalue (hex_fuel f n []) k = k * 16 ^ N.of_nat (length (hex_fuel f n [])) + n)
  /\ (f <> O -> hex_fuel f n [] <> []).
Proof.
  induction f as [|f IH]; intros n Hn.
  - cbn in Hn. assert (n = 0) by lia. subst. cbn. repeat split; first [lia | congruence].
  - cbn [hex_fuel]. pose proof (N.mod_upper_bound n 16) as Hm.
    destruct (hex_digit_ok (n mod 16)) as [Hd Hv]; [lia|].
    destruct (N.eqb_spec (n / 16) 0) as [Hz|Hnz].
    + repeat split; try congruence.
      * cbn [forallb]. now rewrite Hd.
      * intros k. cbn [hvalue length]. change (N.of_nat 1) with 1. rewrite N.pow_1_r, Hv.
        assert (n = n mod 16) by (pose proof (N.div_mod' n 16); lia). lia.
    + rewrite hex_fuel_acc.
      assert (Hlt : n / 16 < 2 ^ N.of_nat f).
      { rewrite Nat2N.inj_succ, N.pow_succ_r' in Hn. apply N.div_lt_upper_bound; lia. }
      destruct (IH (n / 16) Hlt) as (Hdd & Hvv & Hne).
      repeat split.
      * rewrite forallb_app, Hdd. cbn [forallb andb]. now rewrite Hd.
      * intros k. rewrite hvalue_app, Hvv. cbn [hvalue]. rewrite app_length. cbn [length].
        rewrite Nat.add_1_r, Nat2N.inj_succ, N.pow_succ_r', Hv.
        pose proof (N.div_mod' n 16).
        set (p := 16 ^ N.of_nat (length (hex_fuel f (n / 16) []))). nia.
      * intros _ H. apply app_eq_nil in H. destruct H; discriminate.
Qed.

Lemma log2_fuel n : n < 2 ^ N.of_nat (S (N.to_nat (N.log2 n))).
Proof.
  rewrite Nat2N.inj_succ, N2Nat.id.
  destruct (N.eq_dec n 0) as [->|Hn]; [cbn; lia|]. apply N.log2_spec. lia.
Qed.

Theorem hex_digits n : forallb is_hex (hex n) = true.
Proof. unfold hex. apply hex_fuel_value, log2_fuel. Qed.
Theorem hex_nonempty n : hex n <> [].
Proof. unfold hex. apply hex_fuel_value; [apply log2_fuel|discriminate]. Qed.
Theorem hex_value n : hvalue (hex n) 0 = n.
Proof. unfold hex. destruct (hex_fuel_value _ n (log2_fuel n)) as (_ & Hv & _). rewrite Hv. lia. Qed.
Theorem hex_inj a b : hex a = hex b -> a = b.
Proof. intros H. rewrite <- (hex_value a), <- (hex_value b). now rewrite H. Qed.
Lemma hex_no c n : is_hex c = false -> ~ In c (hex n).
Proof.
  intros Hc Hin. pose proof (hex_digits n) as H. rewrite forallb_forall in H. specialize (H _ Hin). congruence.
Qed.
