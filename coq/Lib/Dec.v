(* Decimal rendering ({} of u64 / usize) and parsing (1*DIGIT with overflow check). *)
From HS Require Import Lib.Base.
Ltac Zify.zify_post_hook ::= Z.div_mod_to_equations.

(* u64::from_str restricted to digit strings: accumulates with overflow check. *)
Fixpoint parse_digits (s : bytes) (acc : N) : option N :=
  match s with
  | [] => Some acc
  | b :: t => if is_digit b then let a := acc * 10 + (b - 48) in
                if a <? U64 then parse_digits t a else None else None
  end.
(* 1*DIGIT, value < 2^64 *)
Definition parse_pos (s : bytes) : option N := match s with [] => None | _ => parse_digits s 0 end.

Fixpoint dec_fuel (f : nat) (n : N) (acc : bytes) : bytes :=
  match f with O => acc | S f' => let acc' := (48 + n mod 10) :: acc in
     if n / 10 =? 0 then acc' else dec_fuel f' (n / 10) acc' end.
Definition dec (n : N) : bytes := dec_fuel (S (N.to_nat (N.log2 n))) n [].

(* value of a digit string read left to right, starting from acc *)
Fixpoint value (s : bytes) (acc : N) : N :=
  match s with [] => acc | b :: t => value t (acc * 10 + (b - 48)) end.

Lemma value_app s t acc : value (s ++ t) acc = value t (value s acc).
Proof. revert acc; induction s as [|b s IH]; intros acc; cbn [value app]; [reflexivity|apply IH]. Qed.

Lemma value_mono s acc : acc <= value s acc.
Proof. revert acc; induction s as [|b s IH]; intros acc; cbn [value]; [lia|].
  specialize (IH (acc * 10 + (b - 48))). lia. Qed.

Lemma parse_digits_value s : forall acc, forallb is_digit s = true -> value s acc < U64 ->
  parse_digits s acc = Some (value s acc).
Proof.
  induction s as [|b s IH]; intros acc Hd Hv; cbn [parse_digits value forallb] in *; [reflexivity|].
  apply andb_prop in Hd. destruct Hd as [Hb Hs]. rewrite Hb.
  pose proof (value_mono s (acc * 10 + (b - 48))) as Hm.
  destruct (N.ltb_spec (acc * 10 + (b - 48)) U64) as [Hlt|Hge]; [|lia].
  apply IH; assumption.
Qed.

Lemma parse_digits_overflow s : forall acc, forallb is_digit s = true -> U64 <= value s acc ->
  parse_digits s acc = None \/ (s = [] /\ U64 <= acc).
Proof.
  induction s as [|b s IH]; intros acc Hd Hv; cbn [parse_digits value forallb] in *.
  - right. split; [reflexivity|exact Hv].
  - left. apply andb_prop in Hd. destruct Hd as [Hb Hs]. rewrite Hb.
    destruct (N.ltb_spec (acc * 10 + (b - 48)) U64) as [Hlt|Hge]; [|reflexivity].
    destruct (IH _ Hs Hv) as [H|[_ H]]; [exact H|lia].
Qed.

Lemma parse_digits_some s : forall acc n, parse_digits s acc = Some n ->
  forallb is_digit s = true /\ n = value s acc /\ (s <> [] -> n < U64).
Proof.
  induction s as [|b s IH]; intros acc n H; cbn [parse_digits value forallb] in *.
  - inversion H; subst. repeat split. congruence.
  - destruct (is_digit b) eqn:Hb; [|discriminate].
    destruct (N.ltb_spec (acc * 10 + (b - 48)) U64) as [Hlt|Hge]; [|discriminate].
    destruct (IH _ _ H) as (H1 & H2 & H3). repeat split; [now rewrite H1|exact H2|].
    intros _. destruct s as [|c s']; [cbn in H2; lia|apply H3; discriminate].
Qed.

Lemma dec_fuel_acc f : forall n acc, dec_fuel f n acc = dec_fuel f n [] ++ acc.
Proof.
  induction f as [|f IH]; intros n acc; cbn [dec_fuel]; [reflexivity|].
  destruct (n / 10 =? 0); [reflexivity|].
  rewrite IH. rewrite (IH (n / 10) [48 + n mod 10]). rewrite <- app_assoc. reflexivity.
Qed.

Lemma dec_fuel_value f : forall n, n < 2 ^ N.of_nat f ->
  forallb is_digit (dec_fuel f n []) = true /\ (forall k, value (dec_fuel f n []) k = k * 10 ^ N.of_nat (length (dec_fuel f n [])) + n)
  /\ (f <> O -> dec_fuel f n [] <> []).
Proof.
  induction f as [|f IH]; intros n Hn.
  - cbn in Hn. assert (n = 0) by lia. subst. cbn. repeat split; first [lia | congruence].
  - cbn [dec_fuel].
    assert (Hdig : is_digit (48 + n mod 10) = true).
    { unfold is_digit. pose proof (N.mod_upper_bound n 10). lia. }
    destruct (N.eqb_spec (n / 10) 0) as [Hz|Hnz].
    + repeat split; try congruence.
      * cbn [forallb]. now rewrite Hdig.
      * intros k. cbn [value length]. change (N.of_nat 1) with 1. rewrite N.pow_1_r.
        assert (n = n mod 10) by (pose proof (N.div_mod' n 10); lia). lia.
    + rewrite dec_fuel_acc.
      assert (Hlt : n / 10 < 2 ^ N.of_nat f).
      { rewrite Nat2N.inj_succ, N.pow_succ_r' in Hn.
        apply N.div_lt_upper_bound; lia. }
      destruct (IH (n / 10) Hlt) as (Hd & Hv & Hne).
      repeat split.
      * rewrite forallb_app, Hd. cbn [forallb andb]. now rewrite Hdig.
      * intros k. rewrite value_app, Hv. cbn [value]. rewrite app_length. cbn [length].
        rewrite Nat.add_1_r, Nat2N.inj_succ, N.pow_succ_r'.
        pose proof (N.div_mod' n 10).
        replace (48 + n mod 10 - 48) with (n mod 10) by lia.
        set (p := 10 ^ N.of_nat (length (dec_fuel f (n / 10) []))). nia.
      * intros _ H. apply app_eq_nil in H. destruct H; discriminate.
Qed.

Lemma log2_fuel n : n < 2 ^ N.of_nat (S (N.to_nat (N.log2 n))).
Proof.
  rewrite Nat2N.inj_succ, N2Nat.id.
  destruct (N.eq_dec n 0) as [->|Hn]; [cbn; lia|].
  apply N.log2_spec. lia.
Qed.

Theorem dec_digits n : forallb is_digit (dec n) = true.
Proof. unfold dec. apply dec_fuel_value, log2_fuel. Qed.
Theorem dec_nonempty n : dec n <> [].
Proof. unfold dec. apply dec_fuel_value; [apply log2_fuel|discriminate]. Qed.
Theorem dec_value n : value (dec n) 0 = n.
Proof. unfold dec. destruct (dec_fuel_value _ n (log2_fuel n)) as (_ & Hv & _). rewrite Hv. lia. Qed.
Theorem parse_pos_dec n : n < U64 -> parse_pos (dec n) = Some n.
Proof.
  intros Hn. unfold parse_pos. pose proof (dec_nonempty n) as Hne.
  destruct (dec n) as [|b s] eqn:E; [congruence|]. rewrite <- E.
  rewrite parse_digits_value; rewrite ?dec_value; auto using dec_digits.
Qed.
Theorem parse_pos_dec_overflow n : U64 <= n -> parse_pos (dec n) = None.
Proof.
  intros Hn. unfold parse_pos. pose proof (dec_nonempty n) as Hne.
  destruct (dec n) as [|b s] eqn:E; [congruence|]. rewrite <- E.
  destruct (parse_digits_overflow (dec n) 0 (dec_digits n)) as [H|[H _]];
    [rewrite dec_value; exact Hn|exact H|congruence].
Qed.

Lemma digit_not c s : (c <? 48) || (57 <? c) = true -> forallb is_digit s = true -> ~ In c s.
Proof.
  intros Hc Hs Hin. rewrite forallb_forall in Hs. specialize (Hs _ Hin). unfold is_digit in Hs. lia.
Qed.
Lemma dec_no c n : (c <? 48) || (57 <? c) = true -> ~ In c (dec n).
Proof. intros Hc. apply digit_not; [assumption|apply dec_digits]. Qed.

Lemma dec_head n : exists d t, dec n = d :: t /\ is_digit d = true.
Proof.
  pose proof (dec_nonempty n) as Hne. pose proof (dec_digits n) as Hd.
  destruct (dec n) as [|d t]; [congruence|]. exists d, t. split; [reflexivity|].
  cbn [forallb] in Hd. apply andb_prop in Hd. tauto.
Qed.

(* injectivity: the rendering determines the number *)
Lemma dec_inj a b : dec a = dec b -> a = b.
Proof. intros H. rewrite <- (dec_value a), <- (dec_value b). now rewrite H. Qed.

(* length bound: a u64 renders in at most 20 bytes *)
Lemma pow10_value s k : forallb is_digit s = true -> k * 10 ^ N.of_nat (length s) <= value s k.
Proof.
  revert k; induction s as [|b s IH]; intros k Hd; cbn [value length].
  - cbn. lia.
  - cbn [forallb] in Hd. apply andb_prop in Hd. destruct Hd as [Hb Hs].
    specialize (IH (k * 10 + (b - 48)) Hs). rewrite Nat2N.inj_succ, N.pow_succ_r'.
    set (p := 10 ^ N.of_nat (length s)) in *. nia.
Qed.
