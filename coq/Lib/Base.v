(* Base conventions: bytes are N, byte strings are list N, u64 is N with explicit
   overflow, and Rust panics are an explicit result. *)
From Coq Require Export List NArith ZArith Lia Bool Arith.
From Coq Require Export ZifyBool ZifyN ZifyNat.
Export ListNotations.
Open Scope N_scope.

Arguments N.add : simpl never.
Arguments N.sub : simpl never.
Arguments N.mul : simpl never.
Arguments N.div : simpl never.
Arguments N.modulo : simpl never.
Arguments N.eqb : simpl never.
Arguments N.ltb : simpl never.
Arguments N.leb : simpl never.
Arguments N.min : simpl never.
Arguments N.max : simpl never.

Definition bytes := list N.

(* 2^64 *)
Definition U64 : N := 18446744073709551616.
Definition U64MAX : N := 18446744073709551615.

(* Result of a Rust computation that may panic. The tag names the panic site. *)
Inductive M (A : Type) : Type :=
| Ok (a : A)
| Panic (tag : N).
Arguments Ok {A} a.
Arguments Panic {A} tag.

Definition bind {A B} (m : M A) (f : A -> M B) : M B :=
  match m with Ok a => f a | Panic t => Panic t end.
Notation "'let!' x ':=' m 'in' f" := (bind m (fun x => f))
  (at level 200, x pattern, m at level 100, f at level 200).

Definition is_ok {A} (m : M A) : bool := match m with Ok _ => true | Panic _ => false end.

(* Panic tags (documentation of the sites; see Model files). *)
Definition P_ADD_OVERFLOW : N := 1.
Definition P_SUB_UNDERFLOW : N := 2.
Definition P_INDEX : N := 3.
Definition P_DEBUG_ASSERT : N := 4.
Definition P_FUEL : N := 5.      (* model ran out of fuel: never a real result *)
Definition P_FMT_CAP : N := 6.   (* unsafe_fmt_ascii_val! capacity exceeded *)
Definition P_MUL_OVERFLOW : N := 7.
Definition P_ASSERT : N := 8.

(* u64 arithmetic as rustc compiles it in a debug build. *)
Definition u64_add (a b : N) : M N := if a + b <? U64 then Ok (a + b) else Panic P_ADD_OVERFLOW.
Definition u64_sub (a b : N) : M N := if b <=? a then Ok (a - b) else Panic P_SUB_UNDERFLOW.
Definition u64_checked_add (a b : N) : option N := if a + b <? U64 then Some (a + b) else None.
Definition u64_checked_sub (a b : N) : option N := if b <=? a then Some (a - b) else None.
Definition u64_saturating_add (a b : N) : N := if a + b <? U64 then a + b else U64MAX.
Definition u64_saturating_sub (a b : N) : N := a - b. (* N subtraction truncates at 0 *)

(* ASCII helpers *)
Definition is_digit (b : N) : bool := (48 <=? b) && (b <=? 57).
Definition is_ows (b : N) : bool := (b =? 32) || (b =? 9).

Fixpoint beq_bytes (a b : bytes) : bool :=
  match a, b with
  | [], [] => true
  | x :: a', y :: b' => (x =? y) && beq_bytes a' b'
  | _, _ => false
  end.

Lemma beq_bytes_spec a b : beq_bytes a b = true <-> a = b.
Proof.
  revert b; induction a as [|x a IH]; intros [|y b]; cbn [beq_bytes]; split; intros H;
    try reflexivity; try discriminate.
  - apply andb_prop in H. destruct H as [H1 H2]. apply N.eqb_eq in H1. apply IH in H2. congruence.
  - inversion H; subst. rewrite N.eqb_refl. cbn. now apply IH.
Qed.

Lemma beq_bytes_refl a : beq_bytes a a = true.
Proof. now apply beq_bytes_spec. Qed.

Lemma beq_bytes_false a b : beq_bytes a b = false <-> a <> b.
Proof.
  split.
  - intros H E. apply beq_bytes_spec in E. congruence.
  - intros H. destruct (beq_bytes a b) eqn:E; [|reflexivity]. apply beq_bytes_spec in E. contradiction.
Qed.

Fixpoint sumN (l : list N) : N := match l with [] => 0 | x :: t => x + sumN t end.
Definition lenN {A} (l : list A) : N := N.of_nat (length l).

Lemma lenN_app {A} (a b : list A) : lenN (a ++ b) = lenN a + lenN b.
Proof. unfold lenN. rewrite app_length. lia. Qed.
Lemma lenN_nil {A} : lenN (@nil A) = 0.
Proof. reflexivity. Qed.
Lemma lenN_cons {A} (x : A) l : lenN (x :: l) = 1 + lenN l.
Proof. unfold lenN. cbn [length]. lia. Qed.

(* String literals as byte lists. *)
From Coq Require Import Ascii String.
Definition bs (s : string) : bytes := List.map N_of_ascii (list_ascii_of_string s).

