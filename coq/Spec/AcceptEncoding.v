(* RFC 7231 section 5.3.4 Accept-Encoding as an AST, and the preference of gzip over identity. *)
From Coq Require Import String.
From HS Require Import Lib.Base Lib.Dec.

(* qvalue = ( "0" [ "." 0*3DIGIT ] ) / ( "1" [ "." 0*3("0") ] ), as thousandths *)
Inductive qv := QZero (digits : list N)        (* "0" | "0." ds, |ds| <= 3, ds are digit values 0..9; [] with dot flag below *)
              | QOne (zeros : nat).             (* "1" | "1." 0*3"0" *)
Record weight := { w_q : qv; w_dot : bool }.    (* w_dot: whether the "." is written when no digit follows *)

Definition digits_ok (ds : list N) : Prop := (length ds <= 3)%nat /\ Forall (fun d => d <= 9) ds.
Definition weight_ok (w : weight) : Prop :=
  match w_q w with QZero ds => digits_ok ds | QOne z => (z <= 3)%nat end.

Definition render_weight (w : weight) : bytes :=
  match w_q w with
  | QZero [] => if w_dot w then bs "0." else bs "0"
  | QZero ds => bs "0." ++ map (fun d => 48 + d) ds
  | QOne O => if w_dot w then bs "1." else bs "1"
  | QOne z => bs "1." ++ repeat 48 z
  end.

Fixpoint digits_value (ds : list N) (acc : N) : N :=
  match ds with [] => acc | d :: t => digits_value t (acc * 10 + d) end.
Definition weight_value (w : weight) : N :=
  match w_q w with
  | QOne _ => 1000
  | QZero ds => digits_value ds 0 * match length ds with 1%nat => 100 | 2%nat => 10 | _ => 1 end
  end.

(* one element: OWS coding [ OWS ";" OWS "q=" qvalue ] OWS *)
Record elem := { e_pre : bytes; e_coding : bytes; e_w : option (bytes * bytes * weight); e_post : bytes }.
Definition render_elem (e : elem) : bytes :=
  e_pre e ++ e_coding e
  ++ match e_w e with
     | None => []
     | Some (ws1, ws2, w) => ws1 ++ [59] ++ ws2 ++ bs "q=" ++ render_weight w
     end
  ++ e_post e.
Fixpoint render_list (l : list elem) : bytes :=
  match l with
  | [] => []
  | [e] => render_elem e
  | e :: t => render_elem e ++ 44 :: render_list t
  end.

Definition elem_quality (e : elem) : N :=
  match e_w e with None => 1000 | Some (_, _, w) => weight_value w end.

(* quality of the last element naming a coding *)
Fixpoint quality_of (c : bytes) (l : list elem) (acc : option N) : option N :=
  match l with
  | [] => acc
  | e :: t => quality_of c t (if beq_bytes (e_coding e) c then Some (elem_quality e) else acc)
  end.

Definition prefers_gzip (l : list elem) : bool :=
  let star := quality_of (bs "*") l None in
  let gz := match quality_of (bs "gzip") l None with Some q => q | None => match star with Some q => q | None => 0 end end in
  let id := match quality_of (bs "identity") l None with Some q => q | None => match star with Some q => q | None => 1 end end in
  (0 <? gz) && (id <=? gz).
