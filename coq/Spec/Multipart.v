(* multipart/byteranges wire format as property C06 words it (independent of prepare_multipart). *)
From Coq Require Import String.
From HS Require Import Lib.Base Lib.Dec.

Definition CRLF_ : bytes := [13; 10].
Definition render_hdr (kv : bytes * bytes) : bytes := fst kv ++ [58; 32] ++ snd kv ++ CRLF_.

Section Wire.
Variable content : N -> N.
Fixpoint content_from (a : N) (n : nat) : bytes :=
  match n with O => [] | S k => content a :: content_from (a + 1) k end.
Definition content_range (a e : N) : bytes := content_from a (N.to_nat (e - a)).

(* one body part for the half-open range (a, e) of an entity of length L *)
Definition mp_part_head (L : N) (ehdrs : list (bytes * bytes)) (r : N * N) : bytes :=
  CRLF_ ++ bs "--B" ++ CRLF_
  ++ bs "Content-Range: bytes " ++ dec (fst r) ++ [45] ++ dec (snd r - 1) ++ [47] ++ dec L ++ CRLF_
  ++ flat_map render_hdr ehdrs
  ++ CRLF_.
Definition mp_part (L : N) (ehdrs : list (bytes * bytes)) (r : N * N) : bytes :=
  mp_part_head L ehdrs r ++ content_range (fst r) (snd r).
Definition mp_close : bytes := CRLF_ ++ bs "--B--" ++ CRLF_.
Definition mp_wire (L : N) (ehdrs : list (bytes * bytes)) (rs : list (N * N)) : bytes :=
  flat_map (mp_part L ehdrs) rs ++ mp_close.
(* its length, without materialising the content *)
Definition mp_wire_len (L : N) (ehdrs : list (bytes * bytes)) (rs : list (N * N)) : N :=
  sumN (map (fun r => lenN (mp_part_head L ehdrs r) + (snd r - fst r)) rs) + lenN mp_close.
End Wire.
