(* RFC 7232 entity-tags as ASTs, their comparison functions and renderings; the decision
   rule of property C04 phrased over ASTs (independent of the byte-level tokenizer). *)
From HS Require Import Lib.Base.

Record tag := { t_weak : bool; t_opaque : bytes }.        (* opaque: no DQUOTE inside *)
Definition render_tag (t : tag) : bytes :=
  (if t_weak t then [87; 47] else []) ++ [34] ++ t_opaque t ++ [34].
Definition tag_ok (t : tag) : Prop := ~ In 34 (t_opaque t).

Definition strong_eq_spec (a b : tag) : bool :=
  negb (t_weak a) && negb (t_weak b) && beq_bytes (t_opaque a) (t_opaque b).
Definition weak_eq_spec (a b : tag) : bool := beq_bytes (t_opaque a) (t_opaque b).

(* a list header: "*" or tags separated by "," + OWS *)
Inductive tag_list := TStar | TList (first : tag) (rest : list (bytes * tag)).
Fixpoint render_tags_tail (l : list (bytes * tag)) : bytes :=
  match l with [] => [] | (ws, t) :: r => 44 :: ws ++ render_tag t ++ render_tags_tail r end.
Definition render_tag_list (l : tag_list) : bytes :=
  match l with TStar => [42] | TList t r => render_tag t ++ render_tags_tail r end.
Definition tags_of (l : tag_list) : list tag :=
  match l with TStar => [] | TList t r => t :: map snd r end.

(* The decision of C04: 412, else 304, else continue. Dates are whole seconds. *)
Inductive decision := D412 | D304 | DContinue.
Definition precondition_fails (etag : option tag) (lm_s : option N) (im : option tag_list) (ius : option N) : bool :=
  match im with
  | Some TStar => false
  | Some l => negb (match etag with Some e => existsb (fun t => strong_eq_spec t e) (tags_of l) | None => false end)
  | None => match lm_s, ius with Some m, Some d => d <? m | _, _ => false end
  end.
Definition not_modified (etag : option tag) (lm_s : option N) (inm : option tag_list) (ims : option N) : bool :=
  match inm with
  | Some TStar => true
  | Some l => match etag with Some e => existsb (fun t => weak_eq_spec t e) (tags_of l) | None => false end
  | None => match lm_s, ims with Some m, Some d => m <=? d | _, _ => false end
  end.
Definition decide (etag : option tag) (lm_s : option N)
                  (im inm : option tag_list) (ims ius : option N) : decision :=
  if precondition_fails etag lm_s im ius then D412
  else if not_modified etag lm_s inm ims then D304 else DContinue.
