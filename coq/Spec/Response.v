(* The whole of `serve` for GET, as the properties word it, over ASTs: which of the seven outcomes
   a request gets, its status, the entity ranges it reads and the bytes its body consists of.
   Independent of Model/Serve.v: it refers only to the RFC-level definitions of Spec/. *)
From HS Require Import Lib.Base Lib.Dec Spec.RangeGrammar Spec.Validators Spec.Multipart.

Inductive outcome :=
| O412 | O304 | O416 | O413
| OFull                                   (* complete 200 *)
| OSingle (a e : N)                       (* single-range 206 of the half-open range (a, e) *)
| OMulti (rs : list (N * N)).             (* multipart/byteranges 206 of these ranges, in this order *)

(* the per-part estimate of property C03: 80 bytes of overhead plus the range *)
Fixpoint est80 (rs : list (N * N)) : N := match rs with [] => 0 | (a, e) :: t => 80 + (e - a) + est80 t end.

Section Response.
Variable content : N -> N.

(* range: the Range header in force after the If-Range gate, as an AST (None: absent or ignored);
   L: entity length; eh: the entity headers that go into multipart parts *)
Definition spec_outcome (et : option tag) (lm_s : option N) (im inm : option tag_list) (ims ius : option N)
                        (range : option (list rspec)) (L : N) (eh : list (bytes * bytes)) : outcome :=
  match decide et lm_s im inm ims ius with
  | D412 => O412
  | D304 => O304
  | DContinue =>
      match range with
      | None => OFull
      | Some specs =>
          match filter_map (resolve1 L) specs with
          | [] => O416
          | [(a, e)] => OSingle a e
          | rs => if est80 rs <? L
                  then (if lenN (mp_wire content L eh rs) <? U64 then OMulti rs else O413)
                  else OFull
          end
      end
  end.

Definition spec_status (o : outcome) : N :=
  match o with O412 => 412 | O304 => 304 | O416 => 416 | O413 => 413 | OFull => 200 | OSingle _ _ | OMulti _ => 206 end.

(* the entity ranges a GET reads, in order *)
Definition spec_reads (L : N) (o : outcome) : list (N * N) :=
  match o with OFull => [(0, L)] | OSingle a e => [(a, e)] | OMulti rs => rs | _ => [] end.

(* the body; 412 and 413 carry a short constant text the properties do not fix (None) *)
Definition spec_body (L : N) (eh : list (bytes * bytes)) (o : outcome) : option bytes :=
  match o with
  | O412 | O413 => None
  | O304 | O416 => Some []
  | OFull => Some (content_range content 0 L)
  | OSingle a e => Some (content_range content a e)
  | OMulti rs => Some (mp_wire content L eh rs)
  end.
End Response.
