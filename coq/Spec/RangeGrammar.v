(* RFC 7233 byte-range-set as an AST over digit strings, its rendering, and what each
   spec selects on an entity of length L.  Independent of the parser in Model/Range.v. *)
From HS Require Import Lib.Base Lib.Dec.

(* a position is 1*DIGIT; leading zeros allowed *)
Definition is_ds (s : bytes) : Prop := s <> [] /\ forallb is_digit s = true.
Definition dval (s : bytes) : N := value s 0.

Inductive rspec := FromTo (a b : bytes) | From (a : bytes) | Suffix (n : bytes).

Definition wf_spec (s : rspec) : Prop :=
  match s with FromTo a b => is_ds a /\ is_ds b | From a => is_ds a | Suffix n => is_ds n end.
(* all numbers fit in 64 bits *)
Definition bounded (s : rspec) : Prop :=
  match s with FromTo a b => dval a < U64 /\ dval b < U64 | From a => dval a < U64 | Suffix n => dval n < U64 end.

Definition render1 (s : rspec) : bytes :=
  match s with FromTo a b => a ++ 45 :: b | From a => a ++ [45] | Suffix n => 45 :: n end.

(* elements after the first carry the OWS that followed their comma *)
Fixpoint render_tail (l : list (bytes * rspec)) : bytes :=
  match l with [] => [] | (ws, x) :: t => 44 :: ws ++ render1 x ++ render_tail t end.
Definition render_set (first_ws : bytes) (x : rspec) (l : list (bytes * rspec)) : bytes :=
  first_ws ++ render1 x ++ render_tail l.

(* RFC 7233 section 2.1, as property C03 words it (half-open result) *)
Definition resolve1 (L : N) (s : rspec) : option (N * N) :=
  match s with
  | FromTo a b => let a := dval a in let b := dval b in
                  if (a <? L) && (a <=? b) then Some (a, N.min b (L - 1) + 1) else None
  | From a => let a := dval a in if a <? L then Some (a, L) else None
  | Suffix n => let n := dval n in if (0 <? n) && (0 <? L) then Some (L - N.min n L, L) else None
  end.

Fixpoint filter_map {A B} (f : A -> option B) (l : list A) : list B :=
  match l with [] => [] | x :: t => match f x with Some y => y :: filter_map f t | None => filter_map f t end end.
