(* Model/Builder.v: the builder's setters only record the value given last; negotiation and the
   method are fixed when streaming_body() is called. *)
From HS Require Import Lib.Base Lib.Bytes Model.Negot Model.Builder Proofs.NegotP.

Inductive bcall := SetChunkSize (n : N) | SetGzipLevel (l : N).
Definition bapply (b : builder) (c : bcall) : builder :=
  match c with SetChunkSize n => with_chunk_size b n | SetGzipLevel l => with_gzip_level b l end.

Fixpoint last_level (cs : list bcall) (d : N) : N :=
  match cs with [] => d | SetGzipLevel l :: t => last_level t l | _ :: t => last_level t d end.
Fixpoint last_chunk (cs : list bcall) (d : N) : N :=
  match cs with [] => d | SetChunkSize n :: t => last_chunk t n | _ :: t => last_chunk t d end.

(* after any sequence of setter calls: the negotiation result and the method are untouched, the
   level and the chunk size are those of the last call that set them *)
Theorem builder_calls cs : forall b,
  let b' := fold_left bapply cs b in
  b_should_gzip b' = b_should_gzip b /\ b_body_needed b' = b_body_needed b /\
  b_gzip_level b' = last_level cs (b_gzip_level b) /\ b_chunk_size b' = last_chunk cs (b_chunk_size b).
Proof.
  induction cs as [|c t IH]; intros b; cbn [fold_left last_level last_chunk]; [auto|].
  destruct (IH (bapply b c)) as (H1 & H2 & H3 & H4). destruct c; cbn [bapply with_chunk_size with_gzip_level b_should_gzip b_body_needed b_gzip_level b_chunk_size] in *; auto.
Qed.

(* hence the response of build() after any call sequence is that of the plain builder with the last
   values: Content-Encoding: gzip iff should_gzip and the LAST level set is above 0 *)
Corollary build_after_calls meth ae cs b : streaming_body meth ae = Ok b ->
  0 < last_chunk cs (b_chunk_size b) ->
  build (fold_left bapply cs b) =
  build {| b_chunk_size := last_chunk cs 4096; b_gzip_level := last_level cs 6;
           b_should_gzip := b_should_gzip b; b_body_needed := b_body_needed b |}.
Proof.
  intros Hs Hc. destruct (builder_calls cs b) as (H1 & H2 & H3 & H4).
  unfold streaming_body in Hs. destruct (should_gzip ae) as [sg|t]; [|discriminate]. cbn [bind] in Hs. inversion Hs; subst b.
  cbn [b_chunk_size b_gzip_level b_should_gzip b_body_needed] in *. unfold build. rewrite H1, H2, H3, H4.
  cbn [b_chunk_size b_gzip_level b_should_gzip b_body_needed]. reflexivity.
Qed.

(* C15 for streaming_body: the same request sent with HEAD gives, after the same setter calls, the
   same result of build() -- the same headers, or the same panic (a chunk size of 0) -- except
   that there is no writer; for any other method there is one. *)
Theorem streaming_head_mirrors meth ae cs : beq_bytes meth HEAD_M = false ->
  exists bh bg, streaming_body HEAD_M ae = Ok bh /\ streaming_body meth ae = Ok bg /\
  match build (fold_left bapply cs bg) with
  | Ok (h, w) => build (fold_left bapply cs bh) = Ok (h, None) /\ w <> None
  | Panic t => build (fold_left bapply cs bh) = Panic t
  end.
Proof.
  intros Hm. unfold streaming_body. destruct (Proofs.NegotP.should_gzip_total ae) as [sg ->]. cbn [bind].
  eexists; eexists. split; [reflexivity|]. split; [reflexivity|].
  rewrite Hm. change (beq_bytes HEAD_M HEAD_M) with true. cbn [negb].
  match goal with |- context [fold_left bapply cs ?b] => destruct (builder_calls cs b) as (G1 & G2 & G3 & G4) end.
  match goal with |- context [build (fold_left bapply cs ?b) = _] => destruct (builder_calls cs b) as (H1 & H2 & H3 & H4) end.
  cbn [b_chunk_size b_gzip_level b_should_gzip b_body_needed] in *.
  unfold build. rewrite G1, G2, G3, G4, H1, H2, H3, H4.
  destruct (last_chunk cs 4096 =? 0); [reflexivity|]. split; [reflexivity|].
  destruct (sg && (0 <? last_level cs 6)); discriminate.
Qed.
