(* serve_model: totality, status set, shape of the response per branch. *)
From Coq Require Import String.
From HS Require Import Lib.Base Lib.Bytes Lib.Dec Model.Range Model.Etag Model.Body Model.Serve
  Proofs.RangeP Proofs.BodyP Proofs.BodyRun.
Ltac Zify.zify_post_hook ::= Z.div_mod_to_equations.

Definition ranges_wf (L : N) (rs : list (N * N)) : Prop := Forall (fun p => fst p < snd p /\ snd p <= L) rs.

Lemma u64_sub_ok a b : b <= a -> u64_sub a b = Ok (a - b).
Proof. intros H. unfold u64_sub. destruct (N.leb_spec b a); [reflexivity|lia]. Qed.

Lemma est_len_ok L rs : ranges_wf L rs -> forall acc, exists o, est_len rs acc = Ok o.
Proof.
  induction rs as [|[a e] t IH]; intros Hw acc; cbn [est_len]; [eauto|].
  inversion Hw as [|? ? [H1 H2] Ht]; subst. cbn [fst snd] in *.
  destruct (u64_checked_add acc 80); [|eauto]. rewrite u64_sub_ok by lia. cbn [bind].
  destruct (u64_checked_add _ _); [|eauto]. apply IH; assumption.
Qed.

(* the value of est_len: sum of (80 + length) unless that reaches 2^64 *)
Fixpoint est_sum (rs : list (N * N)) : N := match rs with [] => 0 | (a, e) :: t => 80 + (e - a) + est_sum t end.
Lemma est_len_value L rs : ranges_wf L rs -> forall acc, acc < U64 ->
  est_len rs acc = Ok (if acc + est_sum rs <? U64 then Some (acc + est_sum rs) else None).
Proof.
  induction rs as [|[a e] t IH]; intros Hw acc Hacc; cbn [est_len est_sum].
  - rewrite N.add_0_r. destruct (N.ltb_spec acc U64); [reflexivity|lia].
  - inversion Hw as [|? ? [H1 H2] Ht]; subst. cbn [fst snd] in *.
    unfold u64_checked_add. destruct (N.ltb_spec (acc + 80) U64) as [Hlt|Hge].
    + rewrite u64_sub_ok by lia. cbn [bind]. destruct (N.ltb_spec (acc + 80 + (e - a)) U64) as [Hlt2|Hge2].
      * rewrite IH by assumption. replace (acc + 80 + (e - a) + est_sum t) with (acc + (80 + (e - a) + est_sum t)) by lia. reflexivity.
      * destruct (N.ltb_spec (acc + (80 + (e - a) + est_sum t)) U64); [lia|reflexivity].
    + destruct (N.ltb_spec (acc + (80 + (e - a) + est_sum t)) U64); [lia|reflexivity].
Qed.

Definition hdr_of (len : N) (each : bytes) (r : N * N) : bytes := part_header len each (fst r) (snd r - 1).

Lemma prepare_parts_spec L len each rs : ranges_wf L rs -> forall b acc, b < U64 ->
  prepare_parts len each rs b acc =
    Ok (let t := b + tail_len (map (hdr_of len each) rs) rs + TRAILER_LEN in
        if t <? U64 then Some (rev acc ++ map (hdr_of len each) rs, t) else None).
Proof.
  induction rs as [|[a e] t IH]; intros Hw b acc Hb; cbn [prepare_parts map tail_len].
  - unfold u64_checked_add. rewrite trailer_len. rewrite app_nil_r. rewrite N.add_0_r. cbv zeta.
    destruct (b + TRAILER_LEN <? U64); reflexivity.
  - inversion Hw as [|? ? [H1 H2] Ht]; subst. cbn [fst snd] in *.
    rewrite !u64_sub_ok by lia. cbn [bind]. unfold hdr_of at 1 2. cbn [fst snd].
    set (buf := part_header len each a (e - 1)). cbv zeta.
    unfold u64_checked_add. destruct (N.ltb_spec (b + lenN buf) U64) as [Hlt|Hge].
    + destruct (N.ltb_spec (b + lenN buf + (e - a)) U64) as [Hlt2|Hge2].
      * rewrite IH by assumption. cbv zeta. cbn [rev]. rewrite <- app_assoc. cbn [app].
        replace (b + lenN buf + (e - a) + tail_len (map (hdr_of len each) t) t + TRAILER_LEN)
          with (b + (lenN buf + (e - a) + tail_len (map (hdr_of len each) t) t) + TRAILER_LEN) by lia.
        reflexivity.
      * match goal with |- context [?x <? U64] => destruct (N.ltb_spec x U64) end; [lia|reflexivity].
    + match goal with |- context [?x <? U64] => destruct (N.ltb_spec x U64) end; [lia|reflexivity].
Qed.

Section WithDates.
Variable fmt_date : N -> bytes.
Variable parse_date : bytes -> option N.
Notation serve := (serve_model fmt_date parse_date).

Definition STATUSES : list N := [200; 206; 304; 400; 405; 412; 413; 416].

Lemma ranges_wf_le L rs : ranges_wf L rs -> Forall (fun r => fst r <= snd r) rs.
Proof. intros H. eapply Forall_impl; [|exact H]. cbn. intros p [H1 _]. lia. Qed.

(* C13: serve is total -- no request, however hostile, and no entity of length < 2^64 makes it
   panic; the status is one of the eight; and the body it returns satisfies the invariant from
   which draining is total (run_total). *)
Theorem serve_total now ent req streams : e_len ent < U64 ->
  exists r, serve now ent req = Ok r /\ In (status r) STATUSES /\ BInv (fst (body_init streams (rplan r))).
Proof.
  intros HL. unfold serve_model.
  destruct (negb (beq_bytes (r_meth req) GET) && negb (beq_bytes (r_meth req) HEAD)).
  { eexists. split; [reflexivity|]. cbn. auto 10. }
  destruct (parse_modified_hdrs parse_date (e_etag ent) req (e_lm ent)) as [msg|pf nm].
  { eexists. split; [reflexivity|]. cbn. auto 10. }
  destruct (if_range_gate (e_etag ent) req) as [range_hdr include].
  destruct pf. { eexists. split; [reflexivity|]. cbn. auto 10. }
  destruct nm. { eexists. split; [reflexivity|]. cbn. auto 10. }
  destruct (range_parse range_hdr (e_len ent)) as [| |l] eqn:ER.
  - rewrite u64_sub_ok by lia. cbn [bind]. eexists. split; [reflexivity|]. cbn [status rplan].
    split; [cbn; auto 10|]. destruct (beq_bytes (r_meth req) HEAD); exact I.
  - eexists. split; [reflexivity|]. cbn. auto 10.
  - destruct (range_parse_sat_wf _ _ _ ER) as [Hne Hw].
    destruct l as [|[a e] [|p2 l2]]; [congruence| |].
    + inversion Hw as [|? ? [H1 H2] _]; subst. cbn [fst snd] in *.
      rewrite !u64_sub_ok by lia. cbn [bind]. eexists. split; [reflexivity|]. cbn [status rplan].
      split; [cbn; auto 10|]. destruct (beq_bytes (r_meth req) HEAD); exact I.
    + rewrite (est_len_value _ _ Hw 0) by (cbv; reflexivity). cbn [bind].
      match goal with |- context [if ?c then _ else _] => destruct c end.
      * rewrite (prepare_parts_spec _ _ _ _ Hw 0 []) by (cbv; reflexivity). cbn [bind]. cbv zeta.
        match goal with |- context [?x <? U64] => destruct (N.ltb_spec x U64) as [Hlt|Hge] end.
        -- eexists. split; [reflexivity|]. cbn [status rplan]. split; [cbn; auto 10|].
           destruct (beq_bytes (r_meth req) HEAD); [exact I|]. cbn [body_init fst BInv].
           split; [|split].
           ++ cbn [m_ph m_ranges rev app]. now rewrite map_length.
           ++ cbn [m_ranges]. now apply (ranges_wf_le (e_len ent)).
           ++ apply (MS_header _ 0); cbn [m_state m_cur m_ranges m_ph m_rem skipn rev app]; try reflexivity; lia.
        -- eexists. split; [reflexivity|]. cbn. auto 10.
      * rewrite u64_sub_ok by lia. cbn [bind]. eexists. split; [reflexivity|]. cbn [status rplan].
        split; [cbn; auto 10|]. destruct (beq_bytes (r_meth req) HEAD); exact I.
Qed.

(* C13, third sentence: any method other than GET or HEAD gets 405 with an Allow header naming
   both, constant text, no entity read and no entity metadata. *)
Theorem serve_405 now ent req : r_meth req <> GET -> r_meth req <> HEAD ->
  serve now ent req = Ok {| status := 405; hdrs := [(H_ALLOW, bs "get, head")]; rplan := PlOnce (Some BODY_405) |}.
Proof.
  intros H1 H2. unfold serve_model. apply beq_bytes_false in H1, H2. rewrite H1, H2. reflexivity.
Qed.


(* ---- the response, branch by branch ---- *)
Definition h0_of (now : N) (ent : entity) : list (bytes * bytes) :=
  [(H_ACCEPT_RANGES, bs "bytes")]
  ++ match e_lm ent with
     | Some m => [(H_DATE, fmt_date now); (H_LAST_MODIFIED, fmt_date (N.min (m / NS) now))]
     | None => []
     end
  ++ match e_etag ent with Some e => [(H_ETAG, e)] | None => [] end.

Definition content_range_value (a e L : N) : bytes := bs "bytes " ++ dec a ++ [45] ++ dec (e - 1) ++ [47] ++ dec L.

Definition is_get_or_head (req : request) : Prop := r_meth req = GET \/ r_meth req = HEAD.
Notation conds ent req := (parse_modified_hdrs parse_date (e_etag ent) req (e_lm ent)).
Notation gated ent req := (range_parse (fst (if_range_gate (e_etag ent) req)) (e_len ent)).
Notation include_of ent req := (snd (if_range_gate (e_etag ent) req)).

(* Every response of serve, with the decisions that lead to it. *)
Inductive shape (now : N) (ent : entity) (req : request) : resp -> Prop :=
| Sh405 : ~ is_get_or_head req ->
    shape now ent req {| status := 405; hdrs := [(H_ALLOW, bs "get, head")]; rplan := PlOnce (Some BODY_405) |}
| Sh400 s : is_get_or_head req -> conds ent req = CErr s ->
    shape now ent req {| status := 400; hdrs := []; rplan := PlOnce (Some s) |}
| Sh412 nm : is_get_or_head req -> conds ent req = COk true nm ->
    shape now ent req {| status := 412; hdrs := h0_of now ent; rplan := PlOnce (Some BODY_412) |}
| Sh304 : is_get_or_head req -> conds ent req = COk false true ->
    shape now ent req {| status := 304; hdrs := h0_of now ent; rplan := PlOnce None |}
| Sh416 : is_get_or_head req -> conds ent req = COk false false -> gated ent req = RNotSat ->
    shape now ent req {| status := 416; hdrs := h0_of now ent ++ [(H_CONTENT_RANGE, bs "bytes */" ++ dec (e_len ent))];
                                rplan := PlOnce None |}
| Sh200 : is_get_or_head req -> conds ent req = COk false false ->
    (gated ent req = RNone \/ exists rs, gated ent req = RSat rs /\ (2 <= length rs)%nat /\ e_len ent <= est_sum rs) ->
    shape now ent req {| status := 200;
                                hdrs := (h0_of now ent ++ [(H_CONTENT_LENGTH, dec (e_len ent))]) ++ e_hdrs ent;
                                rplan := if beq_bytes (r_meth req) HEAD then PlOnce None else PlExact 0 (e_len ent) |}
| Sh206 a e : is_get_or_head req -> conds ent req = COk false false -> gated ent req = RSat [(a, e)] ->
    a < e -> e <= e_len ent ->
    shape now ent req {| status := 206;
                         hdrs := let h := (h0_of now ent ++ [(H_CONTENT_RANGE, content_range_value a e (e_len ent))])
                                          ++ [(H_CONTENT_LENGTH, dec (e - a))] in
                                 if include_of ent req then h ++ e_hdrs ent else h;
                         rplan := if beq_bytes (r_meth req) HEAD then PlOnce None else PlExact a e |}
| ShMulti rs total : is_get_or_head req -> conds ent req = COk false false -> gated ent req = RSat rs ->
    ranges_wf (e_len ent) rs -> (2 <= length rs)%nat ->
    let each := if include_of ent req then each_part_headers (e_hdrs ent) else [] in
    total = tail_len (map (hdr_of (e_len ent) each) rs) rs + TRAILER_LEN -> total < U64 ->
    est_sum rs < e_len ent ->
    shape now ent req {| status := 206;
                         hdrs := h0_of now ent ++ [(H_CONTENT_LENGTH, dec total); (H_CONTENT_TYPE, V_MULTIPART)];
                         rplan := if beq_bytes (r_meth req) HEAD then PlOnce None
                                  else PlMulti (map (hdr_of (e_len ent) each) rs) rs total |}
| Sh413 rs : is_get_or_head req -> conds ent req = COk false false -> gated ent req = RSat rs ->
    (2 <= length rs)%nat -> est_sum rs < e_len ent ->
    (let each := if include_of ent req then each_part_headers (e_hdrs ent) else [] in
     U64 <= tail_len (map (hdr_of (e_len ent) each) rs) rs + TRAILER_LEN) ->
    shape now ent req {| status := 413; hdrs := []; rplan := PlOnce (Some BODY_413) |}.

Lemma meth_cases req : negb (beq_bytes (r_meth req) GET) && negb (beq_bytes (r_meth req) HEAD) = false -> is_get_or_head req.
Proof.
  intros H. apply andb_false_iff in H. destruct H as [H|H]; apply negb_false_iff, beq_bytes_spec in H; [left|right]; exact H.
Qed.
Lemma meth_cases_not req : negb (beq_bytes (r_meth req) GET) && negb (beq_bytes (r_meth req) HEAD) = true -> ~ is_get_or_head req.
Proof.
  intros H [E|E]; rewrite E in H; cbn in H; discriminate.
Qed.

Theorem serve_shape now ent req r : e_len ent < U64 -> serve now ent req = Ok r -> shape now ent req r.
Proof.
  intros HL. unfold serve_model. fold (h0_of now ent).
  destruct (negb (beq_bytes (r_meth req) GET) && negb (beq_bytes (r_meth req) HEAD)) eqn:EM.
  { intros HH; inversion HH; subst. constructor. now apply meth_cases_not. }
  apply meth_cases in EM.
  destruct (parse_modified_hdrs parse_date (e_etag ent) req (e_lm ent)) as [msg|pf nm] eqn:EC.
  { intros HH; inversion HH; subst. now constructor. }
  destruct (if_range_gate (e_etag ent) req) as [range_hdr include] eqn:EG.
  assert (E1 : range_hdr = fst (if_range_gate (e_etag ent) req)) by now rewrite EG.
  assert (E2 : include = snd (if_range_gate (e_etag ent) req)) by now rewrite EG.
  clear EG. subst range_hdr include.
  destruct pf. { intros HH; inversion HH; subst. econstructor; eauto. }
  destruct nm. { intros HH; inversion HH; subst. now constructor. }
  destruct (range_parse (fst (if_range_gate (e_etag ent) req)) (e_len ent)) as [| |l] eqn:ER.
  - rewrite u64_sub_ok by lia. cbn [bind]. rewrite N.sub_0_r. intros HH; inversion HH; subst. constructor; auto.
  - intros HH; inversion HH; subst. constructor; auto.
  - destruct (range_parse_sat_wf _ _ _ ER) as [Hne Hw].
    destruct l as [|[a e] [|p2 l2]]; [congruence| |].
    + inversion Hw as [|? ? [H1 H2] _]; subst. cbn [fst snd] in *.
      rewrite !u64_sub_ok by lia. cbn [bind]. intros HH; inversion HH; subst.
      apply (Sh206 now ent req a e); assumption.
    + rewrite (est_len_value _ _ Hw 0) by (cbv; reflexivity). cbn [bind]. rewrite N.add_0_l.
      destruct (N.ltb_spec (est_sum ((a, e) :: p2 :: l2)) U64) as [He|He].
      * destruct (N.ltb_spec (est_sum ((a, e) :: p2 :: l2)) (e_len ent)) as [Hlt|Hge].
        -- rewrite (prepare_parts_spec _ _ _ _ Hw 0 []) by (cbv; reflexivity). cbn [bind]. cbv zeta.
           rewrite N.add_0_l. cbn [rev app].
           match goal with |- context [?x <? U64] => destruct (N.ltb_spec x U64) as [Hlt2|Hge2] end.
           ++ intros HH; inversion HH; subst.
              apply (ShMulti now ent req ((a, e) :: p2 :: l2)); cbn [length]; auto; lia.
           ++ intros HH; inversion HH; subst. apply (Sh413 now ent req ((a, e) :: p2 :: l2)); cbn [length]; auto; lia.
        -- rewrite u64_sub_ok by lia. cbn [bind]. rewrite N.sub_0_r. intros HH; inversion HH; subst.
           constructor; auto. right. eexists. split; [exact ER|]. split; [cbn [length]; lia|exact Hge].
      * rewrite u64_sub_ok by lia. cbn [bind]. rewrite N.sub_0_r. intros HH; inversion HH; subst.
        constructor; auto. right. eexists. split; [exact ER|]. split; [cbn [length]; lia|lia].
Qed.

End WithDates.
