(* Model/Chunker.v: whole histories with faults. Proofs/ChunkerP.v treats fault-free histories
   (Good states, benign operations) and single steps after an abort or a disconnect; here the
   statements are about every history whatsoever -- any operations in any order, including abort
   and body drop at any position -- and, through the linearisation lemma at the end, about every
   producer/consumer interleaving of Model/ChunkerConc.v. *)
From HS Require Import Lib.Base Lib.Bytes Model.Chunker Model.ChunkerConc Proofs.ChunkerP.
Ltac Zify.zify_post_hook ::= Z.div_mod_to_equations.

Definition NonOk (s : cstate) : Prop := c_st s = SErr \/ c_st s = SFused.
Definition IsOk (s : cstate) : Prop := exists q rb wd, c_st s = SOk q rb wd.

Lemma ok_or_not s : IsOk s \/ NonOk s.
Proof. unfold IsOk, NonOk. destruct (c_st s); eauto. Qed.

(* ---------------------------------------------------------------- steps from a non-Ok state *)
(* flush_helper never changes a state whose shared part is not Ok *)
Lemma flush_helper_nonok s dr : NonOk s ->
  exists ok, flush_helper s dr = (s, ok, None) /\ (c_buf s <> [] -> ok = false) /\ (c_buf s = [] -> ok = true).
Proof.
  intros [E|E]; unfold flush_helper; rewrite E; destruct (c_buf s) as [|b t]; destruct dr;
    eexists; (split; [reflexivity|]); split; intros H; congruence.
Qed.

Lemma drop_writer_inner_nonok s : NonOk s ->
  drop_writer_inner s = ({| c_st := c_st s; c_waker := c_waker s; c_buf := []; c_cap := c_cap s; c_w := c_w s; c_reader := c_reader s |}, None).
Proof.
  intros H. unfold drop_writer_inner. destruct (flush_helper_nonok s true H) as (ok & E & _). now rewrite E.
Qed.

Lemma nonok_set_w s w : NonOk s -> NonOk (set_w s w).
Proof. unfold NonOk, set_w. cbn [c_st]. auto. Qed.

(* what one BodyWriter::write does when the shared state is not Ok: nothing is published, the
   shared state is untouched, and the writer either keeps fewer than cap bytes or dies *)
Lemma bw_write_nonok s d : NonOk s -> CInv s ->
  let '(s', r, wk) := bw_write s d in
  c_st s' = c_st s /\ c_reader s' = c_reader s /\ c_cap s' = c_cap s /\ c_waker s' = c_waker s /\ CInv s' /\ wk = [] /\
  (c_w s <> WRaw -> s' = s /\ r = None) /\
  (c_w s = WRaw ->
     (c_cap s <= lenN (c_buf s) + lenN d -> r = None /\ c_w s' = WDead) /\
     (lenN (c_buf s) + lenN d < c_cap s -> r = Some (lenN d) /\ c_w s' = WRaw /\ c_buf s' = c_buf s ++ d)).
Proof.
  intros HN HI. unfold bw_write. destruct (c_w s) eqn:Hw.
  2,3: (destruct HI as (? & ? & ? & ?); repeat split; auto; try (intros; congruence)).
  destruct HI as (Hcap & Hq & Hb & Hnb). specialize (Hb Hw).
  unfold writer_write.
  destruct (N.leb_spec (c_cap s - lenN (c_buf s)) (lenN d)) as [Hfull|Hpart].
  - remember (c_cap s - lenN (c_buf s)) as n eqn:En.
    assert (Hn : lenN (firstn (N.to_nat n) d) = n) by (apply lenN_firstn; lia).
    match goal with |- context [flush_helper ?s1 false] => set (s1' := s1) end.
    assert (HN1 : NonOk s1') by (unfold NonOk, s1'; cbn [c_st]; exact HN).
    destruct (flush_helper_nonok s1' false HN1) as (ok & E & Hok & _). rewrite E.
    assert (Hne : c_buf s1' <> []).
    { unfold s1'. cbn [c_buf]. intros E0. apply (f_equal lenN) in E0. rewrite lenN_app, Hn, lenN_nil in E0. lia. }
    rewrite (Hok Hne). rewrite drop_writer_inner_nonok by (apply nonok_set_w; exact HN1).
    unfold s1', set_w. cbn [c_st c_waker c_buf c_cap c_w c_reader opt_list app].
    repeat split; auto; try (intros; congruence); try (intros; lia).
  - assert (Hfn : firstn (N.to_nat (lenN d)) d = d) by (unfold lenN; rewrite Nat2N.id; apply firstn_all).
    cbn [c_st c_waker c_buf c_cap c_w c_reader opt_list]. rewrite Hfn.
    repeat split; cbn [c_st c_waker c_buf c_cap c_w c_reader]; auto; try (intros; congruence); try (intros; lia).
    all: try (destruct HN as [E0|E0]; rewrite E0; exact I).
    all: try (intros _; rewrite lenN_app; lia).
Qed.

Lemma write_all_nonok fuel : forall s d woken, NonOk s -> CInv s ->
  let '(s', ok, wk) := write_all_loop fuel bw_write s d woken in
  c_st s' = c_st s /\ c_reader s' = c_reader s /\ c_cap s' = c_cap s /\ c_waker s' = c_waker s /\ CInv s' /\ wk = woken /\
  (c_w s <> WRaw -> s' = s /\ (d <> [] -> ok = false)) /\
  (c_w s' = WRaw \/ c_w s' = c_w s \/ c_w s' = WDead).
Proof.
  induction fuel as [|f IH]; intros s d woken HN HI.
  - destruct d; cbn [write_all_loop]; (split; [|split; [|split; [|split; [|split; [|split; [|split]]]]]]); auto;
      intros _; split; auto; intros; congruence.
  - destruct d as [|b t].
    { cbn [write_all_loop]; (split; [|split; [|split; [|split; [|split; [|split; [|split]]]]]]); auto;
      intros _; split; auto; intros; congruence. }
    cbn [write_all_loop]. pose proof (bw_write_nonok s (b :: t) HN HI) as Hb.
    destruct (bw_write s (b :: t)) as [[s1 r] wk]. destruct Hb as (Hst & Hrd & Hc & Hwk & HI1 & Hwk1 & Hnr & Hr).
    subst wk. rewrite app_nil_r.
    assert (Hw1 : c_w s1 = WRaw \/ c_w s1 = c_w s \/ c_w s1 = WDead).
    { destruct (c_w s) eqn:Ew; [|destruct (Hnr ltac:(congruence)) as [-> _]; auto..].
      destruct (Hr eq_refl) as [H1 H2].
      destruct (N.le_gt_cases (c_cap s) (lenN (c_buf s) + lenN (b :: t))) as [Hc1|Hc1];
        [destruct (H1 Hc1) as [_ ->]; auto|destruct (H2 Hc1) as (_ & -> & _); auto]. }
    assert (Hsame : c_w s <> WRaw -> s1 = s) by (intros Hw; destruct (Hnr Hw) as [-> _]; reflexivity).
    destruct r as [n|].
    2: { (split; [|split; [|split; [|split; [|split; [|split; [|split]]]]]]); auto. }
    destruct n as [|p].
    { (split; [|split; [|split; [|split; [|split; [|split; [|split]]]]]]); auto. }
    assert (HN1 : NonOk s1) by (unfold NonOk in *; rewrite Hst; exact HN).
    specialize (IH s1 (skipn (N.to_nat (N.pos p)) (b :: t)) woken HN1 HI1).
    destruct (write_all_loop f bw_write s1 (skipn (N.to_nat (N.pos p)) (b :: t)) woken) as [[s2 ok] wk2].
    destruct IH as (Hst2 & Hrd2 & Hc2 & Hwk2 & HI2 & Hwk3 & Hnr2 & Hw2).
    (split; [|split; [|split; [|split; [|split; [|split; [|split]]]]]]); try congruence; auto.
    + intros Hw. destruct (Hnr Hw) as [_ Hx]. discriminate Hx.
    + destruct (c_w s) eqn:Ew; [|destruct (Hnr ltac:(congruence)) as [_ Hx]; discriminate Hx..].
      destruct (Hr eq_refl) as [H1 H2].
      destruct (N.le_gt_cases (c_cap s) (lenN (c_buf s) + lenN (b :: t))) as [Hc1|Hc1];
        [destruct (H1 Hc1) as [Hx _]; discriminate Hx|].
      destruct (H2 Hc1) as (_ & Hw1' & _). rewrite Hw1' in Hw2. destruct Hw2 as [?|[?|?]]; auto.
Qed.

(* any operation from a non-Ok state: the shared state stays non-Ok (no queue ever reappears),
   nothing is delivered, nobody is woken, the shape invariant is kept *)
Ltac sp7 := split; [|split; [|split; [|split; [|split; [|split]]]]].

Lemma cinv_dead s w : CInv s -> NonOk s -> w <> WRaw ->
  CInv {| c_st := c_st s; c_waker := c_waker s; c_buf := []; c_cap := c_cap s; c_w := w; c_reader := c_reader s |}.
Proof.
  intros (Hcap & Hq & Hb & Hnb) HN Hw. unfold CInv. cbn [c_st c_cap c_w c_buf].
  split; [exact Hcap|]. split; [destruct HN as [E0|E0]; rewrite E0; exact I|]. split; [intros; congruence|auto].
Qed.

Theorem nonok_step s o : NonOk s -> CInv s ->
  let '(s', r, wk) := cstep s o in
  NonOk s' /\ CInv s' /\ c_cap s' = c_cap s /\ delivered_of r = [] /\ wk = [] /\
  (c_st s = SFused -> c_st s' = SFused) /\ (c_w s <> WRaw -> c_w s' <> WRaw).
Proof.
  intros HN HI. destruct o as [d|d| | | |w|]; cbn [cstep].
  - pose proof (bw_write_nonok s d HN HI) as Hb. destruct (bw_write s d) as [[s1 r] wk].
    destruct Hb as (Hst & Hrd & Hc & Hwk & HI1 & Hwk1 & Hnr & Hr).
    sp7; auto; try congruence.
    + unfold NonOk in *. now rewrite Hst.
    + intros Hw. destruct (Hnr Hw) as [-> _]. exact Hw.
  - pose proof (write_all_nonok (S (length d)) s d [] HN HI) as Hb.
    destruct (write_all_loop (S (length d)) bw_write s d []) as [[s1 ok] wk].
    destruct Hb as (Hst & Hrd & Hc & Hwk & HI1 & Hwk1 & Hnr & Hw2).
    sp7; auto; try congruence.
    + unfold NonOk in *. now rewrite Hst.
    + intros Hw. destruct (Hnr Hw) as [-> _]. exact Hw.
  - destruct (c_w s) eqn:Hw.
    + destruct (flush_helper_nonok s false HN) as (ok & E & Hok1 & Hok2). rewrite E.
      destruct ok.
      * sp7; auto; try congruence.
      * rewrite drop_writer_inner_nonok by (apply nonok_set_w; exact HN). unfold set_w.
        cbn [c_st c_waker c_buf c_cap c_w c_reader opt_list app].
        sp7; auto; try (cbn [c_st c_w]; intros; congruence).
        apply cinv_dead; [exact HI|exact HN|discriminate].
    + sp7; auto; try congruence.
    + sp7; auto; try congruence.
  - destruct (c_w s) eqn:Hw.
    + assert (Es : (match c_st s with
                    | SOk _ _ _ => ({| c_st := SErr; c_waker := None; c_buf := c_buf s; c_cap := c_cap s; c_w := c_w s; c_reader := c_reader s |}, c_waker s)
                    | _ => (s, None) end) = (s, None)) by (destruct HN as [E0|E0]; rewrite E0; reflexivity).
      rewrite Hw in Es. rewrite Es. rewrite drop_writer_inner_nonok by (apply nonok_set_w; exact HN). unfold set_w.
      cbn [c_st c_waker c_buf c_cap c_w c_reader opt_list app].
      sp7; auto; try (cbn [c_st c_w]; intros; congruence).
      apply cinv_dead; [exact HI|exact HN|discriminate].
    + sp7; auto; try congruence.
    + sp7; auto; try congruence.
  - destruct (c_w s) eqn:Hw.
    + rewrite drop_writer_inner_nonok by (apply nonok_set_w; exact HN). unfold set_w.
      cbn [c_st c_waker c_buf c_cap c_w c_reader opt_list app].
      sp7; auto; try (cbn [c_st c_w]; intros; congruence).
      apply cinv_dead; [exact HI|exact HN|discriminate].
    + sp7; auto; try (unfold set_w; cbn [c_w c_st]; intros; congruence);
        try (apply nonok_set_w; exact HN);
        try (apply cinv_set_w; [exact HI|]; intros _; destruct HI as (_ & _ & _ & H4); apply H4; congruence).
    + sp7; auto; try (unfold set_w; cbn [c_w c_st]; intros; congruence);
        try (apply nonok_set_w; exact HN);
        try (apply cinv_set_w; [exact HI|]; intros _; destruct HI as (_ & _ & _ & H4); apply H4; congruence).
  - destruct (negb (c_reader s)); [sp7; auto|].
    destruct HI as (Hcap & Hq & Hb & Hnb).
    destruct HN as [E0|E0]; rewrite E0.
    + sp7; auto; try (cbn [c_st c_w]; intros; congruence);
        try (right; reflexivity); try (unfold CInv; cbn [c_st c_cap c_w c_buf]; auto).
    + sp7; auto; try (right; exact E0). unfold CInv; auto.
  - destruct (negb (c_reader s)); [sp7; auto|].
    destruct HI as (Hcap & Hq & Hb & Hnb).
    sp7; auto; try (right; reflexivity); try (unfold CInv; cbn [c_st c_cap c_w c_buf]; auto).
Qed.

(* ---------------------------------------------------------------- the general invariant *)
(* Every reachable state: the shape invariant, and whenever the shared state is still Ok the
   state is Good (the body exists, the writer is live or was dropped cleanly). *)
Definition Gen (s : cstate) : Prop := CInv s /\ (IsOk s -> Good s).

Lemma gen_init cap : 0 < cap -> Gen (cinit cap).
Proof. intros H. pose proof (good_init cap H) as HG. split; [exact (proj1 HG)|intros _; exact HG]. Qed.

(* abort and body drop from a Good state *)
Lemma fault_step s o : Good s -> ~ benign o ->
  let '(s', r, wk) := cstep s o in
  CInv s' /\ c_cap s' = c_cap s /\ delivered_of r = [] /\ accepted_of o r = [] /\
  (NonOk s' \/ (s' = s /\ IsOk s)).
Proof.
  intros (HI & Hrd & Hcls) Hnb. destruct o as [d|d| | | |w|]; cbn [benign] in Hnb; try (exfalso; apply Hnb; exact I); cbn [cstep].
  - (* abort *)
    destruct Hcls as [(Hw & ready & rb & Hs)|(Hw & Hst)].
    + rewrite Hw, Hs. unfold drop_writer_inner, flush_helper, set_w. cbn [c_buf c_st].
      destruct HI as (Hcap & Hq & Hb & Hnb').
      destruct (c_buf s) as [|b t]; cbn [c_st c_waker c_buf c_cap c_w c_reader];
        (split; [repeat split; cbn [c_cap c_st c_w c_buf]; auto; intros; congruence|]);
        repeat split; auto; left; left; reflexivity.
    + rewrite Hw. split; [exact HI|]. repeat split; auto.
      destruct Hst as [E|(ready & rb & E)]; [left; right; exact E|right; split; [reflexivity|unfold IsOk; eauto]].
  - (* body drop *)
    rewrite Hrd. cbn [negb]. destruct HI as (Hcap & Hq & Hb & Hnb').
    split; [repeat split; cbn [c_cap c_st c_w c_buf]; auto|]. repeat split; auto. left; right; reflexivity.
Qed.

Theorem gen_step s o : Gen s ->
  let '(s', r, wk) := cstep s o in Gen s' /\ c_cap s' = c_cap s.
Proof.
  intros (HI & HG). destruct (ok_or_not s) as [Hok|Hno].
  - specialize (HG Hok). destruct (match o with OAbort | ODropReader => true | _ => false end) eqn:Ef.
    + assert (Hnb : ~ benign o) by (destruct o; try discriminate; cbn; auto).
      pose proof (fault_step s o HG Hnb) as St. destruct (cstep s o) as [[s' r] wk].
      destruct St as (HI' & Hc & _ & _ & [Hn|[-> _]]).
      * split; [split; [exact HI'|]|exact Hc]. intros (q & rb & wd & E). destruct Hn as [E0|E0]; congruence.
      * split; [split; [exact HI|intros _; exact HG]|reflexivity].
    + assert (Hb : benign o) by (destruct o; try discriminate; cbn; auto).
      pose proof (good_step s o HG Hb) as St. destruct (cstep s o) as [[s' r] wk].
      destruct St as (HG' & Hc & _). split; [split; [exact (proj1 HG')|intros _; exact HG']|exact Hc].
  - pose proof (nonok_step s o Hno HI) as St. destruct (cstep s o) as [[s' r] wk].
    destruct St as (Hn & HI' & Hc & _). split; [split; [exact HI'|]|exact Hc].
    intros (q & rb & wd & E). destruct Hn as [E0|E0]; congruence.
Qed.

Theorem gen_run ops : forall s, Gen s -> let '(sf, rs) := crun s ops in Gen sf /\ c_cap sf = c_cap s.
Proof.
  induction ops as [|o t IH]; intros s HG; cbn [crun]; [auto|].
  pose proof (gen_step s o HG) as St. destruct (cstep s o) as [[s1 r] wk]. destruct St as [HG1 Hc1].
  specialize (IH s1 HG1). destruct (crun s1 t) as [sf rs]. destruct IH as [HGf Hcf]. split; [exact HGf|congruence].
Qed.

(* ---------------------------------------------------------------- C08 / C11: prefix in every history *)
(* In every history -- aborts and body drops included -- what has been delivered is a prefix of
   what has been accepted; while the shared state is Ok the difference is exactly queue ++ buffer. *)
Definition Acct (s : cstate) (acc del : bytes) : Prop :=
  (IsOk s -> acc = del ++ pending s ++ c_buf s) /\ (NonOk s -> exists rest, acc = del ++ rest).

Theorem acct_step s o acc del : Gen s -> Acct s acc del ->
  let '(s', r, wk) := cstep s o in Acct s' (acc ++ accepted_of o r) (del ++ delivered_of r).
Proof.
  intros (HI & HG) (HA1 & HA2). destruct (ok_or_not s) as [Hok|Hno].
  - specialize (HG Hok). specialize (HA1 Hok).
    destruct (match o with OAbort | ODropReader => true | _ => false end) eqn:Ef.
    + assert (Hnb : ~ benign o) by (destruct o; try discriminate; cbn; auto).
      pose proof (fault_step s o HG Hnb) as St. destruct (cstep s o) as [[s' r] wk].
      destruct St as (HI' & Hc & Hd & Ha & [Hn|[-> _]]); rewrite Hd, Ha, !app_nil_r.
      * split; [intros (q & rb & wd & E); destruct Hn as [E0|E0]; congruence|]. intros _. eexists. exact HA1.
      * split; [intros _; exact HA1|]. intros Hn. destruct Hok as (q & rb & wd & E). destruct Hn as [E0|E0]; congruence.
    + assert (Hb : benign o) by (destruct o; try discriminate; cbn; auto).
      pose proof (good_step s o HG Hb) as St. destruct (cstep s o) as [[s' r] wk].
      destruct St as (HG' & Hc & Eq).
      assert (E : acc ++ accepted_of o r = (del ++ delivered_of r) ++ pending s' ++ c_buf s').
      { rewrite HA1. rewrite <- !app_assoc. rewrite Eq. reflexivity. }
      split; [intros _; exact E|]. intros _. eexists. exact E.
  - destruct (HA2 Hno) as (rest & ->).
    pose proof (nonok_step s o Hno HI) as St. destruct (cstep s o) as [[s' r] wk].
    destruct St as (Hn & HI' & Hc & Hd & _). rewrite Hd, app_nil_r.
    split; [intros (q & rb & wd & E); destruct Hn as [E0|E0]; congruence|].
    intros _. exists (rest ++ accepted_of o r). now rewrite app_assoc.
Qed.

Theorem acct_run ops : forall s acc del, Gen s -> Acct s acc del ->
  let '(sf, rs) := crun s ops in Acct sf (acc ++ acc_total ops rs) (del ++ del_total rs).
Proof.
  induction ops as [|o t IH]; intros s acc del HG HA; cbn [crun].
  - cbn [acc_total del_total flat_map]. now rewrite !app_nil_r.
  - pose proof (acct_step s o acc del HG HA) as St. pose proof (gen_step s o HG) as Sg.
    destruct (cstep s o) as [[s1 r] wk]. destruct Sg as [HG1 _].
    specialize (IH s1 _ _ HG1 St). destruct (crun s1 t) as [sf rs].
    cbn [acc_total del_total flat_map fst]. fold (del_total rs). now rewrite !app_assoc.
Qed.

Theorem delivered_prefix_of_accepted cap ops : 0 < cap ->
  let '(sf, rs) := crun (cinit cap) ops in exists rest, acc_total ops rs = del_total rs ++ rest.
Proof.
  intros Hc. pose proof (acct_run ops (cinit cap) [] [] (gen_init cap Hc)) as H.
  assert (HA : Acct (cinit cap) [] []).
  { split; [intros _; reflexivity|]. intros _. exists []. reflexivity. }
  specialize (H HA). destruct (crun (cinit cap) ops) as [sf rs]. cbn [app] in H.
  destruct H as (H1 & H2). destruct (ok_or_not sf) as [Hok|Hno]; [eexists; exact (H1 Hok)|exact (H2 Hno)].
Qed.

(* ---------------------------------------------------------------- C11: abort, over whole histories *)
(* After an abort on a live writer, whatever happens next: every write and flush fails, nothing is
   ever delivered again, and the first poll of the (still existing) body reports the error. *)
Definition refused (o : cop) (r : copres) : Prop :=
  match o with
  | OWrite _ => r = RWrite None
  | OFlush => r = RIo false
  | OWriteAll d => d <> [] -> r = RIo false
  | _ => True
  end.

Lemma not_raw_refuses s o : c_w s <> WRaw -> let '(s', r, wk) := cstep s o in refused o r.
Proof.
  intros Hw. destruct o as [d|d| | | |w|]; cbn [cstep refused].
  - unfold bw_write. destruct (c_w s); [congruence|reflexivity|reflexivity].
  - destruct d as [|b t]; [cbn; intros; congruence|]. cbn [write_all_loop]. unfold bw_write.
    destruct (c_w s); [congruence|reflexivity|reflexivity].
  - destruct (c_w s); [congruence|reflexivity|reflexivity].
  - destruct (c_w s); [congruence|..]; exact I.
  - destruct (c_w s); [congruence|..]; exact I.
  - destruct (negb (c_reader s)); [exact I|]. destruct (c_st s) as [[|c q] rb [|]| |]; exact I.
  - destruct (negb (c_reader s)); exact I.
Qed.

Theorem after_abort_all_refused ops : forall s, NonOk s -> CInv s -> c_w s <> WRaw ->
  let '(sf, rs) := crun s ops in
  Forall2 (fun o p => refused o (fst p) /\ delivered_of (fst p) = [] /\ snd p = []) ops rs /\ NonOk sf /\ c_w sf <> WRaw.
Proof.
  induction ops as [|o t IH]; intros s HN HI Hw; cbn [crun]; [auto|].
  pose proof (nonok_step s o HN HI) as St. pose proof (not_raw_refuses s o Hw) as Sr.
  destruct (cstep s o) as [[s1 r] wk]. destruct St as (HN1 & HI1 & _ & Hd & Hwk & _ & Hw1).
  specialize (IH s1 HN1 HI1 (Hw1 Hw)). destruct (crun s1 t) as [sf rs]. destruct IH as (HF & HNf & Hwf).
  split; [constructor; [cbn [fst snd]; auto|exact HF]|auto].
Qed.

(* the error is what the consumer sees next: no poll before it, no end before it *)
Fixpoint first_poll (ops : list cop) (rs : list (copres * list N)) : option copres :=
  match ops, rs with
  | OPoll _ :: _, (r, _) :: _ => Some r
  | ODropReader :: _, _ => None
  | _ :: t, _ :: u => first_poll t u
  | _, _ => None
  end.

(* producer operations leave a non-Ok shared state and the body's existence exactly as they are *)
Lemma producer_keeps_nonok s o : NonOk s -> CInv s -> producer_op o = true \/ (exists d, o = OWriteAll d) ->
  c_st (fst (fst (cstep s o))) = c_st s /\ c_reader (fst (fst (cstep s o))) = c_reader s.
Proof.
  intros HN HI Hp. destruct o as [d|d| | | |w|]; try (destruct Hp as [Hp|(d0 & Hp)]; discriminate); cbn [cstep].
  - pose proof (bw_write_nonok s d HN HI) as Hb. destruct (bw_write s d) as [[s1 r] wk].
    destruct Hb as (Hst & Hrd & _). cbn [fst]. split; congruence.
  - pose proof (write_all_nonok (S (length d)) s d [] HN HI) as Hb.
    destruct (write_all_loop (S (length d)) bw_write s d []) as [[s1 ok] wk].
    destruct Hb as (Hst & Hrd & _). cbn [fst]. split; congruence.
  - destruct (c_w s).
    + destruct (flush_helper_nonok s false HN) as (ok & E & _). rewrite E. destruct ok; cbn [fst]; [auto|].
      rewrite drop_writer_inner_nonok by (apply nonok_set_w; exact HN). cbn [fst c_st c_reader set_w]. auto.
    + cbn [fst]. auto.
    + cbn [fst]. auto.
  - destruct (c_w s) eqn:Hw.
    + assert (Es : (match c_st s with
                    | SOk _ _ _ => ({| c_st := SErr; c_waker := None; c_buf := c_buf s; c_cap := c_cap s; c_w := c_w s; c_reader := c_reader s |}, c_waker s)
                    | _ => (s, None) end) = (s, None)) by (destruct HN as [E0|E0]; rewrite E0; reflexivity).
      rewrite Hw in Es. rewrite Es.
      rewrite drop_writer_inner_nonok by (apply nonok_set_w; exact HN). cbn [fst c_st c_reader set_w]. auto.
    + cbn [fst]. auto.
    + cbn [fst]. auto.
  - destruct (c_w s).
    + rewrite drop_writer_inner_nonok by (apply nonok_set_w; exact HN). cbn [fst c_st c_reader set_w]. auto.
    + cbn [fst set_w c_st c_reader]. auto.
    + cbn [fst set_w c_st c_reader]. auto.
Qed.

Theorem abort_then_error ops : forall s, c_st s = SErr -> c_reader s = true -> CInv s ->
  let '(sf, rs) := crun s ops in
  match first_poll ops rs with Some r => r = RPoll (Some (Some None)) | None => True end.
Proof.
  induction ops as [|o t IH]; intros s Hs Hr HI; cbn [crun]; [exact I|].
  assert (Hcase : (exists w, o = OPoll w) \/ o = ODropReader \/ (producer_op o = true \/ exists d, o = OWriteAll d)).
  { destruct o; cbn; eauto. }
  destruct Hcase as [(w & ->)|[->|Hp]].
  - cbn [cstep]. rewrite Hr, Hs. cbn [negb]. destruct (crun _ t) as [sf rs]. cbn [first_poll]. reflexivity.
  - destruct (cstep s ODropReader) as [[s1 r] wk]. destruct (crun s1 t) as [sf rs]. cbn [first_poll]. exact I.
  - pose proof (nonok_step s o (or_introl Hs) HI) as St.
    pose proof (producer_keeps_nonok s o (or_introl Hs) HI Hp) as Hk.
    destruct (cstep s o) as [[s1 r] wk]. destruct St as (_ & HI1 & _). cbn [fst] in Hk. destruct Hk as [Hs1 Hr1].
    specialize (IH s1 ltac:(congruence) ltac:(congruence) HI1). destruct (crun s1 t) as [sf rs].
    destruct o; try (destruct Hp as [Hp|(d0 & Hp)]; discriminate); cbn [first_poll]; exact IH.
Qed.

(* ---------------------------------------------------------------- C11: disconnect, over whole histories *)
(* Once the body has been dropped, in every continuation: the queue stays released (the shared
   state is ReaderFused for ever), nothing is delivered or woken, the writer never holds cap bytes
   or more, and after the first failed write or flush everything fails. *)
Theorem after_disconnect ops : forall s, c_st s = SFused -> CInv s ->
  let '(sf, rs) := crun s ops in
  c_st sf = SFused /\ pending sf = [] /\ CInv sf /\ c_cap sf = c_cap s /\
  Forall (fun p => delivered_of (fst p) = [] /\ snd p = []) rs /\
  (c_w s <> WRaw -> Forall2 (fun o p => refused o (fst p)) ops rs).
Proof.
  induction ops as [|o t IH]; intros s Hs HI; cbn [crun].
  - split; [exact Hs|]. split; [unfold pending; now rewrite Hs|]. split; [exact HI|]. split; [reflexivity|]. split; [constructor|]. intros _; constructor.
  - pose proof (nonok_step s o (or_intror Hs) HI) as St. pose proof (not_raw_refuses s o) as Sr.
    destruct (cstep s o) as [[s1 r] wk]. destruct St as (_ & HI1 & Hc1 & Hd & Hwk & Hf & Hw1).
    specialize (IH s1 (Hf Hs) HI1). destruct (crun s1 t) as [sf rs].
    destruct IH as (H1 & H2 & H3 & H4 & H5 & H6).
    split; [exact H1|]. split; [exact H2|]. split; [exact H3|]. split; [congruence|].
    split; [constructor; [cbn [fst snd]; auto|exact H5]|].
    intros Hw. constructor; [cbn [fst]; exact (Sr Hw)|exact (H6 (Hw1 Hw))].
Qed.

(* ---------------------------------------------------------------- all interleavings are histories *)
(* Every schedule of Model/ChunkerConc.v executes the sequential operations of some history: the
   shared state it reaches is the state that history reaches. Hence every statement above about
   all histories holds under all producer/consumer interleavings. *)
Fixpoint kops (k : kst) (cs : list choice) : list cop :=
  match cs with
  | [] => []
  | c :: t =>
      match kstep k c with
      | Some (k', _) =>
          match c, k_prog k with
          | P_cs, op :: _ => op :: kops k' t
          | P_wake, _ => kops k' t
          | C_poll w, _ => OPoll w :: kops k' t
          | C_drop, _ => ODropReader :: kops k' t
          | _, _ => kops k' t
          end
      | None => []
      end
  end.

Theorem schedule_is_history cs : forall k kf, krun k cs = Some kf ->
  k_s kf = fst (crun (k_s k) (kops k cs)).
Proof.
  induction cs as [|c t IH]; intros k kf Hr; cbn [krun kops] in *.
  - inversion Hr; subst. reflexivity.
  - destruct (kstep k c) as [[k1 r1]|] eqn:Ek; [|discriminate].
    specialize (IH k1 kf Hr). destruct c as [| |w|]; cbn [kstep] in Ek.
    + destruct (k_pend k); [discriminate|]. destruct (k_prog k) as [|op rest]; [discriminate|].
      destruct (producer_op op); [|discriminate].
      destruct (cstep (k_s k) op) as [[s' r] wk] eqn:Ec. inversion Ek; subst. cbn [crun k_s] in *. rewrite Ec.
      destruct (crun s' (kops _ t)) as [sf rs] eqn:Er. cbn [fst] in *. exact IH.
    + destruct (k_pend k); [|discriminate]. inversion Ek; subst. cbn [k_s] in *. exact IH.
    + destruct (k_cons k); try discriminate;
        destruct (cstep (k_s k) (OPoll w)) as [[s' r] wk] eqn:Ec; inversion Ek; subst; cbn [crun k_s] in *; rewrite Ec;
        destruct (crun s' (kops _ t)) as [sf rs] eqn:Er; cbn [fst] in *; exact IH.
    + destruct (k_cons k); try discriminate;
        destruct (cstep (k_s k) ODropReader) as [[s' r] wk] eqn:Ec; inversion Ek; subst; cbn [crun k_s] in *; rewrite Ec;
        destruct (crun s' (kops _ t)) as [sf rs] eqn:Er; cbn [fst] in *; exact IH.
Qed.

(* under every interleaving the shared state satisfies the general invariant *)
Corollary schedule_gen cap prog sched k : 0 < cap -> krun (kinit cap prog) sched = Some k -> Gen (k_s k).
Proof.
  intros Hc Hr. rewrite (schedule_is_history sched _ _ Hr). cbn [kinit k_s].
  pose proof (gen_run (kops (kinit cap prog) sched) (cinit cap) (gen_init cap Hc)) as H.
  destruct (crun (cinit cap) _) as [sf rs]. exact (proj1 H).
Qed.

(* ---------------------------------------------------------------- packaged statements *)
(* a failed write or flush leaves a writer that refuses everything from then on *)
Lemma failure_kills s o : NonOk s -> CInv s ->
  let '(s', r, wk) := cstep s o in
  (match o, r with OWrite _, RWrite None => True | OFlush, RIo false => True | _, _ => False end) -> c_w s' <> WRaw.
Proof.
  intros HN HI. destruct o as [d|d| | | |w|]; cbn [cstep]; try (destruct (cstep _ _) as [[? ?] ?]; tauto).
  - pose proof (bw_write_nonok s d HN HI) as Hb. destruct (bw_write s d) as [[s1 r] wk].
    destruct Hb as (_ & _ & _ & _ & _ & _ & Hnr & Hr). destruct r as [n|]; [tauto|]. intros _.
    destruct (c_w s) eqn:Ew.
    + destruct (Hr eq_refl) as [H1 H2].
      destruct (N.le_gt_cases (c_cap s) (lenN (c_buf s) + lenN d)) as [Hc1|Hc1];
        [destruct (H1 Hc1) as [_ ->]; discriminate|destruct (H2 Hc1) as (Hx & _); discriminate Hx].
    + destruct (Hnr ltac:(discriminate)) as [-> _]. rewrite Ew. discriminate.
    + destruct (Hnr ltac:(discriminate)) as [-> _]. rewrite Ew. discriminate.
  - destruct (write_all_loop _ _ _ _ _) as [[? ?] ?]. tauto.
  - destruct (c_w s) eqn:Hw.
    + destruct (flush_helper_nonok s false HN) as (ok & E & _). rewrite E. destruct ok; [tauto|].
      rewrite drop_writer_inner_nonok by (apply nonok_set_w; exact HN). cbn [c_w set_w]. intros _; discriminate.
    + intros _. rewrite Hw. discriminate.
    + intros _. rewrite Hw. discriminate.
  - destruct (c_w s); [destruct (match c_st s with SOk _ _ _ => _ | _ => _ end) as [? ?]; destruct (drop_writer_inner _) as [? ?]|..]; tauto.
  - destruct (c_w s); [destruct (drop_writer_inner _) as [? ?]|..]; tauto.
  - destruct (negb (c_reader s)); [tauto|]. destruct (c_st s) as [[|? ?] ? [|]| |]; tauto.
  - destruct (negb (c_reader s)); tauto.
Qed.

Lemma abort_keeps_reader s : Live s -> c_reader (fst (fst (cstep s OAbort))) = c_reader s.
Proof.
  intros (Hw & q & rb & Hs). cbn [cstep]. rewrite Hw, Hs. unfold drop_writer_inner, flush_helper, set_w.
  cbn [c_buf c_st]. destruct (c_buf s); reflexivity.
Qed.

(* C11, abort at any point of any fault-free history, followed by anything *)
Theorem abort_history s ops : Good s -> Live s ->
  let '(s1, _, _) := cstep s OAbort in
  let '(sf, rs) := crun s1 ops in
  Forall2 (fun o p => refused o (fst p) /\ delivered_of (fst p) = [] /\ snd p = []) ops rs /\
  match first_poll ops rs with Some r => r = RPoll (Some (Some None)) | None => True end.
Proof.
  intros HG HL. pose proof (abort_effect s HL) as Ha. pose proof (fault_step s OAbort HG (fun x => x)) as Hf.
  pose proof (abort_keeps_reader s HL) as Hk.
  destruct (cstep s OAbort) as [[s1 r1] wk1]. destruct Ha as (Hs1 & Hw1 & _). destruct Hf as (HI1 & _). cbn [fst] in Hk.
  assert (Hr1 : c_reader s1 = true) by (destruct HG as (_ & Hrd & _); congruence).
  assert (Hnw : c_w s1 <> WRaw) by (rewrite Hw1; discriminate).
  pose proof (after_abort_all_refused ops s1 (or_introl Hs1) HI1 Hnw) as H1.
  pose proof (abort_then_error ops s1 Hs1 Hr1 HI1) as H2.
  destruct (crun s1 ops) as [sf rs]. split; [exact (proj1 H1)|exact H2].
Qed.

(* C11, body drop at any point of any history, followed by anything: the queue is and stays released,
   nothing is delivered or woken, the writer's buffer stays below the chunk size *)
Theorem disconnect_history s ops : Gen s -> c_reader s = true ->
  let '(s1, _, _) := cstep s ODropReader in
  let '(sf, rs) := crun s1 ops in
  c_st sf = SFused /\ pending sf = [] /\ lenN (c_buf sf) < c_cap s /\
  Forall (fun p => delivered_of (fst p) = [] /\ snd p = []) rs.
Proof.
  intros (HI & _) Hr. cbn [cstep]. rewrite Hr. cbn [negb].
  match goal with |- context [crun ?s1 ops] => set (s1' := s1) end.
  assert (HI1 : CInv s1').
  { destruct HI as (Hcap & Hq & Hb & Hnb). unfold CInv, s1'. cbn [c_st c_cap c_w c_buf]. auto. }
  pose proof (after_disconnect ops s1' eq_refl HI1) as H.
  destruct (crun s1' ops) as [sf rs]. destruct H as (H1 & H2 & H3 & H4 & H5 & _).
  split; [exact H1|]. split; [exact H2|]. split; [|exact H5].
  destruct H3 as (Hcap & _ & Hb & Hnb). unfold s1' in H4. cbn [c_cap] in H4. rewrite <- H4.
  destruct (c_w sf) eqn:Ew; [apply Hb; reflexivity|rewrite Hnb by discriminate; rewrite lenN_nil; exact Hcap..].
Qed.

(* C08 / C10: a clean end -- the first terminal event, reported while the shared state is still Ok --
   comes only after everything accepted has been delivered, in every history *)
Theorem clean_end_complete cap ops w : 0 < cap ->
  let '(s, rs) := crun (cinit cap) ops in
  IsOk s -> snd (fst (cstep s (OPoll w))) = RPoll (Some None) -> acc_total ops rs = del_total rs.
Proof.
  intros Hc. pose proof (acct_run ops (cinit cap) [] [] (gen_init cap Hc)) as H.
  assert (HA : Acct (cinit cap) [] []).
  { split; [intros _; reflexivity|]. intros _. exists []. reflexivity. }
  specialize (H HA). pose proof (gen_run ops (cinit cap) (gen_init cap Hc)) as HG.
  destruct (crun (cinit cap) ops) as [s rs]. cbn [app] in H. destruct HG as [(HI & HG) _].
  intros Hok Hend. destruct H as [H1 _]. rewrite (H1 Hok). specialize (HG Hok).
  destruct HG as (_ & Hrd & Hcls). cbn [cstep] in Hend. rewrite Hrd in Hend. cbn [negb] in Hend.
  destruct Hok as (q & rb & wd & Hs). rewrite Hs in Hend.
  destruct q as [|c q]; [|cbn in Hend; discriminate]. destruct wd; [|cbn in Hend; discriminate].
  unfold pending. rewrite Hs. cbn [concat app].
  destruct Hcls as [(_ & q0 & rb0 & E)|(Hw & _)]; [congruence|].
  destruct HI as (_ & _ & _ & Hnb). rewrite Hnb by (rewrite Hw; discriminate). now rewrite app_nil_r.
Qed.

(* C10: the same accounting under every producer/consumer interleaving *)
Corollary schedule_prefix cap prog sched k : 0 < cap -> krun (kinit cap prog) sched = Some k ->
  let '(sf, rs) := crun (cinit cap) (kops (kinit cap prog) sched) in
  k_s k = sf /\ exists rest, acc_total (kops (kinit cap prog) sched) rs = del_total rs ++ rest.
Proof.
  intros Hc Hr. pose proof (schedule_is_history sched _ _ Hr) as E. cbn [kinit k_s] in E.
  pose proof (delivered_prefix_of_accepted cap (kops (kinit cap prog) sched) Hc) as P.
  destruct (crun (cinit cap) (kops (kinit cap prog) sched)) as [sf rs]. cbn [fst] in E. split; [exact E|exact P].
Qed.

Theorem failure_is_final : forall s o, NonOk s -> CInv s ->
  let '(s', r, wk) := cstep s o in
  (match o, r with OWrite _, RWrite None => True | OFlush, RIo false => True | _, _ => False end) ->
  c_w s' <> WRaw /\
  forall ops, let '(sf, rs) := crun s' ops in Forall2 (fun o p => refused o (fst p)) ops rs.
Proof.
  intros s o HN HI. pose proof (failure_kills s o HN HI) as Hk. pose proof (nonok_step s o HN HI) as Hs.
  destruct (cstep s o) as [[s' r] wk]. intros Hf. specialize (Hk Hf). split; [exact Hk|].
  destruct Hs as (HN' & HI' & _). intros ops.
  pose proof (after_abort_all_refused ops s' HN' HI' Hk) as H. destruct (crun s' ops) as [sf rs].
  destruct H as (H & _). clear - H. induction H as [|o0 p0 l l' (Hr & _) _ IH]; constructor; assumption.
Qed.
