(* Model/GzWriter.v: a gzip session seen by the client. For every encoder (the three functions are
   arbitrary), every chunk size and every interleaving of consumer polls: while the session is alive
   every write and flush succeeds, what the encoder emitted is -- in order, once -- what was delivered,
   is queued or is buffered; after a flush nothing is held back in the writer; and when the writer is
   dropped the finish emission (the trailer) is pushed exactly once, so that the client, draining the
   body, receives exactly `session e0 ops`: the encoder's own output for that sequence of operations,
   then the clean end. Under flate2's contract (session output = one gzip member of the payload; the
   output up to a sync flush decodes to the input so far) these are the two clauses of C09. *)
From HS Require Import Lib.Base Lib.Bytes Model.Chunker Model.GzWriter Proofs.ChunkerP.
Ltac Zify.zify_post_hook ::= Z.div_mod_to_equations.

Definition session_op (o : cop) : Prop := match o with OWrite _ | OFlush | OPoll _ => True | _ => False end.

Lemma live_good s : Good s -> Live s -> c_reader s = true /\ CInv s.
Proof. intros (HI & Hr & _) _. auto. Qed.

Lemma write_all_step_live s em : Good s -> Live s ->
  exists s' wk, cstep s (OWriteAll em) = (s', RIo true, wk) /\ Good s' /\ Live s' /\ c_cap s' = c_cap s /\
                pending s' ++ c_buf s' = pending s ++ c_buf s ++ em.
Proof.
  intros HG HL. destruct HG as (HI & Hr & _).
  destruct (write_all_live (S (length em)) s em [] HI HL ltac:(lia)) as (s' & wk & E & HI' & HL' & Hr' & Hc' & Hacc).
  exists s', wk. cbn [cstep]. rewrite E. split; [reflexivity|]. split; [split; [exact HI'|split; [congruence|left; exact HL']]|].
  split; [exact HL'|]. split; [exact Hc'|exact Hacc].
Qed.

Lemma flush_step_live s : Good s -> Live s ->
  exists s' wk, cstep s OFlush = (s', RIo true, wk) /\ Good s' /\ Live s' /\ c_cap s' = c_cap s /\ c_buf s' = [] /\
                pending s' = pending s ++ c_buf s.
Proof.
  intros HG HL. pose proof (flush_publishes s HG HL) as Hf. pose proof (good_step s OFlush HG I) as Hg.
  destruct HL as (Hw & q & rb & Hs).
  assert (Hlive : Live (fst (fst (cstep s OFlush)))).
  { cbn [cstep]. rewrite Hw. rewrite (flush_helper_live s q rb false false Hs).
    destruct (c_buf s) as [|b t]; cbn [fst]; (split; [cbn [c_w]; exact Hw|cbn [c_st]; eauto]). }
  destruct (cstep s OFlush) as [[s' r] wk]. destruct Hf as (-> & Hb & Hp). destruct Hg as (HG' & Hc & _).
  exists s', wk. cbn [fst] in Hlive. split; [reflexivity|]. split; [exact HG'|]. split; [exact Hlive|]. split; [exact Hc|]. split; [exact Hb|exact Hp].
Qed.

Lemma poll_step_live s w : Good s -> Live s ->
  let '(s', r, wk) := cstep s (OPoll w) in
  Good s' /\ Live s' /\ c_cap s' = c_cap s /\ pending s ++ c_buf s = delivered_of r ++ pending s' ++ c_buf s'.
Proof.
  intros HG HL. pose proof (good_step s (OPoll w) HG I) as Hg.
  assert (Hlive : Live (fst (fst (cstep s (OPoll w))))).
  { destruct HG as (_ & Hr & _). destruct HL as (Hw & q & rb & Hs). cbn [cstep]. rewrite Hr, Hs. cbn [negb].
    destruct q as [|c q]; cbn [fst]; [split; [exact Hw|cbn [c_st]; eauto]|].
    assert (E : match q, false with [], true => SFused | _, _ => SOk q (rb - lenN c) false end = SOk q (rb - lenN c) false) by (destruct q; reflexivity).
    rewrite E. split; [exact Hw|cbn [c_st]; eauto]. }
  destruct (cstep s (OPoll w)) as [[s' r] wk]. destruct Hg as (HG' & Hc & Eq). cbn [fst] in Hlive.
  cbn [accepted_of] in Eq. rewrite app_nil_r in Eq. auto.
Qed.

Section Gz.
Variable enc : Type.
Variable enc_write : enc -> bytes -> enc * bytes * N.
Variable enc_flush : enc -> enc * bytes.
Variable enc_finish : enc -> bytes.
Notation gstep := (gstep enc enc_write enc_flush enc_finish).
Notation grun := (grun enc enc_write enc_flush enc_finish).
Notation session := (session enc enc_write enc_flush enc_finish).

(* one round of GzEncoder::flush on a live session *)
Lemma gflush1_live s e : Good s -> Live s ->
  exists s2 e' wk em, gflush1 enc enc_flush s e = (s2, Some e', wk, em) /\ enc_flush e = (e', em) /\
    Good s2 /\ Live s2 /\ c_cap s2 = c_cap s /\ c_buf s2 = [] /\ pending s2 = pending s ++ c_buf s ++ em.
Proof.
  intros HG HL. unfold gflush1. destruct (enc_flush e) as [e' em] eqn:Ef.
  destruct (write_all_step_live s em HG HL) as (s1 & wk & E & HG1 & HL1 & Hc1 & Hacc1). rewrite E.
  destruct (flush_step_live s1 HG1 HL1) as (s2 & wk2 & E2 & HG2 & HL2 & Hc2 & Hb2 & Hp2). rewrite E2.
  exists s2, e', (wk ++ wk2), em. split; [reflexivity|]. split; [reflexivity|]. split; [exact HG2|]. split; [exact HL2|].
  split; [congruence|]. split; [exact Hb2|]. rewrite Hp2. exact Hacc1.
Qed.

Definition succeeded (o : cop) (r : copres) : Prop :=
  match o, r with OWrite _, RWrite (Some _) => True | OFlush, RIo true => True | OPoll _, _ => True | _, _ => False end.

(* the live part of a session: writes, flushes and polls in any order *)
Theorem gz_live_run ops : forall s e, Good s -> Live s -> Forall session_op ops ->
  let '(sf, gf, rs, ems) := grun s (GGz enc e) ops in
  Good sf /\ Live sf /\ c_cap sf = c_cap s /\
  Forall2 (fun o p => succeeded o (fst p)) ops rs /\
  (exists ef, gf = GGz enc ef /\ forall rest, session e (ops ++ rest) = ems ++ session ef rest) /\
  pending s ++ c_buf s ++ ems = del_total rs ++ pending sf ++ c_buf sf /\
  (* after a flush as last operation nothing is held back in the writer *)
  (match rev ops with OFlush :: _ => c_buf sf = [] | _ => True end).
Proof.
  induction ops as [|o t IH]; intros s e HG HL HF; cbn [grun].
  - split; [exact HG|]. split; [exact HL|]. split; [reflexivity|]. split; [constructor|].
    split; [exists e; split; [reflexivity|intros rest; reflexivity]|]. split; [cbn; now rewrite !app_nil_r|exact I].
  - inversion HF as [|? ? Ho Ht]; subst.
    assert (Hlast : forall sf : cstate, (match rev t with OFlush :: _ => c_buf sf = [] | _ => True end) ->
                    (t <> [] \/ (match o with OFlush => c_buf sf = [] | _ => True end)) ->
                    match rev (o :: t) with OFlush :: _ => c_buf sf = [] | _ => True end).
    { intros sf H1 H2. cbn [rev]. destruct (rev t) as [|x l] eqn:Er.
      - cbn [app]. destruct H2 as [H2|H2]; [destruct t; [congruence|apply (f_equal (@length cop)) in Er; rewrite rev_length in Er; discriminate]|].
        destruct o; auto.
      - cbn [app]. exact H1. }
    destruct o as [d|d| | | |w|]; cbn [session_op] in Ho; try contradiction; cbn [gstep].
    + (* write *)
      destruct (enc_write e d) as [[e' em] n] eqn:Ew.
      destruct (write_all_step_live s em HG HL) as (s1 & wk & E & HG1 & HL1 & Hc1 & Hacc1). rewrite E.
      specialize (IH s1 e' HG1 HL1 Ht). destruct (grun s1 (GGz enc e') t) as [[[sf gf] rs] ems].
      destruct IH as (HGf & HLf & Hcf & HF2 & (ef & Egf & Hses) & Hacc & Hfl).
      split; [exact HGf|]. split; [exact HLf|]. split; [congruence|].
      split; [constructor; [exact I|exact HF2]|].
      split; [exists ef; split; [exact Egf|intros rest; cbn [app session]; rewrite Ew, Hses; now rewrite app_assoc]|].
      split.
      * cbn [del_total flat_map fst delivered_of app]. fold (del_total rs). rewrite <- Hacc.
        rewrite !app_assoc. rewrite <- (app_assoc (pending s)). rewrite <- Hacc1. now rewrite <- !app_assoc.
      * apply Hlast; [exact Hfl|]. destruct t; [right; exact I|left; discriminate].
    + (* flush: two rounds of GzEncoder::flush *)
      destruct (gflush1_live s e HG HL) as (s2 & e1 & wk1 & em1 & E1 & Ef1 & HG2 & HL2 & Hc2 & Hb2 & Hp2). rewrite E1.
      destruct (gflush1_live s2 e1 HG2 HL2) as (s4 & e2 & wk2 & em2 & E2 & Ef2 & HG4 & HL4 & Hc4 & Hb4 & Hp4). rewrite E2.
      pose proof (IH s4 e2 HG4 HL4 Ht) as IH2. destruct (grun s4 (GGz enc e2) t) as [[[sf gf] rs] ems] eqn:Er.
      destruct IH2 as (HGf & HLf & Hcf & HF2 & (ef & Egf & Hses) & Hacc & Hfl).
      split; [exact HGf|]. split; [exact HLf|]. split; [congruence|].
      split; [constructor; [exact I|exact HF2]|].
      split; [exists ef; split; [exact Egf|intros rest; cbn [app session]; rewrite Ef1, Ef2, Hses; now rewrite <- !app_assoc]|].
      split.
      * cbn [del_total flat_map fst delivered_of app]. fold (del_total rs). rewrite <- Hacc.
        rewrite Hp4, Hb4, Hp2, Hb2. rewrite <- !app_assoc. cbn [app]. reflexivity.
      * apply Hlast; [exact Hfl|]. destruct t as [|o2 t2]; [right|left; discriminate].
        cbn [grun] in Er. inversion Er; subst. exact Hb4.
    + (* poll *)
      pose proof (poll_step_live s w HG HL) as Hp. destruct (cstep s (OPoll w)) as [[s1 r] wk].
      destruct Hp as (HG1 & HL1 & Hc1 & Hacc1).
      specialize (IH s1 e HG1 HL1 Ht). destruct (grun s1 (GGz enc e) t) as [[[sf gf] rs] ems].
      destruct IH as (HGf & HLf & Hcf & HF2 & (ef & Egf & Hses) & Hacc & Hfl).
      split; [exact HGf|]. split; [exact HLf|]. split; [congruence|].
      split; [constructor; [exact I|exact HF2]|].
      split; [exists ef; split; [exact Egf|intros rest; cbn [app session]; exact (Hses rest)]|].
      split.
      * cbn [del_total flat_map fst app]. fold (del_total rs). rewrite <- app_assoc, <- Hacc.
        rewrite !app_assoc. rewrite Hacc1. now rewrite <- !app_assoc.
      * apply Hlast; [exact Hfl|]. destruct t; [right; exact I|left; discriminate].
Qed.

(* the whole session: writes, flushes and polls, then the drop, then the consumer drains *)
Theorem gz_session cap e0 body : 0 < cap -> Forall session_op body ->
  let '(s, g, rs, ems) := grun (cinit cap) (GGz enc e0) (body ++ [ODropWriter]) in
  ems = session e0 (body ++ [ODropWriter]) /\
  exists q rb, c_st s = SOk q rb true /\ c_w s = WGone /\ Good s /\
    (* everything the encoder produced, the trailer included, has been delivered or is queued ... *)
    del_total rs ++ concat q = ems /\
    (* ... and draining delivers the queue in order, then the clean end *)
    let '(sf, rs2) := crun s (repeat (OPoll 0) (S (length q))) in
    c_st sf = SFused /\ del_total rs ++ del_total rs2 = session e0 (body ++ [ODropWriter]) /\
    exists rs0, rs2 = rs0 ++ [(RPoll (Some None), [])].
Proof.
  intros Hc HF.
  assert (Hsplit : forall ops s g, grun s g (ops ++ [ODropWriter]) =
            let '(s1, g1, rs1, em1) := grun s g ops in
            let '(s2, g2, r, wk, em) := gstep s1 g1 ODropWriter in
            (s2, g2, rs1 ++ [(r, wk)], em1 ++ em)).
  { induction ops as [|o t IHo]; intros s g; cbn [app grun].
    - destruct (gstep s g ODropWriter) as [[[[s2 g2] r] wk] em]. now rewrite app_nil_r.
    - destruct (gstep s g o) as [[[[s1 g1] r] wk] em]. rewrite IHo.
      destruct (grun s1 g1 t) as [[[s' g'] rs'] em'].
      destruct (gstep s' g' ODropWriter) as [[[[s2 g2] r2] wk2] em2]. now rewrite app_assoc. }
  rewrite Hsplit. pose proof (gz_live_run body (cinit cap) e0 (good_init cap Hc)) as HL.
  assert (Hlive0 : Live (cinit cap)) by (split; [reflexivity|cbn; eauto]).
  specialize (HL Hlive0 HF). destruct (grun (cinit cap) (GGz enc e0) body) as [[[s1 g1] rs1] em1].
  destruct HL as (HG1 & HL1 & Hc1 & _ & (ef & -> & Hses) & Hacc & _).
  cbn [gstep]. destruct (write_all_step_live s1 (enc_finish ef) HG1 HL1) as (s2 & wk & E & HG2 & HL2 & Hc2 & Hacc2). rewrite E.
  pose proof (good_step s2 ODropWriter HG2 I) as Hd.
  assert (Hshape : exists q rb, c_st (fst (fst (cstep s2 ODropWriter))) = SOk q rb true /\ c_w (fst (fst (cstep s2 ODropWriter))) = WGone
                                /\ snd (fst (cstep s2 ODropWriter)) = RUnit).
  { destruct HL2 as (Hw & q & rb & Hs). cbn [cstep]. rewrite Hw. unfold drop_writer_inner.
    rewrite (flush_helper_live (set_w s2 WGone) q rb false true) by exact Hs. cbn [set_w c_buf c_w fst snd c_st].
    destruct (c_buf s2); cbn [fst snd c_st c_w]; eauto. }
  destruct (cstep s2 ODropWriter) as [[s3 r3] wk3]. cbn [fst snd] in Hshape. destruct Hshape as (q & rb & Hs3 & Hw3 & Hr3). subst r3.
  destruct Hd as (HG3 & Hc3 & Eq3). cbn [accepted_of delivered_of app] in Eq3. rewrite app_nil_r in Eq3.
  assert (Hb3 : c_buf s3 = []).
  { destruct HG3 as ((_ & _ & _ & Hnb) & _). apply Hnb. rewrite Hw3. discriminate. }
  assert (Hp3 : pending s3 = concat q) by (unfold pending; now rewrite Hs3).
  assert (Hses' : session e0 (body ++ [ODropWriter]) = em1 ++ enc_finish ef).
  { rewrite Hses. reflexivity. }
  split; [symmetry; exact Hses'|]. exists q, rb. split; [exact Hs3|]. split; [exact Hw3|]. split; [exact HG3|].
  assert (Hall : del_total (rs1 ++ [(RUnit, wk ++ wk3)]) ++ concat q = em1 ++ enc_finish ef).
  { assert (E1 : del_total (rs1 ++ [(RUnit, wk ++ wk3)]) = del_total rs1).
    { unfold del_total. rewrite flat_map_app. cbn [flat_map fst app delivered_of]. now rewrite app_nil_r. }
    assert (E2 : em1 = del_total rs1 ++ pending s1 ++ c_buf s1).
    { unfold pending at 1 in Hacc. cbn [cinit c_st c_buf concat app] in Hacc. exact Hacc. }
    assert (E3 : concat q = pending s1 ++ c_buf s1 ++ enc_finish ef).
    { rewrite <- Hacc2, Eq3, Hb3, app_nil_r. symmetry. exact Hp3. }
    rewrite E1, E2, E3. now rewrite <- !app_assoc. }
  split; [exact Hall|].
  pose proof (drain_finished q s3 rb HG3 Hw3 Hs3) as Hdr.
  destruct (crun s3 (repeat (OPoll 0) (S (length q)))) as [sf rs2]. destruct Hdr as (Hf & Hd2 & Hend).
  split; [exact Hf|]. split; [|exact Hend]. rewrite Hd2, Hses'. exact Hall.
Qed.
End Gz.
