(* Model/Dir.v: path validation, lookup order, containment. *)
From Coq Require Import String.
From HS Require Import Lib.Base Lib.Bytes Model.Negot Model.Dir Proofs.NegotP.
Ltac Zify.zify_post_hook ::= Z.div_mod_to_equations.

Definition DOTDOT : bytes := [46; 46].

Lemma segments_ok_spec segs : segments_ok segs = true <-> ~ In DOTDOT segs.
Proof.
  induction segs as [|s t IH]; cbn [segments_ok In]; [tauto|].
  destruct (beq_bytes s [46; 46]) eqn:E.
  - apply beq_bytes_spec in E. subst. split; [discriminate|]. intros H. exfalso. apply H. now left.
  - apply beq_bytes_false in E. rewrite IH. split.
    + intros H [H1|H1]; [apply E; unfold DOTDOT in H1; congruence|contradiction].
    + intros H H1. apply H. now right.
Qed.

Lemma existsb_nul p : existsb (N.eqb 0) p = true <-> In 0 p.
Proof.
  rewrite existsb_exists. split.
  - intros (x & Hx & E). apply N.eqb_eq in E. now subst.
  - intros H. exists 0. split; [exact H|reflexivity].
Qed.

(* C19: a path is accepted exactly when it has no NUL byte, is not absolute, and none of its
   '/'-separated segments is ".." -- names that merely contain dots pass. *)
Theorem validate_path_spec p :
  validate_path p = None <-> (~ In 0 p /\ (forall t, p <> 47 :: t) /\ ~ In DOTDOT (split_on 47 p)).
Proof.
  unfold validate_path. destruct (existsb (N.eqb 0) p) eqn:En.
  - apply existsb_nul in En. split; [discriminate|]. intros (H & _). contradiction.
  - assert (Hn : ~ In 0 p) by (intros H; apply existsb_nul in H; congruence).
    destruct p as [|b t].
    + cbn. split; [intros _|reflexivity]. split; [exact Hn|]. split; [discriminate|]. intros [H|[]]. discriminate.
    + destruct (N.eqb_spec b 47) as [->|Hb].
      * split; [discriminate|]. intros (_ & H & _). exfalso. now apply (H t).
      * assert (E : match b with 47 => Some EAbsolute | _ => if segments_ok (split_on 47 (b :: t)) then None else Some EDotDot end
                    = if segments_ok (split_on 47 (b :: t)) then None else Some EDotDot).
        { destruct b as [|q]; [reflexivity|]. do 6 (destruct q; try reflexivity). congruence. }
        rewrite E. destruct (segments_ok (split_on 47 (b :: t))) eqn:Es.
        -- apply segments_ok_spec in Es. split; [intros _|reflexivity]. split; [exact Hn|]. split; [|exact Es].
           intros t' H. inversion H. contradiction.
        -- split; [discriminate|]. intros (_ & _ & H). apply segments_ok_spec in H. congruence.
Qed.

(* which error: NUL wins, then absolute, then ".." *)
Theorem validate_path_errors p :
  (In 0 p -> validate_path p = Some ENul) /\
  (~ In 0 p -> (exists t, p = 47 :: t) -> validate_path p = Some EAbsolute).
Proof.
  unfold validate_path. split.
  - intros H. apply existsb_nul in H. now rewrite H.
  - intros Hn [t ->]. destruct (existsb (N.eqb 0) (47 :: t)) eqn:E; [apply existsb_nul in E; contradiction|reflexivity].
Qed.

Section WithFs.
Variable openat : bytes -> open_res.
Notation get := (fsdir_get openat).

(* on a rejected path nothing is opened *)
Theorem get_rejected auto path ae e : validate_path path = Some e -> get auto path ae = Ok (GInvalid e, []).
Proof. intros H. unfold fsdir_get. now rewrite H. Qed.

(* on an accepted path: the .gz sibling is tried first exactly when auto_gzip and should_gzip; it
   is used exactly when it opened a non-directory; NotFound or a directory fall back to the plain
   name; any other error is returned; the node is the file named by the last successful call *)
Theorem get_accepted auto path ae : validate_path path = None ->
  exists sg, should_gzip ae = Ok sg /\
  get auto path ae = Ok
    (let plain calls := match openat path with
                        | OOpened ino _ => (GNode ino false auto, calls ++ [path])
                        | ONotFound => (GNotFound, calls ++ [path])
                        | OError k => (GError k, calls ++ [path])
                        end in
     if auto && sg then
       match openat (path ++ DOT_GZ) with
       | OOpened ino false => (GNode ino true auto, [path ++ DOT_GZ])
       | OOpened _ true | ONotFound => plain [path ++ DOT_GZ]
       | OError k => if k =? K_NAMETOOLONG then plain [path ++ DOT_GZ] else (GError k, [path ++ DOT_GZ])
       end
     else plain []).
Proof.
  intros Hv. destruct (should_gzip_total ae) as [sg Hsg]. exists sg. split; [exact Hsg|].
  unfold fsdir_get. rewrite Hv, Hsg. cbn [bind]. destruct (auto && sg); [|reflexivity].
  destruct (openat (path ++ DOT_GZ)) as [|k|ino [|]]; try reflexivity. destruct (k =? K_NAMETOOLONG); reflexivity.
Qed.

(* whenever the path itself opens, get fails only if the sibling that would have been substituted is
   there to be opened and fails (an error other than "not found" / "name too long") *)
Theorem get_fails_only_for_sibling auto path ae k calls ino d : validate_path path = None ->
  openat path = OOpened ino d -> get auto path ae = Ok (GError k, calls) ->
  auto = true /\ should_gzip ae = Ok true /\ openat (path ++ DOT_GZ) = OError k /\ k <> K_NAMETOOLONG.
Proof.
  intros Hv Hp. unfold fsdir_get. rewrite Hv. destruct (should_gzip_total ae) as [sg Hsg]. rewrite Hsg. cbn [bind].
  rewrite Hp. destruct auto, sg; cbn [andb]; try (intros HH; discriminate HH).
  destruct (openat (path ++ DOT_GZ)) as [|k2|i [|]]; try (intros HH; discriminate HH).
  destruct (N.eqb_spec k2 K_NAMETOOLONG) as [E|E]; intros HH; [discriminate HH|]. inversion HH; subst. auto.
Qed.

(* gzip is reported exactly when the .gz branch was taken; Vary exactly when auto_gzip is on *)
Theorem get_encoding auto path ae ino gz ag calls : get auto path ae = Ok (GNode ino gz ag, calls) ->
  ag = auto /\ (gz = true <-> calls = [path ++ DOT_GZ]) /\
  (gz = true -> auto = true /\ should_gzip ae = Ok true /\ openat (path ++ DOT_GZ) = OOpened ino false).
Proof.
  unfold fsdir_get. destruct (validate_path path); [discriminate|].
  destruct (should_gzip_total ae) as [sg Hsg]. rewrite Hsg. cbn [bind].
  destruct auto, sg; cbn [andb].
  - destruct (openat (path ++ DOT_GZ)) as [|k|i [|]] eqn:Eg.
    + destruct (openat path) as [|k|i d]; intros HH; inversion HH; subst.
      split; [reflexivity|]. split; [split; [discriminate|intros E; first [apply (f_equal (@length bytes)) in E; simpl in E; discriminate | injection E as E'; apply (f_equal (@length N)) in E'; rewrite app_length in E'; simpl in E'; lia]]|discriminate].
    + destruct (k =? K_NAMETOOLONG); [|intros HH; inversion HH].
      destruct (openat path) as [|k1|i d]; intros HH; inversion HH; subst.
      split; [reflexivity|]. split; [split; [discriminate|intros E; first [apply (f_equal (@length bytes)) in E; simpl in E; discriminate | injection E as E'; apply (f_equal (@length N)) in E'; rewrite app_length in E'; simpl in E'; lia]]|discriminate].
    + destruct (openat path) as [|k|i2 d]; intros HH; inversion HH; subst.
      split; [reflexivity|]. split; [split; [discriminate|intros E; first [apply (f_equal (@length bytes)) in E; simpl in E; discriminate | injection E as E'; apply (f_equal (@length N)) in E'; rewrite app_length in E'; simpl in E'; lia]]|discriminate].
    + intros HH; inversion HH; subst. split; [reflexivity|]. split; [tauto|]. intros _. auto.
  - destruct (openat path) as [|k|i d]; intros HH; inversion HH; subst.
    split; [reflexivity|]. split; [split; [discriminate|intros E; first [apply (f_equal (@length bytes)) in E; simpl in E; discriminate | injection E as E'; apply (f_equal (@length N)) in E'; rewrite app_length in E'; simpl in E'; lia]]|discriminate].
  - destruct (openat path) as [|k|i d]; intros HH; inversion HH; subst.
    split; [reflexivity|]. split; [split; [discriminate|intros E; first [apply (f_equal (@length bytes)) in E; simpl in E; discriminate | injection E as E'; apply (f_equal (@length N)) in E'; rewrite app_length in E'; simpl in E'; lia]]|discriminate].
  - destruct (openat path) as [|k|i d]; intros HH; inversion HH; subst.
    split; [reflexivity|]. split; [split; [discriminate|intros E; first [apply (f_equal (@length bytes)) in E; simpl in E; discriminate | injection E as E'; apply (f_equal (@length N)) in E'; rewrite app_length in E'; simpl in E'; lia]]|discriminate].
Qed.
End WithFs.

Theorem node_headers_spec gz auto :
  (In (bs "content-encoding", bs "gzip") (node_headers gz auto) <-> gz = true) /\
  (In (bs "vary", bs "accept-encoding") (node_headers gz auto) <-> auto = true) /\
  (node_encoding gz = Some (bs "gzip") <-> gz = true).
Proof.
  destruct gz, auto; unfold node_headers, node_encoding; cbn [app In]; repeat split; intros; try reflexivity; try tauto;
    try discriminate;
    repeat match goal with H : _ \/ _ |- _ => destruct H as [H|H] end; try contradiction;
    try (match goal with H : (_, _) = (_, _) |- _ => vm_compute in H; discriminate H end).
Qed.

(* ---- containment in a symlink-free tree ---- *)
(* How path resolution moves: "" and "." stay, ".." goes to the parent, a name goes down.
   Depth relative to the base directory; None = resolution left the base's subtree. *)
Definition DOT : bytes := [46].
Fixpoint walk (depth : nat) (segs : list bytes) : option nat :=
  match segs with
  | [] => Some depth
  | s :: t =>
      if beq_bytes s [] || beq_bytes s DOT then walk depth t
      else if beq_bytes s DOTDOT then match depth with O => None | S d => walk d t end
      else walk (S depth) t
  end.

(* C19: resolving an accepted path from the base never visits a node outside the base's subtree *)
Theorem accepted_path_contained p : validate_path p = None -> exists d, walk 0 (split_on 47 p) = Some d.
Proof.
  intros H. apply validate_path_spec in H. destruct H as (_ & _ & Hd). revert Hd. generalize (split_on 47 p). generalize 0%nat.
  intros n l. revert n. induction l as [|s t IH]; intros n Hd; cbn [walk]; [eauto|].
  destruct (beq_bytes s [] || beq_bytes s DOT); [apply IH; intros Hin; apply Hd; now right|].
  destruct (beq_bytes s DOTDOT) eqn:E.
  - apply beq_bytes_spec in E. exfalso. apply Hd. now left.
  - apply IH. intros Hin. apply Hd. now right.
Qed.
