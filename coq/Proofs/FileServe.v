(* C18, last clause: a ChunkedReadFile served through `serve`. The stream the file entity hands
   out for a range (Model/File.v) is, seen as the event stream of Model/Body.v, an honest stream
   for that range as long as the file is not truncated below the range's end -- whatever short
   reads pread makes -- and every range `serve` ever asks for lies within the entity's length.
   So the hypothesis `honest_for` of the end-to-end theorem (Proofs/EndToEnd.v) is discharged for
   file entities, and the response body is the specification's body for the file's content. *)
From HS Require Import Lib.Base Lib.Bytes Lib.Dec Model.Body Model.File Spec.RangeGrammar Spec.Multipart Spec.Response
  Proofs.BodyP Proofs.BodyRun Proofs.EchoP Proofs.MultipartP Proofs.FileP.
Ltac Zify.zify_post_hook ::= Z.div_mod_to_equations.

Section FS.
Variable content : N -> N.

Definition ev_of (r : rres) : list ev := match r with RData d => [EvData d] | RErrEof => [EvErr 0] | REnd => [] end.
(* the entity stream for the half-open range (a, e): the file stream polled to its end *)
Definition file_events (flen : nat -> N) (short : nat -> N) (a e : N) : list ev :=
  flat_map ev_of (fst (read_run content flen short (S (N.to_nat (e - a))) {| r_start := a; r_end := e; r_reads := 0 |})).

Lemma bytes_from_content a n : bytes_from content a n = content_from content a n.
Proof. revert a; induction n as [|n IH]; intros a; cbn [bytes_from content_from]; [reflexivity|now rewrite IH]. Qed.

Lemma events_bytes rs : stream_bytes (flat_map ev_of rs) = all_rdata rs.
Proof.
  induction rs as [|r t IH]; [reflexivity|]. cbn [flat_map]. unfold stream_bytes in *. rewrite flat_map_app, IH.
  unfold all_rdata. cbn [flat_map]. destruct r; cbn [ev_of flat_map ev_bytes rdata app]; rewrite ?app_nil_r; reflexivity.
Qed.
Lemma events_no_err rs : ~ In RErrEof rs -> existsb ev_is_err (flat_map ev_of rs) = false.
Proof.
  induction rs as [|r t IH]; intros Hn; [reflexivity|]. cbn [flat_map]. rewrite existsb_app.
  rewrite IH by (intros H; apply Hn; now right).
  destruct r; cbn [ev_of existsb ev_is_err orb]; try reflexivity. exfalso. apply Hn. now left.
Qed.

Theorem file_stream_honest flen short a e : a <= e -> (forall k, e <= flen k) ->
  stream_bytes (file_events flen short a e) = content_range content a e /\
  existsb ev_is_err (file_events flen short a e) = false.
Proof.
  intros Hae Hf. unfold file_events.
  pose proof (read_exact content flen short (N.to_nat (e - a)) {| r_start := a; r_end := e; r_reads := 0 |}) as H.
  cbn [r_start r_end] in H. specialize (H ltac:(lia) Hae Hf).
  destruct (read_run content flen short (S (N.to_nat (e - a))) _) as [rs sf]. destruct H as (_ & Hne & _ & Hd). cbn [fst].
  split; [|now apply events_no_err]. rewrite events_bytes, Hd. unfold content_range. apply bytes_from_content.
Qed.

(* a truncated file: the stream reports the failure and never a clean end -- the body wrapped around it
   then reports an error (C07) *)
Theorem file_stream_truncated flen short a e : a < e -> truncated_from flen 0 e ->
  existsb ev_is_err (file_events flen short a e) = true.
Proof.
  intros Hae Ht. unfold file_events.
  pose proof (read_truncated content flen short (S (N.to_nat (e - a))) {| r_start := a; r_end := e; r_reads := 0 |}) as H.
  cbn [r_start r_end r_reads] in H. specialize (H ltac:(lia) Hae Ht).
  destruct (read_run content flen short (S (N.to_nat (e - a))) _) as [rs sf]. destruct H as (Hin & _). cbn [fst].
  clear -Hin. induction rs as [|r t IH]; [contradiction|]. cbn [flat_map]. rewrite existsb_app.
  destruct Hin as [->|Hin]; [reflexivity|]. rewrite (IH Hin). apply orb_true_r.
Qed.

(* every range the specification reads lies within the entity *)
Lemma resolve1_within L s a e : resolve1 L s = Some (a, e) -> a < e /\ e <= L.
Proof.
  destruct s as [x y|x|n]; cbn [resolve1].
  - destruct (N.ltb_spec (dval x) L) as [H1|H1]; [|discriminate]. destruct (N.leb_spec (dval x) (dval y)) as [H2|H2]; [|discriminate].
    cbn [andb]. intros HH; inversion HH; subst. lia.
  - destruct (N.ltb_spec (dval x) L) as [H1|H1]; [|discriminate]. intros HH; inversion HH; subst. lia.
  - destruct (N.ltb_spec 0 (dval n)) as [H1|H1]; [|discriminate]. destruct (N.ltb_spec 0 L) as [H2|H2]; [|discriminate].
    cbn [andb]. intros HH; inversion HH; subst. lia.
Qed.
Lemma filter_map_within L specs : Forall (fun p => fst p <= snd p /\ snd p <= L) (filter_map (resolve1 L) specs).
Proof.
  induction specs as [|s t IH]; cbn [filter_map]; [constructor|].
  destruct (resolve1 L s) as [[a e]|] eqn:E; [|exact IH]. constructor; [|exact IH].
  destruct (resolve1_within L s a e E). cbn [fst snd]. lia.
Qed.
Theorem spec_reads_within et lm im inm ims ius range L eh :
  Forall (fun p => fst p <= snd p /\ snd p <= L)
         (spec_reads L (spec_outcome content et lm im inm ims ius range L eh)).
Proof.
  unfold spec_outcome. destruct (Spec.Validators.decide et lm im inm ims ius); cbn [spec_reads]; try constructor.
  destruct range as [specs|]; cbn [spec_reads]; [|constructor; [cbn; lia|constructor]].
  pose proof (filter_map_within L specs) as HF.
  destruct (filter_map (resolve1 L) specs) as [|[a e] [|p2 t]]; cbn [spec_reads]; try constructor.
  - now inversion HF.
  - constructor.
  - destruct (est80 _ <? L); [destruct (lenN _ <? U64)|]; cbn [spec_reads]; try exact HF; try constructor; try (cbn; lia). constructor.
Qed.

(* an entity backed by an untruncated file is honest for every list of ranges within its length *)
Theorem file_entity_honest L reads streams :
  Forall (fun p => fst p <= snd p /\ snd p <= L) reads ->
  (forall i a e, nth_error reads i = Some (a, e) ->
     exists flen short, (forall k, L <= flen k) /\ stream_of streams i = file_events flen short a e) ->
  honest_for content streams reads.
Proof.
  intros HF Hs i a e Hre. destruct (Hs i a e Hre) as (flen & short & Hfl & ->).
  rewrite Forall_forall in HF. specialize (HF (a, e) (nth_error_In _ _ Hre)). cbn [fst snd] in HF.
  apply file_stream_honest; [lia|]. intros k. specialize (Hfl k). lia.
Qed.
End FS.
