(* Model/ChunkerConc.v: no lost wake-up, for every producer program and every schedule. *)
From HS Require Import Lib.Base Lib.Bytes Model.Chunker Model.ChunkerConc.
Ltac Zify.zify_post_hook ::= Z.div_mod_to_equations.

Definition idle_registered (s : cstate) (w : N) : Prop :=
  (exists rb, c_st s = SOk [] rb false) /\ c_waker s = Some w.

(* J: a parked consumer that has not been woken and has no wake-up in flight has nothing to
   receive -- the queue is empty, the writer has neither finished nor aborted -- and it is the
   registered waker: the next publishing critical section will take exactly its waker. *)
Definition J (k : kst) : Prop :=
  forall w, k_cons k = CParked w -> mem_w w (k_woken k) = false -> k_pend k <> Some w ->
            idle_registered (k_s k) w.

(* K: once the writer is gone or dead, the shared state is never "open and not finished" again *)
Definition K (k : kst) : Prop :=
  c_w (k_s k) <> WRaw -> forall q rb, c_st (k_s k) <> SOk q rb false.

(* a producer operation started in the idle-registered state either takes that waker or leaves
   the state idle-registered *)
Lemma producer_takes_waker s w op s' r wk : producer_op op = true -> idle_registered s w ->
  cstep s op = (s', r, wk) -> hd_error wk = Some w \/ (wk = [] /\ idle_registered s' w).
Proof.
  intros Hop ((rb & Hs) & Hw) HH. destruct s as [st wkr buf cap wr rd]. cbn [c_st c_waker] in Hs, Hw. subst st wkr.
  unfold idle_registered. cbn [c_st c_waker].
  destruct op as [d|d| | | |w0|]; try discriminate; cbn [cstep] in HH.
  - (* write *)
    unfold bw_write in HH. cbn [c_w] in HH. destruct wr.
    + unfold writer_write in HH. cbn [c_cap c_buf c_st c_waker c_w c_reader] in HH.
      destruct (cap - lenN buf <=? lenN d).
      * unfold flush_helper in HH. cbn [c_buf c_st c_waker c_cap c_w c_reader] in HH.
        destruct (buf ++ firstn (N.to_nat (cap - lenN buf)) d) as [|b0 t0]; inversion HH; subst; cbn; eauto.
      * inversion HH; subst. right. cbn. eauto.
    + inversion HH; subst. right. cbn. eauto.
    + inversion HH; subst. right. cbn. eauto.
  - (* flush *)
    cbn [c_w] in HH. destruct wr.
    + unfold flush_helper in HH. cbn [c_buf c_st c_waker c_cap c_w c_reader] in HH.
      destruct buf as [|b0 t0]; inversion HH; subst; cbn; eauto.
    + inversion HH; subst. right. cbn. eauto.
    + inversion HH; subst. right. cbn. eauto.
  - (* abort *)
    cbn [c_w c_st] in HH. destruct wr.
    + unfold drop_writer_inner, flush_helper, set_w in HH. cbn [c_buf c_st c_waker c_cap c_w c_reader] in HH.
      destruct buf as [|b0 t0]; inversion HH; subst; cbn; eauto.
    + inversion HH; subst. right. cbn. eauto.
    + inversion HH; subst. right. cbn. eauto.
  - (* drop of the writer *)
    cbn [c_w] in HH. destruct wr.
    + unfold drop_writer_inner, flush_helper, set_w in HH. cbn [c_buf c_st c_waker c_cap c_w c_reader] in HH.
      destruct buf as [|b0 t0]; inversion HH; subst; cbn; eauto.
    + inversion HH; subst. right. cbn. eauto.
    + inversion HH; subst. right. cbn. eauto.
Qed.

(* a poll that returns Pending has registered the presented waker on an empty, open queue *)
Lemma pending_poll_registers s w s' wk : cstep s (OPoll w) = (s', RPoll None, wk) -> idle_registered s' w.
Proof.
  destruct s as [st wkr buf cap wr rd]. cbn [cstep c_reader c_st]. destruct rd; cbn [negb]; [|discriminate].
  destruct st as [[|c ready] rb [|]| |]; intros HH; inversion HH; subst. unfold idle_registered. cbn. eauto.
Qed.

Lemma mem_w_cons w w0 l : mem_w w (w0 :: l) = (w =? w0) || mem_w w l.
Proof. reflexivity. Qed.

Theorem step_J k c k' r : J k -> kstep k c = Some (k', r) -> J k'.
Proof.
  intros HJ Hs. destruct c as [| |w'|]; cbn [kstep] in Hs.
  - (* P_cs *)
    destruct (k_pend k) as [pw|] eqn:Hp; [discriminate|].
    destruct (k_prog k) as [|op rest]; [discriminate|].
    destruct (producer_op op) eqn:Hop; [|discriminate].
    destruct (cstep (k_s k) op) as [[s' r0] wk] eqn:Hc. inversion Hs; subst. clear Hs.
    intros w H1 H2 H3. cbn [k_cons k_woken k_pend k_s] in *.
    assert (Hid : idle_registered (k_s k) w) by (apply HJ; [exact H1|exact H2|rewrite Hp; discriminate]).
    destruct (producer_takes_waker _ _ _ _ _ _ Hop Hid Hc) as [Ht|[_ Hi]]; [congruence|exact Hi].
  - (* P_wake *)
    destruct (k_pend k) as [w0|] eqn:Hp; [|discriminate]. inversion Hs; subst. clear Hs.
    intros w H1 H2 H3. cbn [k_cons k_woken k_pend k_s] in *. rewrite mem_w_cons in H2.
    apply orb_false_elim in H2. destruct H2 as [Hne H2]. apply N.eqb_neq in Hne.
    apply HJ; [exact H1|exact H2|rewrite Hp; congruence].
  - (* C_poll *)
    assert (Hnd : k_cons k <> CDone) by (intros E; rewrite E in Hs; discriminate).
    assert (Hs' : (let '(s', r, _) := cstep (k_s k) (OPoll w') in
                   Some ({| k_s := s'; k_pend := k_pend k; k_prog := k_prog k;
                            k_cons := match r with RPoll None => CParked w' | RPoll (Some (Some (Some _))) => CRun | _ => CDone end;
                            k_woken := remove_w w' (k_woken k) |}, r)) = Some (k', r))
      by (destruct (k_cons k); [exact Hs|exact Hs|congruence]).
    clear Hs. destruct (cstep (k_s k) (OPoll w')) as [[s' r0] wk] eqn:Hcs. injection Hs' as Hk Hr. subst k'.
    intros w1 H1 H2 H3. cbn [k_cons k_woken k_pend k_s] in *.
    destruct r0 as [| | |[[[d|]|]|]|]; try discriminate. inversion H1; subst.
    eapply pending_poll_registers; exact Hcs.
  - (* C_drop *)
    destruct (k_cons k); try discriminate;
      destruct (cstep (k_s k) ODropReader) as [[s' r0] wk]; inversion Hs; subst; intros w1 H1; cbn in H1; discriminate.
Qed.

(* once the writer is no longer Raw no operation reopens the shared state *)
Lemma cstep_K s op s' r wk : (c_w s <> WRaw -> forall q rb, c_st s <> SOk q rb false) ->
  cstep s op = (s', r, wk) -> c_w s' <> WRaw -> forall q rb, c_st s' <> SOk q rb false.
Proof.
  intros HK HH. destruct s as [st wkr buf cap wr rd]. cbn [c_w c_st] in HK.
  destruct op as [d|d| | | |w0|]; cbn [cstep] in HH.
  - unfold bw_write in HH. cbn [c_w] in HH. destruct wr.
    + unfold writer_write in HH. cbn [c_cap c_buf c_st c_waker c_w c_reader] in HH.
      destruct (cap - lenN buf <=? lenN d).
      * unfold flush_helper in HH. cbn [c_buf c_st c_waker c_cap c_w c_reader] in HH.
        destruct (buf ++ firstn (N.to_nat (cap - lenN buf)) d) as [|b0 t0]; [inversion HH; subst; cbn; congruence|].
        destruct st as [q0 rb0 wd0| |]; [inversion HH; subst; cbn; congruence| |];
          unfold drop_writer_inner, flush_helper, set_w in HH; cbn in HH; inversion HH; subst; cbn; intros _ q rb E; discriminate.
      * inversion HH; subst. cbn. congruence.
    + inversion HH; subst. cbn. intros _. apply HK. discriminate.
    + inversion HH; subst. cbn. intros _. apply HK. discriminate.
  - (* write_all: the loop only ever uses bw_write; treat by the same argument on each iteration *)
    revert HH. generalize (@nil N) as woken. generalize (S (length d)) as fuel. intros fuel.
    assert (G : forall fuel s0 d0 woken s1 ok wk1,
              (c_w s0 <> WRaw -> forall q rb, c_st s0 <> SOk q rb false) ->
              write_all_loop fuel bw_write s0 d0 woken = (s1, ok, wk1) ->
              c_w s1 <> WRaw -> forall q rb, c_st s1 <> SOk q rb false).
    { clear. induction fuel as [|f IH]; intros s0 d0 woken s1 ok wk1 HK0 HH.
      - destruct d0; cbn in HH; inversion HH; subst; exact HK0.
      - destruct d0 as [|b t]; [cbn in HH; inversion HH; subst; exact HK0|]. cbn [write_all_loop] in HH.
        destruct (bw_write s0 (b :: t)) as [[s2 r2] wk2] eqn:Eb.
        assert (HK2 : c_w s2 <> WRaw -> forall q rb, c_st s2 <> SOk q rb false).
        { destruct s0 as [st wkr buf cap wr rd]. cbn [c_w c_st] in HK0. unfold bw_write in Eb. cbn [c_w] in Eb. destruct wr.
          - unfold writer_write in Eb. cbn [c_cap c_buf c_st c_waker c_w c_reader] in Eb.
            destruct (cap - lenN buf <=? lenN (b :: t)).
            + unfold flush_helper in Eb. cbn [c_buf c_st c_waker c_cap c_w c_reader] in Eb.
              destruct (buf ++ firstn (N.to_nat (cap - lenN buf)) (b :: t)) as [|b0 t0]; [inversion Eb; subst; cbn; congruence|].
              destruct st as [q0 rb0 wd0| |]; [inversion Eb; subst; cbn; congruence| |];
                unfold drop_writer_inner, flush_helper, set_w in Eb; cbn in Eb; inversion Eb; subst; cbn; intros _ q rb E; discriminate.
            + inversion Eb; subst. cbn. congruence.
          - inversion Eb; subst. cbn. intros _. apply HK0. discriminate.
          - inversion Eb; subst. cbn. intros _. apply HK0. discriminate. }
        destruct r2 as [[|p]|]; [inversion HH; subst; exact HK2| |inversion HH; subst; exact HK2].
        eapply IH; [exact HK2|exact HH]. }
    intros woken HH. destruct (write_all_loop fuel bw_write _ d woken) as [[s1 ok] wk1] eqn:E. inversion HH; subst.
    eapply G; [|exact E]. cbn [c_w c_st]. exact HK.
  - cbn [c_w] in HH. destruct wr.
    + unfold flush_helper in HH. cbn [c_buf c_st c_waker c_cap c_w c_reader] in HH.
      destruct buf as [|b0 t0]; [inversion HH; subst; cbn; congruence|].
      destruct st as [q0 rb0 wd0| |]; [inversion HH; subst; cbn; congruence| |];
        unfold drop_writer_inner, flush_helper, set_w in HH; cbn in HH; inversion HH; subst; cbn; intros _ q rb E; discriminate.
    + inversion HH; subst. cbn. intros _. apply HK. discriminate.
    + inversion HH; subst. cbn. intros _. apply HK. discriminate.
  - cbn [c_w c_st] in HH. destruct wr.
    + destruct st as [q0 rb0 wd0| |]; unfold drop_writer_inner, flush_helper, set_w in HH; cbn in HH;
        destruct buf; inversion HH; subst; cbn; intros _ q rb E; discriminate.
    + inversion HH; subst. cbn. intros _. apply HK. discriminate.
    + inversion HH; subst. cbn. intros _. apply HK. discriminate.
  - cbn [c_w] in HH. destruct wr.
    + destruct st as [q0 rb0 wd0| |]; unfold drop_writer_inner, flush_helper, set_w in HH; cbn in HH;
        destruct buf; inversion HH; subst; cbn; intros _ q rb E; discriminate.
    + unfold set_w in HH. inversion HH; subst. cbn. intros _. apply HK. discriminate.
    + unfold set_w in HH. inversion HH; subst. cbn. intros _. apply HK. discriminate.
  - cbn [c_reader c_st] in HH. destruct rd; cbn [negb] in HH; [|inversion HH; subst; exact HK].
    destruct st as [[|c ready] rb [|]| |]; inversion HH; subst; cbn [c_w c_st]; intros Hw q rb0 E; try discriminate;
      try (eapply (HK Hw); reflexivity).
    + destruct ready; discriminate.
  - cbn [c_reader] in HH. destruct rd; cbn [negb] in HH; inversion HH; subst; cbn; [intros _ q rb E; discriminate|exact HK].
Qed.

Theorem step_K k c k' r : K k -> kstep k c = Some (k', r) -> K k'.
Proof.
  intros HK Hs. unfold K in *. destruct c as [| |w'|]; cbn [kstep] in Hs.
  - destruct (k_pend k); [discriminate|]. destruct (k_prog k) as [|op rest]; [discriminate|].
    destruct (producer_op op); [|discriminate].
    destruct (cstep (k_s k) op) as [[s' r0] wk] eqn:Hc. inversion Hs; subst. cbn [k_s]. eapply cstep_K; eauto.
  - destruct (k_pend k); [|discriminate]. inversion Hs; subst. exact HK.
  - destruct (k_cons k); try discriminate;
      destruct (cstep (k_s k) (OPoll w')) as [[s' r0] wk] eqn:Hc; inversion Hs; subst; cbn [k_s]; eapply cstep_K; eauto.
  - destruct (k_cons k); try discriminate;
      destruct (cstep (k_s k) ODropReader) as [[s' r0] wk] eqn:Hc; inversion Hs; subst; cbn [k_s]; eapply cstep_K; eauto.
Qed.

(* C10: for every chunk size, producer program and schedule -- of any length -- both invariants hold *)
Theorem no_lost_wakeup cap prog sched k : krun (kinit cap prog) sched = Some k -> J k /\ K k.
Proof.
  assert (G : forall sc k0 k1, J k0 /\ K k0 -> krun k0 sc = Some k1 -> J k1 /\ K k1).
  { induction sc as [|c t IH]; cbn [krun]; intros k0 k1 [HJ HK] Hr.
    - inversion Hr; subst; auto.
    - destruct (kstep k0 c) as [[k' r]|] eqn:Hs; [|discriminate].
      eapply IH; [|exact Hr]. split; [eapply step_J|eapply step_K]; eauto. }
  apply G. split.
  - intros w H; cbn in H; discriminate.
  - intros H; cbn in H; congruence.
Qed.

(* The consumer never sleeps forever while the termination is pending: once the writer is gone
   (dropped, aborted or dead) and the producer's wake-up, if any, has been delivered, a parked
   consumer has been woken. *)
Corollary never_sleeps_after_writer_gone cap prog sched k w :
  krun (kinit cap prog) sched = Some k -> c_w (k_s k) <> WRaw -> k_pend k = None ->
  k_cons k = CParked w -> mem_w w (k_woken k) = true.
Proof.
  intros Hr Hg Hp Hc. destruct (no_lost_wakeup _ _ _ _ Hr) as [HJ HK].
  destruct (mem_w w (k_woken k)) eqn:Hw; [reflexivity|].
  destruct (HJ w Hc Hw) as [[rb Hs] _]; [rewrite Hp; discriminate|].
  exfalso. eapply (HK Hg). exact Hs.
Qed.

(* ... nor while chunks are queued: a parked, unwoken consumer with no wake-up in flight faces an empty queue *)
Corollary never_sleeps_on_data cap prog sched k w :
  krun (kinit cap prog) sched = Some k -> k_pend k = None -> k_cons k = CParked w -> mem_w w (k_woken k) = false ->
  exists rb, c_st (k_s k) = SOk [] rb false.
Proof.
  intros Hr Hp Hc Hw. destruct (no_lost_wakeup _ _ _ _ Hr) as [HJ _].
  destruct (HJ w Hc Hw) as [H _]; [rewrite Hp; discriminate|exact H].
Qed.

(* every publishing critical section that finds the consumer parked owes it a wake-up, and the
   producer can do nothing else before delivering it *)
Theorem publish_then_wake k k' r : kstep k P_cs = Some (k', r) ->
  k_pend k' <> None -> kstep k' P_cs = None /\ exists k'', kstep k' P_wake = Some (k'', RUnit) /\ k_pend k'' = None.
Proof.
  intros _ Hp. split.
  - cbn [kstep]. destruct (k_pend k'); [reflexivity|congruence].
  - cbn [kstep]. destruct (k_pend k') as [w|]; [|congruence]. eexists. split; reflexivity.
Qed.
