(* Model/File.v: exact bytes, truncation, the etag. *)
From HS Require Import Lib.Base Lib.Bytes Lib.Hex Model.File.
Ltac Zify.zify_post_hook ::= Z.div_mod_to_equations.

Section WithFile.
Variable content : N -> N.
Variable flen : nat -> N.
Variable short : nat -> N.
Notation poll := (read_poll content flen short).
Notation run := (read_run content flen short).
Notation bytes_from := (bytes_from content).

Definition rdata (r : rres) : bytes := match r with RData d => d | _ => [] end.
Definition all_rdata (rs : list rres) : bytes := flat_map rdata rs.
Definition chunk_ok (r : rres) : Prop := match r with RData d => d <> [] /\ lenN d <= CHUNK_SIZE | _ => True end.

Lemma bytes_from_app a n m : bytes_from a (n + m) = bytes_from a n ++ bytes_from (a + N.of_nat n) m.
Proof.
  revert a; induction n as [|n IH]; intros a; cbn [bytes_from Nat.add app].
  - now rewrite N.add_0_r.
  - rewrite IH. replace (a + 1 + N.of_nat n) with (a + N.of_nat (S n)) by lia. reflexivity.
Qed.
Lemma bytes_from_length a n : length (bytes_from a n) = n.
Proof. revert a; induction n as [|n IH]; intros a; cbn [bytes_from length]; [reflexivity|now rewrite IH]. Qed.

(* one poll while the file still has the range: a non-empty chunk of at most 64 KiB, the next
   bytes of the range, and the cursor stays inside the range *)
Lemma poll_data s : r_start s < r_end s -> r_end s <= flen (r_reads s) ->
  exists n, 1 <= n /\ n <= CHUNK_SIZE /\ r_start s + n <= r_end s /\
    poll s = ({| r_start := r_start s + n; r_end := r_end s; r_reads := S (r_reads s) |},
              RData (bytes_from (r_start s) (N.to_nat n))).
Proof.
  intros Hlt Hlen. unfold read_poll. destruct (N.eqb_spec (r_start s) (r_end s)) as [E|_]; [lia|].
  destruct (N.eqb_spec (flen (r_reads s) - r_start s) 0) as [E|_]; [lia|].
  eexists. split; [|split; [|split; [|reflexivity]]]; unfold CHUNK_SIZE in *; lia.
Qed.

(* C18: as long as the file is not truncated below the range end, the stream yields exactly the
   range's bytes, in non-empty chunks of at most 64 KiB, whatever short reads the kernel makes,
   and then ends -- within (range length + 1) polls. *)
Theorem read_exact : forall m s, (N.to_nat (r_end s - r_start s) <= m)%nat -> r_start s <= r_end s ->
  (forall k, r_end s <= flen k) ->
  let '(rs, sf) := run (S m) s in
  In REnd rs /\ ~ In RErrEof rs /\ Forall chunk_ok rs /\
  all_rdata rs = bytes_from (r_start s) (N.to_nat (r_end s - r_start s)).
Proof.
  induction m as [|m IH]; intros s Hm Hle Hf.
  - assert (E : r_start s = r_end s) by lia. cbn [read_run]. unfold read_poll. rewrite E, N.eqb_refl.
    rewrite N.sub_diag. cbn [read_run N.to_nat bytes_from].
    split; [now left|]. split; [intros [H|[]]; discriminate|]. split; [constructor; [exact I|constructor]|reflexivity].
  - destruct (N.eq_dec (r_start s) (r_end s)) as [E|Hne].
    + (* already at the end: End now and ever after *)
      change (run (S (S m)) s) with (let (s1, r) := poll s in let (rs, sf) := run (S m) s1 in (r :: rs, sf)).
      unfold read_poll at 1. rewrite E, N.eqb_refl.
      specialize (IH s). destruct (run (S m) s) as [rs sf]. destruct IH as (H1 & H2 & H3 & H4); [lia|lia|exact Hf|].
      rewrite E, N.sub_diag in *. cbn [N.to_nat bytes_from] in *.
      split; [now left|]. split; [intros [H|H]; [discriminate|contradiction]|]. split; [constructor; [exact I|exact H3]|].
      cbn [all_rdata flat_map rdata app]. exact H4.
    + destruct (poll_data s) as (n & Hn1 & Hn2 & Hn3 & Ep); [lia|apply Hf|].
      change (run (S (S m)) s) with (let (s1, r) := poll s in let (rs, sf) := run (S m) s1 in (r :: rs, sf)).
      rewrite Ep.
      specialize (IH {| r_start := r_start s + n; r_end := r_end s; r_reads := S (r_reads s) |}).
      cbn [r_start r_end r_reads] in IH.
      destruct (run (S m) _) as [rs sf]. destruct IH as (H1 & H2 & H3 & H4); [lia|lia|exact Hf|].
      split; [now right|]. split; [intros [H|H]; [discriminate|contradiction]|]. split.
      * constructor; [|exact H3]. cbn [chunk_ok]. split.
        -- intros E. apply (f_equal (@length N)) in E. rewrite bytes_from_length in E. cbn in E. lia.
        -- unfold lenN. rewrite bytes_from_length. lia.
      * cbn [all_rdata flat_map rdata]. fold (all_rdata rs). rewrite H4.
        replace (N.to_nat (r_end s - r_start s)) with (N.to_nat n + N.to_nat (r_end s - (r_start s + n)))%nat by lia.
        rewrite bytes_from_app. do 2 f_equal. lia.
Qed.

(* ---- truncation ---- *)
Definition truncated_from (k0 : nat) (e : N) : Prop := forall k, (k0 <= k)%nat -> flen k < e.

Lemma poll_truncated s : r_start s < r_end s -> flen (r_reads s) < r_end s ->
  let '(s1, r) := poll s in
  r_end s1 = r_end s /\ r_reads s1 = S (r_reads s) /\ r <> REnd /\
  ((r = RErrEof /\ r_start s1 = r_start s) \/ (exists d, r = RData d /\ r_start s < r_start s1 /\ r_start s1 < r_end s)).
Proof.
  intros Hlt Hf. unfold read_poll. destruct (N.eqb_spec (r_start s) (r_end s)) as [E|_]; [lia|].
  destruct (N.eqb_spec (flen (r_reads s) - r_start s) 0) as [E|Hne]; cbn [r_start r_end r_reads].
  - repeat split; try discriminate. left. auto.
  - repeat split; try discriminate. right. eexists. split; [reflexivity|]. unfold CHUNK_SIZE. lia.
Qed.

(* C18: if the file has been truncated below the range end, the stream never reports a clean end
   with bytes outstanding, and fails within (range length) polls: it neither ends short nor loops. *)
Theorem read_truncated : forall m s, (N.to_nat (r_end s - r_start s) <= m)%nat -> r_start s < r_end s ->
  truncated_from (r_reads s) (r_end s) ->
  let '(rs, sf) := run m s in In RErrEof rs /\ ~ In REnd rs.
Proof.
  induction m as [|m IH]; intros s Hm Hlt Ht; [lia|].
  cbn [read_run]. pose proof (poll_truncated s Hlt (Ht _ (le_n _))) as P.
  destruct (poll s) as [s1 r]. destruct P as (He & Hr & Hne & Hcase).
  assert (Ht1 : truncated_from (r_reads s1) (r_end s1)).
  { rewrite He, Hr. intros k Hk. apply Ht. lia. }
  destruct Hcase as [[-> Hs]|(d & -> & Hs1 & Hs2)].
  - (* the error: the rest never ends either *)
    assert (G : forall j s', r_start s' < r_end s' -> truncated_from (r_reads s') (r_end s') -> ~ In REnd (fst (run j s'))).
    { clear. induction j as [|j IHj]; intros s' Hlt' Ht'; cbn [read_run]; [intros []|].
      pose proof (poll_truncated s' Hlt' (Ht' _ (le_n _))) as P. destruct (read_poll content flen short s') as [s2 r2].
      destruct P as (He' & Hr' & Hne' & Hcase').
      assert (Hlt2 : r_start s2 < r_end s2) by (destruct Hcase' as [[_ E]|(d & _ & H1 & H2)]; rewrite He'; lia).
      assert (Ht2 : truncated_from (r_reads s2) (r_end s2)) by (rewrite He', Hr'; intros k Hk; apply Ht'; lia).
      specialize (IHj s2 Hlt2 Ht2). destruct (read_run content flen short j s2) as [rs sf]. cbn [fst] in *.
      intros [H|H]; [congruence|contradiction]. }
    specialize (G m s1). destruct (run m s1) as [rs sf]. cbn [fst] in G.
    split; [now left|]. intros [H|H]; [discriminate|]. apply G; [rewrite He; lia|exact Ht1|exact H].
  - specialize (IH s1). destruct (run m s1) as [rs sf].
    destruct IH as [H1 H2]; [rewrite He; lia|rewrite He; lia|exact Ht1|].
    split; [now right|]. intros [H|H]; [discriminate|contradiction].
Qed.
End WithFile.

(* ---------------------------------------------------------------- the etag *)
Lemma app_sep_inj (c : N) (a a' r r' : bytes) : ~ In c a -> ~ In c a' -> a ++ c :: r = a' ++ c :: r' -> a = a' /\ r = r'.
Proof.
  revert a'; induction a as [|x a IH]; intros a' Ha Ha' H.
  - destruct a' as [|y a']; cbn in H.
    + inversion H. auto.
    + inversion H; subst. exfalso. apply Ha'. now left.
  - destruct a' as [|y a']; cbn in H.
    + inversion H; subst. exfalso. apply Ha. now left.
    + inversion H; subst. destruct (IH a') as [E1 E2]; try assumption.
      * intros Hin. apply Ha. now right.
      * intros Hin. apply Ha'. now right.
      * subst. auto.
Qed.

(* C18: the tag determines inode, length and modification time, and vice versa *)
Lemma sign_hex_no58 m n : ~ In 58 (mtime_sign m ++ hex n).
Proof.
  rewrite in_app_iff. intros [H|H]; [|revert H; apply hex_no; reflexivity].
  unfold mtime_sign in H. destruct (f_mtime_neg m); [destruct H as [H|[]]; discriminate H|contradiction].
Qed.
Lemma sign_hex_inj m m' n n' : mtime_sign m ++ hex n = mtime_sign m' ++ hex n' -> f_mtime_neg m = f_mtime_neg m' /\ n = n'.
Proof.
  unfold mtime_sign. destruct (f_mtime_neg m), (f_mtime_neg m'); cbn [app]; intros H.
  - inversion H as [H1]. apply hex_inj in H1. auto.
  - exfalso. apply (hex_no 45 n'); [reflexivity|]. rewrite <- H. now left.
  - exfalso. apply (hex_no 45 n); [reflexivity|]. rewrite H. now left.
  - apply hex_inj in H. auto.
Qed.
Theorem etag_injective m m' : crf_etag m = crf_etag m' <->
  (f_ino m = f_ino m' /\ f_len m = f_len m' /\ f_mtime_ns m = f_mtime_ns m' /\ f_mtime_neg m = f_mtime_neg m').
Proof.
  split.
  - unfold crf_etag. cbn [app]. intros H. inversion H as [H1]. clear H.
    apply app_sep_inj in H1; try (apply hex_no; reflexivity). destruct H1 as [E1 H2].
    apply app_sep_inj in H2; try (apply hex_no; reflexivity). destruct H2 as [E2 H3].
    apply app_sep_inj in H3; try apply sign_hex_no58. destruct H3 as [E3 H4].
    apply app_inj_tail in H4. destruct H4 as [E4 _].
    apply hex_inj in E1, E2, E4. apply sign_hex_inj in E3. destruct E3 as [En E3]. repeat split; try assumption.
    pose proof (N.div_mod' (f_mtime_ns m) NSEC). pose proof (N.div_mod' (f_mtime_ns m') NSEC). lia.
  - intros (E1 & E2 & E3 & E4). unfold crf_etag, mtime_sign. now rewrite E1, E2, E3, E4.
Qed.

(* ... and is a syntactically valid strong entity-tag: DQUOTE, characters without DQUOTE, DQUOTE *)
Theorem etag_is_strong_tag m : exists opaque, crf_etag m = [34] ++ opaque ++ [34] /\ ~ In 34 opaque.
Proof.
  exists (hex (f_ino m) ++ [58] ++ hex (f_len m) ++ [58] ++ (mtime_sign m ++ hex (f_mtime_ns m / NSEC)) ++ [58] ++ hex (f_mtime_ns m mod NSEC)).
  split.
  - unfold crf_etag. rewrite <- !app_assoc. reflexivity.
  - assert (Hh : forall n, ~ In 34 (hex n)) by (intros n; apply hex_no; reflexivity).
    assert (Hs : ~ In 34 (mtime_sign m)) by (unfold mtime_sign; destruct (f_mtime_neg m); cbn; [intros [H|[]]; discriminate H|intros []]).
    rewrite !in_app_iff. cbn [In]. intros H.
    destruct H as [H|[[H|[]]|[H|[[H|[]]|[[H|H]|[[H|[]]|H]]]]]]; try discriminate H; try (eapply Hh; exact H). exact (Hs H).
Qed.

(* construction refuses anything but a regular file, and captures length and mtime as they were *)
Theorem crf_new_spec m : (f_is_file m = false -> crf_new m = None) /\
  (f_is_file m = true -> exists e, crf_new m = Some e /\ crf_len e = f_len m /\ crf_last_modified e = f_mtime_ns m /\
                         crf_last_modified_neg e = f_mtime_neg m).
Proof. unfold crf_new. destruct (f_is_file m); split; intros H; try discriminate; eauto. Qed.
