(* Model/Chunker.v: byte accounting (C08), abort and disconnect (C11), hints and flags (C12). *)
From HS Require Import Lib.Base Lib.Bytes Model.Chunker.
Ltac Zify.zify_post_hook ::= Z.div_mod_to_equations.

Definition pending (s : cstate) : bytes := match c_st s with SOk ready _ _ => concat ready | _ => [] end.
Definition queue (s : cstate) : list bytes := match c_st s with SOk ready _ _ => ready | _ => [] end.

(* shape invariant: queued chunks are non-empty and at most cap long, ready_bytes is their total,
   a live writer holds fewer than cap bytes, a gone / dead writer holds none *)
Definition CInv (s : cstate) : Prop :=
  0 < c_cap s /\
  (match c_st s with
   | SOk ready rb _ => rb = lenN (concat ready) /\ Forall (fun c => c <> [] /\ lenN c <= c_cap s) ready
   | _ => True
   end) /\
  (c_w s = WRaw -> lenN (c_buf s) < c_cap s) /\
  (c_w s <> WRaw -> c_buf s = []).

Lemma lenN_firstn {A} (l : list A) n : n <= lenN l -> lenN (firstn (N.to_nat n) l) = n.
Proof. intros H. unfold lenN in *. rewrite firstn_length_le by lia. lia. Qed.
Lemma concat_snoc (l : list bytes) x : concat (l ++ [x]) = concat l ++ x.
Proof. rewrite concat_app. cbn. now rewrite app_nil_r. Qed.

(* ---- flush_helper ---- *)
Lemma flush_helper_ok_buf s d s' wk : flush_helper s d = (s', true, wk) -> c_buf s' = [].
Proof.
  unfold flush_helper. destruct (c_buf s) as [|b t] eqn:Eb.
  - destruct d.
    + destruct (c_st s); intros HH; inversion HH; subst; cbn; auto.
    + intros HH; inversion HH; subst. exact Eb.
  - destruct d; destruct (c_st s); intros HH; inversion HH; subst; reflexivity.
Qed.

Lemma flush_helper_live s ready rb wd d : c_st s = SOk ready rb wd ->
  flush_helper s d =
    match c_buf s, d with
    | [], false => (s, true, None)
    | _, _ => ({| c_st := SOk (match c_buf s with [] => ready | b => ready ++ [b] end)
                               (match c_buf s with [] => rb | b => rb + lenN b end) d;
                  c_waker := None; c_buf := []; c_cap := c_cap s; c_w := c_w s; c_reader := c_reader s |}, true, c_waker s)
    end.
Proof.
  intros Hs. unfold flush_helper. rewrite Hs. destruct (c_buf s) as [|b t]; destruct d; reflexivity.
Qed.

(* ---- one write on a live body: at least one byte, at most the buffer; accounting ---- *)
Lemma writer_write_live s ready rb d : CInv s -> c_w s = WRaw -> c_st s = SOk ready rb false ->
  exists s' n wk, writer_write s d = (s', Some n, wk) /\ n <= lenN d /\ (d <> [] -> 1 <= n) /\
    CInv s' /\ c_w s' = WRaw /\ c_reader s' = c_reader s /\ c_cap s' = c_cap s /\
    (exists ready' rb', c_st s' = SOk ready' rb' false) /\
    pending s' ++ c_buf s' = pending s ++ c_buf s ++ firstn (N.to_nat n) d.
Proof.
  intros (Hcap & Hq & Hb & Hnb) Hw Hs. specialize (Hb Hw). rewrite Hs in Hq. destruct Hq as [Hrb HF].
  unfold writer_write.
  destruct (N.leb_spec (c_cap s - lenN (c_buf s)) (lenN d)) as [Hfull|Hpart].
  - (* the chunk becomes full and is flushed *)
    remember (c_cap s - lenN (c_buf s)) as n eqn:En.
    assert (Hn : lenN (firstn (N.to_nat n) d) = n) by (apply lenN_firstn; lia).
    remember (c_buf s ++ firstn (N.to_nat n) d) as nb eqn:Enb.
    assert (Hlen : lenN nb = c_cap s) by (subst nb; rewrite lenN_app, Hn; lia).
    assert (Hne : nb <> []) by (intros E; rewrite E, lenN_nil in Hlen; lia).
    rewrite (flush_helper_live _ ready rb false false) by exact Hs. cbn [c_buf c_waker c_cap c_w c_reader].
    destruct nb as [|b0 t0] eqn:Eb1; [congruence|]. rewrite <- Eb1 in *. cbv iota.
    eexists _, n, _. split; [reflexivity|]. split; [lia|]. split; [intros _; lia|].
    split; [|split; [exact Hw|split; [reflexivity|split; [reflexivity|split; [cbn [c_st]; do 2 eexists; reflexivity|]]]]].
    + repeat split; cbn [c_cap c_st c_w c_buf]; try assumption.
      * rewrite concat_snoc, lenN_app. lia.
      * apply Forall_app. split; [exact HF|]. constructor; [|constructor]. split; [exact Hne|lia].
      * intros _. rewrite lenN_nil. lia.
    + unfold pending. cbn [c_st c_buf]. rewrite Hs, concat_snoc, app_nil_r. rewrite Enb. now rewrite app_assoc.
  - (* the bytes fit: nothing is published *)
    eexists _, (lenN d), None. split; [reflexivity|]. split; [lia|]. split.
    { intros Hd. destruct d; [congruence|]. rewrite lenN_cons. lia. }
    assert (Hfn : firstn (N.to_nat (lenN d)) d = d) by (unfold lenN; rewrite Nat2N.id; apply firstn_all).
    split; [|split; [exact Hw|split; [reflexivity|split; [reflexivity|split; [cbn [c_st]; rewrite ?Hs; do 2 eexists; reflexivity|]]]]].
    + repeat split; cbn [c_cap c_st c_w c_buf]; try assumption.
      * rewrite Hs. split; assumption.
      * intros _. rewrite Hfn, lenN_app. lia.
      * intros Hne. congruence.
    + unfold pending. cbn [c_st c_buf]. reflexivity.
Qed.

(* ---------------------------------------------------------------- fault-free histories (C08) *)
Definition accepted_of (o : cop) (r : copres) : bytes :=
  match o, r with
  | OWrite d, RWrite (Some n) => firstn (N.to_nat n) d
  | OWriteAll d, RIo true => d
  | _, _ => []
  end.
Definition delivered_of (r : copres) : bytes :=
  match r with RPoll (Some (Some (Some d))) => d | _ => [] end.
Definition benign (o : cop) : Prop := match o with OAbort | ODropReader => False | _ => True end.

Definition Live (s : cstate) : Prop := c_w s = WRaw /\ exists ready rb, c_st s = SOk ready rb false.
Definition Finished (s : cstate) : Prop :=
  c_w s = WGone /\ (c_st s = SFused \/ exists ready rb, c_st s = SOk ready rb true).
Definition Good (s : cstate) : Prop := CInv s /\ c_reader s = true /\ (Live s \/ Finished s).

Lemma bw_write_live s d : CInv s -> Live s ->
  exists s' n wk, bw_write s d = (s', Some n, wk) /\ n <= lenN d /\ (d <> [] -> 1 <= n) /\
    CInv s' /\ Live s' /\ c_reader s' = c_reader s /\ c_cap s' = c_cap s /\
    pending s' ++ c_buf s' = pending s ++ c_buf s ++ firstn (N.to_nat n) d.
Proof.
  intros HI (Hw & ready & rb & Hs). unfold bw_write. rewrite Hw.
  destruct (writer_write_live s ready rb d HI Hw Hs) as (s' & n & wk & E & Hn & Hp & HI' & Hw' & Hr & Hc & Hst & Hacc).
  rewrite E. eexists _, _, _. split; [reflexivity|].
  split; [exact Hn|]. split; [exact Hp|]. split; [exact HI'|]. split; [split; [exact Hw'|exact Hst]|].
  split; [exact Hr|]. split; [exact Hc|exact Hacc].
Qed.

Lemma write_all_live fuel : forall s d woken, CInv s -> Live s -> (length d <= fuel)%nat ->
  exists s' wk, write_all_loop fuel bw_write s d woken = (s', true, wk) /\
    CInv s' /\ Live s' /\ c_reader s' = c_reader s /\ c_cap s' = c_cap s /\
    pending s' ++ c_buf s' = pending s ++ c_buf s ++ d.
Proof.
  induction fuel as [|f IH]; intros s d woken HI HL Hlen.
  - destruct d; [|cbn in Hlen; lia]. cbn. eexists _, _. split; [reflexivity|]. rewrite !app_nil_r. auto.
  - destruct d as [|b t].
    + cbn. eexists _, _. split; [reflexivity|]. rewrite !app_nil_r. auto.
    + cbn [write_all_loop].
      destruct (bw_write_live s (b :: t) HI HL) as (s1 & n & wk & E & Hn & Hp & HI1 & HL1 & Hr1 & Hc1 & Hacc1).
      rewrite E. assert (Hn1 : 1 <= n) by (apply Hp; discriminate).
      destruct n as [|p]; [lia|].
      destruct (IH s1 (skipn (N.to_nat (N.pos p)) (b :: t)) (woken ++ wk) HI1 HL1) as (s2 & wk2 & E2 & HI2 & HL2 & Hr2 & Hc2 & Hacc2).
      { rewrite skipn_length. unfold lenN in Hn. cbn [length] in *. lia. }
      rewrite E2. eexists _, _. split; [reflexivity|].
      split; [exact HI2|]. split; [exact HL2|]. split; [congruence|]. split; [congruence|].
      rewrite Hacc2, app_assoc, Hacc1. rewrite <- !app_assoc. now rewrite firstn_skipn.
Qed.

Lemma cinv_set_w s w : CInv s -> (w <> WRaw -> c_buf s = []) -> CInv (set_w s w).
Proof.
  intros (H1 & H2 & H3 & H4) Hb. unfold CInv, set_w. cbn [c_cap c_st c_w c_buf].
  repeat split; try assumption.
  - intros ->. destruct (c_w s) eqn:E; auto. all: rewrite H4 by congruence; rewrite lenN_nil; exact H1.
Qed.

(* one benign operation from a good state: the state stays good and the bytes balance *)
Theorem good_step s o : Good s -> benign o ->
  let '(s', r, wk) := cstep s o in
  Good s' /\ c_cap s' = c_cap s /\
  pending s ++ c_buf s ++ accepted_of o r = delivered_of r ++ pending s' ++ c_buf s'.
Proof.
  intros (HI & Hrd & Hcls) Hben. destruct o as [d|d| | | |w|]; try contradiction; cbn [cstep].
  - (* write *)
    destruct Hcls as [HL|(Hw & Hst)].
    + destruct (bw_write_live s d HI HL) as (s' & n & wk & E & Hn & Hp & HI' & HL' & Hr' & Hc' & Hacc).
      rewrite E. split; [split; [exact HI'|split; [congruence|left; exact HL']]|]. split; [exact Hc'|].
      cbn [accepted_of delivered_of app]. now rewrite Hacc.
    + unfold bw_write. rewrite Hw. split; [split; [exact HI|split; [exact Hrd|right; split; assumption]]|].
      split; [reflexivity|]. cbn [accepted_of delivered_of app]. now rewrite !app_nil_r.
  - (* write_all *)
    destruct Hcls as [HL|(Hw & Hst)].
    + destruct (write_all_live (S (length d)) s d [] HI HL) as (s' & wk & E & HI' & HL' & Hr' & Hc' & Hacc); [lia|].
      rewrite E. split; [split; [exact HI'|split; [congruence|left; exact HL']]|]. split; [exact Hc'|].
      cbn [accepted_of delivered_of app]. now rewrite Hacc.
    + assert (E : exists ok, write_all_loop (S (length d)) bw_write s d [] = (s, ok, []) /\ (ok = true -> d = [])).
      { destruct d as [|b t]; [exists true; split; reflexivity|]. exists false. cbn [write_all_loop]. unfold bw_write. rewrite Hw.
        split; [reflexivity|discriminate]. }
      destruct E as (ok & E & Hok). rewrite E.
      split; [split; [exact HI|split; [exact Hrd|right; split; assumption]]|]. split; [reflexivity|].
      destruct ok; cbn [accepted_of delivered_of app]; [rewrite (Hok eq_refl)|]; now rewrite !app_nil_r.
  - (* flush *)
    destruct Hcls as [(Hw & ready & rb & Hs)|(Hw & Hst)].
    + rewrite Hw. rewrite (flush_helper_live s ready rb false false Hs).
      destruct HI as (Hcap & Hq & Hb & Hnb). rewrite Hs in Hq. destruct Hq as [Hrb HF]. specialize (Hb Hw).
      destruct (c_buf s) as [|b0 t0] eqn:Eb.
      * split; [split; [repeat split; try assumption; try (rewrite Hs; split; assumption); rewrite Eb; auto|
                        split; [exact Hrd|left; split; [exact Hw|eauto]]]|].
        split; [reflexivity|]. cbn [accepted_of delivered_of app]. now rewrite Eb, !app_nil_r.
      * rewrite <- Eb in *. assert (Hne : c_buf s <> []) by (rewrite Eb; discriminate).
        split; [split; [|split; [exact Hrd|left; split; [exact Hw|cbn [c_st]; eauto]]]|].
        -- repeat split; cbn [c_cap c_st c_w c_buf]; try assumption.
           ++ rewrite concat_snoc, lenN_app. lia.
           ++ apply Forall_app. split; [exact HF|]. constructor; [|constructor]. split; [exact Hne|lia].
           ++ intros _. rewrite lenN_nil. exact Hcap.
        -- split; [reflexivity|]. unfold pending. cbn [c_st c_buf accepted_of delivered_of app].
           rewrite Hs, concat_snoc, !app_nil_r. reflexivity.
    + destruct (c_w s) eqn:Ew; try discriminate.
      split; [split; [exact HI|split; [exact Hrd|right; split; assumption]]|]. split; [reflexivity|].
      cbn [accepted_of delivered_of app]. now rewrite !app_nil_r.
  - (* drop of the writer *)
    destruct Hcls as [(Hw & ready & rb & Hs)|(Hw & Hst)].
    + rewrite Hw. unfold drop_writer_inner.
      rewrite (flush_helper_live (set_w s WGone) ready rb false true) by exact Hs. cbn [c_buf set_w c_cap c_w c_reader c_waker].
      destruct HI as (Hcap & Hq & Hb & Hnb). rewrite Hs in Hq. destruct Hq as [Hrb HF]. specialize (Hb Hw).
      destruct (c_buf s) as [|b0 t0] eqn:Eb.
      * cbn [c_st c_waker c_cap c_w c_reader].
        split; [split; [|split; [exact Hrd|right; split; [reflexivity|right; cbn [c_st]; eauto]]]|].
        -- repeat split; cbn [c_cap c_st c_w c_buf]; try assumption. intros E; discriminate E.
        -- split; [reflexivity|]. unfold pending. cbn [c_st c_buf accepted_of delivered_of app]. now rewrite Hs, !app_nil_r.
      * rewrite <- Eb in *. assert (Hne : c_buf s <> []) by (rewrite Eb; discriminate).
        cbn [c_st c_waker c_cap c_w c_reader].
        split; [split; [|split; [exact Hrd|right; split; [reflexivity|right; cbn [c_st]; eauto]]]|].
        -- repeat split; cbn [c_cap c_st c_w c_buf]; try assumption.
           ++ rewrite Eb. rewrite <- Eb. rewrite concat_snoc, lenN_app. lia.
           ++ rewrite Eb. rewrite <- Eb. apply Forall_app. split; [exact HF|]. constructor; [|constructor]. split; [exact Hne|lia].
           ++ intros E; discriminate E.
        -- split; [reflexivity|]. unfold pending. cbn [c_st c_buf accepted_of delivered_of app].
           rewrite Hs. rewrite Eb. rewrite <- Eb. rewrite concat_snoc, !app_nil_r. reflexivity.
    + destruct (c_w s) eqn:Ew; try discriminate.
      split; [split; [apply cinv_set_w; [exact HI|intros _; destruct HI as (_ & _ & _ & H4); apply H4; congruence]|
                      split; [exact Hrd|right; split; [reflexivity|exact Hst]]]|].
      split; [reflexivity|]. cbn [accepted_of delivered_of app set_w c_buf]. unfold pending. cbn [set_w c_st]. now rewrite !app_nil_r.
  - (* poll *)
    rewrite Hrd. cbn [negb].
    destruct HI as (Hcap & Hq & Hb & Hnb).
    destruct (c_st s) as [[|c ready] rb [|]| |] eqn:Hs.
    + (* empty, writer gone: end *)
      split; [split; [repeat split; assumption|split; [reflexivity|]]|].
      * right. destruct Hcls as [(_ & r0 & rb0 & E)|(Hw & _)]; [congruence|]. split; [exact Hw|left; reflexivity].
      * split; [reflexivity|]. unfold pending. cbn [c_st c_buf accepted_of delivered_of app]. now rewrite Hs, !app_nil_r.
    + (* empty, writer alive: pending *)
      destruct Hq as [Hq1 Hq2].
      split; [split; [repeat split; cbn [c_st c_cap c_w c_buf]; assumption|split; [reflexivity|]]|].
      * destruct Hcls as [(Hw & _)|(Hw & [E|(r0 & rb0 & E)])]; [left; split; [exact Hw|cbn [c_st]; eauto]|congruence|congruence].
      * split; [reflexivity|]. unfold pending. cbn [c_st c_buf accepted_of delivered_of app]. now rewrite Hs, !app_nil_r.
    + (* a chunk, writer gone *)
      destruct Hq as [Hrb HF]. inversion HF as [|? ? [Hc1 Hc2] HF']; subst.
      destruct Hcls as [(_ & r0 & rb0 & E)|(Hw & _)]; [congruence|].
      split; [split; [|split; [reflexivity|right; split; [exact Hw|]]]|].
      * destruct ready as [|c2 r2]; repeat split; cbn [c_cap c_st c_w c_buf]; try assumption.
        cbn [concat] in *. rewrite lenN_app. lia.
      * destruct ready as [|c2 r2]; cbn [c_st]; [left; reflexivity|right; eauto].
      * split; [reflexivity|]. unfold pending. rewrite Hs. cbn [c_st c_buf accepted_of delivered_of].
        destruct ready as [|c2 r2]; cbn [c_st concat app]; rewrite ?app_nil_r, <- ?app_assoc; reflexivity.
    + (* a chunk, writer alive *)
      destruct Hq as [Hrb HF]. inversion HF as [|? ? [Hc1 Hc2] HF']; subst.
      assert (Est : match ready, false with [], true => SFused | _, _ => SOk ready (lenN (concat (c :: ready)) - lenN c) false end
                    = SOk ready (lenN (concat (c :: ready)) - lenN c) false) by (destruct ready; reflexivity).
      rewrite Est.
      split; [split; [|split; [reflexivity|]]|].
      * repeat split; cbn [c_cap c_st c_w c_buf]; try assumption. cbn [concat]. rewrite lenN_app. lia.
      * destruct Hcls as [(Hw & _)|(Hw & [E|(r0 & rb0 & E)])]; [left; split; [exact Hw|cbn [c_st]; eauto]|congruence|congruence].
      * split; [reflexivity|]. unfold pending. rewrite Hs. cbn [c_st c_buf accepted_of delivered_of concat]. rewrite <- !app_assoc. now rewrite app_nil_r.
    + (* error state: unreachable without abort *)
      destruct Hcls as [(_ & r0 & rb0 & E)|(_ & [E|(r0 & rb0 & E)])]; congruence.
    + (* fused: end *)
      split; [split; [repeat split; try assumption; rewrite Hs; exact I|split; [exact Hrd|exact Hcls]]|].
      split; [reflexivity|]. cbn [accepted_of delivered_of app]. now rewrite !app_nil_r.
Qed.

(* ---------------------------------------------------------------- whole histories *)
Fixpoint acc_total (ops : list cop) (rs : list (copres * list N)) : bytes :=
  match ops, rs with
  | o :: t, (r, _) :: u => accepted_of o r ++ acc_total t u
  | _, _ => []
  end.
Definition del_total (rs : list (copres * list N)) : bytes := flat_map (fun p => delivered_of (fst p)) rs.

Lemma good_init cap : 0 < cap -> Good (cinit cap).
Proof.
  intros Hc. split; [|split; [reflexivity|left; split; [reflexivity|cbn; eauto]]].
  repeat split; cbn; try assumption; try constructor. intros E; congruence.
Qed.

(* C08, accounting: in every history of writes, write_alls, flushes, polls and the drop -- any
   length, any chunk size, any interleaving of polls -- the accepted bytes are exactly, in order,
   what was delivered, then what is queued, then what is buffered: nothing lost, duplicated or
   reordered. *)
Theorem history_accounting ops : forall s, Good s -> Forall benign ops ->
  let '(sf, rs) := crun s ops in
  Good sf /\ pending s ++ c_buf s ++ acc_total ops rs = del_total rs ++ pending sf ++ c_buf sf.
Proof.
  induction ops as [|o t IH]; intros s HG HB; cbn [crun].
  - split; [exact HG|]. cbn. now rewrite app_nil_r.
  - inversion HB as [|? ? Hb Ht]; subst. pose proof (good_step s o HG Hb) as St.
    destruct (cstep s o) as [[s1 r] wk]. destruct St as (HG1 & _ & Eq1).
    specialize (IH s1 HG1 Ht). destruct (crun s1 t) as [sf rs]. destruct IH as [HGf Eqf].
    split; [exact HGf|]. cbn [acc_total del_total flat_map fst]. fold (del_total rs).
    rewrite <- app_assoc. rewrite <- Eqf.
    rewrite !app_assoc. rewrite <- (app_assoc (pending s)). rewrite Eq1. now rewrite <- !app_assoc.
Qed.

(* once the writer is gone, polling delivers every queued chunk in order and then the clean end *)
Lemma drain_finished : forall ready s rb, Good s -> c_w s = WGone -> c_st s = SOk ready rb true ->
  let '(sf, rs) := crun s (repeat (OPoll 0) (S (length ready))) in
  c_st sf = SFused /\ del_total rs = concat ready /\
  (exists rs0, rs = rs0 ++ [(RPoll (Some None), [])]).
Proof.
  induction ready as [|c ready IH]; intros s rb HG Hw Hs.
  - cbn [length repeat crun cstep]. destruct HG as (HI & Hrd & _). rewrite Hrd, Hs. cbn [negb].
    split; [reflexivity|]. split; [reflexivity|]. exists []. reflexivity.
  - change (repeat (OPoll 0) (S (length (c :: ready)))) with (OPoll 0 :: repeat (OPoll 0) (S (length ready))).
    cbn [crun]. pose proof (good_step s (OPoll 0) HG I) as St. cbn [cstep] in *.
    destruct HG as (HI & Hrd & Hcls). rewrite Hrd, Hs in *. cbn [negb] in *.
    destruct ready as [|c2 r2].
    + destruct St as (HG1 & _ & _). cbn [length repeat crun cstep c_reader c_st negb].
      split; [reflexivity|]. split; [cbn; now rewrite !app_nil_r|]. exists [(RPoll (Some (Some (Some c))), [])]. reflexivity.
    + destruct St as (HG1 & _ & _).
      match goal with |- context [crun ?s1 _] => specialize (IH s1 (rb - lenN c) HG1 Hw eq_refl) end.
      match goal with |- context [crun ?s1 ?l] => destruct (crun s1 l) as [sf rs] end.
      destruct IH as (E1 & E2 & rs0 & E3). split; [exact E1|]. split.
      * cbn [del_total flat_map fst delivered_of concat]. fold (del_total rs). now rewrite E2.
      * exists ((RPoll (Some (Some (Some c))), []) :: rs0). now rewrite E3.
Qed.

(* C08: after flush returns Ok nothing is held back in the writer *)
Theorem flush_publishes s : Good s -> Live s ->
  let '(s', r, wk) := cstep s OFlush in r = RIo true /\ c_buf s' = [] /\ pending s' = pending s ++ c_buf s.
Proof.
  intros HG (Hw & ready & rb & Hs). cbn [cstep]. rewrite Hw. rewrite (flush_helper_live s ready rb false false Hs).
  unfold pending. rewrite Hs. destruct (c_buf s) as [|b t] eqn:Eb.
  - rewrite Hs. now rewrite app_nil_r.
  - cbn [c_st c_buf]. rewrite concat_snoc. auto.
Qed.

(* C08: a write of a non-empty buffer to a live body accepts at least one byte *)
Theorem write_progress s d : Good s -> Live s -> d <> [] ->
  exists s' n wk, cstep s (OWrite d) = (s', RWrite (Some n), wk) /\ 1 <= n /\ n <= lenN d.
Proof.
  intros (HI & _ & _) HL Hd. destruct (bw_write_live s d HI HL) as (s' & n & wk & E & Hn & Hp & _).
  cbn [cstep]. rewrite E. eexists _, _, _. split; [reflexivity|]. split; [now apply Hp|exact Hn].
Qed.

(* C08: every delivered frame is non-empty *)
Theorem frames_nonempty s w s' d wk : CInv s -> cstep s (OPoll w) = (s', RPoll (Some (Some (Some d))), wk) -> d <> [].
Proof.
  intros (_ & Hq & _) HH. cbn [cstep] in HH. destruct (negb (c_reader s)); [discriminate|].
  destruct (c_st s) as [[|c ready] rb [|]| |]; inversion HH; subst; destruct Hq as [_ HF]; inversion HF as [|? ? [H1 _] _]; exact H1.
Qed.

(* ---------------------------------------------------------------- C11: abort *)
(* abort on a live writer: the queue is replaced by the error, the writer is dead *)
Theorem abort_effect s : Live s ->
  let '(s', r, wk) := cstep s OAbort in
  c_st s' = SErr /\ c_w s' = WDead /\ c_buf s' = [] /\ wk = opt_list (c_waker s) /\ chunker_eos s' = false.
Proof.
  intros (Hw & ready & rb & Hs). cbn [cstep]. rewrite Hw. destruct (c_st s) as [r0 rb0 wd0| |]; try discriminate.
  unfold drop_writer_inner, flush_helper, set_w.
  cbn [c_buf c_st]. destruct (c_buf s) as [|b t]; cbn; rewrite ?app_nil_r; auto.
Qed.
(* while the error is pending the next poll reports it (never a clean end), then the body is fused *)
Theorem pending_error_is_reported s w : c_st s = SErr -> c_reader s = true ->
  let '(s', r, wk) := cstep s (OPoll w) in r = RPoll (Some (Some None)) /\ c_st s' = SFused.
Proof. intros Hs Hr. cbn [cstep]. rewrite Hr, Hs. cbn. auto. Qed.
(* a dead writer refuses everything and changes nothing *)
Theorem dead_writer_refuses s : c_w s = WDead ->
  (forall d, cstep s (OWrite d) = (s, RWrite None, [])) /\
  cstep s OFlush = (s, RIo false, []) /\
  (forall d, d <> [] -> exists wk, cstep s (OWriteAll d) = (s, RIo false, wk)).
Proof.
  intros Hw. repeat split.
  - intros d. cbn [cstep]. unfold bw_write. now rewrite Hw.
  - cbn [cstep]. now rewrite Hw.
  - intros d Hd. destruct d as [|b t]; [congruence|]. cbn [cstep write_all_loop]. unfold bw_write. rewrite Hw. eauto.
Qed.
(* no data is ever delivered from the error or fused states: what was delivered before an abort is all *)
Theorem no_data_after_error s w : c_st s = SErr \/ c_st s = SFused ->
  let '(s', r, wk) := cstep s (OPoll w) in delivered_of r = [] /\ (c_st s' = SErr \/ c_st s' = SFused).
Proof.
  intros [Hs|Hs]; cbn [cstep]; destruct (negb (c_reader s)); rewrite ?Hs; cbn; auto.
Qed.

(* ---------------------------------------------------------------- C11: disconnect *)
Theorem disconnect_effect s : c_reader s = true ->
  let '(s', r, wk) := cstep s ODropReader in c_st s' = SFused /\ pending s' = [] /\ c_waker s' = None /\ c_buf s' = c_buf s.
Proof. intros Hr. cbn [cstep]. rewrite Hr. cbn. auto. Qed.

(* with the consumer gone: a flush with buffered bytes fails and kills the writer *)
Theorem flush_after_disconnect s : c_st s = SFused -> c_w s = WRaw -> c_buf s <> [] ->
  let '(s', r, wk) := cstep s OFlush in r = RIo false /\ c_w s' = WDead /\ c_buf s' = [].
Proof.
  destruct s as [st wk buf cap w rd]. cbn [c_st c_w c_buf]. intros -> -> Hb.
  destruct buf as [|b t]; [congruence|]. cbn. auto.
Qed.
(* ... a chunk-completing write fails; the writer never holds more than cap bytes *)
Theorem write_after_disconnect s d : CInv s -> c_st s = SFused -> c_w s = WRaw ->
  let '(s', r, wk) := cstep s (OWrite d) in
  (c_cap s <= lenN (c_buf s) + lenN d -> r = RWrite None /\ c_w s' = WDead /\ c_buf s' = []) /\
  (lenN (c_buf s) + lenN d < c_cap s -> r = RWrite (Some (lenN d)) /\ lenN (c_buf s') < c_cap s).
Proof.
  destruct s as [st wk buf cap w rd]. unfold CInv. cbn [c_st c_w c_buf c_cap]. intros (Hcap & _ & Hb & _) -> ->.
  specialize (Hb eq_refl). cbn [cstep]. unfold bw_write. cbn [c_w]. unfold writer_write. cbn [c_cap c_buf c_st c_waker c_w c_reader].
  destruct (N.leb_spec (cap - lenN buf) (lenN d)) as [Hfull|Hpart].
  - unfold flush_helper. cbn [c_buf c_st].
    remember (cap - lenN buf) as n eqn:En.
    assert (Hn : lenN (firstn (N.to_nat n) d) = n) by (apply lenN_firstn; lia).
    destruct (buf ++ firstn (N.to_nat n) d) as [|b0 t0] eqn:Enb.
    + apply (f_equal lenN) in Enb. rewrite lenN_app, Hn, lenN_nil in Enb. lia.
    + unfold drop_writer_inner, flush_helper, set_w. cbn.
      split; [auto|]. intros Hlt. lia.
  - split; [intros Hge; lia|]. intros _.
    assert (Hfn : firstn (N.to_nat (lenN d)) d = d) by (unfold lenN; rewrite Nat2N.id; apply firstn_all).
    cbn [c_buf]. rewrite Hfn, lenN_app. split; [reflexivity|lia].
Qed.

(* ---------------------------------------------------------------- C12: hint and flag of the streaming body *)
Theorem chunker_hint_is_queue s : CInv s ->
  fst (chunker_hint s) = lenN (pending s) /\
  (forall u, snd (chunker_hint s) = Some u -> u = lenN (pending s) /\ exists ready rb, c_st s = SOk ready rb true).
Proof.
  intros (_ & Hq & _). unfold chunker_hint, pending. destruct (c_st s) as [ready rb wd| |]; cbn [fst snd].
  - destruct Hq as [-> _]. split; [reflexivity|]. intros u Hu. destruct wd; inversion Hu; subst. split; eauto.
  - split; [reflexivity|]. intros u Hu; discriminate.
  - split; [reflexivity|]. intros u Hu; discriminate.
Qed.
(* the flag is never set while chunks or an abort error are undelivered ... *)
Theorem eos_not_early s : CInv s -> chunker_eos s = true -> pending s = [] /\ c_st s <> SErr.
Proof.
  intros (_ & Hq & _) He. unfold chunker_eos, pending in *. destruct (c_st s) as [ready rb wd| |]; try discriminate.
  - apply andb_prop in He. destruct He as [Hz _]. apply N.eqb_eq in Hz. destruct Hq as [Hrb HF]. subst rb.
    destruct ready as [|c r]; [split; [reflexivity|discriminate]|].
    inversion HF as [|? ? [Hc _] _]; subst. cbn [concat] in Hz. rewrite lenN_app in Hz.
    destruct c; [congruence|]. rewrite lenN_cons in Hz. lia.
  - split; [reflexivity|discriminate].
Qed.
(* ... and once set, every later poll is a clean end *)
Theorem eos_then_only_end s w : CInv s -> chunker_eos s = true -> c_reader s = true ->
  let '(s', r, wk) := cstep s (OPoll w) in r = RPoll (Some None) /\ chunker_eos s' = true.
Proof.
  intros HI He Hr. destruct (eos_not_early s HI He) as [Hp Hne].
  destruct s as [st wk buf cap wr rd]. unfold CInv, chunker_eos, pending in *. cbn [c_st c_reader c_cap c_w c_buf] in *.
  subst rd. destruct HI as (_ & Hq & _). cbn [cstep c_reader negb c_st].
  destruct st as [ready rb wd| |]; try discriminate; try congruence.
  - apply andb_prop in He. destruct He as [Hz Hwd]. destruct wd; [|discriminate].
    destruct ready as [|c r].
    + cbn. auto.
    + destruct Hq as [_ HF]. inversion HF as [|? ? [Hc _] _]; subst. cbn [concat] in Hp.
      apply app_eq_nil in Hp. destruct Hp; congruence.
  - cbn. auto.
Qed.
