(* BodyWriter::abort is two steps on the shared state: chunker::Writer::abort (publish the error, take
   the waker, wake it) and then the drop of the chunk writer (flush_helper(true)). A consumer that polls
   from inside the wake-up -- between the two steps -- takes the error; the drop that follows queues
   nothing, and every later poll is a clean end: no data is resurrected after the error. *)
From HS Require Import Lib.Base Lib.Bytes Model.Chunker.

Definition abort_section (s : cstate) : cstate * option N :=
  match c_st s with
  | SOk _ _ _ => ({| c_st := SErr; c_waker := None; c_buf := c_buf s; c_cap := c_cap s;
                     c_w := c_w s; c_reader := c_reader s |}, c_waker s)
  | _ => (s, None)
  end.

(* the model's OAbort is exactly these two steps *)
Lemma abort_is_two_steps s : c_w s = WRaw ->
  cstep s OAbort = let '(s1, wk) := abort_section s in
                   let '(s2, wk2) := drop_writer_inner (set_w s1 WDead) in (s2, RUnit, opt_list wk ++ opt_list wk2).
Proof. intros Hw. cbn [cstep]. rewrite Hw. unfold abort_section. destruct (c_st s); reflexivity. Qed.

Theorem poll_between_the_steps_of_abort s w q rb wd : c_reader s = true -> c_st s = SOk q rb wd ->
  let '(s1, _) := abort_section s in
  let '(s2, r, _) := cstep s1 (OPoll w) in
  let '(s3, _) := drop_writer_inner (set_w s2 WDead) in
  r = RPoll (Some (Some None)) /\ c_st s3 = SFused /\ c_buf s3 = [] /\
  forall w', cstep s3 (OPoll w') = (s3, RPoll (Some None), []).
Proof.
  intros Hr Hs. unfold abort_section. rewrite Hs. cbn [cstep c_reader c_st]. rewrite Hr. cbn [negb].
  unfold drop_writer_inner, flush_helper, set_w. cbn [c_buf c_st c_waker c_cap c_w c_reader].
  destruct (c_buf s) as [|b t]; cbn [c_st c_waker c_cap c_w c_reader c_buf];
    (split; [reflexivity|]; split; [reflexivity|]; split; [reflexivity|]; intros w'; reflexivity).
Qed.

(* the same for a consumer that polls between the flush of the tail and ... there is no second step:
   the drop of a live writer is one critical section (flush_helper(true)), so a poll from inside its
   wake-up sees the final state *)
Example drop_is_one_step s : c_w s = WRaw ->
  cstep s ODropWriter = let '(s1, wk) := drop_writer_inner (set_w s WGone) in (s1, RUnit, opt_list wk).
Proof. intros Hw. cbn [cstep]. now rewrite Hw. Qed.

(* ---- no parking while chunks are queued (C10) ---- *)
(* However many chunks are queued -- one or a million --, that many consecutive polls deliver exactly
   them, in order, each as data: the consumer is never told Pending while the queue is non-empty, so it
   needs no wake-up to get what a flush already made available. *)
From HS Require Import Proofs.ChunkerP.
Theorem queued_chunks_are_delivered q : forall s rb wd w, c_reader s = true -> c_st s = SOk q rb wd ->
  let '(sf, rs) := crun s (repeat (OPoll w) (length q)) in
  del_total rs = concat q /\ Forall (fun p => exists d, fst p = RPoll (Some (Some (Some d)))) rs /\
  (c_st sf = SOk [] (rb - lenN (concat q)) wd \/ (q <> [] /\ wd = true /\ c_st sf = SFused)).
Proof.
  induction q as [|c ready IH]; intros s rb wd w Hr Hs; cbn [length repeat crun].
  - split; [reflexivity|]. split; [constructor|]. left. cbn [concat]. unfold lenN. cbn [length]. rewrite N.sub_0_r. exact Hs.
  - cbn [cstep]. rewrite Hr, Hs. cbn [negb].
    set (s1 := {| c_st := match ready, wd with [], true => SFused | _, _ => SOk ready (rb - lenN c) wd end;
                  c_waker := c_waker s; c_buf := c_buf s; c_cap := c_cap s; c_w := c_w s; c_reader := true |}).
    destruct ready as [|c2 ready'].
    + (* the last queued chunk *)
      cbn [length repeat crun]. cbn [del_total flat_map fst delivered_of concat app]. rewrite !app_nil_r.
      split; [reflexivity|]. split; [constructor; [eexists; reflexivity|constructor]|].
      destruct wd; cbn [s1 c_st].
      * right. split; [discriminate|]. split; reflexivity.
      * left. reflexivity.
    + assert (Hs1 : c_st s1 = SOk (c2 :: ready') (rb - lenN c) wd) by (cbn [s1 c_st]; destruct wd; reflexivity).
      specialize (IH s1 (rb - lenN c) wd w eq_refl Hs1).
      destruct (crun s1 (repeat (OPoll w) (length (c2 :: ready')))) as [sf rs]. destruct IH as (Hd & HF & Hst).
      split; [cbn [del_total flat_map fst delivered_of]; fold (del_total rs); rewrite Hd; reflexivity|].
      split; [constructor; [eexists; reflexivity|exact HF]|].
      destruct Hst as [Hst|(Hne & Hwd & Hst)].
      * left. rewrite Hst. f_equal. change (concat (c :: c2 :: ready')) with (c ++ concat (c2 :: ready')). unfold lenN. rewrite app_length, Nat2N.inj_add. lia.
      * right. split; [discriminate|]. split; assumption.
Qed.
