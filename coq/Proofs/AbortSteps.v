(* BodyWriter::abort is two steps on the shared state: chunker::Writer::abort (publish the error, take
   the waker, wake it) and then the drop of the chunk writer (flush_helper(true)). A consumer that polls
   from inside the wake-up -- between the two steps -- takes the error; the drop that follows queues
   nothing, and every later poll is a clean end: no data is resurrected after the error. *)
From HS Require Import Lib.Base Lib.Bytes Model.Chunker.

Definition abort_section (s : cstate) : cstate * option N :=
  match c_st s with
  | SOk _ _ _ => ({| c_st := SErr; c_waker := None; c_buf := c_buf s; c_cap := c_cap s;
                     c_w := c_w s; c_reader := c_reader s |}, c_waker s)
  | _ => (s, None)
  end.

(* the model's OAbort is exactly these two steps *)
Lemma abort_is_two_steps s : c_w s = WRaw ->
  cstep s OAbort = let '(s1, wk) := abort_section s in
                   let '(s2, wk2) := drop_writer_inner (set_w s1 WDead) in (s2, RUnit, opt_list wk ++ opt_list wk2).
Proof. intros Hw. cbn [cstep]. rewrite Hw. unfold abort_section. destruct (c_st s); reflexivity. Qed.

Theorem poll_between_the_steps_of_abort s w q rb wd : c_reader s = true -> c_st s = SOk q rb wd ->
  let '(s1, _) := abort_section s in
  let '(s2, r, _) := cstep s1 (OPoll w) in
  let '(s3, _) := drop_writer_inner (set_w s2 WDead) in
  r = RPoll (Some (Some None)) /\ c_st s3 = SFused /\ c_buf s3 = [] /\
  forall w', cstep s3 (OPoll w') = (s3, RPoll (Some None), []).
Proof.
  intros Hr Hs. unfold abort_section. rewrite Hs. cbn [cstep c_reader c_st]. rewrite Hr. cbn [negb].
  unfold drop_writer_inner, flush_helper, set_w. cbn [c_buf c_st c_waker c_cap c_w c_reader].
  destruct (c_buf s) as [|b t]; cbn [c_st c_waker c_cap c_w c_reader c_buf];
    (split; [reflexivity|]; split; [reflexivity|]; split; [reflexivity|]; intros w'; reflexivity).
Qed.

(* the same for a consumer that polls between the flush of the tail and ... there is no second step:
   the drop of a live writer is one critical section (flush_helper(true)), so a poll from inside its
   wake-up sees the final state *)
Example drop_is_one_step s : c_w s = WRaw ->
  cstep s ODropWriter = let '(s1, wk) := drop_writer_inner (set_w s WGone) in (s1, RUnit, opt_list wk).
Proof. intros Hw. cbn [cstep]. now rewrite Hw. Qed.
