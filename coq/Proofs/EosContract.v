(* C12, the end-of-stream flag of an ExactLen body over EVERY entity stream that honours the get_range
   contract -- "exactly range.end - range.start bytes, or fail early with an Err": honest streams, and
   streams that fail while bytes are still owed and afterwards only fail again, stay pending or end
   (what ChunkedReadFile does on a truncated file). Whenever such a body says it is at end-of-stream,
   no later poll delivers a byte or reports an error. *)
From HS Require Import Lib.Base Lib.Bytes Model.Body Proofs.BodyP Proofs.BodyRun.
Ltac Zify.zify_post_hook ::= Z.div_mod_to_equations.

Definition ev_is_data (e : ev) : bool := match e with EvData _ => true | _ => false end.
Definition no_data (s : list ev) : Prop := existsb ev_is_data s = false.
Definition no_err (s : list ev) : Prop := existsb ev_is_err s = false.

Inductive CX (x : xl) : Prop :=
| CX_honest : honest_x x -> CX x
| CX_failing pre c post : x_s x = pre ++ EvErr c :: post -> no_err pre -> stream_total pre < x_rem x -> no_data post -> CX x
| CX_failed : 0 < x_rem x -> no_data (x_s x) -> CX x
| CX_fused : x_s x = [] -> x_rem x = 0 -> CX x.

(* the contract as a predicate on the scripted stream and the announced length *)
Definition contract_x (x : xl) : Prop :=
  honest_x x \/ exists pre c post, x_s x = pre ++ EvErr c :: post /\ no_err pre /\ stream_total pre < x_rem x /\ no_data post.
Lemma contract_cx x : contract_x x -> CX x.
Proof. intros [H|(pre & c & post & H1 & H2 & H3 & H4)]; [now apply CX_honest|now apply (CX_failing x pre c post)]. Qed.

Lemma cx_step x x' r : CX x -> xl_poll x = (x', r) -> CX x'.
Proof.
  intros [Hh|pre c post Hs Hne Hlt Hnd|Hpos Hnd|Hs Hr] Hp.
  - apply CX_honest. exact (proj1 (honest_x_step x x' r Hh Hp)).
  - unfold xl_poll in Hp. rewrite Hs in Hp. destruct pre as [|[|d|c0] pre]; cbn [app] in Hp.
    + inversion Hp; subst. apply CX_failed; cbn [x_rem x_s]; [cbn [stream_total] in Hlt; lia|exact Hnd].
    + inversion Hp; subst. apply (CX_failing _ pre c post); cbn [x_s x_rem]; auto.
    + cbn [stream_total] in Hlt. destruct (N.leb_spec (lenN d) (x_rem x)) as [Hle|Hgt]; [|lia].
      inversion Hp; subst. apply (CX_failing _ pre c post); cbn [x_s x_rem]; auto. lia.
    + unfold no_err in Hne. cbn [existsb ev_is_err orb] in Hne. discriminate.
  - unfold xl_poll in Hp. unfold no_data in Hnd. destruct (x_s x) as [|[|d|c0] t] eqn:Es.
    + destruct (N.eqb_spec (x_rem x) 0) as [Hz|Hz]; [lia|]. inversion Hp; subst. now apply CX_fused.
    + inversion Hp; subst. apply CX_failed; cbn [x_s x_rem]; [exact Hpos|]. exact Hnd.
    + cbn [existsb ev_is_data orb] in Hnd. discriminate.
    + inversion Hp; subst. apply CX_failed; cbn [x_s x_rem]; [exact Hpos|]. exact Hnd.
  - unfold xl_poll in Hp. rewrite Hs, Hr in Hp. cbn in Hp. inversion Hp; subst. now apply CX_fused.
Qed.

(* at end-of-stream (remaining = 0) a poll is quiet and the body stays there *)
Lemma cx_eos_quiet x x' r : CX x -> x_rem x = 0 -> xl_poll x = (x', r) ->
  is_perr r = false /\ data_len r = 0 /\ x_rem x' = 0.
Proof.
  intros [Hh|pre c post Hs Hne Hlt Hnd|Hpos Hnd|Hs Hr] Hz Hp; try lia.
  - destruct (honest_x_step x x' r Hh Hp) as [_ Hne]. split; [exact Hne|].
    pose proof (xl_poll_accounting x x' r Hp) as Ha. destruct r as [|d| |[c|n|n]]; cbn [data_len]; try discriminate; try lia.
    destruct Ha as (_ & -> & _). lia.
  - unfold xl_poll in Hp. rewrite Hs, Hr in Hp. cbn in Hp. inversion Hp; subst. auto.
Qed.

Lemma run_exact_shape n : forall streams x rs bf, run n streams (BExact x) = Ok (rs, bf) -> exists x', bf = BExact x'.
Proof.
  induction n as [|k IH]; intros streams x rs bf HH; cbn [run] in HH.
  - inversion HH; subst. eauto.
  - cbn [body_poll] in HH. destruct (xl_poll x) as [x1 r]. destruct (run k streams (BExact x1)) as [[rs' bf']|t] eqn:Hr; [|discriminate].
    inversion HH; subst. eapply IH; eauto.
Qed.
Lemma cx_run n : forall streams x rs x', CX x -> run n streams (BExact x) = Ok (rs, BExact x') -> CX x'.
Proof.
  induction n as [|k IH]; intros streams x rs x' HC HH; cbn [run] in HH.
  - inversion HH; subst. exact HC.
  - cbn [body_poll] in HH. destruct (xl_poll x) as [x1 r] eqn:Ep. destruct (run k streams (BExact x1)) as [[rs' bf']|t] eqn:Hr; [|discriminate].
    inversion HH; subst. eapply IH; [exact (cx_step x x1 r HC Ep)|exact Hr].
Qed.
Lemma cx_quiet_run n : forall streams x rs bf, CX x -> x_rem x = 0 -> run n streams (BExact x) = Ok (rs, bf) ->
  existsb is_perr rs = false /\ delivered rs = 0.
Proof.
  induction n as [|k IH]; intros streams x rs bf HC Hz HH; cbn [run] in HH.
  - inversion HH; subst. split; reflexivity.
  - cbn [body_poll] in HH. destruct (xl_poll x) as [x1 r] eqn:Ep. destruct (run k streams (BExact x1)) as [[rs' bf']|t] eqn:Hr; [|discriminate].
    inversion HH; subst. destruct (cx_eos_quiet x x1 r HC Hz Ep) as (H1 & H2 & H3).
    destruct (IH streams x1 rs' bf (cx_step x x1 r HC Ep) H3 Hr) as [H4 H5].
    split; [cbn [existsb]; now rewrite H1, H4|]. rewrite delivered_cons. lia.
Qed.

(* the flag clause: at every point of every run of an ExactLen body over a stream within the contract,
   once the body says end-of-stream nothing more comes -- no data, no error *)
Theorem eos_means_nothing_more n1 n2 streams x rs1 bm rs2 bf : contract_x x ->
  run n1 streams (BExact x) = Ok (rs1, bm) -> body_eos bm = true ->
  run n2 streams bm = Ok (rs2, bf) ->
  existsb is_perr rs2 = false /\ delivered rs2 = 0.
Proof.
  intros Hc H1 He H2. destruct (run_exact_shape n1 streams x rs1 bm H1) as [xm ->].
  pose proof (cx_run n1 streams x rs1 xm (contract_cx x Hc) H1) as HCm.
  cbn [body_eos] in He. apply N.eqb_eq in He.
  exact (cx_quiet_run n2 streams xm rs2 bf HCm He H2).
Qed.

(* the clause needs the contract: a stream that delivers everything and THEN fails makes the body say
   end-of-stream and report the failure afterwards *)
Example eos_needs_the_contract :
  match run 2 [] (BExact {| x_s := [EvData [1; 2]; EvErr 7]; x_rem := 2 |}) with
  | Ok ([r1; r2], _) => r2 = PErr (ErrEntity 7)
  | _ => False end /\
  match run 1 [] (BExact {| x_s := [EvData [1; 2]; EvErr 7]; x_rem := 2 |}) with
  | Ok (_, bm) => body_eos bm = true
  | _ => False end.
Proof. vm_compute. split; reflexivity. Qed.

(* ---- multipart bodies: for ANY part streams, the flag is only set once the body is done ---- *)
Lemma mp_eos_is_done m : MInv m -> m_rem m = 0 -> m_state m = mp_end_state m /\ m_cur m = None.
Proof.
  intros (_ & _ & [i Hs Hc Hi Hr|i a e Hs Hc Hre Hr|i x Hs Hc Hi Hr|Hs Hc Hr]) Hz; unfold TRAILER_LEN in *; try lia. auto.
Qed.
Theorem mp_eos_final streams m : MInv m -> m_rem m = 0 -> mp_poll MP_FUEL streams m = Ok (m, PEnd).
Proof. intros HI Hz. destruct (mp_eos_is_done m HI Hz) as [Hs Hc]. now apply mp_done_stays. Qed.
Theorem mp_eos_means_nothing_more n : forall streams m rs bf, MInv m -> body_eos (BMulti m) = true ->
  run n streams (BMulti m) = Ok (rs, bf) -> existsb is_perr rs = false /\ delivered rs = 0 /\ bf = BMulti m.
Proof.
  induction n as [|k IH]; intros streams m rs bf HI He HH; cbn [run] in HH.
  - inversion HH; subst. auto.
  - cbn [body_eos] in He. pose proof He as He'. apply N.eqb_eq in He'. cbn [body_poll] in HH. rewrite (mp_eos_final streams m HI He') in HH. cbn [bind] in HH.
    destruct (run k streams (BMulti m)) as [[rs' bf']|t] eqn:Hr; [|discriminate]. inversion HH; subst.
    destruct (IH streams m rs' bf HI He Hr) as (H1 & H2 & H3).
    split; [cbn [existsb is_perr orb]; exact H1|]. split; [rewrite delivered_cons; cbn [data_len]; lia|exact H3].
Qed.
