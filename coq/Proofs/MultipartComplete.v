(* C07 (multipart clause), for arbitrary -- not only honest -- entity streams: if a multipart
   body reports its clean end without having reported an error, then every part's stream
   delivered exactly the length of its range and never failed, and the ranges were read in
   order, each exactly once. So a short, long or failing part stream, at whichever part and at
   whichever chunk, can never be followed by the closing delimiter and a clean end. *)
From HS Require Import Lib.Base Lib.Bytes Model.Body Proofs.BodyP Proofs.BodyRun.
Ltac Zify.zify_post_hook ::= Z.div_mod_to_equations.

Lemma stream_total_app s t : stream_total (s ++ t) = stream_total s + stream_total t.
Proof. induction s as [|[|d|c] s IH]; cbn [app stream_total]; rewrite ?IH; lia. Qed.
Lemma no_err_app s t : existsb ev_is_err (s ++ t) = false <-> existsb ev_is_err s = false /\ existsb ev_is_err t = false.
Proof. rewrite existsb_app, orb_false_iff. tauto. Qed.

Section Complete.
Variable streams : list (list ev).

(* part j of the response was delivered completely and without error *)
Definition part_complete (rs : list (N * N)) (j : nat) : Prop :=
  match nth_error rs j with
  | Some (a, e) => stream_total (stream_of streams j) = e - a /\ existsb ev_is_err (stream_of streams j) = false
  | None => True
  end.
Definition complete_upto (rs : list (N * N)) (i : nat) : Prop := forall j, (j < i)%nat -> part_complete rs j.

(* what has been consumed of part i's stream so far, and what is still owed *)
Definition consumed_ok (i : nat) (x : xl) (a e : N) : Prop :=
  exists c, stream_of streams i = c ++ x_s x /\ stream_total c + x_rem x = e - a /\ existsb ev_is_err c = false.

Definition calls_ok (m : mp) : Prop := rev (m_calls m) = firstn (length (m_calls m)) (m_ranges m).

Inductive CState (m : mp) : Prop :=
| CS_header i :
    m_state m = (2 * i)%nat -> m_cur m = None -> (i <= length (m_ranges m))%nat -> length (m_calls m) = i ->
    calls_ok m -> complete_upto (m_ranges m) i -> CState m
| CS_open i a e :
    m_state m = S (2 * i) -> m_cur m = None -> nth_error (m_ranges m) i = Some (a, e) -> length (m_calls m) = i ->
    calls_ok m -> complete_upto (m_ranges m) i -> CState m
| CS_body i x a e :
    m_state m = S (2 * i) -> m_cur m = Some x -> nth_error (m_ranges m) i = Some (a, e) -> length (m_calls m) = S i ->
    calls_ok m -> complete_upto (m_ranges m) i -> consumed_ok i x a e -> CState m
| CS_done :
    m_state m = mp_end_state m -> m_cur m = None -> length (m_calls m) = length (m_ranges m) ->
    calls_ok m -> complete_upto (m_ranges m) (length (m_ranges m)) -> CState m.

Lemma complete_step rs i a e :
  complete_upto rs i -> nth_error rs i = Some (a, e) ->
  stream_total (stream_of streams i) = e - a -> existsb ev_is_err (stream_of streams i) = false ->
  complete_upto rs (S i).
Proof.
  intros Hc Hre Ht He j Hj. destruct (Nat.eq_dec j i) as [->|Hne].
  - unfold part_complete. rewrite Hre. split; assumption.
  - apply Hc. lia.
Qed.

Lemma calls_ok_push (rs : list (N * N)) (calls : list (N * N)) i a e :
  rev calls = firstn (length calls) rs -> length calls = i -> nth_error rs i = Some (a, e) ->
  rev ((a, e) :: calls) = firstn (length ((a, e) :: calls)) rs.
Proof.
  intros Hci Hcl Hre. cbn [rev length]. rewrite Hci, Hcl. clear -Hre. revert i Hre.
  induction rs as [|y l IH]; intros [|i] H; cbn in *; try discriminate; [now inversion H|]. f_equal. now apply IH.
Qed.

(* one poll that does not report an error keeps the bookkeeping *)
Theorem complete_poll m m' r : MInv m -> CState m ->
  mp_poll MP_FUEL streams m = Ok (m', r) -> is_perr r = false ->
  CState m' /\ m_ranges m' = m_ranges m.
Proof.
  intros HI HC E Hne. destruct HI as (Hl & Hr & _). unfold MP_FUEL in E.
  assert (Hbody : forall f m0 i x a e m1 r1, m_state m0 = S (2 * i) -> m_cur m0 = Some x ->
            nth_error (m_ranges m0) i = Some (a, e) -> length (m_calls m0) = S i -> calls_ok m0 ->
            complete_upto (m_ranges m0) i -> consumed_ok i x a e ->
            mp_poll (S f) streams m0 = Ok (m1, r1) -> is_perr r1 = false ->
            CState m1 /\ m_ranges m1 = m_ranges m0).
  { intros f m0 i x a e m1 r1 Hs Hc Hre Hcalls Hci Hcu (c & Hst & Hacc & Herr) H0 Hne1.
    assert (Hi : (i < length (m_ranges m0))%nat) by (apply nth_error_Some; congruence).
    rewrite mp_poll_S, Hc in H0.
    destruct (xl_poll x) as [x' rx] eqn:Ex.
    pose proof (xl_poll_accounting _ _ _ Ex) as Hac.
    destruct rx as [|d| |e0].
    - (* pending *)
      inversion H0; subst. split; [|reflexivity].
      eapply (CS_body _ i x' a e); cbn [m_state m_cur m_ranges m_calls]; auto.
      unfold xl_poll in Ex. destruct (x_s x) as [|[|d|c0] t] eqn:Es; try (destruct (x_rem x =? 0); discriminate);
        try (destruct (lenN d <=? x_rem x); discriminate); inversion Ex; subst.
      exists (c ++ [EvPending]). cbn [x_s x_rem]. split; [rewrite <- app_assoc; exact Hst|].
      split; [rewrite stream_total_app; cbn [stream_total]; lia|].
      apply no_err_app. split; [exact Herr|reflexivity].
    - (* data *)
      unfold u64_sub in H0. destruct (lenN d <=? m_rem m0); [|discriminate]. cbn [bind] in H0.
      inversion H0; subst. split; [|reflexivity].
      eapply (CS_body _ i x' a e); cbn [m_state m_cur m_ranges m_calls]; auto.
      unfold xl_poll in Ex. destruct (x_s x) as [|[|d0|c0] t] eqn:Es; try (destruct (x_rem x =? 0); discriminate); try discriminate.
      destruct (N.leb_spec (lenN d0) (x_rem x)) as [Hle|Hgt]; inversion Ex; subst.
      exists (c ++ [EvData d]). cbn [x_s x_rem]. split; [rewrite <- app_assoc; exact Hst|].
      split; [rewrite stream_total_app; cbn [stream_total]; lia|].
      apply no_err_app. split; [exact Herr|reflexivity].
    - (* the part ended cleanly: it is complete *)
      destruct Hac as (Hz & -> & Hnil).
      rewrite Hnil, app_nil_r in Hst. rewrite Hz, N.add_0_r in Hacc.
      assert (Hcu' : complete_upto (m_ranges m0) (S i)).
      { apply (complete_step _ i a e Hcu Hre); rewrite Hst; assumption. }
      unfold mp_idle in H0. cbn [m_state m_ranges m_ph m_rem m_cur m_calls] in H0.
      rewrite Hs in H0. replace (S (S (2 * i))) with (2 * S i)%nat in H0 by lia.
      rewrite div2_double, odd_double, andb_false_r in H0.
      destruct (Nat.eqb_spec (S i) (length (m_ranges m0))) as [Heq|Hne2].
      + unfold u64_sub in H0. destruct (lenN PART_TRAILER <=? m_rem m0); [|discriminate]. cbn [bind] in H0.
        inversion H0; subst. split; [|reflexivity].
        apply CS_done; unfold mp_end_state; cbn [m_state m_cur m_rem m_ranges m_calls]; try reflexivity; try lia; try exact Hci.
        rewrite <- Heq. exact Hcu'.
      + destruct (nth_error (m_ph m0) (S i)) as [v|] eqn:Ev; [|discriminate].
        unfold u64_sub in H0. destruct (lenN v <=? m_rem m0); [|discriminate]. cbn [bind] in H0.
        inversion H0; subst. split; [|reflexivity].
        assert (Hlt : (S i < length (m_ranges m0))%nat) by lia.
        destruct (nth_error_some_lt (m_ranges m0) (S i) Hlt) as [[a1 e1] Hre1].
        eapply (CS_open _ (S i) a1 e1); cbn [m_state m_cur m_ranges m_calls]; auto; try lia.
    - (* an error: excluded *)
      inversion H0; subst. discriminate Hne1. }
  destruct HC as [i Hs Hc Hi Hcl Hci Hcu|i a e Hs Hc Hre Hcl Hci Hcu|i x a e Hs Hc Hre Hcl Hci Hcu Hx|Hs Hc Hcl Hci Hcu].
  - rewrite mp_poll_S, Hc in E. unfold mp_idle in E. rewrite Hs, div2_double, odd_double, andb_false_r in E.
    destruct (Nat.eqb_spec i (length (m_ranges m))) as [Heq|Hne2].
    + unfold u64_sub in E. destruct (_ <=? _); [|discriminate]. cbn [bind] in E. injection E as Em Er; subst m' r.
      split; [|reflexivity].
      apply CS_done; unfold mp_end_state; cbn [m_state m_cur m_ranges m_calls]; try reflexivity; try lia; try exact Hci.
      rewrite <- Heq. exact Hcu.
    + destruct (nth_error (m_ph m) i) as [v|] eqn:Ev; [|discriminate].
      unfold u64_sub in E. destruct (_ <=? _); [|discriminate]. cbn [bind] in E. injection E as Em Er; subst m' r.
      split; [|reflexivity].
      assert (Hlt : (i < length (m_ranges m))%nat) by lia.
      destruct (nth_error_some_lt (m_ranges m) i Hlt) as [[a e] Hre].
      eapply (CS_open _ i a e); cbn [m_state m_cur m_ranges m_calls]; auto.
  - assert (Hi : (i < length (m_ranges m))%nat) by (apply nth_error_Some; congruence).
    rewrite mp_poll_S, Hc in E. unfold mp_idle in E. rewrite Hs, div2_double1, odd_double1, andb_true_r in E.
    destruct (Nat.eqb_spec i (length (m_ranges m))) as [Heq|_]; [lia|]. rewrite Hre in E.
    unfold u64_sub in E. destruct (N.leb_spec a e) as [Hae|]; [|discriminate]. cbn [bind] in E. rewrite Hcl in E.
    set (x0 := {| x_s := stream_of streams i; x_rem := e - a |}) in *.
    set (m0 := {| m_cur := Some x0; m_state := S (2 * i); m_ph := m_ph m; m_ranges := m_ranges m;
                  m_rem := m_rem m; m_calls := (a, e) :: m_calls m |}) in *.
    assert (Hcalls0 : length (m_calls m0) = S i) by (cbn [m0 m_calls length]; now rewrite Hcl).
    assert (Hci0 : calls_ok m0) by (unfold calls_ok; cbn [m0 m_calls m_ranges]; now apply (calls_ok_push _ _ i)).
    assert (Hx0 : consumed_ok i x0 a e).
    { exists []. cbn [x0 x_s x_rem app stream_total existsb]. split; [reflexivity|]. split; [lia|reflexivity]. }
    apply (Hbody 2%nat m0 i x0 a e m' r eq_refl eq_refl Hre Hcalls0 Hci0 Hcu Hx0 E Hne).
  - apply (Hbody 3%nat m i x a e m' r Hs Hc Hre Hcl Hci Hcu Hx E Hne).
  - rewrite mp_poll_S, Hc in E. unfold mp_idle in E. rewrite Hs in E. unfold mp_end_state in E.
    rewrite div2_double1, odd_double1, Nat.eqb_refl in E. cbn [andb] in E.
    destruct (m_rem m =? 0); [|discriminate]. injection E as Em Er; subst m' r.
    split; [|reflexivity]. now apply CS_done.
Qed.

(* at the end state, the bookkeeping says everything is complete *)
Lemma cstate_end m : CState m -> m_state m = mp_end_state m ->
  complete_upto (m_ranges m) (length (m_ranges m)) /\ rev (m_calls m) = m_ranges m.
Proof.
  unfold mp_end_state.
  intros [i Hs Hc Hi Hcl Hci Hcu|i a e Hs Hc Hre Hcl Hci Hcu|i x a e Hs Hc Hre Hcl Hci Hcu Hx|Hs Hc Hcl Hci Hcu] He.
  - lia.
  - assert (i = length (m_ranges m)) by lia. subst i.
    assert (nth_error (m_ranges m) (length (m_ranges m)) = None) by (apply nth_error_None; lia). congruence.
  - assert (i = length (m_ranges m)) by lia. subst i.
    assert (nth_error (m_ranges m) (length (m_ranges m)) = None) by (apply nth_error_None; lia). congruence.
  - split; [exact Hcu|]. unfold calls_ok in Hci. rewrite Hci, Hcl. apply firstn_all.
Qed.

Theorem complete_run n : forall m rs bf, MInv m -> CState m ->
  run n streams (BMulti m) = Ok (rs, bf) -> existsb is_perr rs = false ->
  exists m', bf = BMulti m' /\ MInv m' /\ CState m' /\ m_ranges m' = m_ranges m /\
             (existsb is_pend rs = true ->
              complete_upto (m_ranges m) (length (m_ranges m)) /\ rev (m_calls m') = m_ranges m).
Proof.
  induction n as [|k IH]; intros m rs bf HI HC HH Hne; cbn [run] in HH.
  - inversion HH; subst. exists m. split; [reflexivity|]. split; [exact HI|]. split; [exact HC|]. split; [reflexivity|].
    cbn [existsb]. discriminate.
  - cbn [body_poll] in HH.
    destruct (mp_poll MP_FUEL streams m) as [[m1 r]|t] eqn:E; [|discriminate]. cbn [bind] in HH.
    destruct (run k streams (BMulti m1)) as [[rs' bf']|t] eqn:Hr; [|discriminate]. inversion HH; subst.
    cbn [existsb] in Hne. apply orb_false_iff in Hne. destruct Hne as [Hne1 Hne2].
    destruct (mp_poll_total streams m HI) as (m1' & r' & E' & HI1). rewrite E in E'. injection E' as <- <-.
    destruct (complete_poll m m1 r HI HC E Hne1) as [HC1 Hrs1].
    destruct (IH m1 rs' bf HI1 HC1 Hr Hne2) as (m2 & Eb & HI2 & HC2 & Hrs2 & Hend2).
    exists m2. split; [exact Eb|]. split; [exact HI2|]. split; [exact HC2|]. split; [congruence|].
    cbn [existsb]. intros Hp. destruct r as [|d| |e0]; cbn [is_pend orb] in Hp;
      try (rewrite <- Hrs1; now apply Hend2); try discriminate.
    (* the end was reported by this poll: the state is the end state and stays there *)
    destruct (mp_terminal_fuses streams m m1 PEnd HI E eq_refl) as (Hend1 & Hcur1 & Hrem1).
    destruct (cstate_end m1 HC1 Hend1) as [Hcu1 Hcalls1]. rewrite Hrs1 in Hcu1. split; [exact Hcu1|].
    (* nothing further is read *)
    rewrite <- Hrs1, <- Hcalls1. f_equal.
    pose proof (mp_done_stays streams m1 Hend1 Hcur1 Hrem1) as Hstay.
    clear -Hr Hstay Eb. revert rs' Hr. induction k as [|k IHk]; intros rs' Hr; cbn [run] in Hr.
    + inversion Hr; subst. now inversion H1.
    + cbn [body_poll] in Hr. rewrite Hstay in Hr. cbn [bind] in Hr.
      destruct (run k streams (BMulti m1)) as [[rs3 bf3]|t] eqn:Hr3; [|discriminate]. inversion Hr; subst.
      eapply IHk; eauto.
Qed.
End Complete.

(* from the state serve builds (state 0, nothing read yet) *)
Theorem multipart_clean_end_means_complete n streams m rs bf :
  MInv m -> m_state m = 0%nat -> m_cur m = None -> m_calls m = [] ->
  run n streams (BMulti m) = Ok (rs, bf) -> existsb is_perr rs = false -> existsb is_pend rs = true ->
  (forall j a e, nth_error (m_ranges m) j = Some (a, e) ->
     stream_total (stream_of streams j) = e - a /\ existsb ev_is_err (stream_of streams j) = false) /\
  exists m', bf = BMulti m' /\ rev (m_calls m') = m_ranges m.
Proof.
  intros HI Hs Hc Hcalls Hrun Hne Hp.
  assert (HC : CState streams m).
  { apply (CS_header streams m 0); try assumption; try (rewrite Hcalls; reflexivity); try lia.
    - unfold calls_ok. rewrite Hcalls. reflexivity.
    - intros j Hj. lia. }
  destruct (complete_run streams n m rs bf HI HC Hrun Hne) as (m' & Eb & _ & _ & _ & Hend).
  destruct (Hend Hp) as [Hcu Hcl]. split.
  - intros j a e Hre. assert (Hj : (j < length (m_ranges m))%nat) by (apply nth_error_Some; congruence).
    specialize (Hcu j Hj). unfold part_complete in Hcu. rewrite Hre in Hcu. exact Hcu.
  - exists m'. split; assumption.
Qed.
