(* Model/Negot.v (should_gzip, parse_qvalue) against Spec/AcceptEncoding.v. *)
From Coq Require Import String.
From HS Require Import Lib.Base Lib.Bytes Lib.Dec Model.Negot Spec.AcceptEncoding.
Ltac Zify.zify_post_hook ::= Z.div_mod_to_equations.

(* ---------------------------------------------------------------- qvalues: a finite family *)
Definition DIGS : list N := [0; 1; 2; 3; 4; 5; 6; 7; 8; 9].
Fixpoint digs (k : nat) : list (list N) :=
  match k with O => [[]] | S k' => flat_map (fun d => map (cons d) (digs k')) DIGS end.

Lemma in_DIGS d : d <= 9 -> In d DIGS.
Proof.
  intros H. assert (d = 0 \/ d = 1 \/ d = 2 \/ d = 3 \/ d = 4 \/ d = 5 \/ d = 6 \/ d = 7 \/ d = 8 \/ d = 9) as E by lia.
  unfold DIGS. cbn [In]. intuition.
Qed.
Lemma in_digs ds : Forall (fun d => d <= 9) ds -> In ds (digs (length ds)).
Proof.
  induction ds as [|d t IH]; intros HF; cbn [length digs]; [now left|].
  inversion HF as [|? ? Hd Ht]; subst. apply in_flat_map. exists d. split; [now apply in_DIGS|].
  apply in_map. now apply IH.
Qed.

Definition all_weights : list weight :=
  flat_map (fun ds => [{| w_q := QZero ds; w_dot := false |}; {| w_q := QZero ds; w_dot := true |}])
           (digs 0 ++ digs 1 ++ digs 2 ++ digs 3)
  ++ flat_map (fun z => [{| w_q := QOne z; w_dot := false |}; {| w_q := QOne z; w_dot := true |}]) [0; 1; 2; 3]%nat.

Lemma weight_in_all w : weight_ok w -> In w all_weights.
Proof.
  destruct w as [[ds|z] dot]; unfold weight_ok; cbn [w_q]; intros H; unfold all_weights; apply in_or_app.
  - left. destruct H as [Hl HF]. apply in_flat_map. exists ds. split.
    + pose proof (in_digs ds HF) as Hin. rewrite !in_app_iff.
      destruct (length ds) as [|[|[|[|k]]]]; try lia; auto.
    + destruct dot; cbn [In]; auto.
  - right. apply in_flat_map. exists z. split.
    + destruct z as [|[|[|[|k]]]]; try lia; cbn [In]; auto.
    + destruct dot; cbn [In]; auto.
Qed.

Definition qvalue_check (w : weight) : bool :=
  match parse_qvalue (render_weight w) with
  | Ok (Some v) => (v =? weight_value w) && (v <=? 1000)
  | _ => false
  end.
Lemma all_weights_check : forallb qvalue_check all_weights = true.
Proof. vm_compute. reflexivity. Qed.

(* every grammatical qvalue parses to its value in thousandths, which is at most 1000 *)
Theorem parse_qvalue_grammar w : weight_ok w ->
  parse_qvalue (render_weight w) = Ok (Some (weight_value w)) /\ weight_value w <= 1000.
Proof.
  intros H. pose proof all_weights_check as C. rewrite forallb_forall in C.
  specialize (C w (weight_in_all w H)). unfold qvalue_check in C.
  destruct (parse_qvalue (render_weight w)) as [[v|]|]; try discriminate.
  apply andb_prop in C. destruct C as [C1 C2]. apply N.eqb_eq in C1. subst. split; [reflexivity|lia].
Qed.

(* parse_qvalue never panics: the u16 product stays below 2^16 for every input *)
Lemma parse_digits16_bound s : forall acc n, parse_digits16 s acc = Some n -> n < 10 ^ N.of_nat (length s) * (acc + 1).
Proof.
  induction s as [|b t IH]; intros acc n H; cbn [parse_digits16 length] in *.
  - inversion H; subst. cbn. lia.
  - destruct (is_digit b) eqn:Hb; [|discriminate]. destruct (_ <? 65536); [|discriminate].
    apply IH in H. rewrite Nat2N.inj_succ, N.pow_succ_r'. unfold is_digit in Hb.
    set (p := 10 ^ N.of_nat (length t)) in *. nia.
Qed.
Theorem parse_qvalue_total s : exists o, parse_qvalue s = Ok o.
Proof.
  unfold parse_qvalue. destruct (mem_bytes s Q_ONES); [eauto|]. destruct (mem_bytes s Q_ZEROS); [eauto|].
  destruct (negb _); [eauto|]. set (v := skipn 2 s).
  destruct (length v) as [|[|[|[|k]]]] eqn:El; try (eexists; reflexivity).
  all: destruct (parse_u16 v) as [x|] eqn:Ep; [|eauto]; unfold parse_u16 in Ep.
  all: assert (Hx : x < 10 ^ N.of_nat (length v)).
  all: try (destruct v as [|c t]; [discriminate|]; destruct (N.eqb_spec c 43) as [->|Hc];
            [destruct t as [|c2 t2]; [discriminate|]; apply parse_digits16_bound in Ep; cbn [length] in *;
             rewrite Nat2N.inj_succ, N.pow_succ_r'; set (p := 10 ^ N.of_nat (length (c2 :: t2))) in *; cbn [length] in p; nia
            |assert (Ep' : parse_digits16 (c :: t) 0 = Some x) by
               (destruct c as [|p]; [exact Ep|]; destruct p; try exact Ep; repeat (destruct p; try exact Ep); congruence);
             apply parse_digits16_bound in Ep'; lia]).
  all: rewrite El in Hx; cbn in Hx; match goal with |- context [?a * ?b <? 65536] => destruct (N.ltb_spec (a * b) 65536); [eauto|lia] end.
Qed.

(* ---------------------------------------------------------------- trimming *)
Definition noows (t : bytes) : Prop := forallb (fun b => negb (is_ows b)) t = true.

Lemma forallb_rev {A} (f : A -> bool) l : forallb f (rev l) = forallb f l.
Proof.
  induction l as [|x l IH]; [reflexivity|]. cbn [rev forallb]. rewrite forallb_app, IH. cbn [forallb].
  destruct (f x), (forallb f l); reflexivity.
Qed.
Lemma trim_start_all_ows ws : all_ows ws -> trim_start ws = [].
Proof. intros H. rewrite <- (app_nil_r ws). now rewrite trim_start_app. Qed.
Lemma trim_start_noows t s : noows t -> t <> [] -> trim_start (t ++ s) = t ++ s.
Proof.
  intros Hn Hne. destruct t as [|b t']; [congruence|]. unfold noows in Hn. cbn [forallb] in Hn.
  apply andb_prop in Hn. destruct Hn as [Hb _]. cbn [app]. apply trim_start_id. now apply negb_true_iff in Hb.
Qed.

Lemma trim_noows pre t post : all_ows pre -> all_ows post -> noows t -> trim (pre ++ t ++ post) = t.
Proof.
  intros Hpre Hpost Ht. unfold trim. rewrite trim_start_app by assumption.
  destruct t as [|b t'].
  - cbn [app]. rewrite trim_start_all_ows by assumption. reflexivity.
  - rewrite trim_start_noows by (assumption || discriminate).
    unfold trim_end. rewrite rev_app_distr.
    rewrite trim_start_app by (unfold all_ows; rewrite forallb_rev; exact Hpost).
    rewrite <- (app_nil_r (rev (b :: t'))).
    rewrite trim_start_noows.
    + rewrite app_nil_r. apply rev_involutive.
    + unfold noows. rewrite forallb_rev. exact Ht.
    + intros E. apply (f_equal (@length N)) in E. rewrite rev_length in E. discriminate.
Qed.

(* ---------------------------------------------------------------- one element *)
(* a coding token: visible, no OWS, no comma, no semicolon *)
Definition tchar (b : N) : bool := is_visible b && negb (is_ows b) && negb (b =? 44) && negb (b =? 59).
Definition token (t : bytes) : Prop := forallb tchar t = true.

Lemma token_noows t : token t -> noows t.
Proof.
  unfold token, noows. rewrite !forallb_forall. intros H x Hx. specialize (H x Hx). unfold tchar in H.
  destruct (negb (is_ows x)); [reflexivity|]. rewrite andb_false_r in H. discriminate.
Qed.
Lemma token_no c t : (c = 44 \/ c = 59) -> token t -> ~ In c t.
Proof.
  intros Hc Ht Hin. unfold token in Ht. rewrite forallb_forall in Ht. specialize (Ht c Hin). unfold tchar in Ht.
  destruct Hc; subst; cbn in Ht; discriminate.
Qed.
Lemma ows_no c ws : (c = 44 \/ c = 59) -> all_ows ws -> ~ In c ws.
Proof.
  intros Hc Hw Hin. unfold all_ows in Hw. rewrite forallb_forall in Hw. specialize (Hw c Hin).
  destruct Hc; subst; discriminate.
Qed.

(* renderings of weights: visible, free of OWS, commas and semicolons *)
Definition wchar_ok (s : bytes) : bool := forallb tchar s.
Lemma all_weights_chars : forallb (fun w => wchar_ok (render_weight w)) all_weights = true.
Proof. vm_compute. reflexivity. Qed.
Lemma render_weight_token w : weight_ok w -> token (render_weight w).
Proof.
  intros H. pose proof all_weights_chars as C. rewrite forallb_forall in C. exact (C w (weight_in_all w H)).
Qed.

Definition elem_wf (e : elem) : Prop :=
  all_ows (e_pre e) /\ token (e_coding e) /\ all_ows (e_post e) /\
  match e_w e with None => True | Some (w1, w2, w) => all_ows w1 /\ all_ows w2 /\ weight_ok w end.

Definition update (st : qstate) (coding : bytes) (quality : N) : qstate :=
  if beq_bytes coding (bs "gzip") then {| q_gzip := Some quality; q_identity := q_identity st; q_star := q_star st |}
  else if beq_bytes coding (bs "identity") then {| q_gzip := q_gzip st; q_identity := Some quality; q_star := q_star st |}
  else if beq_bytes coding (bs "*") then {| q_gzip := q_gzip st; q_identity := q_identity st; q_star := Some quality |}
  else st.

Lemma not_in_app3 c (a b d : bytes) : ~ In c a -> ~ In c b -> ~ In c d -> ~ In c (a ++ b ++ d).
Proof. intros H1 H2 H3. rewrite !in_app_iff. tauto. Qed.

Lemma negot_elem_render st e : elem_wf e ->
  negot_elem st (render_elem e) = Ok (Some (update st (e_coding e) (elem_quality e))).
Proof.
  intros (Hpre & Htok & Hpost & Hw). unfold negot_elem, render_elem, elem_quality.
  destruct (e_w e) as [[[w1 w2] w]|].
  - destruct Hw as (Hw1 & Hw2 & Hwok).
    pose proof (render_weight_token w Hwok) as Hrw.
    unfold split_once.
    replace (e_pre e ++ e_coding e ++ (w1 ++ [59] ++ w2 ++ bs "q=" ++ render_weight w) ++ e_post e)
      with ((e_pre e ++ e_coding e ++ w1) ++ 59 :: (w2 ++ (bs "q=" ++ render_weight w) ++ e_post e))
      by (rewrite <- !app_assoc; reflexivity).
    rewrite find_app_no by (apply not_in_app3; [apply ows_no|apply token_no|apply ows_no]; auto).
    rewrite firstn_len, skipn_S_len.
    rewrite (trim_noows (e_pre e) (e_coding e) w1) by (auto using token_noows).
    rewrite (trim_noows w2 (bs "q=" ++ render_weight w) (e_post e)); try assumption.
    2:{ unfold noows. rewrite forallb_app. change (forallb (fun b => negb (is_ows b)) (bs "q=")) with true.
        cbn [andb]. apply token_noows. exact Hrw. }
    rewrite strip_prefix_app. destruct (parse_qvalue_grammar w Hwok) as [-> _]. cbn [bind]. reflexivity.
  - rewrite app_nil_l. unfold split_once.
    rewrite find_none by (apply not_in_app3; [apply ows_no|apply token_no|apply ows_no]; auto).
    cbn [bind]. rewrite trim_noows by (auto using token_noows). reflexivity.
Qed.

(* ---------------------------------------------------------------- the list *)
Lemma render_elem_no_comma e : elem_wf e -> ~ In 44 (render_elem e).
Proof.
  intros (Hpre & Htok & Hpost & Hw). unfold render_elem. rewrite !in_app_iff. intros [H|[H|[H|H]]].
  - revert H. apply ows_no; auto.
  - revert H. apply token_no; auto.
  - destruct (e_w e) as [[[w1 w2] w]|]; [|destruct H]. destruct Hw as (Hw1 & Hw2 & Hwok).
    rewrite !in_app_iff in H. destruct H as [H|[H|[H|[H|H]]]].
    + revert H. apply ows_no; auto.
    + cbn in H. destruct H as [H|[]]. discriminate.
    + revert H. apply ows_no; auto.
    + cbn in H. destruct H as [H|[H|[]]]; discriminate.
    + revert H. apply token_no; [auto|]. now apply render_weight_token.
  - revert H. apply ows_no; auto.
Qed.

Lemma split_render_list l : l <> [] -> Forall elem_wf l -> split_on 44 (render_list l) = map render_elem l.
Proof.
  induction l as [|e t IH]; [congruence|]; intros _ HF. inversion HF as [|? ? He Ht]; subst.
  destruct t as [|e2 t2].
  - cbn [render_list map]. apply split_on_nosep. now apply render_elem_no_comma.
  - change (render_list (e :: e2 :: t2)) with (render_elem e ++ 44 :: render_list (e2 :: t2)).
    rewrite split_on_app by (now apply render_elem_no_comma). cbn [map]. f_equal. apply IH; [discriminate|assumption].
Qed.

Definition fold_state (st : qstate) (l : list elem) : qstate :=
  fold_left (fun s e => update s (e_coding e) (elem_quality e)) l st.

Lemma negot_elems_render l : Forall elem_wf l -> forall st,
  negot_elems st (map render_elem l) = Ok (Some (fold_state st l)).
Proof.
  induction l as [|e t IH]; intros HF st; cbn [map negot_elems fold_state fold_left]; [reflexivity|].
  inversion HF as [|? ? He Ht]; subst. rewrite negot_elem_render by assumption. cbn [bind]. now apply IH.
Qed.

(* the three accumulators are the qualities of the last element naming each coding *)
Lemma fold_state_quality l : forall st,
  fold_state st l = {| q_gzip := quality_of (bs "gzip") l (q_gzip st);
                       q_identity := quality_of (bs "identity") l (q_identity st);
                       q_star := quality_of (bs "*") l (q_star st) |}.
Proof.
  induction l as [|e t IH]; intros st; cbn [fold_state fold_left quality_of].
  - destruct st; reflexivity.
  - fold (fold_state (update st (e_coding e) (elem_quality e)) t). rewrite IH. unfold update.
    destruct (beq_bytes (e_coding e) (bs "gzip")) eqn:E1.
    + apply beq_bytes_spec in E1. rewrite E1. reflexivity.
    + destruct (beq_bytes (e_coding e) (bs "identity")) eqn:E2.
      * apply beq_bytes_spec in E2. rewrite E2. reflexivity.
      * destruct (beq_bytes (e_coding e) (bs "*")) eqn:E3; reflexivity.
Qed.

Lemma visible_token t : token t -> forallb is_visible t = true.
Proof.
  unfold token. rewrite !forallb_forall. intros H x Hx. specialize (H x Hx). unfold tchar in H.
  destruct (is_visible x); [reflexivity|discriminate].
Qed.
Lemma visible_ows' ws : all_ows ws -> forallb is_visible ws = true.
Proof.
  unfold all_ows. rewrite !forallb_forall. intros H x Hx. specialize (H x Hx). unfold is_ows in H. unfold is_visible. lia.
Qed.
Lemma visible_render_elem e : elem_wf e -> forallb is_visible (render_elem e) = true.
Proof.
  intros (Hpre & Htok & Hpost & Hw). unfold render_elem. rewrite !forallb_app.
  rewrite (visible_ows' _ Hpre), (visible_token _ Htok), (visible_ows' _ Hpost). cbn [andb].
  destruct (e_w e) as [[[w1 w2] w]|]; [|reflexivity]. destruct Hw as (Hw1 & Hw2 & Hwok).
  rewrite !forallb_app, (visible_ows' _ Hw1), (visible_ows' _ Hw2), (visible_token _ (render_weight_token w Hwok)).
  reflexivity.
Qed.
Lemma visible_render_list l : Forall elem_wf l -> forallb is_visible (render_list l) = true.
Proof.
  induction l as [|e t IH]; intros HF; [reflexivity|]. inversion HF as [|? ? He Ht]; subst.
  destruct t as [|e2 t2]; [now apply visible_render_elem|].
  change (render_list (e :: e2 :: t2)) with (render_elem e ++ 44 :: render_list (e2 :: t2)).
  rewrite forallb_app, visible_render_elem by assumption. cbn [forallb andb]. now apply IH.
Qed.

(* C16: for every grammatical Accept-Encoding value -- any number of elements, any codings, any
   grammatical weights, optional whitespace around "," and ";" -- should_gzip returns exactly the
   RFC 7231 5.3.4 preference, and does not panic. *)
Theorem should_gzip_grammar l : l <> [] -> Forall elem_wf l ->
  should_gzip (Some (render_list l)) = Ok (prefers_gzip l).
Proof.
  intros Hne HF. unfold should_gzip, to_str. rewrite visible_render_list by assumption.
  rewrite split_render_list, negot_elems_render by assumption. cbn [bind].
  rewrite fold_state_quality. cbn [q_gzip q_identity q_star]. unfold negot_final, prefers_gzip.
  cbn [q_gzip q_identity q_star].
  destruct (quality_of (bs "gzip") l None), (quality_of (bs "identity") l None), (quality_of (bs "*") l None); reflexivity.
Qed.

(* absent or empty header: false *)
Theorem should_gzip_absent : should_gzip None = Ok false /\ should_gzip (Some []) = Ok false.
Proof. split; reflexivity. Qed.

(* a header naming only other codings: false *)
Theorem should_gzip_others l : l <> [] -> Forall elem_wf l ->
  Forall (fun e => e_coding e <> bs "gzip" /\ e_coding e <> bs "*") l ->
  should_gzip (Some (render_list l)) = Ok false.
Proof.
  intros Hne HF Ho. rewrite should_gzip_grammar by assumption. f_equal. unfold prefers_gzip.
  assert (G : forall c, (c = bs "gzip" \/ c = bs "*") -> quality_of c l None = None).
  { intros c Hc. clear Hne HF. induction l as [|e t IH]; [reflexivity|]. inversion Ho as [|? ? [H1 H2] Ht]; subst.
    cbn [quality_of]. destruct (beq_bytes (e_coding e) c) eqn:E; [|now apply IH].
    apply beq_bytes_spec in E. destruct Hc; subst; contradiction. }
  rewrite (G (bs "gzip")), (G (bs "*")) by auto. reflexivity.
Qed.

(* no header value makes should_gzip panic *)
Lemma negot_elem_total st qi : exists o, negot_elem st qi = Ok o.
Proof.
  unfold negot_elem. destruct (split_once 59 qi) as [[c q]|]; cbn [bind]; [|eauto].
  destruct (strip_prefix _ _) as [qv|]; cbn [bind]; [|eauto].
  destruct (parse_qvalue_total qv) as [o ->]. cbn [bind]. destruct o; eauto.
Qed.
Lemma negot_elems_total l : forall st, exists o, negot_elems st l = Ok o.
Proof.
  induction l as [|qi t IH]; intros st; cbn [negot_elems]; [eauto|].
  destruct (negot_elem_total st qi) as [o ->]. cbn [bind]. destruct o; eauto.
Qed.
Theorem should_gzip_total h : exists b, should_gzip h = Ok b.
Proof.
  unfold should_gzip. destruct h as [v|]; [|eauto]. destruct (to_str v); [|eauto].
  destruct (negot_elems_total (split_on 44 b) {| q_gzip := None; q_identity := None; q_star := None |}) as [o ->].
  cbn [bind]. eauto.
Qed.
