(* State machines of Model/Body.v: byte accounting, fusing, absence of panics. *)
From HS Require Import Lib.Base Lib.Bytes Model.Body.
Ltac Zify.zify_post_hook ::= Z.div_mod_to_equations.

Definition data_len (r : pollres) : N := match r with PData d => lenN d | _ => 0 end.
Definition is_perr (r : pollres) : bool := match r with PErr _ => true | _ => false end.
Definition is_pend (r : pollres) : bool := match r with PEnd => true | _ => false end.
Definition is_terminal (r : pollres) : bool := is_perr r || is_pend r.

(* ------------------------------------------------------------------ ExactLenStream *)

(* one poll: what was announced as remaining is what is still remaining plus what was delivered *)
Lemma xl_poll_accounting x x' r : xl_poll x = (x', r) ->
  match r with
  | PData d => x_rem x = x_rem x' + lenN d
  | PPending => x_rem x' = x_rem x
  | PEnd => x_rem x = 0 /\ x' = x /\ x_s x = []
  | PErr (ErrEntity _) => x_rem x' = x_rem x
  | PErr _ => x_rem x' = 0
  end.
Proof.
  unfold xl_poll. destruct (x_s x) as [|[|d|c] t] eqn:Hs.
  - destruct (N.eqb_spec (x_rem x) 0) as [Hz|Hz]; intros HH; inversion HH; subst; cbn; auto.
  - intros HH; inversion HH; subst; reflexivity.
  - destruct (N.leb_spec (lenN d) (x_rem x)) as [Hle|Hgt]; intros HH; inversion HH; subst; cbn [x_rem]; lia.
  - intros HH; inversion HH; subst; reflexivity.
Qed.

(* each poll consumes one scripted event (or the stream is already exhausted) *)
Lemma xl_poll_stream x x' r : xl_poll x = (x', r) -> x_s x' = tl (x_s x).
Proof.
  unfold xl_poll. destruct (x_s x) as [|[|d|c] t] eqn:Hs.
  - destruct (x_rem x =? 0); intros H; inversion H; subst; cbn; auto.
  - intros H; inversion H; reflexivity.
  - destruct (lenN d <=? x_rem x); intros H; inversion H; reflexivity.
  - intros H; inversion H; reflexivity.
Qed.

(* A clean end is only ever reported when nothing is owed (C07 for one range). *)
Lemma xl_end_means_complete x x' : xl_poll x = (x', PEnd) -> x_rem x = 0.
Proof. intros H. now destruct (xl_poll_accounting _ _ _ H). Qed.

(* The stream ending early, or failing, is an error -- whatever came before. *)
Lemma xl_short_is_error x : x_s x = [] -> x_rem x <> 0 ->
  xl_poll x = ({| x_s := []; x_rem := 0 |}, PErr (ErrShort (x_rem x))).
Proof. intros Hs Hr. unfold xl_poll. rewrite Hs. destruct (N.eqb_spec (x_rem x) 0); [contradiction|reflexivity]. Qed.
Lemma xl_error_is_error x c t : x_s x = EvErr c :: t -> snd (xl_poll x) = PErr (ErrEntity c).
Proof. intros Hs. unfold xl_poll. now rewrite Hs. Qed.
(* A chunk bigger than what is owed is never passed on. *)
Lemma xl_long_is_error x d t : x_s x = EvData d :: t -> x_rem x < lenN d ->
  snd (xl_poll x) = PErr (ErrLong (lenN d - x_rem x)).
Proof. intros Hs Hr. unfold xl_poll. rewrite Hs. destruct (N.leb_spec (lenN d) (x_rem x)); [lia|reflexivity]. Qed.
Lemma xl_data_within x x' d : xl_poll x = (x', PData d) -> lenN d <= x_rem x.
Proof. intros H. pose proof (xl_poll_accounting _ _ _ H) as A. cbn in A. lia. Qed.

(* ------------------------------------------------------------------ generic runs *)

(* n polls of a body: the results and the final state; Panic if any poll panics *)
Fixpoint run (n : nat) (streams : list (list ev)) (b : body) : M (list pollres * body) :=
  match n with
  | O => Ok ([], b)
  | S k =>
      match body_poll streams b with
      | Panic t => Panic t
      | Ok (b', r) =>
          match run k streams b' with
          | Panic t => Panic t
          | Ok (rs, bf) => Ok (r :: rs, bf)
          end
      end
  end.

Definition delivered (rs : list pollres) : N := sumN (map data_len rs).

Lemma delivered_cons r rs : delivered (r :: rs) = data_len r + delivered rs.
Proof. reflexivity. Qed.
Lemma delivered_app a b : delivered (a ++ b) = delivered a + delivered b.
Proof. unfold delivered. induction a as [|x a IH]; cbn [app map sumN]; [reflexivity|]. rewrite IH. lia. Qed.

(* One poll of any body, when it does not panic: the exact size hint decreases by exactly
   the bytes delivered; it is 0 after a clean end. *)
Definition mp_acct (m m' : mp) (r : pollres) : Prop :=
  match r with
  | PData d => m_rem m = m_rem m' + lenN d
  | PPending => m_rem m' = m_rem m
  | PEnd => m_rem m' = 0 /\ m_rem m = 0
  | PErr _ => m_rem m' = 0
  end.

Lemma mp_idle_accounting streams again :
  (forall m m' r, again m = Ok (m', r) -> mp_acct m m' r) ->
  forall m m' r, mp_idle streams again m = Ok (m', r) -> mp_acct m m' r.
Proof.
  intros Hag m0 m1 r1 Hi. unfold mp_idle in Hi.
  destruct (Nat.eqb (Nat.div2 (m_state m0)) (length (m_ranges m0)) && Nat.odd (m_state m0)).
  - destruct (N.eqb_spec (m_rem m0) 0) as [Hz|Hz]; [|discriminate]. inversion Hi; subst. cbn. auto.
  - destruct (Nat.eqb (Nat.div2 (m_state m0)) (length (m_ranges m0))).
    + unfold u64_sub in Hi. destruct (N.leb_spec (lenN PART_TRAILER) (m_rem m0)) as [Hle|Hgt]; [|discriminate].
      cbn [bind] in Hi. inversion Hi; subst. cbn [mp_acct m_rem]. lia.
    + destruct (Nat.odd (m_state m0)).
      * destruct (nth_error (m_ranges m0) _) as [[a e]|]; [|discriminate].
        unfold u64_sub in Hi. destruct (N.leb_spec a e) as [Hle|Hgt]; [|discriminate]. cbn [bind] in Hi.
        apply Hag in Hi. destruct r1; cbn [mp_acct m_rem] in *; exact Hi.
      * destruct (nth_error (m_ph m0) _) as [v|]; [|discriminate].
        unfold u64_sub in Hi. destruct (N.leb_spec (lenN v) (m_rem m0)) as [Hle|Hgt]; [|discriminate].
        cbn [bind] in Hi. inversion Hi; subst. cbn [mp_acct m_rem]. lia.
Qed.

Lemma mp_poll_accounting fuel streams : forall m m' r, mp_poll fuel streams m = Ok (m', r) -> mp_acct m m' r.
Proof.
  induction fuel as [|f IH]; intros m m' r HH; cbn [mp_poll] in HH; [discriminate|].
  destruct (m_cur m) as [x|]; [|eapply mp_idle_accounting; eauto].
  destruct (xl_poll x) as [x' rx] eqn:Hx. destruct rx as [|d| |e].
  - inversion HH; subst. reflexivity.
  - unfold u64_sub in HH. destruct (N.leb_spec (lenN d) (m_rem m)) as [Hle|Hgt]; [|discriminate].
    cbn [bind] in HH. inversion HH; subst. cbn [mp_acct m_rem]. lia.
  - eapply mp_idle_accounting in HH; [|exact IH]. destruct r; cbn [mp_acct m_rem] in *; exact HH.
  - inversion HH; subst. reflexivity.
Qed.

Lemma body_poll_accounting streams b b' r : body_poll streams b = Ok (b', r) ->
  match r with
  | PData d => body_hint b = body_hint b' + lenN d
  | PPending => body_hint b' = body_hint b
  | PEnd => body_hint b' = 0 /\ body_hint b = 0
  | PErr _ => body_hint b' <= body_hint b
  end.
Proof.
  destruct b as [o|x|m]; cbn [body_poll].
  - intros H; inversion H; subst. destruct o as [d|]; cbn [body_hint]; lia.
  - destruct (xl_poll x) as [x' rx] eqn:Hx. intros H; inversion H; subst.
    pose proof (xl_poll_accounting _ _ _ Hx) as A. cbn [body_hint].
    destruct r as [|d| |[c|n|n]]; try lia. destruct A as (A1 & A2 & _). subst. lia.
  - destruct (mp_poll MP_FUEL streams m) as [[m' rm]|t] eqn:Hm; cbn [bind]; [|discriminate].
    intros H; inversion H; subst. pose proof (mp_poll_accounting _ _ _ _ _ Hm) as A. cbn [body_hint].
    destruct r; cbn [mp_acct] in A; lia.
Qed.

(* C01, "no body ever delivers more than was announced": over any number of polls, what was
   delivered plus what the body still announces never exceeds the initial announcement --
   with equality as long as no error occurred. *)
Theorem run_never_more n : forall streams b rs bf, run n streams b = Ok (rs, bf) ->
  delivered rs + body_hint bf <= body_hint b /\
  (existsb is_perr rs = false -> delivered rs + body_hint bf = body_hint b).
Proof.
  induction n as [|k IH]; intros streams b rs bf H; cbn [run] in H.
  - inversion H; subst. cbn. split; lia.
  - destruct (body_poll streams b) as [[b' r]|t] eqn:Hp; [|discriminate].
    destruct (run k streams b') as [[rs' bf']|t] eqn:Hr; [|discriminate].
    inversion H; subst. destruct (IH _ _ _ _ Hr) as [I1 I2].
    pose proof (body_poll_accounting _ _ _ _ Hp) as A. rewrite delivered_cons.
    destruct r as [|d| |e]; cbn [data_len existsb is_perr orb] in *; split; try lia; try discriminate;
      intros E; specialize (I2 E); lia.
Qed.

(* C01, "a body that ends cleanly has delivered exactly the number of bytes announced". *)
Theorem run_clean_end n : forall streams b rs bf, run n streams b = Ok (rs, bf) ->
  existsb is_perr rs = false -> existsb is_pend rs = true -> delivered rs = body_hint b.
Proof.
  induction n as [|k IH]; intros streams b rs bf H He Hd; cbn [run] in H.
  - inversion H; subst. discriminate.
  - destruct (body_poll streams b) as [[b' r]|t] eqn:Hp; [|discriminate].
    destruct (run k streams b') as [[rs' bf']|t] eqn:Hr; [|discriminate].
    inversion H; subst. pose proof (body_poll_accounting _ _ _ _ Hp) as A. rewrite delivered_cons.
    cbn [existsb] in He, Hd. apply orb_false_elim in He. destruct He as [He1 He2].
    destruct r as [|d| |e]; cbn [data_len is_perr is_pend orb] in *; try discriminate.
    + rewrite (IH _ _ _ _ Hr He2 Hd). lia.
    + rewrite (IH _ _ _ _ Hr He2 Hd). lia.
    + destruct (run_never_more _ _ _ _ _ Hr) as [I1 _]. lia.
Qed.

(* C12: at every step the (exact) hint is what a clean run still delivers: splitting a clean run
   anywhere, the hint at the split equals the bytes delivered afterwards. *)
Lemma run_app n1 n2 streams b rs bf : run (n1 + n2) streams b = Ok (rs, bf) ->
  exists rs1 rs2 bm, run n1 streams b = Ok (rs1, bm) /\ run n2 streams bm = Ok (rs2, bf) /\ rs = rs1 ++ rs2.
Proof.
  revert b rs bf; induction n1 as [|k IH]; intros b rs bf H.
  - exists [], rs, b. cbn. auto.
  - cbn [Nat.add run] in H. destruct (body_poll streams b) as [[b' r]|t] eqn:Hp; [|discriminate].
    destruct (run (k + n2) streams b') as [[rs' bf']|t] eqn:Hr; [|discriminate].
    inversion H; subst. destruct (IH _ _ _ Hr) as (rs1 & rs2 & bm & H1 & H2 & E).
    exists (r :: rs1), rs2, bm. cbn [run]. rewrite Hp, H1. subst. auto.
Qed.

Theorem hint_truthful_at_every_step n1 n2 streams b rs1 rs2 bm bf :
  run n1 streams b = Ok (rs1, bm) -> run n2 streams bm = Ok (rs2, bf) ->
  existsb is_perr rs2 = false -> existsb is_pend rs2 = true ->
  body_hint bm = delivered rs2.
Proof. intros _ H2 He Hd. symmetry. eapply run_clean_end; eauto. Qed.

(* ------------------------------------------------------------------ MultipartStream invariant *)

Fixpoint tail_len (phs : list bytes) (rs : list (N * N)) : N :=
  match phs, rs with
  | p :: phs', (a, e) :: rs' => lenN p + (e - a) + tail_len phs' rs'
  | _, _ => 0
  end.

Lemma div2_double i : Nat.div2 (2 * i) = i.
Proof. apply Nat.div2_double. Qed.
Lemma div2_double1 i : Nat.div2 (S (2 * i)) = i.
Proof. apply Nat.div2_succ_double. Qed.
Lemma odd_double i : Nat.odd (2 * i) = false.
Proof. rewrite Nat.odd_mul. reflexivity. Qed.
Lemma odd_double1 i : Nat.odd (S (2 * i)) = true.
Proof. rewrite Nat.odd_succ, Nat.even_mul. reflexivity. Qed.

Lemma skipn_nth {A} (l : list A) i x : nth_error l i = Some x -> skipn i l = x :: skipn (S i) l.
Proof.
  revert i; induction l as [|y l IH]; intros [|i] H; cbn in *; try discriminate.
  - now inversion H.
  - now apply IH.
Qed.
Lemma set_nth_length {A} i (v : A) l : (i < length l)%nat -> length (set_nth i v l) = length l.
Proof.
  intros Hi. unfold set_nth. rewrite app_length, firstn_length_le by lia.
  destruct (skipn i l) as [|y t] eqn:E.
  - apply (f_equal (@length A)) in E. rewrite skipn_length in E. cbn in E. lia.
  - apply (f_equal (@length A)) in E. rewrite skipn_length in E. cbn [length] in *. lia.
Qed.
Lemma set_nth_skipn {A} i (v : A) l : (i < length l)%nat -> skipn (S i) (set_nth i v l) = skipn (S i) l.
Proof.
  revert i; induction l as [|y l IH]; intros i Hi; [cbn in Hi; lia|].
  destruct i as [|i].
  - reflexivity.
  - unfold set_nth in *. cbn [firstn skipn app length] in *. apply IH. lia.
Qed.
Lemma nth_error_some_lt {A} (l : list A) i : (i < length l)%nat -> exists x, nth_error l i = Some x.
Proof. intros Hi. destruct (nth_error l i) eqn:E; [eauto|]. apply nth_error_None in E. lia. Qed.

Definition TRAILER_LEN : N := 9.
Lemma trailer_len : lenN PART_TRAILER = TRAILER_LEN.
Proof. reflexivity. Qed.

(* The states a MultipartStream can be in between polls, with what `remaining` then equals:
   the announced length of everything not yet emitted. Holds whatever the entity streams do. *)
Inductive MState (m : mp) : Prop :=
| MS_header i :                     (* about to emit part header i, or the trailer when i = n *)
    m_state m = (2 * i)%nat -> m_cur m = None -> (i <= length (m_ranges m))%nat ->
    m_rem m = tail_len (skipn i (m_ph m)) (skipn i (m_ranges m)) + TRAILER_LEN -> MState m
| MS_open i a e :                   (* header i emitted, get_range not yet called *)
    m_state m = S (2 * i) -> m_cur m = None -> nth_error (m_ranges m) i = Some (a, e) ->
    m_rem m = (e - a) + tail_len (skipn (S i) (m_ph m)) (skipn (S i) (m_ranges m)) + TRAILER_LEN -> MState m
| MS_body i x :                     (* streaming part i *)
    m_state m = S (2 * i) -> m_cur m = Some x -> (i < length (m_ranges m))%nat ->
    m_rem m = x_rem x + tail_len (skipn (S i) (m_ph m)) (skipn (S i) (m_ranges m)) + TRAILER_LEN -> MState m
| MS_done :                         (* after the trailer, or fused after an error *)
    m_state m = mp_end_state m -> m_cur m = None -> m_rem m = 0 -> MState m.

Definition MInv (m : mp) : Prop :=
  length (m_ph m) = length (m_ranges m) /\ Forall (fun r => fst r <= snd r) (m_ranges m) /\ MState m.

Lemma mp_poll_S f streams m : mp_poll (S f) streams m =
      match m_cur m with
       | Some x => let (x', r) := xl_poll x in
           match r with
           | PData d0 => let! rem := u64_sub (m_rem m) (lenN d0) in
               Ok ({| m_cur := Some x'; m_state := m_state m; m_ph := m_ph m; m_ranges := m_ranges m; m_rem := rem; m_calls := m_calls m |}, PData d0)
           | PErr e0 => Ok ({| m_cur := None; m_state := mp_end_state m; m_ph := m_ph m; m_ranges := m_ranges m; m_rem := 0; m_calls := m_calls m |}, PErr e0)
           | PEnd => mp_idle streams (mp_poll f streams) {| m_cur := None; m_state := S (m_state m); m_ph := m_ph m; m_ranges := m_ranges m; m_rem := m_rem m; m_calls := m_calls m |}
           | PPending => Ok ({| m_cur := Some x'; m_state := m_state m; m_ph := m_ph m; m_ranges := m_ranges m; m_rem := m_rem m; m_calls := m_calls m |}, PPending)
           end
       | None => mp_idle streams (mp_poll f streams) m
       end.
Proof. reflexivity. Qed.

(* the "header / trailer" step never recurses *)
Lemma mp_idle_header streams again m i :
  length (m_ph m) = length (m_ranges m) -> Forall (fun r => fst r <= snd r) (m_ranges m) ->
  m_state m = (2 * i)%nat -> m_cur m = None -> (i <= length (m_ranges m))%nat ->
  m_rem m = tail_len (skipn i (m_ph m)) (skipn i (m_ranges m)) + TRAILER_LEN ->
  exists m' d, mp_idle streams again m = Ok (m', PData d) /\ MInv m'.
Proof.
  intros Hl Hr Hs Hc Hi Hrem. unfold mp_idle. rewrite Hs, div2_double, odd_double, andb_false_r.
  destruct (Nat.eqb_spec i (length (m_ranges m))) as [->|Hne].
  - (* trailer *)
    rewrite skipn_all2 in Hrem by lia. rewrite skipn_all in Hrem. cbn [tail_len] in Hrem.
    unfold u64_sub. rewrite trailer_len, Hrem. cbn [bind].
    replace (TRAILER_LEN <=? 0 + TRAILER_LEN) with true by (symmetry; apply N.leb_le; lia).
    eexists _, _. split; [reflexivity|]. split; [exact Hl|]. split; [exact Hr|].
    apply MS_done; unfold mp_end_state; cbn [m_state m_cur m_rem m_ranges]; [lia|reflexivity|lia].
  - assert (Hlt : (i < length (m_ranges m))%nat) by lia.
    destruct (nth_error_some_lt (m_ph m) i) as [v Hv]; [lia|].
    destruct (nth_error_some_lt (m_ranges m) i Hlt) as [[a e] Hre].
    rewrite Hv. rewrite (skipn_nth _ _ _ Hv), (skipn_nth _ _ _ Hre) in Hrem. cbn [tail_len] in Hrem.
    unfold u64_sub. destruct (N.leb_spec (lenN v) (m_rem m)) as [Hle|Hgt]; [|lia]. cbn [bind].
    eexists _, _. split; [reflexivity|]. split; [|split; [exact Hr|]].
    + cbn [m_ph m_ranges]. rewrite set_nth_length; [exact Hl|lia].
    + eapply (MS_open _ i a e); cbn [m_state m_cur m_rem m_ranges m_ph]; [lia|reflexivity|exact Hre|].
      rewrite set_nth_skipn by lia. lia.
Qed.

(* polling the current part *)
Lemma mp_poll_body f streams m i x :
  length (m_ph m) = length (m_ranges m) -> Forall (fun r => fst r <= snd r) (m_ranges m) ->
  m_state m = S (2 * i) -> m_cur m = Some x -> (i < length (m_ranges m))%nat ->
  m_rem m = x_rem x + tail_len (skipn (S i) (m_ph m)) (skipn (S i) (m_ranges m)) + TRAILER_LEN ->
  exists m' r, mp_poll (S f) streams m = Ok (m', r) /\ MInv m'.
Proof.
  intros Hl Hr Hs Hc Hi Hrem. rewrite mp_poll_S. rewrite Hc.
  destruct (xl_poll x) as [x' rx] eqn:Hx. pose proof (xl_poll_accounting _ _ _ Hx) as A.
  destruct rx as [|d| |e].
  - eexists _, _. split; [reflexivity|]. split; [exact Hl|split; [exact Hr|]].
    eapply (MS_body _ i x'); cbn [m_state m_cur m_rem m_ranges m_ph]; auto. lia.
  - unfold u64_sub. destruct (N.leb_spec (lenN d) (m_rem m)) as [Hle|Hgt]; [|lia]. cbn [bind].
    eexists _, _. split; [reflexivity|]. split; [exact Hl|split; [exact Hr|]].
    eapply (MS_body _ i x'); cbn [m_state m_cur m_rem m_ranges m_ph]; auto. lia.
  - destruct A as (A1 & A2 & A3).
    destruct (mp_idle_header streams (mp_poll f streams)
                {| m_cur := None; m_state := S (m_state m); m_ph := m_ph m; m_ranges := m_ranges m;
                   m_rem := m_rem m; m_calls := m_calls m |} (S i)) as (m' & d & E & I);
      cbn [m_state m_cur m_rem m_ranges m_ph]; auto; try lia.
    eexists _, _. split; [exact E|exact I].
  - eexists _, _. split; [reflexivity|]. split; [exact Hl|split; [exact Hr|]].
    apply MS_done; reflexivity.
Qed.

(* C13 / C20 for multipart bodies: from any reachable state, with any entity streams, a poll
   neither panics nor runs out of fuel, and the invariant is kept. *)
Theorem mp_poll_total streams m : MInv m -> exists m' r, mp_poll MP_FUEL streams m = Ok (m', r) /\ MInv m'.
Proof.
  intros (Hl & Hr & Hst). unfold MP_FUEL. destruct Hst as [i Hs Hc Hi Hrem|i a e Hs Hc Hre Hrem|i x Hs Hc Hi Hrem|Hs Hc Hrem].
  - destruct (mp_idle_header streams (mp_poll 3 streams) m i Hl Hr Hs Hc Hi Hrem) as (m' & d & E & I).
    exists m', (PData d). split; [|exact I]. rewrite mp_poll_S.
    rewrite Hc. exact E.
  - assert (Hi : (i < length (m_ranges m))%nat) by (apply nth_error_Some; congruence).
    assert (Hae : a <= e). { rewrite Forall_forall in Hr. apply (Hr (a, e)). eapply nth_error_In; eauto. }
    destruct (mp_poll_body 2 streams
                {| m_cur := Some {| x_s := stream_of streams (length (m_calls m)); x_rem := e - a |};
                   m_state := m_state m; m_ph := m_ph m; m_ranges := m_ranges m;
                   m_rem := m_rem m; m_calls := (a, e) :: m_calls m |} i
                {| x_s := stream_of streams (length (m_calls m)); x_rem := e - a |})
      as (m' & r & E & I); cbn [m_state m_cur m_rem m_ranges m_ph x_rem]; try assumption; try reflexivity.
    exists m', r. split; [|exact I]. rewrite <- E.
    rewrite mp_poll_S.
    rewrite Hc. unfold mp_idle at 1.
    rewrite Hs, div2_double1, odd_double1, andb_true_r.
    destruct (Nat.eqb_spec i (length (m_ranges m))) as [Heq|_]; [lia|]. rewrite Hre.
    unfold u64_sub. destruct (N.leb_spec a e) as [_|Hgt]; [|lia]. cbn [bind]. reflexivity.
  - apply (mp_poll_body 3 streams m i x); assumption.
  - exists m, PEnd. split; [|split; [exact Hl|split; [exact Hr|now apply MS_done]]].
    rewrite mp_poll_S.
    rewrite Hc. unfold mp_idle. rewrite Hs. unfold mp_end_state.
    rewrite div2_double1, odd_double1, Nat.eqb_refl. cbn [andb]. rewrite Hrem. rewrite N.eqb_refl. reflexivity.
Qed.

(* C20 for multipart bodies: once fused (after the trailer or after any error) every further
   poll is a clean None and the state no longer changes. *)
Lemma mp_done_stays streams m : m_state m = mp_end_state m -> m_cur m = None -> m_rem m = 0 ->
  mp_poll MP_FUEL streams m = Ok (m, PEnd).
Proof.
  intros Hs Hc Hrem. unfold MP_FUEL. rewrite mp_poll_S. rewrite Hc. unfold mp_idle. rewrite Hs. unfold mp_end_state.
  rewrite div2_double1, odd_double1, Nat.eqb_refl. cbn [andb]. rewrite Hrem. rewrite N.eqb_refl. reflexivity.
Qed.

(* after an error or the end, the stream is in the fused state *)
Lemma mp_terminal_fuses streams m m' r : MInv m -> mp_poll MP_FUEL streams m = Ok (m', r) -> is_terminal r = true ->
  m_state m' = mp_end_state m' /\ m_cur m' = None /\ m_rem m' = 0.
Proof.
  intros (Hl & Hr & Hst) HH Ht. unfold MP_FUEL in HH.
  assert (Hbody : forall f m0 i x, m_state m0 = S (2 * i) -> m_cur m0 = Some x -> (i < length (m_ranges m0))%nat ->
            length (m_ph m0) = length (m_ranges m0) ->
            mp_poll (S f) streams m0 = Ok (m', r) ->
            m_state m' = mp_end_state m' /\ m_cur m' = None /\ m_rem m' = 0).
  { intros f m0 i x Hs Hc Hi Hl0 H0. rewrite mp_poll_S in H0. rewrite Hc in H0.
    destruct (xl_poll x) as [x' rx] eqn:Hx. destruct rx as [|d| |e].
    - inversion H0; subst. discriminate.
    - unfold u64_sub in H0. destruct (lenN d <=? m_rem m0); [|discriminate]. cbn [bind] in H0.
      inversion H0; subst. discriminate.
    - unfold mp_idle in H0. cbn [m_state m_ranges m_ph m_rem m_cur] in H0.
      rewrite Hs in H0. change (S (S (2 * i))) with (2 + 2 * i)%nat in H0.
      replace (2 + 2 * i)%nat with (2 * (S i))%nat in H0 by lia.
      rewrite div2_double, odd_double, andb_false_r in H0.
      destruct (Nat.eqb (S i) (length (m_ranges m0))).
      + unfold u64_sub in H0. destruct (lenN PART_TRAILER <=? m_rem m0); [|discriminate]. cbn [bind] in H0.
        inversion H0; subst. discriminate.
      + destruct (nth_error (m_ph m0) (S i)); [|discriminate].
        unfold u64_sub in H0. destruct (_ <=? m_rem m0); [|discriminate]. cbn [bind] in H0.
        inversion H0; subst. discriminate.
    - inversion H0; subst. cbn. auto. }
  destruct Hst as [i Hs Hc Hi Hrem|i a e Hs Hc Hre Hrem|i x Hs Hc Hi Hrem|Hs Hc Hrem].
  - rewrite mp_poll_S in HH. rewrite Hc in HH.
    destruct (mp_idle_header streams (mp_poll 3 streams) m i Hl Hr Hs Hc Hi Hrem) as (m1 & d & E & I).
    rewrite E in HH. inversion HH; subst. discriminate.
  - assert (Hi : (i < length (m_ranges m))%nat) by (apply nth_error_Some; congruence).
    rewrite mp_poll_S in HH. rewrite Hc in HH. unfold mp_idle in HH.
    rewrite Hs, div2_double1, odd_double1, andb_true_r in HH.
    destruct (Nat.eqb_spec i (length (m_ranges m))) as [Heq|_]; [lia|]. rewrite Hre in HH.
    unfold u64_sub in HH. destruct (a <=? e); [|discriminate]. cbn [bind] in HH.
    eapply (Hbody 2%nat _ i); [| | | |exact HH]; cbn [m_state m_cur m_ranges m_ph]; auto.
  - eapply (Hbody 3%nat m i x); eauto.
  - pose proof (mp_done_stays streams m Hs Hc Hrem) as D. unfold MP_FUEL in D. rewrite D in HH. inversion HH; subst. auto.
Qed.
