(* Consequences of the shape theorem: lengths (C01), bytes (C02), validators (C14), HEAD (C15). *)
From Coq Require Import String.
From HS Require Import Lib.Base Lib.Bytes Lib.Dec Model.Range Model.Etag Model.Body Model.Serve
  Proofs.RangeP Proofs.BodyP Proofs.BodyRun Proofs.ServeP.
Ltac Zify.zify_post_hook ::= Z.div_mod_to_equations.

Definition values (name : bytes) (h : list (bytes * bytes)) : list bytes :=
  map snd (filter (fun kv => beq_bytes (fst kv) name) h).
Lemma values_app name a b : values name (a ++ b) = values name a ++ values name b.
Proof. unfold values. now rewrite filter_app, map_app. Qed.
Lemma values_absent name h : ~ In name (map fst h) -> values name h = [].
Proof.
  induction h as [|[k v] t IH]; intros Hn; [reflexivity|]. unfold values in *. cbn [filter map fst] in *.
  destruct (beq_bytes k name) eqn:E.
  - apply beq_bytes_spec in E. subst. exfalso. apply Hn. now left.
  - apply IH. intros Hin. apply Hn. now right.
Qed.

Definition with_meth (m : bytes) (req : request) : request :=
  {| r_meth := m; r_range := r_range req; r_if_range := r_if_range req; r_if_match := r_if_match req;
     r_inm := r_inm req; r_ims := r_ims req; r_ius := r_ius req |}.
Definition head_plan (p : plan) : plan := match p with PlOnce o => PlOnce o | _ => PlOnce None end.

Section WithDates.
Variable fmt_date : N -> bytes.
Variable parse_date : bytes -> option N.
Notation serve := (serve_model fmt_date parse_date).

(* ---- C15: the response to HEAD is the response to GET with the body-bearing plans emptied ---- *)
Theorem head_mirrors_get now ent req :
  serve now ent (with_meth HEAD req) =
  match serve now ent (with_meth GET req) with
  | Ok g => Ok {| status := status g; hdrs := hdrs g; rplan := head_plan (rplan g) |}
  | Panic t => Panic t
  end.
Proof.
  unfold serve_model.
  change (r_meth (with_meth HEAD req)) with HEAD. change (r_meth (with_meth GET req)) with GET.
  change (beq_bytes HEAD GET) with false. change (beq_bytes HEAD HEAD) with true.
  change (beq_bytes GET GET) with true. change (beq_bytes GET HEAD) with false. cbn [negb andb].
  change (parse_modified_hdrs parse_date (e_etag ent) (with_meth HEAD req) (e_lm ent))
    with (parse_modified_hdrs parse_date (e_etag ent) (with_meth GET req) (e_lm ent)).
  change (if_range_gate (e_etag ent) (with_meth HEAD req)) with (if_range_gate (e_etag ent) (with_meth GET req)).
  destruct (parse_modified_hdrs parse_date (e_etag ent) (with_meth GET req) (e_lm ent)) as [msg|pf nm]; [reflexivity|].
  destruct (if_range_gate (e_etag ent) (with_meth GET req)) as [rh inc].
  destruct pf; [reflexivity|]. destruct nm; [reflexivity|].
  destruct (range_parse rh (e_len ent)) as [| |l].
  - destruct (u64_sub (e_len ent) 0); reflexivity.
  - reflexivity.
  - destruct l as [|[a e] [|p2 l2]].
    + destruct (est_len [] 0) as [[x|]|]; cbn [bind]; try reflexivity.
      * destruct (x <? e_len ent).
        -- destruct (prepare_parts _ _ _ _ _) as [[[ph total]|]|]; reflexivity.
        -- destruct (u64_sub (e_len ent) 0); reflexivity.
      * destruct (u64_sub (e_len ent) 0); reflexivity.
    + destruct (u64_sub e 1); cbn [bind]; [|reflexivity]. destruct (u64_sub e a); reflexivity.
    + destruct (est_len _ 0) as [[x|]|]; cbn [bind]; try reflexivity.
      * destruct (x <? e_len ent).
        -- destruct (prepare_parts _ _ _ _ _) as [[[ph total]|]|]; reflexivity.
        -- destruct (u64_sub (e_len ent) 0); reflexivity.
      * destruct (u64_sub (e_len ent) 0); reflexivity.
Qed.

(* a HEAD response never has a body that reads the entity, and its body is empty unless it is
   one of the constant texts of 400 / 405 / 412 / 413 *)
Theorem head_reads_nothing now ent req r streams : e_len ent < U64 -> r_meth req = HEAD ->
  serve now ent req = Ok r ->
  snd (body_init streams (rplan r)) = [] /\
  (In (status r) [200; 206; 304; 416] -> rplan r = PlOnce None).
Proof.
  intros HL Hm HH. pose proof (serve_shape _ _ now ent req r HL HH) as S.
  destruct S; cbn [rplan status]; rewrite ?Hm; change (beq_bytes HEAD HEAD) with true; cbn [body_init snd];
    (split; [reflexivity|]); intros Hin; cbn [In] in Hin;
    try reflexivity; repeat (destruct Hin as [Hin|Hin]; try discriminate Hin; try lia); try contradiction.
Qed.

(* ---- C01: Content-Length ---- *)
Definition no_framing_headers (ent : entity) : Prop :=
  ~ In H_CONTENT_LENGTH (map fst (e_hdrs ent)).

Lemma values_h0 name now ent :
  name <> H_ACCEPT_RANGES -> name <> H_DATE -> name <> H_LAST_MODIFIED -> name <> H_ETAG ->
  values name (h0_of fmt_date now ent) = [].
Proof.
  intros N1 N2 N3 N4. apply values_absent. unfold h0_of. rewrite !map_app, !in_app_iff.
  destruct (e_lm ent), (e_etag ent); cbn [map fst In]; intuition congruence.
Qed.

(* Every 200 and 206 carries exactly one Content-Length, and for GET it is the decimal rendering
   of the body's exact size hint; every other response carries none. *)
Theorem content_length_announces_body now ent req r streams : e_len ent < U64 -> no_framing_headers ent ->
  serve now ent req = Ok r ->
  if (status r =? 200) || (status r =? 206) then
    exists n, values H_CONTENT_LENGTH (hdrs r) = [dec n] /\
              (r_meth req = GET -> body_hint (fst (body_init streams (rplan r))) = n)
  else values H_CONTENT_LENGTH (hdrs r) = [].
Proof.
  intros HL Hnf HH. pose proof (serve_shape _ _ now ent req r HL HH) as S.
  assert (Hcl : forall now, values H_CONTENT_LENGTH (h0_of fmt_date now ent) = [])
    by (intros; apply values_h0; discriminate).
  destruct S; cbn [status hdrs rplan N.eqb orb].
  - reflexivity.
  - reflexivity.
  - apply Hcl.
  - apply Hcl.
  - rewrite values_app, Hcl. reflexivity.
  - exists (e_len ent). rewrite !values_app, Hcl, (values_absent _ (e_hdrs ent) Hnf). split; [reflexivity|].
    intros Hm. rewrite Hm. change (beq_bytes GET HEAD) with false. cbn. lia.
  - exists (e - a). split.
    + destruct (snd (if_range_gate (e_etag ent) req)); rewrite !values_app, Hcl, ?(values_absent _ (e_hdrs ent) Hnf); reflexivity.
    + intros Hm. rewrite Hm. change (beq_bytes GET HEAD) with false. reflexivity.
  - exists total. rewrite values_app, Hcl. split; [reflexivity|].
    intros Hm. rewrite Hm. change (beq_bytes GET HEAD) with false. reflexivity.
  - reflexivity.
Qed.

(* Responses without a Content-Length still advertise their exact body size: the body is a
   constant text (or nothing) and its hint is that text's length. *)
Theorem other_statuses_exact_hint now ent req r : e_len ent < U64 -> serve now ent req = Ok r ->
  In (status r) [304; 400; 405; 412; 413; 416] ->
  exists o, rplan r = PlOnce o /\ forall streams, body_hint (fst (body_init streams (rplan r))) = match o with Some t => lenN t | None => 0 end.
Proof.
  intros HL HH Hin. pose proof (serve_shape _ _ now ent req r HL HH) as S.
  destruct S; cbn [status rplan In] in *;
    try (eexists; split; [reflexivity|]; intros; reflexivity);
    exfalso; repeat (destruct Hin as [Hin|Hin]; try discriminate Hin); contradiction.
Qed.

(* ---- C14: validators and metadata in the response ---- *)
Theorem validators_exposed now ent req r : e_len ent < U64 -> serve now ent req = Ok r ->
  In (status r) [200; 206; 304; 412; 416] ->
  exists rest, hdrs r = h0_of fmt_date now ent ++ rest.
Proof.
  intros HL HH Hin. pose proof (serve_shape _ _ now ent req r HL HH) as S.
  destruct S; cbn [status hdrs In] in *;
    try (exfalso; repeat (destruct Hin as [Hin|Hin]; try discriminate Hin); contradiction).
  - exists []. now rewrite app_nil_r.
  - exists []. now rewrite app_nil_r.
  - eexists. reflexivity.
  - eexists. rewrite <- app_assoc. reflexivity.
  - destruct (snd (if_range_gate (e_etag ent) req)); eexists; rewrite <- ?app_assoc; reflexivity.
  - eexists. reflexivity.
Qed.

(* what h0 says: Accept-Ranges: bytes; the ETag verbatim; Date = now and Last-Modified = the
   modification time truncated to the second, or the clock if that lies in the future *)
Theorem h0_contents now ent :
  In (H_ACCEPT_RANGES, bs "bytes") (h0_of fmt_date now ent) /\
  (forall e, e_etag ent = Some e -> In (H_ETAG, e) (h0_of fmt_date now ent)) /\
  (forall m, e_lm ent = Some m ->
     In (H_DATE, fmt_date now) (h0_of fmt_date now ent) /\
     exists l, In (H_LAST_MODIFIED, fmt_date l) (h0_of fmt_date now ent) /\ l <= now /\
               (m / NS <= now -> l = m / NS) /\ (now < m / NS -> l = now)).
Proof.
  unfold h0_of. split; [now left|]. split.
  - intros e ->. rewrite !in_app_iff. right. right. now left.
  - intros m ->. split; [right; now left|]. exists (N.min (m / NS) now). split; [right; right; now left|].
    split; [lia|]. split; lia.
Qed.

(* entity headers: all of them on 200 and on a single-range 206 without If-Range; none on 304 / 412 / 416 *)
Theorem entity_headers_policy now ent req r : e_len ent < U64 -> serve now ent req = Ok r ->
  (status r = 200 -> exists pre, hdrs r = pre ++ e_hdrs ent) /\
  (status r = 206 -> r_if_range req = None -> values H_CONTENT_TYPE (hdrs r) <> [bs "multipart/byteranges; boundary=B"] ->
     exists pre, hdrs r = pre ++ e_hdrs ent) /\
  (In (status r) [304; 412] -> hdrs r = h0_of fmt_date now ent) /\
  (status r = 416 -> hdrs r = h0_of fmt_date now ent ++ [(H_CONTENT_RANGE, bs "bytes */" ++ dec (e_len ent))]).
Proof.
  intros HL HH. pose proof (serve_shape _ _ now ent req r HL HH) as S.
  destruct S; cbn [status hdrs In]; (split; [|split; [|split]]); intros; try discriminate; try reflexivity.
  all: try (repeat match goal with H : (@eq N _ _) \/ _ |- _ => destruct H as [H|H] end; try discriminate; try contradiction).
  - eexists; reflexivity.
  - unfold if_range_gate. match goal with H : r_if_range req = None |- _ => rewrite H end. cbn [snd]. eexists; reflexivity.
  - exfalso. match goal with H : values _ _ <> _ |- _ => apply H end.
    rewrite values_app, values_h0 by discriminate. reflexivity.
Qed.

End WithDates.
