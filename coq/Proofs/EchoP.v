(* C02: entity bytes pass through unchanged.  C14: echoing served validators. *)
From Coq Require Import String.
From HS Require Import Lib.Base Lib.Bytes Lib.Dec Model.Range Model.Etag Model.Body Model.Serve
  Spec.Validators Proofs.RangeP Proofs.EtagP Proofs.BodyP Proofs.BodyRun Proofs.ServeP Proofs.ServeProps Proofs.DecisionP.
Ltac Zify.zify_post_hook ::= Z.div_mod_to_equations.

(* ---------------------------------------------------------------- C02 *)
Definition ev_bytes (e : ev) : bytes := match e with EvData d => d | _ => [] end.
Definition stream_bytes (s : list ev) : bytes := flat_map ev_bytes s.
Definition res_bytes (r : pollres) : bytes := match r with PData d => d | _ => [] end.
Definition data_bytes (rs : list pollres) : bytes := flat_map res_bytes rs.

(* Whatever an ExactLen body hands on is, byte for byte and in order, what the entity's stream
   produced: nothing reordered, duplicated or dropped, however the stream is chunked. *)
Theorem exact_passes_bytes n : forall streams x rs bf, run n streams (BExact x) = Ok (rs, bf) ->
  existsb is_perr rs = false ->
  exists x', bf = BExact x' /\ data_bytes rs ++ stream_bytes (x_s x') = stream_bytes (x_s x).
Proof.
  induction n as [|k IH]; intros streams x rs bf HH He; cbn [run] in HH.
  - inversion HH; subst. exists x. split; reflexivity.
  - cbn [body_poll] in HH. destruct (xl_poll x) as [x1 r] eqn:Hx.
    destruct (run k streams (BExact x1)) as [[rs' bf']|t] eqn:Hr; [|discriminate]. inversion HH; subst.
    cbn [existsb] in He. apply orb_false_elim in He. destruct He as [He1 He2].
    destruct (IH _ _ _ _ Hr He2) as (x' & Eb & Ed). exists x'. split; [exact Eb|].
    unfold data_bytes in *. cbn [flat_map]. rewrite <- app_assoc, Ed.
    unfold xl_poll in Hx. destruct (x_s x) as [|[|d|c] t] eqn:Es.
    + destruct (x_rem x =? 0); inversion Hx; subst; cbn [x_s res_bytes app]; [rewrite Es|]; reflexivity.
    + inversion Hx; subst. reflexivity.
    + destruct (lenN d <=? x_rem x); inversion Hx; subst; [reflexivity|discriminate].
    + inversion Hx; subst. discriminate.
Qed.

(* with a clean end, the whole stream was handed on *)
Corollary exact_clean_end_bytes n streams x rs bf : run n streams (BExact x) = Ok (rs, bf) ->
  existsb is_perr rs = false -> existsb is_pend rs = true -> data_bytes rs = stream_bytes (x_s x).
Proof.
  revert streams x rs bf. induction n as [|k IH]; intros streams x rs bf HH He Hd; cbn [run] in HH.
  - inversion HH; subst. discriminate.
  - cbn [body_poll] in HH. destruct (xl_poll x) as [x1 r] eqn:Hx.
    destruct (run k streams (BExact x1)) as [[rs' bf']|t] eqn:Hr; [|discriminate]. inversion HH; subst.
    cbn [existsb] in He, Hd. apply orb_false_elim in He. destruct He as [He1 He2].
    unfold data_bytes. cbn [flat_map]. unfold xl_poll in Hx. destruct (x_s x) as [|[|d|c] t] eqn:Es.
    + destruct (x_rem x =? 0) eqn:Ez; inversion Hx; subst; [|discriminate]. cbn [res_bytes app].
      destruct (exact_passes_bytes _ _ _ _ _ Hr He2) as (x' & _ & Ed). rewrite Es in Ed. cbn in Ed.
      apply app_eq_nil in Ed. destruct Ed as [Ed _]. exact Ed.
    + inversion Hx; subst. cbn [is_pend orb] in Hd. cbn [res_bytes app stream_bytes flat_map ev_bytes].
      apply (IH _ _ _ _ Hr He2 Hd).
    + destruct (lenN d <=? x_rem x); inversion Hx; subst; [|discriminate]. cbn [is_pend orb] in Hd.
      cbn [res_bytes stream_bytes flat_map ev_bytes]. f_equal. apply (IH _ _ _ _ Hr He2 Hd).
    + inversion Hx; subst. discriminate.
Qed.

Section WithDates.
Variable fmt_date : N -> bytes.
Variable parse_date : bytes -> option N.
Notation serve := (serve_model fmt_date parse_date).

(* a 206 carrying a Content-Range names a non-empty range inside the entity, with the entity's
   length, and (for GET) reads exactly that range and nothing else *)
Theorem single_range_206 now ent req r : e_len ent < U64 -> ~ In H_CONTENT_RANGE (map fst (e_hdrs ent)) ->
  serve now ent req = Ok r -> status r = 206 -> values H_CONTENT_RANGE (hdrs r) <> [] ->
  exists a e, a < e /\ e <= e_len ent /\
    values H_CONTENT_RANGE (hdrs r) = [content_range_value a e (e_len ent)] /\
    (r_meth req = GET -> forall streams, body_init streams (rplan r) = (BExact {| x_s := stream_of streams 0; x_rem := e - a |}, [(a, e)])).
Proof.
  intros HL Hnc HH Hs Hv. pose proof (serve_shape _ _ now ent req r HL HH) as S.
  destruct S as [| | | | | |a e Hg Hc Hr Hae Hel|rs total Hg Hc Hr Hw Hlen each Ht Htl Hest|]; cbn [status] in Hs; try discriminate.
  - exists a, e. split; [exact Hae|]. split; [exact Hel|]. cbn [hdrs rplan]. split.
    + destruct (snd (if_range_gate (e_etag ent) req)); rewrite !values_app;
        rewrite (values_h0 fmt_date parse_date) by (let E := fresh in intros E; vm_compute in E; discriminate E);
        rewrite ?(values_absent _ (e_hdrs ent) Hnc); reflexivity.
    + intros ->. change (beq_bytes GET HEAD) with false. intros streams. reflexivity.
  - exfalso. apply Hv. cbn [hdrs]. rewrite values_app.
    rewrite (values_h0 fmt_date parse_date) by (let E := fresh in intros E; vm_compute in E; discriminate E). reflexivity.
Qed.

(* a 200 to GET reads the whole entity, once *)
Theorem full_200 now ent req r : e_len ent < U64 -> serve now ent req = Ok r -> status r = 200 -> r_meth req = GET ->
  forall streams, body_init streams (rplan r) = (BExact {| x_s := stream_of streams 0; x_rem := e_len ent |}, [(0, e_len ent)]).
Proof.
  intros HL HH Hs Hm. pose proof (serve_shape _ _ now ent req r HL HH) as S.
  destruct S; cbn [status] in Hs; try discriminate. cbn [rplan]. rewrite Hm. change (beq_bytes GET HEAD) with false.
  intros streams. cbn [body_init]. rewrite N.sub_0_r. reflexivity.
Qed.

(* every other status reads no entity bytes at all *)
Theorem other_statuses_read_nothing now ent req r streams : e_len ent < U64 -> serve now ent req = Ok r ->
  ~ In (status r) [200; 206] -> snd (body_init streams (rplan r)) = [] /\ exists o, rplan r = PlOnce o.
Proof.
  intros HL HH Hn. pose proof (serve_shape _ _ now ent req r HL HH) as S.
  destruct S; cbn [status rplan In] in *; try (exfalso; apply Hn; auto; fail); (split; [reflexivity|eexists; reflexivity]).
Qed.

(* ---------------------------------------------------------------- C14: echo histories *)
(* the date oracle round-trips (sampled against the httpdate crate on every run) *)
Definition date_roundtrip : Prop := forall s, parse_date_hdr parse_date (fmt_date s) = Some s.

Definition echo_conds (et : option tag) (lm_s : option N) (b_inm b_im b_ims b_ius : bool) (req : request) : Prop :=
  r_inm req = (if b_inm then option_map (fun t => render_tag_list (TList t [])) et else None) /\
  r_if_match req = (if b_im then option_map (fun t => render_tag_list (TList t [])) et else None) /\
  r_ims req = (if b_ims then option_map fmt_date lm_s else None) /\
  r_ius req = (if b_ius then option_map fmt_date lm_s else None).

Lemma echo_wf et lm_s (b_inm b_im b_ims b_ius : bool) req : date_roundtrip ->
  match et with Some t => tag_ok t | None => True end ->
  echo_conds et lm_s b_inm b_im b_ims b_ius req ->
  wf_conds parse_date req
    (if b_im then option_map (fun t => TList t []) et else None)
    (if b_inm then option_map (fun t => TList t []) et else None)
    (if b_ims then lm_s else None) (if b_ius then lm_s else None).
Proof.
  intros Hrt Hok (H1 & H2 & H3 & H4). constructor.
  - rewrite H2. destruct b_im, et; reflexivity.
  - rewrite H1. destruct b_inm, et; reflexivity.
  - destruct b_im, et; cbn; auto.
  - destruct b_inm, et; cbn; auto.
  - rewrite H3. destruct b_ims, lm_s; cbn [option_map]; auto.
  - rewrite H4. destruct b_ius, lm_s; cbn [option_map]; auto.
Qed.

(* Echoing what was served never fails the precondition (If-Match only with a strong tag) ... *)
Lemma echo_precondition_holds (et : option tag) lm_s (b_im b_ius : bool) :
  (b_im = true -> match et with Some t => t_weak t = false | None => True end) ->
  precondition_fails et lm_s (if b_im then option_map (fun t => TList t []) et else None) (if b_ius then lm_s else None) = false.
Proof.
  intros Hs. unfold precondition_fails. destruct b_im.
  - destruct et as [t|]; cbn [option_map].
    + cbn [tags_of map existsb]. unfold strong_eq_spec. rewrite (Hs eq_refl), beq_bytes_refl. reflexivity.
    + destruct lm_s, b_ius; try reflexivity. apply N.ltb_irrefl.
  - destruct lm_s, b_ius; try reflexivity. apply N.ltb_irrefl.
Qed.
(* ... and echoing the ETag in If-None-Match, or else Last-Modified in If-Modified-Since, is "not modified" *)
Lemma echo_not_modified (et : option tag) lm_s (b_inm b_ims : bool) :
  (b_inm = true /\ et <> None) \/ ((b_inm = false \/ et = None) /\ b_ims = true /\ lm_s <> None) ->
  not_modified et lm_s (if b_inm then option_map (fun t => TList t []) et else None) (if b_ims then lm_s else None) = true.
Proof.
  unfold not_modified. intros [[-> Hne]|[Hn [-> Hl]]].
  - destruct et as [t|]; [|congruence]. cbn [option_map tags_of map existsb]. unfold weak_eq_spec. now rewrite beq_bytes_refl.
  - destruct lm_s as [m|]; [|congruence]. destruct Hn as [->| ->].
    + apply N.leb_refl.
    + destruct b_inm; cbn [option_map]; apply N.leb_refl.
Qed.

(* C14, second half: a client that echoes what it was served -- for an entity whose modification
   time is not in the future, so that the served Last-Modified is its own second -- gets 304 when
   it echoed the ETag in If-None-Match or (without If-None-Match) the date in If-Modified-Since,
   and is never refused with 412. *)
Theorem echo_gets_cache_friendly_answer now (et : option tag) ent req r (b_inm b_im b_ims b_ius : bool) :
  e_len ent < U64 -> date_roundtrip -> is_get_or_head req ->
  e_etag ent = option_map render_tag et -> match et with Some t => tag_ok t | None => True end ->
  (b_im = true -> match et with Some t => t_weak t = false | None => True end) ->
  echo_conds et (option_map (fun m => m / NS) (e_lm ent)) b_inm b_im b_ims b_ius req ->
  serve now ent req = Ok r ->
  status r <> 412 /\ status r <> 400 /\
  ((b_inm = true /\ et <> None) \/ ((b_inm = false \/ et = None) /\ b_ims = true /\ e_lm ent <> None) -> status r = 304).
Proof.
  intros HL Hrt Hm He Hok Hstrong Hecho HH.
  pose proof (echo_wf _ _ _ _ _ _ _ Hrt Hok Hecho) as Hwf.
  pose proof (conditional_decision fmt_date parse_date now et ent req r _ _ _ _ HL He Hm Hwf HH) as D.
  unfold decide in D. rewrite echo_precondition_holds in D by assumption.
  destruct (not_modified et _ _ _) eqn:Enm.
  - rewrite D. repeat split; try discriminate.
  - cbn [In] in D. repeat split; try (intros E; apply D; rewrite E; auto; fail).
    intros Hc. rewrite echo_not_modified in Enm; [discriminate|].
    destruct Hc as [Hc|(Hc1 & Hc2 & Hc3)]; [left; exact Hc|right]. split; [exact Hc1|]. split; [exact Hc2|].
    destruct (e_lm ent); [discriminate|congruence].
Qed.

(* If-Range with the served strong ETag keeps the Range header in force *)
Theorem echo_if_range_keeps_range (t : tag) ent req : t_weak t = false ->
  e_etag ent = Some (render_tag t) -> r_if_range req = Some (render_tag t) ->
  if_range_gate (e_etag ent) req = (r_range req, false).
Proof.
  intros Hw He Hi. apply (if_range_match_keeps_range _ _ (render_tag t) Hi). exists (render_tag t).
  split; [exact He|]. split; [reflexivity|]. destruct t as [[|] o]; [discriminate|reflexivity].
Qed.

End WithDates.

(* The known finding: with a modification time in the future the served Last-Modified is the
   clock; the echoed date is then earlier than the entity's second, so If-Unmodified-Since fails
   and If-Modified-Since does not match -- a witness, by computation. *)
Example future_mtime_echo_witness :
  let m_s := 2000 in let now := 1000 in
  let served := N.min m_s now in
  precondition_fails None (Some m_s) None (Some served) = true /\
  not_modified None (Some m_s) None (Some served) = false.
Proof. vm_compute. split; reflexivity. Qed.
