(* A whole identity (Raw) session of the body writer seen by the client, the counterpart of
   Proofs/GzP.v: write_all / flush in any order with consumer polls anywhere, then the drop of the
   writer, then the consumer drains. For every chunk size: every operation succeeds, and the client
   receives exactly the bytes written, in order and once, then the clean end. Together with
   Model/Builder.v this gives C17's last clause: the body's coding is what the header says. *)
From Coq Require Import String.
From HS Require Import Lib.Base Lib.Bytes Model.Chunker Model.GzWriter Model.Negot Model.Builder
  Proofs.ChunkerP Proofs.GzP Proofs.NegotP Proofs.BuilderP.
Ltac Zify.zify_post_hook ::= Z.div_mod_to_equations.

Definition raw_op (o : cop) : Prop := match o with OWriteAll _ | OFlush | OPoll _ => True | _ => False end.
Fixpoint written (ops : list cop) : bytes :=
  match ops with [] => [] | OWriteAll d :: t => d ++ written t | _ :: t => written t end.
Definition raw_ok (o : cop) (r : copres) : Prop :=
  match o, r with OWriteAll _, RIo true => True | OFlush, RIo true => True | OPoll _, _ => True | _, _ => False end.

Theorem raw_live_run ops : forall s, Good s -> Live s -> Forall raw_op ops ->
  let '(sf, rs) := crun s ops in
  Good sf /\ Live sf /\ c_cap sf = c_cap s /\
  Forall2 (fun o p => raw_ok o (fst p)) ops rs /\
  pending s ++ c_buf s ++ written ops = del_total rs ++ pending sf ++ c_buf sf.
Proof.
  induction ops as [|o t IH]; intros s HG HL HF; cbn [crun].
  - split; [exact HG|]. split; [exact HL|]. split; [reflexivity|]. split; [constructor|]. cbn. now rewrite !app_nil_r.
  - inversion HF as [|? ? Ho Ht]; subst.
    destruct o as [d|d| | | |w|]; cbn [raw_op] in Ho; try contradiction.
    + destruct (write_all_step_live s d HG HL) as (s1 & wk & E & HG1 & HL1 & Hc1 & Hacc1). rewrite E.
      specialize (IH s1 HG1 HL1 Ht). destruct (crun s1 t) as [sf rs]. destruct IH as (HGf & HLf & Hcf & HF2 & Hacc).
      split; [exact HGf|]. split; [exact HLf|]. split; [congruence|]. split; [constructor; [exact I|exact HF2]|].
      cbn [del_total flat_map fst delivered_of app written]. fold (del_total rs). rewrite <- Hacc.
      rewrite !app_assoc. rewrite <- (app_assoc (pending s)). rewrite <- Hacc1. now rewrite <- !app_assoc.
    + destruct (flush_step_live s HG HL) as (s2 & wk2 & E2 & HG2 & HL2 & Hc2 & Hb2 & Hp2). rewrite E2.
      specialize (IH s2 HG2 HL2 Ht). destruct (crun s2 t) as [sf rs]. destruct IH as (HGf & HLf & Hcf & HF2 & Hacc).
      split; [exact HGf|]. split; [exact HLf|]. split; [congruence|]. split; [constructor; [exact I|exact HF2]|].
      cbn [del_total flat_map fst delivered_of app written]. fold (del_total rs). rewrite <- Hacc.
      rewrite Hp2, Hb2. cbn [app]. now rewrite <- !app_assoc.
    + pose proof (poll_step_live s w HG HL) as Hp. destruct (cstep s (OPoll w)) as [[s1 r] wk].
      destruct Hp as (HG1 & HL1 & Hc1 & Hacc1).
      specialize (IH s1 HG1 HL1 Ht). destruct (crun s1 t) as [sf rs]. destruct IH as (HGf & HLf & Hcf & HF2 & Hacc).
      split; [exact HGf|]. split; [exact HLf|]. split; [congruence|]. split; [constructor; [exact I|exact HF2]|].
      cbn [del_total flat_map fst app written]. fold (del_total rs). rewrite <- app_assoc, <- Hacc.
      rewrite !app_assoc. rewrite Hacc1. now rewrite <- !app_assoc.
Qed.

Lemma crun_app ops1 : forall s ops2, crun s (ops1 ++ ops2) =
  let '(s1, rs1) := crun s ops1 in let '(s2, rs2) := crun s1 ops2 in (s2, rs1 ++ rs2).
Proof.
  induction ops1 as [|o t IH]; intros s ops2; cbn [app crun].
  - destruct (crun s ops2) as [s2 rs2]. reflexivity.
  - destruct (cstep s o) as [[s1 r] wk]. rewrite IH. destruct (crun s1 t) as [s' rs']. destruct (crun s' ops2) as [s2 rs2]. reflexivity.
Qed.

Theorem raw_session cap body : 0 < cap -> Forall raw_op body ->
  let '(s, rs) := crun (cinit cap) (body ++ [ODropWriter]) in
  exists q rb, c_st s = SOk q rb true /\ c_w s = WGone /\ Good s /\
    del_total rs ++ concat q = written body /\
    let '(sf, rs2) := crun s (repeat (OPoll 0) (S (length q))) in
    c_st sf = SFused /\ del_total rs ++ del_total rs2 = written body /\
    exists rs0, rs2 = rs0 ++ [(RPoll (Some None), [])].
Proof.
  intros Hc HF. rewrite crun_app.
  assert (Hlive0 : Live (cinit cap)) by (split; [reflexivity|cbn; eauto]).
  pose proof (raw_live_run body (cinit cap) (good_init cap Hc) Hlive0 HF) as HL.
  destruct (crun (cinit cap) body) as [s1 rs1]. destruct HL as (HG1 & HL1 & Hc1 & _ & Hacc).
  cbn [crun].
  pose proof (good_step s1 ODropWriter HG1 I) as Hd.
  assert (Hshape : exists q rb, c_st (fst (fst (cstep s1 ODropWriter))) = SOk q rb true /\ c_w (fst (fst (cstep s1 ODropWriter))) = WGone
                                /\ snd (fst (cstep s1 ODropWriter)) = RUnit).
  { destruct HL1 as (Hw & q & rb & Hs). cbn [cstep]. rewrite Hw. unfold drop_writer_inner.
    rewrite (flush_helper_live (set_w s1 WGone) q rb false true) by exact Hs. cbn [set_w c_buf c_w fst snd c_st].
    destruct (c_buf s1); cbn [fst snd c_st c_w]; eauto. }
  destruct (cstep s1 ODropWriter) as [[s3 r3] wk3]. cbn [fst snd] in Hshape. destruct Hshape as (q & rb & Hs3 & Hw3 & Hr3). subst r3.
  destruct Hd as (HG3 & Hc3 & Eq3). cbn [accepted_of delivered_of app] in Eq3. rewrite app_nil_r in Eq3.
  assert (Hb3 : c_buf s3 = []).
  { destruct HG3 as ((_ & _ & _ & Hnb) & _). apply Hnb. rewrite Hw3. discriminate. }
  assert (Hp3 : pending s3 = concat q) by (unfold pending; now rewrite Hs3).
  exists q, rb. split; [exact Hs3|]. split; [exact Hw3|]. split; [exact HG3|].
  assert (Hall : del_total (rs1 ++ [(RUnit, wk3)]) ++ concat q = written body).
  { assert (E1 : del_total (rs1 ++ [(RUnit, wk3)]) = del_total rs1).
    { unfold del_total. rewrite flat_map_app. cbn [flat_map fst app delivered_of]. now rewrite app_nil_r. }
    assert (E2 : written body = del_total rs1 ++ pending s1 ++ c_buf s1).
    { unfold pending at 1 in Hacc. cbn [cinit c_st c_buf concat app] in Hacc. exact Hacc. }
    assert (E3 : concat q = pending s1 ++ c_buf s1).
    { rewrite Eq3, Hb3, app_nil_r. symmetry. exact Hp3. }
    rewrite E1, E2, E3. reflexivity. }
  split; [exact Hall|].
  pose proof (drain_finished q s3 rb HG3 Hw3 Hs3) as Hdr.
  destruct (crun s3 (repeat (OPoll 0) (S (length q)))) as [sf rs2]. destruct Hdr as (Hf & Hd2 & Hend).
  split; [exact Hf|]. split; [|exact Hend]. rewrite Hd2. exact Hall.
Qed.

(* ---- C17: the header decision and the body's coding are one decision ---- *)
Definition says_gzip (h : list (bytes * bytes)) : bool :=
  existsb (fun p => beq_bytes (fst p) (bs "content-encoding") && beq_bytes (snd p) (bs "gzip")) h.

(* what the client receives from a whole session on a body of chunk size cap *)
Definition raw_received (cap : N) (body : list cop) : bytes * bool :=
  let '(s, rs) := crun (cinit cap) (body ++ [ODropWriter]) in
  let '(sf, rs2) := crun s (repeat (OPoll 0) (S (length (match c_st s with SOk q _ _ => q | _ => [] end)))) in
  (del_total rs ++ del_total rs2, match c_st sf with SFused => true | _ => false end).

Section Coding.
Variable enc : Type.
Variable enc_write : enc -> bytes -> enc * bytes * N.
Variable enc_flush : enc -> enc * bytes.
Variable enc_finish : enc -> bytes.
Variable enc_init : N -> enc.              (* GzBuilder::new().write(raw, level) *)

Definition gz_received (cap : N) (e0 : enc) (body : list cop) : bytes * bool :=
  let '(s, g, rs, ems) := grun enc enc_write enc_flush enc_finish (cinit cap) (GGz enc e0) (body ++ [ODropWriter]) in
  let '(sf, rs2) := crun s (repeat (OPoll 0) (S (length (match c_st s with SOk q _ _ => q | _ => [] end)))) in
  (del_total rs ++ del_total rs2, match c_st sf with SFused => true | _ => false end).

Theorem coding_matches_header meth ae cs b h k :
  streaming_body meth ae = Ok b -> build (fold_left bapply cs b) = Ok (h, Some k) ->
  let cap := last_chunk cs 4096 in
  0 < cap /\
  match k with
  | KRaw => says_gzip h = false /\
            forall body, Forall raw_op body -> raw_received cap body = (written body, true)
  | KGzip l => says_gzip h = true /\ l = last_level cs 6 /\ 0 < l /\
            forall body, Forall session_op body ->
              gz_received cap (enc_init l) body =
              (session enc enc_write enc_flush enc_finish (enc_init l) (body ++ [ODropWriter]), true)
  end.
Proof.
  intros Hs Hb. destruct (builder_calls cs b) as (H1 & H2 & H3 & H4).
  unfold streaming_body in Hs. destruct (should_gzip ae) as [sg|t]; [|discriminate]. cbn [bind] in Hs. inversion Hs; subst b. clear Hs.
  cbn [b_chunk_size b_gzip_level b_should_gzip b_body_needed] in *.
  unfold build in Hb. rewrite H1, H2, H3, H4 in Hb.
  destruct (N.eqb_spec (last_chunk cs 4096) 0) as [|Hne]; [discriminate|].
  assert (Hcap : 0 < last_chunk cs 4096) by lia. split; [exact Hcap|].
  destruct (negb (beq_bytes meth HEAD_M)); [|discriminate].
  destruct (sg && (0 <? last_level cs 6)) eqn:Eg; inversion Hb; subst h k.
  - split; [vm_compute; reflexivity|]. split; [reflexivity|].
    apply andb_true_iff in Eg. destruct Eg as [_ Hl]. apply N.ltb_lt in Hl. split; [exact Hl|].
    intros body HF. unfold gz_received.
    pose proof (gz_session enc enc_write enc_flush enc_finish (last_chunk cs 4096) (enc_init (last_level cs 6)) body Hcap HF) as G.
    destruct (grun enc enc_write enc_flush enc_finish (cinit (last_chunk cs 4096)) (GGz enc (enc_init (last_level cs 6))) (body ++ [ODropWriter])) as [[[s g] rs] ems].
    destruct G as (_ & q & rb & Hst & _ & _ & _ & G). rewrite Hst.
    destruct (crun s (repeat (OPoll 0) (S (length q)))) as [sf rs2]. destruct G as (-> & -> & _). reflexivity.
  - split; [vm_compute; reflexivity|].
    intros body HF. unfold raw_received.
    pose proof (raw_session (last_chunk cs 4096) body Hcap HF) as G.
    destruct (crun (cinit (last_chunk cs 4096)) (body ++ [ODropWriter])) as [s rs].
    destruct G as (q & rb & Hst & _ & _ & _ & G). rewrite Hst.
    destruct (crun s (repeat (OPoll 0) (S (length q)))) as [sf rs2]. destruct G as (-> & -> & _). reflexivity.
Qed.
End Coding.
