(* serve_model + the body machines refine the AST-level specification of Spec/Response.v: for
   every grammatical GET request, every entity length < 2^64 and every entity whose streams honour
   the contract, the status is the specified one, the entity is read exactly where specified, and
   the body -- however it is chunked and polled -- never errs, is at every moment a prefix of the
   specified bytes and equals them at the clean end.  A composition of the per-property theorems
   (decision, gate, range grammar, dispatch, byte pass-through, multipart wire format). *)
From Coq Require Import String.
From HS Require Import Lib.Base Lib.Bytes Lib.Dec Model.Range Model.Etag Model.Body Model.Serve
  Spec.RangeGrammar Spec.Validators Spec.Multipart Spec.Response
  Proofs.RangeP Proofs.BodyP Proofs.BodyRun Proofs.EchoP Proofs.ServeP Proofs.ServeProps Proofs.DecisionP Proofs.MultipartP.
Ltac Zify.zify_post_hook ::= Z.div_mod_to_equations.

(* how the Range header of a request relates to an AST *)
Inductive range_rel (L : N) : option bytes -> option (list rspec) -> Prop :=
| RR_absent : range_rel L None None
| RR_grammatical ws0 x l : elem_ok (ws0, x) -> bounded x -> Forall (fun p => elem_ok p /\ bounded (snd p)) l ->
    range_rel L (Some (bytes_eq_prefix ++ render_set ws0 x l)) (Some (x :: map snd l))
| RR_ignored h : range_parse (Some h) L = RNone -> range_rel L (Some h) None.

Lemma range_rel_parse L h rast : L < U64 -> range_rel L h rast ->
  range_parse h L = match rast with None => RNone | Some specs => spec_resolve L specs end.
Proof.
  intros HL [|ws0 x l H1 H2 H3|h0 H]; [reflexivity| |exact H]. now apply range_parse_grammar.
Qed.

Lemma est80_est_sum rs : est80 rs = est_sum rs.
Proof. induction rs as [|[a e] t IH]; cbn [est80 est_sum]; [reflexivity|]. now rewrite IH. Qed.

(* runs of a Once body *)
Lemma run_once n : forall streams o rs bf, run n streams (BOnce o) = Ok (rs, bf) ->
  existsb is_perr rs = false /\ (exists rest, data_bytes rs ++ rest = match o with Some d => d | None => [] end) /\
  (existsb is_pend rs = true -> data_bytes rs = match o with Some d => d | None => [] end).
Proof.
  induction n as [|k IH]; intros streams o rs bf HH; cbn [run] in HH.
  - inversion HH; subst. split; [reflexivity|]. split; [eexists; reflexivity|discriminate].
  - cbn [body_poll] in HH. destruct (run k streams (BOnce None)) as [[rs' bf']|t] eqn:Hr; [|discriminate].
    inversion HH; subst. destruct (IH _ _ _ _ Hr) as (He & (rest & Hp) & Hd). cbn [app] in Hp.
    apply app_eq_nil in Hp. destruct Hp as [Hp _].
    destruct o as [d|]; cbn [existsb is_perr is_pend orb data_bytes flat_map res_bytes app]; fold (data_bytes rs'); rewrite Hp, ?app_nil_r.
    + split; [exact He|]. split; [exists []; now rewrite app_nil_r|reflexivity].
    + split; [exact He|]. split; [exists []; reflexivity|reflexivity].
Qed.

Section WithDates.
Variable fmt_date : N -> bytes.
Variable parse_date : bytes -> option N.
Variable content : N -> N.
Notation serve := (serve_model fmt_date parse_date).

(* runs of an ExactLen body over an honest stream for (a, e) *)
Lemma run_exact_honest streams a e n rs bf : a <= e ->
  honest_for content streams [(a, e)] ->
  run n streams (BExact {| x_s := stream_of streams 0; x_rem := e - a |}) = Ok (rs, bf) ->
  existsb is_perr rs = false /\ (exists rest, data_bytes rs ++ rest = content_range content a e) /\
  (existsb is_pend rs = true -> data_bytes rs = content_range content a e).
Proof.
  intros Hae Hh HH. destruct (Hh 0%nat a e eq_refl) as [Hb He].
  assert (Hx : honest_x {| x_s := stream_of streams 0; x_rem := e - a |}).
  { split; [|exact He]. cbn [x_s x_rem]. rewrite stream_total_bytes, Hb. apply crange_len. }
  pose proof (honest_exact_no_error n _ _ _ _ Hx HH) as Hne. split; [exact Hne|]. split.
  - destruct (exact_passes_bytes n _ _ _ _ HH Hne) as (x' & _ & Ed). cbn [x_s] in Ed. rewrite Hb in Ed. eexists; exact Ed.
  - intros Hp. rewrite (exact_clean_end_bytes n _ _ _ _ HH Hne Hp). cbn [x_s]. exact Hb.
Qed.

Theorem serve_refines_spec now (et : option tag) ent req im inm ims ius rast streams :
  e_len ent < U64 -> e_etag ent = option_map render_tag et -> r_meth req = GET ->
  wf_conds parse_date req im inm ims ius -> range_rel (e_len ent) (r_range req) rast ->
  let L := e_len ent in
  (* the If-Range gate of property C05: absent, or byte-identical to a strong ETag *)
  let in_force := match r_if_range req with
                  | None => true
                  | Some ifr => match e_etag ent with Some e => beq_bytes ifr e && starts_with DQ e | None => false end
                  end in
  let eh := match r_if_range req with Some _ => [] | None => e_hdrs ent end in
  let o := spec_outcome content et (option_map (fun m => m / NS) (e_lm ent)) im inm ims ius
                        (if in_force then rast else None) L eh in
  exists r, serve now ent req = Ok r /\ status r = spec_status o /\
    (* full and single-range bodies open their stream at once; multipart bodies read lazily, in order (C06) *)
    snd (body_init streams (rplan r)) = (match o with OMulti _ => [] | _ => spec_reads L o end) /\
    (honest_for content streams (spec_reads L o) ->
     forall n rs_ bf, run n streams (fst (body_init streams (rplan r))) = Ok (rs_, bf) ->
       existsb is_perr rs_ = false /\
       forall body, spec_body content L eh o = Some body ->
         (exists rest, data_bytes rs_ ++ rest = body) /\ (existsb is_pend rs_ = true -> data_bytes rs_ = body)).
Proof.
  intros HL He Hm Hwf Hrr L in_force eh o.
  destruct (serve_total fmt_date parse_date now ent req streams HL) as (r & Hr & _ & _).
  exists r. split; [exact Hr|].
  pose proof (serve_shape fmt_date parse_date now ent req r HL Hr) as S.
  (* the two decisions *)
  pose proof (conds_decide parse_date et (e_lm ent) req im inm ims ius Hwf) as Hc. rewrite <- He in Hc.
  (* the gate *)
  pose proof (gate_spec (e_etag ent) req) as Hg.
  assert (Hfst : fst (if_range_gate (e_etag ent) req) = if in_force then r_range req else None).
  { rewrite Hg. unfold in_force. destruct (r_if_range req) as [ifr|]; [|reflexivity].
    destruct (e_etag ent) as [e0|]; [|reflexivity]. destruct (beq_bytes ifr e0 && starts_with DQ e0); reflexivity. }
  assert (Hgated : range_parse (fst (if_range_gate (e_etag ent) req)) L =
                   match (if in_force then rast else None) with None => RNone | Some specs => spec_resolve L specs end).
  { rewrite Hfst. destruct in_force; [apply range_rel_parse; assumption|reflexivity]. }
  assert (Hsnd : forall rs, range_parse (fst (if_range_gate (e_etag ent) req)) L = RSat rs ->
                 (if snd (if_range_gate (e_etag ent) req) then e_hdrs ent else []) = eh).
  { intros rs Hs. rewrite Hg in Hs |- *. unfold eh. destruct (r_if_range req) as [ifr|]; [|reflexivity].
    destruct (e_etag ent) as [e0|]; [|cbn in Hs; discriminate].
    destruct (beq_bytes ifr e0 && starts_with DQ e0); [reflexivity|cbn in Hs; discriminate]. }
  unfold o, spec_outcome, decide.
  destruct S as [Hn|s Hgh Hcs|nm Hgh Hcs|Hgh Hcs|Hgh Hcs Hrp|Hgh Hcs Hrp|a e Hgh Hcs Hrp Hae Hel|rs total Hgh Hcs Hrp Hw Hlen each Ht Htl Hest|rs Hgh Hcs Hrp Hlen Hest Hbig].
  - exfalso. apply Hn. left; exact Hm.
  - rewrite Hc in Hcs. discriminate.
  - (* 412 *)
    rewrite Hc in Hcs. injection Hcs as Hpf Hnm. rewrite Hpf. cbn [status spec_status rplan body_init snd fst spec_reads].
    split; [reflexivity|]. split; [reflexivity|]. intros _ n rs_ bf Hrun.
    destruct (run_once n _ _ _ _ Hrun) as (H1 & _ & _). split; [exact H1|]. intros body Hb. discriminate.
  - (* 304 *)
    rewrite Hc in Hcs. injection Hcs as Hpf Hnm. rewrite Hpf, Hnm. cbn [status spec_status rplan body_init snd fst spec_reads].
    split; [reflexivity|]. split; [reflexivity|]. intros _ n rs_ bf Hrun.
    destruct (run_once n _ _ _ _ Hrun) as (H1 & H2 & H3). split; [exact H1|]. intros body Hb. inversion Hb; subst. split; assumption.
  - (* 416 *)
    rewrite Hc in Hcs. injection Hcs as Hpf Hnm. rewrite Hpf, Hnm. fold L in Hrp. rewrite Hgated in Hrp.
    destruct (if in_force then rast else None) as [specs|]; [|discriminate]. unfold spec_resolve in Hrp.
    destruct (filter_map (resolve1 L) specs) as [|p t]; [|discriminate].
    cbn [status spec_status rplan body_init snd fst spec_reads].
    split; [reflexivity|]. split; [reflexivity|]. intros _ n rs_ bf Hrun.
    destruct (run_once n _ _ _ _ Hrun) as (H1 & H2 & H3). split; [exact H1|]. intros body Hb. inversion Hb; subst. split; assumption.
  - (* 200 *)
    rewrite Hc in Hcs. injection Hcs as Hpf Hnm. rewrite Hpf, Hnm. fold L in Hrp. rewrite Hgated in Hrp.
    match goal with |- context [spec_status ?x] => assert (Ho : x = OFull) end.
    { destruct (if in_force then rast else None) as [specs|]; [|reflexivity]. unfold spec_resolve in Hrp.
      destruct Hrp as [Hrp|(rs & Hrp & Hl & Hge)]; [destruct (filter_map (resolve1 L) specs); discriminate|].
      destruct (filter_map (resolve1 L) specs) as [|p1 [|p2 t]] eqn:Ef; [discriminate| |].
      - inversion Hrp; subst. cbn in Hl. lia.
      - inversion Hrp; subst. destruct p1 as [a1 e1]. cbv beta iota zeta. rewrite est80_est_sum. fold L in Hge.
        destruct (N.ltb_spec (est_sum ((a1, e1) :: p2 :: t)) L); [lia|]. reflexivity. }
    rewrite Ho. cbn [status spec_status rplan spec_reads spec_body]. rewrite Hm. change (beq_bytes GET HEAD) with false.
    cbn [body_init snd fst]. split; [reflexivity|]. split; [reflexivity|]. intros Hh n rs_ bf Hrun.
    destruct (run_exact_honest streams 0 L n rs_ bf ltac:(lia) Hh Hrun) as (H1 & H2 & H3).
    split; [exact H1|]. intros body Hb. inversion Hb; subst. split; assumption.
  - (* single-range 206 *)
    rewrite Hc in Hcs. injection Hcs as Hpf Hnm. rewrite Hpf, Hnm. fold L in Hrp. rewrite Hgated in Hrp.
    destruct (if in_force then rast else None) as [specs|]; [|discriminate]. unfold spec_resolve in Hrp.
    destruct (filter_map (resolve1 L) specs) as [|p1 [|p2 t]]; try discriminate. inversion Hrp; subst.
    cbn [status spec_status rplan spec_reads spec_body]. rewrite Hm. change (beq_bytes GET HEAD) with false.
    cbn [body_init snd fst]. split; [reflexivity|]. split; [reflexivity|]. intros Hh n rs_ bf Hrun.
    destruct (run_exact_honest streams a e n rs_ bf ltac:(lia) Hh Hrun) as (H1 & H2 & H3).
    split; [exact H1|]. intros body Hb. inversion Hb; subst. split; assumption.
  - (* multipart 206 *)
    rewrite Hc in Hcs. injection Hcs as Hpf Hnm. rewrite Hpf, Hnm.
    pose proof (Hsnd rs Hrp) as Heh. fold L in Hrp. pose proof Hrp as Hrp'. rewrite Hgated in Hrp.
    destruct (if in_force then rast else None) as [specs|]; [|discriminate]. unfold spec_resolve in Hrp.
    assert (Heach : each = each_part_headers eh).
    { unfold each. rewrite <- Heh. destruct (snd (if_range_gate (e_etag ent) req)); reflexivity. }
    assert (Hwire : lenN (mp_wire content L eh rs) = total).
    { rewrite Ht, Heach. symmetry. apply (multipart_total_is_wire_length content). now apply (ranges_wf_le fmt_date parse_date L). }
    destruct (filter_map (resolve1 L) specs) as [|p1 [|p2 t]] eqn:Ef; [discriminate| |].
    { inversion Hrp; subst. cbn in Hlen. lia. }
    inversion Hrp; subst rs. destruct p1 as [a1 e1]. cbv beta iota zeta. rewrite est80_est_sum. fold L in Hest.
    destruct (N.ltb_spec (est_sum ((a1, e1) :: p2 :: t)) L) as [_|Hx]; [|lia]. rewrite Hwire.
    destruct (N.ltb_spec total U64) as [_|Hx]; [|lia].
    cbn [status spec_status rplan spec_reads spec_body]. rewrite Hm. change (beq_bytes GET HEAD) with false.
    cbn [body_init snd fst]. split; [reflexivity|]. split; [reflexivity|]. intros Hh n rs_ bf Hrun.
    set (rs := (a1, e1) :: p2 :: t) in *.
    set (m0 := {| m_cur := None; m_state := 0; m_ph := map (hdr_of L each) rs; m_ranges := rs; m_rem := total; m_calls := [] |}) in *.
    assert (HI0 : MInv m0).
    { split; [cbn [m0 m_ph m_ranges]; now rewrite map_length|]. split; [now apply (ranges_wf_le fmt_date parse_date L)|].
      apply (MS_header _ 0); cbn [m0 m_state m_cur m_ranges m_ph m_rem skipn]; try reflexivity; try lia; try exact Ht. }
    assert (HW0 : WState content m0 (tail_bytes content (map (hdr_of L each) rs) rs ++ PART_TRAILER)).
    { apply (WS_header content m0 0); cbn [m0 m_state m_cur m_ranges m_calls length]; try reflexivity; lia. }
    destruct (wire_run content streams n m0 _ rs_ bf HI0 Hh HW0 Hrun) as (Hne & m' & pend' & _ & _ & _ & Eq & Hend).
    rewrite Heach, tail_bytes_wire in Eq.
    split; [exact Hne|]. intros body Hb. inversion Hb; subst body. split; [exists pend'; exact Eq|].
    intros Hp. rewrite (Hend Hp), app_nil_r in Eq. exact Eq.
  - (* 413 *)
    rewrite Hc in Hcs. injection Hcs as Hpf Hnm. rewrite Hpf, Hnm.
    pose proof (Hsnd rs Hrp) as Heh. fold L in Hrp. pose proof Hrp as Hrp'. rewrite Hgated in Hrp.
    destruct (if in_force then rast else None) as [specs|]; [|discriminate]. unfold spec_resolve in Hrp.
    destruct (range_parse_sat_wf _ _ _ Hrp') as [_ Hw].
    assert (Hle : Forall (fun r => fst r <= snd r) rs).
    { eapply Forall_impl; [|exact Hw]. intros p [H1 _]. lia. }
    assert (Hwire : lenN (mp_wire content L eh rs) = tail_len (map (hdr_of L (each_part_headers eh)) rs) rs + TRAILER_LEN).
    { symmetry. now apply (multipart_total_is_wire_length content). }
    assert (Hbig' : U64 <= lenN (mp_wire content L eh rs)).
    { rewrite Hwire. cbv zeta in Hbig. rewrite <- Heh.
      destruct (snd (if_range_gate (e_etag ent) req)); exact Hbig. }
    destruct (filter_map (resolve1 L) specs) as [|p1 [|p2 t]] eqn:Ef; [discriminate| |].
    { inversion Hrp; subst. cbn in Hlen. lia. }
    inversion Hrp; subst rs. destruct p1 as [a1 e1]. cbv beta iota zeta. rewrite est80_est_sum. fold L in Hest.
    destruct (N.ltb_spec (est_sum ((a1, e1) :: p2 :: t)) L) as [_|Hx]; [|lia].
    destruct (N.ltb_spec (lenN (mp_wire content L eh ((a1, e1) :: p2 :: t))) U64) as [Hx|_]; [lia|].
    cbn [status spec_status rplan body_init snd fst spec_reads].
    split; [reflexivity|]. split; [reflexivity|]. intros _ n rs_ bf Hrun.
    destruct (run_once n _ _ _ _ Hrun) as (H1 & _ & _). split; [exact H1|]. intros body Hb. discriminate.
Qed.
End WithDates.
