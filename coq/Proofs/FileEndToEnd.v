(* A ChunkedReadFile served through serve(): Proofs/EndToEnd.v with the honesty hypothesis discharged
   by Proofs/FileServe.v. *)
From HS Require Import Lib.Base Lib.Bytes Lib.Dec Model.Range Model.Etag Model.Body Model.Serve Model.File
  Spec.RangeGrammar Spec.Validators Spec.Multipart Spec.Response
  Proofs.BodyP Proofs.BodyRun Proofs.EchoP Proofs.ServeP Proofs.DecisionP Proofs.MultipartP Proofs.EndToEnd Proofs.FileServe.

Theorem file_through_serve fmt_date parse_date content now (et : option tag) ent req im inm ims ius rast streams :
  e_len ent < U64 -> e_etag ent = option_map render_tag et -> r_meth req = GET ->
  wf_conds parse_date req im inm ims ius -> range_rel (e_len ent) (r_range req) rast ->
  let L := e_len ent in
  let in_force := match r_if_range req with
                  | None => true
                  | Some ifr => match e_etag ent with Some e => beq_bytes ifr e && starts_with DQ e | None => false end
                  end in
  let eh := match r_if_range req with Some _ => [] | None => e_hdrs ent end in
  let o := spec_outcome content et (option_map (fun m => m / NS) (e_lm ent)) im inm ims ius
                        (if in_force then rast else None) L eh in
  (* the entity's streams are those of a file of content `content`, never shorter than L while it is read,
     with any short-read behaviour *)
  (forall i a e, nth_error (spec_reads L o) i = Some (a, e) ->
     exists flen short, (forall k, L <= flen k) /\ stream_of streams i = file_events content flen short a e) ->
  exists r, serve_model fmt_date parse_date now ent req = Ok r /\ status r = spec_status o /\
    forall n rs_ bf, run n streams (fst (body_init streams (rplan r))) = Ok (rs_, bf) ->
      existsb is_perr rs_ = false /\
      forall body, spec_body content L eh o = Some body ->
        (exists rest, data_bytes rs_ ++ rest = body) /\ (existsb is_pend rs_ = true -> data_bytes rs_ = body).
Proof.
  intros HL He Hm Hwf Hrr L in_force eh o Hfile.
  destruct (serve_refines_spec fmt_date parse_date content now et ent req im inm ims ius rast streams HL He Hm Hwf Hrr)
    as (r & Hr & Hs & _ & Hb).
  exists r. split; [exact Hr|]. split; [exact Hs|]. apply Hb.
  apply (file_entity_honest content L); [apply spec_reads_within|exact Hfile].
Qed.
