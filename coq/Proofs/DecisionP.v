(* Which branch serve takes: conditional headers (C04), the If-Range gate (C05), range dispatch (C03),
   and what the body of a full / single-range response is made of (C02). *)
From Coq Require Import String.
From HS Require Import Lib.Base Lib.Bytes Lib.Dec Model.Range Model.Etag Model.Body Model.Serve
  Spec.Validators Spec.RangeGrammar Proofs.RangeP Proofs.EtagP Proofs.BodyP Proofs.BodyRun Proofs.ServeP Proofs.ServeProps.
Ltac Zify.zify_post_hook ::= Z.div_mod_to_equations.

Section WithDates.
Variable fmt_date : N -> bytes.
Variable parse_date : bytes -> option N.
Notation serve := (serve_model fmt_date parse_date).

(* ---------------------------------------------------------------- C04 *)
(* a request whose conditional headers are renderings of ASTs and whose dates parse *)
Record wf_conds (req : request) (im inm : option tag_list) (ims ius : option N) : Prop := {
  wc_im : r_if_match req = option_map render_tag_list im;
  wc_inm : r_inm req = option_map render_tag_list inm;
  wc_im_ok : match im with Some l => list_ok l | None => True end;
  wc_inm_ok : match inm with Some l => list_ok l | None => True end;
  wc_ims : match r_ims req, ims with
           | Some v, Some d => parse_date_hdr parse_date v = Some d
           | None, None => True
           | _, _ => False end;
  wc_ius : match r_ius req, ius with
           | Some v, Some d => parse_date_hdr parse_date v = Some d
           | None, None => True
           | _, _ => False end
}.

Lemma any_match_render' (etag : option tag) req im inm ims ius : wf_conds req im inm ims ius ->
  any_match (option_map render_tag etag) (r_if_match req) =
  Some (match im with
        | None | Some TStar => true
        | Some l => match etag with Some e => existsb (fun t => strong_eq_spec t e) (tags_of l) | None => false end
        end).
Proof. intros [Him _ Hok _ _ _]. rewrite Him. now apply any_match_render. Qed.

Theorem conds_decide (etag : option tag) lm req im inm ims ius :
  wf_conds req im inm ims ius ->
  parse_modified_hdrs parse_date (option_map render_tag etag) req lm =
  COk (precondition_fails etag (option_map (fun m => m / NS) lm) im ius)
      (not_modified etag (option_map (fun m => m / NS) lm) inm ims).
Proof.
  intros [Him Hinm Hok1 Hok2 Hims Hius]. unfold parse_modified_hdrs.
  rewrite (any_match_render' etag req im inm ims ius) by (constructor; assumption).
  assert (Hpf : (if negb (match im with
                          | None | Some TStar => true
                          | Some l => match etag with Some e => existsb (fun t => strong_eq_spec t e) (tags_of l) | None => false end
                          end)
                 then Some true
                 else match r_if_match req, lm, r_ius req with
                      | None, Some m, Some since =>
                          match parse_date_hdr parse_date since with None => None | Some d => Some (d <? m / NS) end
                      | _, _, _ => Some false
                      end) = Some (precondition_fails etag (option_map (fun m => m / NS) lm) im ius)).
  { rewrite Him. unfold precondition_fails. destruct im as [[|t r]|]; cbn [option_map negb].
    - reflexivity.
    - destruct (match etag with Some e => existsb (fun t0 => strong_eq_spec t0 e) (tags_of (TList t r)) | None => false end); reflexivity.
    - destruct lm as [m|]; cbn [option_map]; [|destruct (r_ius req); reflexivity].
      destruct (r_ius req) as [v|], ius as [d|]; try contradiction; [|reflexivity]. now rewrite Hius. }
  rewrite Hpf. rewrite Hinm, none_match_render by assumption.
  assert (Hnm : match
                  match inm with
                  | None => None
                  | Some TStar => Some false
                  | Some l => Some (negb (match etag with Some e => existsb (fun t => weak_eq_spec t e) (tags_of l) | None => false end))
                  end
                with
                | Some true => Some false
                | Some false => Some true
                | None => match lm, r_ims req with
                          | Some m, Some since =>
                              match parse_date_hdr parse_date since with None => None | Some d => Some (m / NS <=? d) end
                          | _, _ => Some false
                          end
                end = Some (not_modified etag (option_map (fun m => m / NS) lm) inm ims)).
  { unfold not_modified. destruct inm as [[|t r]|]; cbn [option_map negb].
    - reflexivity.
    - destruct (match etag with Some e => existsb (fun t0 => weak_eq_spec t0 e) (tags_of (TList t r)) | None => false end); reflexivity.
    - destruct lm as [m|]; cbn [option_map]; [|destruct (r_ims req); reflexivity].
      destruct (r_ims req) as [v|], ims as [d|]; try contradiction; [|reflexivity]. now rewrite Hims. }
  rewrite Hnm. reflexivity.
Qed.

(* the status follows the two decisions *)
Lemma status_by_conds now ent req r : e_len ent < U64 -> serve now ent req = Ok r -> is_get_or_head req ->
  match parse_modified_hdrs parse_date (e_etag ent) req (e_lm ent) with
  | CErr _ => status r = 400
  | COk true _ => status r = 412
  | COk false true => status r = 304
  | COk false false => ~ In (status r) [400; 412; 304]
  end.
Proof.
  intros HL HH Hm. pose proof (serve_shape _ _ now ent req r HL HH) as S.
  destruct S as [Hn|s Hg Hc|nm Hg Hc|Hg Hc|Hg Hc Hr|Hg Hc Hr|a e Hg Hc Hr|rs total Hg Hc Hr|rs Hg Hc Hr];
    try contradiction; rewrite Hc; cbn [status In]; try reflexivity;
    intros Hin; repeat (destruct Hin as [Hin|Hin]; try discriminate Hin); contradiction.
Qed.

(* C04: with well-formed validators serve answers 412 / 304 / goes on exactly as RFC 7232 says *)
Theorem conditional_decision now (et : option tag) ent req r im inm ims ius :
  e_len ent < U64 -> e_etag ent = option_map render_tag et -> is_get_or_head req ->
  wf_conds req im inm ims ius ->
  serve now ent req = Ok r ->
  match decide et (option_map (fun m => m / NS) (e_lm ent)) im inm ims ius with
  | D412 => status r = 412
  | D304 => status r = 304
  | DContinue => ~ In (status r) [400; 412; 304]
  end.
Proof.
  intros HL He Hm Hwf HH. pose proof (status_by_conds now ent req r HL HH Hm) as S.
  rewrite He, (conds_decide et (e_lm ent) req im inm ims ius Hwf) in S. unfold decide.
  destruct (precondition_fails _ _ _ _); [exact S|]. destruct (not_modified _ _ _ _); exact S.
Qed.

(* ---------------------------------------------------------------- C05 *)
Definition if_range_matches (etag : option bytes) (ifr : bytes) : Prop :=
  exists e, etag = Some e /\ ifr = e /\ starts_with DQ e = true.

Lemma starts_dq_not_w e : starts_with DQ e = true -> starts_with W_SLASH e = false /\ starts_with W_SLASH_Q e = false.
Proof.
  unfold starts_with. destruct e as [|b t]; [discriminate|]. cbn [strip_prefix DQ W_SLASH W_SLASH_Q].
  destruct (N.eqb_spec 34 b) as [<-|]; [|discriminate]. intros _. split; reflexivity.
Qed.

Theorem gate_spec etag req :
  if_range_gate etag req =
  match r_if_range req with
  | None => (r_range req, true)
  | Some ifr =>
      match etag with
      | Some e => if beq_bytes ifr e && starts_with DQ e then (r_range req, false) else (None, true)
      | None => (None, true)
      end
  end.
Proof.
  unfold if_range_gate. destruct (r_if_range req) as [ifr|]; [|reflexivity].
  destruct etag as [e|].
  - unfold strong_eq. destruct (beq_bytes ifr e) eqn:E.
    + apply beq_bytes_spec in E. subst ifr. destruct (starts_with DQ e) eqn:Ed.
      * destruct (starts_dq_not_w e Ed) as [E1 E2]. rewrite E1, E2. reflexivity.
      * cbn [andb orb]. destruct (starts_with W_SLASH_Q e) eqn:Ew; cbn [orb]; [|reflexivity].
        (* a weak tag: the strong comparison fails *)
        assert (starts_with W_SLASH e = true).
        { apply starts_with_iff in Ew. destruct Ew as [r ->]. reflexivity. }
        rewrite H. reflexivity.
    + cbn [andb]. destruct (starts_with W_SLASH_Q ifr || starts_with DQ ifr); reflexivity.
  - destruct (starts_with W_SLASH_Q ifr || starts_with DQ ifr); reflexivity.
Qed.

(* never partial content unless If-Range is absent or byte-identical to the strong ETag *)
Theorem never_206_without_matching_if_range now ent req r : e_len ent < U64 -> serve now ent req = Ok r ->
  status r = 206 ->
  r_if_range req = None \/ exists ifr, r_if_range req = Some ifr /\ if_range_matches (e_etag ent) ifr.
Proof.
  intros HL HH Hs. pose proof (serve_shape _ _ now ent req r HL HH) as S.
  assert (G : forall rs, range_parse (fst (if_range_gate (e_etag ent) req)) (e_len ent) = RSat rs ->
              r_if_range req = None \/ exists ifr, r_if_range req = Some ifr /\ if_range_matches (e_etag ent) ifr).
  { intros rs. rewrite gate_spec. destruct (r_if_range req) as [ifr|]; [|auto]. right. exists ifr. split; [reflexivity|].
    destruct (e_etag ent) as [e|]; [|discriminate].
    destruct (beq_bytes ifr e) eqn:E; [|discriminate]. destruct (starts_with DQ e) eqn:Ed; [|discriminate].
    apply beq_bytes_spec in E. exists e. auto. }
  destruct S; cbn [status] in Hs; try discriminate; eapply G; eauto.
Qed.

(* when If-Range does not match, the Range header is not in force: the response is the one the
   same request without Range and If-Range gets (a complete 200 unless a precondition decides) *)
Theorem if_range_mismatch_ignores_range etag req ifr :
  r_if_range req = Some ifr -> ~ if_range_matches etag ifr -> if_range_gate etag req = (None, true).
Proof.
  intros Hi Hn. rewrite gate_spec, Hi. destruct etag as [e|]; [|reflexivity].
  destruct (beq_bytes ifr e) eqn:E; [|reflexivity]. destruct (starts_with DQ e) eqn:Ed; [|reflexivity].
  exfalso. apply Hn. apply beq_bytes_spec in E. exists e. auto.
Qed.
(* when it matches, the Range header stays in force and entity headers are left out of partial responses *)
Theorem if_range_match_keeps_range etag req ifr :
  r_if_range req = Some ifr -> if_range_matches etag ifr -> if_range_gate etag req = (r_range req, false).
Proof.
  intros Hi (e & He & Hie & Hd). rewrite gate_spec, Hi, He. subst ifr. now rewrite beq_bytes_refl, Hd.
Qed.

(* ---------------------------------------------------------------- C03: dispatch *)
Definition only_range (req : request) : Prop :=
  r_if_range req = None /\ r_if_match req = None /\ r_inm req = None /\ r_ims req = None /\ r_ius req = None.

Lemma only_range_conds etag req lm : only_range req -> parse_modified_hdrs parse_date etag req lm = COk false false.
Proof.
  intros (H1 & H2 & H3 & H4 & H5). unfold parse_modified_hdrs. rewrite H2, H3, H4, H5. cbn [any_match none_match negb].
  destruct lm; reflexivity.
Qed.

(* A GET/HEAD request carrying only a Range header: the response is decided by range_parse alone. *)
Theorem range_dispatch now ent req r : e_len ent < U64 -> is_get_or_head req -> only_range req ->
  ~ In H_CONTENT_RANGE (map fst (e_hdrs ent)) ->
  serve now ent req = Ok r ->
  match range_parse (r_range req) (e_len ent) with
  | RNone => status r = 200 /\ values H_CONTENT_RANGE (hdrs r) = [] /\
             (r_meth req = GET -> rplan r = PlExact 0 (e_len ent))
  | RNotSat => status r = 416 /\ rplan r = PlOnce None /\
               hdrs r = h0_of fmt_date now ent ++ [(H_CONTENT_RANGE, bs "bytes */" ++ dec (e_len ent))]
  | RSat [(a, e)] => status r = 206 /\ (r_meth req = GET -> rplan r = PlExact a e) /\
               In (H_CONTENT_RANGE, content_range_value a e (e_len ent)) (hdrs r)
  | RSat rs =>
      (est_sum rs < e_len ent ->
         (status r = 206 /\ In (H_CONTENT_TYPE, V_MULTIPART) (hdrs r) /\
          (r_meth req = GET -> exists ph total, rplan r = PlMulti ph rs total))
         \/ (status r = 413 /\ U64 <= tail_len (map (hdr_of (e_len ent) (each_part_headers (e_hdrs ent))) rs) rs + TRAILER_LEN))
      /\ (e_len ent <= est_sum rs -> status r = 200 /\ (r_meth req = GET -> rplan r = PlExact 0 (e_len ent)))
  end.
Proof.
  intros HL Hm Ho Hnc HH. pose proof (serve_shape _ _ now ent req r HL HH) as S.
  assert (Hg : if_range_gate (e_etag ent) req = (r_range req, true)).
  { unfold if_range_gate. destruct Ho as (-> & _). reflexivity. }
  pose proof (only_range_conds (e_etag ent) req (e_lm ent) Ho) as Hc.
  destruct S as [Hn|s _ Hc'|nm _ Hc'|_ Hc'|_ _ Hr|_ _ Hr|a e _ _ Hr Hae Hel|rs total _ _ Hr Hw Hlen each Ht Htl Hest|rs _ _ Hr Hlen Hest Hov];
    try contradiction; try (rewrite Hc in Hc'; discriminate); rewrite ?Hg in *; cbn [fst snd] in *; cbn [status hdrs rplan].
  - rewrite Hr. repeat split; try reflexivity.
  - destruct Hr as [Hr|(rs & Hr & Hlen & Hest)]; rewrite Hr.
    + split; [reflexivity|]. split.
      * rewrite !values_app. rewrite (values_h0 fmt_date parse_date) by (let E := fresh in intros E; vm_compute in E; discriminate E).
        rewrite (values_absent _ (e_hdrs ent) Hnc). reflexivity.
      * intros ->. reflexivity.
    + destruct rs as [|p1 [|p2 rs2]]; cbn [length] in Hlen; try lia. destruct p1 as [a1 e1]. split.
      * intros Hlt. lia.
      * intros _. split; [reflexivity|]. intros ->. reflexivity.
  - rewrite Hr. split; [reflexivity|]. split; [intros ->; reflexivity|].
    destruct (snd (r_range req, true)); rewrite ?in_app_iff; cbn [In]; auto 10.
  - rewrite Hr. destruct rs as [|p1 [|p2 rs2]]; cbn [length] in Hlen; try lia. destruct p1 as [a1 e1]. split.
    + intros _. left. split; [reflexivity|]. split; [rewrite in_app_iff; cbn [In]; auto|].
      intros ->. eexists _, _. reflexivity.
    + intros Hle. lia.
  - rewrite Hr. destruct rs as [|p1 [|p2 rs2]]; cbn [length] in Hlen; try lia. destruct p1 as [a1 e1]. split.
    + intros _. right. split; [reflexivity|]. exact Hov.
    + intros Hle. lia.
Qed.

End WithDates.
