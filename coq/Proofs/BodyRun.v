(* Whole-run theorems about bodies: totality (C13), fusing (C20), faults (C07). *)
From HS Require Import Lib.Base Lib.Bytes Model.Body Proofs.BodyP.
Ltac Zify.zify_post_hook ::= Z.div_mod_to_equations.

Definition BInv (b : body) : Prop := match b with BMulti m => MInv m | _ => True end.

Lemma body_poll_total streams b : BInv b -> exists b' r, body_poll streams b = Ok (b', r) /\ BInv b'.
Proof.
  destruct b as [o|x|m]; cbn [BInv body_poll]; intros HI.
  - eexists _, _. split; [reflexivity|exact I].
  - destruct (xl_poll x) as [x' r]. eexists _, _. split; [reflexivity|exact I].
  - destruct (mp_poll_total streams m HI) as (m' & r & E & I'). rewrite E. cbn [bind].
    eexists _, _. split; [reflexivity|exact I'].
Qed.

(* C13: draining any body built by serve never panics (and never exhausts the model's fuel),
   whatever the entity's streams do, for any number of polls. *)
Theorem run_total n : forall streams b, BInv b -> exists rs bf, run n streams b = Ok (rs, bf) /\ BInv bf.
Proof.
  induction n as [|k IH]; intros streams b HI; cbn [run].
  - eexists _, _. split; [reflexivity|exact HI].
  - destruct (body_poll_total streams b HI) as (b' & r & E & I'). rewrite E.
    destruct (IH streams b' I') as (rs & bf & E2 & I2). rewrite E2. eexists _, _. split; [reflexivity|exact I2].
Qed.

(* ---- C20 ---- *)
(* an entity stream that stays finished once it has failed: an error is its last event *)
Fixpoint fused (s : list ev) : Prop :=
  match s with
  | [] => True
  | EvErr _ :: t => t = []
  | _ :: t => fused t
  end.
Lemma fused_tl s : fused s -> fused (tl s).
Proof. destruct s as [|[|d|c] t]; cbn; auto. intros ->. exact I. Qed.

(* states from which no further data can come *)
Definition quiet (b : body) : Prop :=
  match b with
  | BOnce o => o = None
  | BExact x => x_rem x = 0 \/ x_s x = []
  | BMulti m => m_state m = mp_end_state m /\ m_cur m = None /\ m_rem m = 0
  end.
Definition bfused (b : body) : Prop := match b with BExact x => fused (x_s x) | _ => True end.

Lemma bfused_step streams b b' r : body_poll streams b = Ok (b', r) -> bfused b -> bfused b'.
Proof.
  destruct b as [o|x|m]; cbn [body_poll].
  - intros HH; inversion HH; subst. auto.
  - destruct (xl_poll x) as [x' rx] eqn:Hx. intros HH; inversion HH; subst. cbn [bfused].
    rewrite (xl_poll_stream _ _ _ Hx). apply fused_tl.
  - destruct (mp_poll MP_FUEL streams m) as [[m' rm]|t]; cbn [bind]; [|discriminate].
    intros HH; inversion HH; subst. auto.
Qed.

Lemma quiet_step streams b b' r : BInv b -> body_poll streams b = Ok (b', r) -> quiet b ->
  quiet b' /\ data_len r = 0.
Proof.
  destruct b as [o|x|m]; cbn [body_poll quiet BInv]; intros HI.
  - intros HH Hq; inversion HH; subst. split; reflexivity.
  - destruct (xl_poll x) as [x' rx] eqn:Hx. intros HH Hq; inversion HH; subst. cbn [quiet].
    pose proof (xl_poll_accounting _ _ _ Hx) as A. pose proof (xl_poll_stream _ _ _ Hx) as S.
    destruct Hq as [Hz|Hs].
    + destruct r as [|d| |[c|n|n]]; cbn [data_len]; split; try lia; try (left; lia).
      left. destruct A as (_ & -> & _). exact Hz.
    + split; [right; rewrite S, Hs; reflexivity|].
      unfold xl_poll in Hx. rewrite Hs in Hx. destruct (x_rem x =? 0); inversion Hx; reflexivity.
  - intros HH (Hs & Hc & Hrem). rewrite (mp_done_stays streams m Hs Hc Hrem) in HH. cbn [bind] in HH.
    inversion HH; subst. cbn [quiet data_len]. auto.
Qed.

Lemma terminal_quiet streams b b' r : BInv b -> bfused b -> body_poll streams b = Ok (b', r) ->
  is_terminal r = true -> quiet b'.
Proof.
  destruct b as [o|x|m]; cbn [body_poll quiet BInv bfused]; intros HI Hf.
  - intros HH _; inversion HH; subst. reflexivity.
  - destruct (xl_poll x) as [x' rx] eqn:Hx. intros HH Ht; inversion HH; subst. cbn [quiet].
    pose proof (xl_poll_accounting _ _ _ Hx) as A. pose proof (xl_poll_stream _ _ _ Hx) as S.
    destruct r as [|d| |[c|n|n]]; try discriminate.
    + destruct A as (A1 & -> & A3). left; exact A1.
    + right. rewrite S. unfold xl_poll in Hx. destruct (x_s x) as [|[|d|c'] t] eqn:Es.
      * destruct (x_rem x =? 0); inversion Hx.
      * inversion Hx.
      * destruct (lenN d <=? x_rem x); inversion Hx.
      * cbn [fused] in Hf. subst t. reflexivity.
    + left; exact A.
    + left; exact A.
  - destruct (mp_poll MP_FUEL streams m) as [[m' rm]|t] eqn:Hm; cbn [bind]; [|discriminate].
    intros HH Ht; inversion HH; subst. cbn [quiet]. eapply mp_terminal_fuses; eauto.
Qed.

Lemma quiet_run n : forall streams b rs bf, BInv b -> quiet b -> run n streams b = Ok (rs, bf) ->
  Forall (fun r => data_len r = 0) rs.
Proof.
  induction n as [|k IH]; intros streams b rs bf HI Hq HH; cbn [run] in HH.
  - inversion HH; subst. constructor.
  - destruct (body_poll streams b) as [[b' r]|t] eqn:Hp; [|discriminate].
    destruct (run k streams b') as [[rs' bf']|t] eqn:Hr; [|discriminate]. inversion HH; subst.
    destruct (quiet_step _ _ _ _ HI Hp Hq) as [Hq' Hd].
    destruct (body_poll_total streams b HI) as (b2 & r2 & E & I'). rewrite Hp in E. inversion E; subst.
    constructor; [exact Hd|]. eapply IH; eauto.
Qed.

(* C20: once a body has reported its end or an error, no number of further polls yields
   another byte (and, by run_total, none panics) -- provided the entity's streams stay
   finished once they have failed. *)
Theorem terminated_stays_terminated n1 n2 streams b rs1 r bm rs2 bf :
  BInv b -> bfused b ->
  run n1 streams b = Ok (rs1 ++ [r], bm) -> is_terminal r = true ->
  run n2 streams bm = Ok (rs2, bf) ->
  Forall (fun r => data_len r = 0) rs2.
Proof.
  intros HI Hf H1 Ht H2.
  assert (G : forall n streams r, is_terminal r = true -> forall b rs bm, BInv b -> bfused b -> run n streams b = Ok (rs ++ [r], bm) -> BInv bm /\ quiet bm).
  { clear. intros n. induction n as [|k IH]; intros streams r Ht b rs bm HI Hf HH; cbn [run] in HH.
    - inversion HH as [[E E2]]. destruct rs; discriminate.
    - destruct (body_poll streams b) as [[b' r0]|t] eqn:Hp; [|discriminate].
      destruct (run k streams b') as [[rs' bf']|t] eqn:Hr; [|discriminate]. inversion HH; subst.
      destruct (body_poll_total streams b HI) as (b2 & r2 & E & I'). rewrite Hp in E. inversion E; subst.
      destruct rs as [|r1 rs1].
      + cbn [app] in *. inversion H0; subst. destruct k; cbn [run] in Hr.
        * inversion Hr; subst. split; [exact I'|]. eapply terminal_quiet; [exact HI|exact Hf|exact Hp|exact Ht].
        * destruct (body_poll streams b2) as [[b3 r3]|t]; [|discriminate].
          destruct (run k streams b3) as [[rs3 bf3]|t]; discriminate.
      + cbn [app] in H0. inversion H0; subst. eapply (IH streams r Ht); [exact I'|eapply bfused_step; eauto|exact Hr]. }
  destruct (G n1 streams r Ht b rs1 bm HI Hf H1) as [I2 Q2].
  eapply quiet_run; eauto.
Qed.

(* ---- C07 at the level of one range stream ---- *)
Fixpoint stream_total (s : list ev) : N :=
  match s with [] => 0 | EvData d :: t => lenN d + stream_total t | _ :: t => stream_total t end.
Definition ev_is_err (e : ev) : bool := match e with EvErr _ => true | _ => false end.

(* If a full or single-range body reports a clean end without having reported an error, the
   entity's stream delivered exactly the announced number of bytes and never failed: so a
   short, long or failing stream always surfaces as an error, at whatever chunk it occurs. *)
Theorem exact_clean_end_means_complete n : forall streams x rs bf,
  run n streams (BExact x) = Ok (rs, bf) -> existsb is_perr rs = false -> existsb is_pend rs = true ->
  stream_total (x_s x) = x_rem x /\ existsb ev_is_err (x_s x) = false.
Proof.
  induction n as [|k IH]; intros streams x rs bf HH He Hd; cbn [run] in HH.
  - inversion HH; subst. discriminate.
  - cbn [body_poll] in HH. destruct (xl_poll x) as [x' r] eqn:Hx.
    destruct (run k streams (BExact x')) as [[rs' bf']|t] eqn:Hr; [|discriminate]. inversion HH; subst.
    cbn [existsb] in He, Hd. apply orb_false_elim in He. destruct He as [He1 He2].
    unfold xl_poll in Hx. destruct (x_s x) as [|[|d|c] t] eqn:Es.
    + destruct (N.eqb_spec (x_rem x) 0) as [Hz|Hz]; inversion Hx; subst; [|discriminate].
      cbn. split; [lia|reflexivity].
    + inversion Hx; subst. cbn [is_pend orb] in Hd. destruct (IH _ _ _ _ Hr He2 Hd) as [I1 I2].
      cbn [x_s x_rem stream_total existsb ev_is_err orb] in *. auto.
    + destruct (N.leb_spec (lenN d) (x_rem x)) as [Hle|Hgt]; inversion Hx; subst; [|discriminate].
      cbn [is_pend orb] in Hd. destruct (IH _ _ _ _ Hr He2 Hd) as [I1 I2].
      cbn [x_s x_rem stream_total existsb ev_is_err orb] in *. split; [lia|exact I2].
    + inversion Hx; subst. discriminate.
Qed.

(* inside a multipart body an error of the current part is passed on at once, and fuses the body *)
Lemma mp_forwards_part_error f streams m x x' e : m_cur m = Some x -> xl_poll x = (x', PErr e) ->
  exists m', mp_poll (S f) streams m = Ok (m', PErr e) /\ m_rem m' = 0 /\ m_cur m' = None /\ m_state m' = mp_end_state m'.
Proof.
  intros Hc Hx. rewrite mp_poll_S, Hc, Hx. eexists. split; [reflexivity|]. cbn. auto.
Qed.

(* ---- C12: the end-of-stream flag ---- *)
Lemma eos_hint_zero b : body_eos b = true -> body_hint b = 0.
Proof.
  destruct b as [[d|]|x|m]; cbn [body_eos body_hint]; intros H; try discriminate; try reflexivity;
    now apply N.eqb_eq in H.
Qed.

(* a body that says it is at end-of-stream delivers no further byte, whatever is polled *)
Theorem eos_no_more_data n streams b rs bf : body_eos b = true -> run n streams b = Ok (rs, bf) -> delivered rs = 0.
Proof.
  intros He HH. apply eos_hint_zero in He. destruct (run_never_more _ _ _ _ _ HH) as [H1 _]. lia.
Qed.

(* an ExactLen body over a stream that honours the contract from here on *)
Definition honest_x (x : xl) : Prop := stream_total (x_s x) = x_rem x /\ existsb ev_is_err (x_s x) = false.

Lemma honest_x_step x x' r : honest_x x -> xl_poll x = (x', r) -> honest_x x' /\ is_perr r = false.
Proof.
  intros [Ht He] Hx. unfold xl_poll in Hx. unfold honest_x. destruct (x_s x) as [|[|d|c] t] eqn:Es.
  - cbn in Ht. destruct (N.eqb_spec (x_rem x) 0) as [Hz|Hz]; [|lia]. inversion Hx; subst. rewrite Es. cbn. auto.
  - inversion Hx; subst. cbn [x_s x_rem stream_total existsb ev_is_err orb] in *. auto.
  - cbn [stream_total existsb ev_is_err orb] in *. destruct (N.leb_spec (lenN d) (x_rem x)) as [Hle|Hgt]; [|lia].
    inversion Hx; subst. cbn [x_s x_rem]. split; [split; [lia|exact He]|reflexivity].
  - cbn in He. discriminate.
Qed.

(* C07 converse / C12: over an honest stream the body never reports an error *)
Theorem honest_exact_no_error n : forall streams x rs bf, honest_x x ->
  run n streams (BExact x) = Ok (rs, bf) -> existsb is_perr rs = false.
Proof.
  induction n as [|k IH]; intros streams x rs bf Hh HH; cbn [run] in HH.
  - inversion HH; subst. reflexivity.
  - cbn [body_poll] in HH. destruct (xl_poll x) as [x' r] eqn:Hx.
    destruct (run k streams (BExact x')) as [[rs' bf']|t] eqn:Hr; [|discriminate]. inversion HH; subst.
    destruct (honest_x_step _ _ _ Hh Hx) as [Hh' He]. cbn [existsb]. rewrite He. cbn [orb]. eapply IH; eauto.
Qed.

(* and it reaches its clean end once the stream is exhausted: within length + 1 polls *)
Theorem honest_exact_ends streams x : honest_x x ->
  exists rs bf, run (S (length (x_s x))) streams (BExact x) = Ok (rs, bf) /\ existsb is_pend rs = true.
Proof.
  remember (length (x_s x)) as n eqn:En. revert x En. induction n as [|k IH]; intros x En [Ht He].
  - destruct (x_s x) as [|e t] eqn:Es; [|discriminate]. cbn in Ht.
    cbn [run body_poll]. unfold xl_poll. rewrite Es. destruct (N.eqb_spec (x_rem x) 0) as [Hz|Hz]; [|lia].
    eexists _, _. split; [reflexivity|reflexivity].
  - change (run (S (S k)) streams (BExact x)) with
      (match body_poll streams (BExact x) with
       | Panic t => Panic t
       | Ok (b', r) => match run (S k) streams b' with Panic t => Panic t | Ok (rs, bf) => Ok (r :: rs, bf) end
       end).
    cbn [body_poll]. destruct (xl_poll x) as [x' r] eqn:Hx.
    destruct (honest_x_step x x' r (conj Ht He) Hx) as [Hh' _].
    assert (El : k = length (x_s x')).
    { rewrite (xl_poll_stream _ _ _ Hx). destruct (x_s x); cbn in *; [discriminate|lia]. }
    destruct (IH x' El Hh') as (rs & bf & E & Hp). rewrite E. eexists _, _. split; [reflexivity|].
    cbn [existsb]. rewrite Hp. apply orb_true_r.
Qed.
