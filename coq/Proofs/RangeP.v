(* Model/Range.v (the parser) against Spec/RangeGrammar.v (RFC 7233). *)
From HS Require Import Lib.Base Lib.Bytes Lib.Dec Model.Range Spec.RangeGrammar.
Ltac Zify.zify_post_hook ::= Z.div_mod_to_equations.

Definition spec_resolve (L : N) (l : list rspec) : resolved :=
  match filter_map (resolve1 L) l with [] => RNotSat | r => RSat r end.

(* ---- digit strings ---- *)
Lemma ds_head a : is_ds a -> exists d t, a = d :: t /\ is_digit d = true /\ forallb is_digit t = true.
Proof.
  intros [Hne Hd]. destruct a as [|d t]; [congruence|]. exists d, t.
  cbn [forallb] in Hd. apply andb_prop in Hd. tauto.
Qed.
Lemma parse_pos_ds a : is_ds a -> dval a < U64 -> parse_pos a = Some (dval a).
Proof.
  intros [Hne Hd] Hv. unfold parse_pos, dval in *. destruct a as [|b s] eqn:E; [congruence|].
  rewrite <- E in *. now apply parse_digits_value.
Qed.
Lemma parse_pos_ds_overflow a : is_ds a -> U64 <= dval a -> parse_pos a = None.
Proof.
  intros [Hne Hd] Hv. unfold parse_pos, dval in *. destruct a as [|b s] eqn:E; [congruence|].
  rewrite <- E in *. destruct (parse_digits_overflow a 0 Hd Hv) as [H|[H _]]; [exact H|congruence].
Qed.
Lemma parse_pos_some s n : parse_pos s = Some n -> is_ds s /\ n = dval s /\ n < U64.
Proof.
  unfold parse_pos. destruct s as [|b t] eqn:E; [discriminate|]. rewrite <- E. intros H.
  destruct (parse_digits_some _ _ _ H) as (H1 & H2 & H3).
  repeat split; [subst; discriminate|exact H1|exact H2|apply H3; subst; discriminate].
Qed.
Lemma ds_no c a : (c <? 48) || (57 <? c) = true -> is_ds a -> ~ In c a.
Proof. intros Hc [_ Hd]. now apply digit_not. Qed.
Lemma trim_ds a s : is_ds a -> trim_start (a ++ s) = a ++ s.
Proof.
  intros Ha. destruct (ds_head a Ha) as (d & t & E & Hd & _). rewrite E. cbn [app].
  apply trim_start_id. unfold is_digit in Hd. unfold is_ows. lia.
Qed.
Lemma ds_len_pos a : is_ds a -> exists k, length a = S k.
Proof. intros Ha. destruct (ds_head a Ha) as (d & t & E & _). rewrite E. now exists (length t). Qed.

(* ---- one element ---- *)
Lemma range_elem_render L ws s : all_ows ws -> wf_spec s -> bounded s -> L < U64 ->
  range_elem L (ws ++ render1 s) = match resolve1 L s with None => ESkip | Some r => EPush r end.
Proof.
  intros Hws Hwf Hb HL. unfold range_elem. rewrite trim_start_app by assumption.
  destruct s as [a b|a|n]; cbn [render1 bounded wf_spec resolve1] in *.
  - destruct Hwf as [Wa Wb]. destruct Hb as [Ha Hb]. rewrite trim_ds by assumption.
    rewrite find_app_no by (apply ds_no; [reflexivity|assumption]).
    destruct (ds_len_pos a Wa) as [k Hk]. rewrite Hk, <- Hk.
    rewrite firstn_len, skipn_S_len, parse_pos_ds by assumption.
    destruct (ds_head b Wb) as (d & t & E & _). rewrite E, <- E.
    rewrite parse_pos_ds by assumption. unfold u64_saturating_add.
    change U64MAX with (U64 - 1). change U64 with 18446744073709551616 in *.
    destruct (N.ltb_spec (dval b + 1) 18446744073709551616); destruct (N.ltb_spec (dval a) L);
      destruct (N.leb_spec (dval a) (dval b)); cbn [andb];
      match goal with |- context [?x <=? ?y] => destruct (N.leb_spec x y) end;
      try reflexivity; try lia; try (f_equal; f_equal; lia).
  - rewrite trim_ds by assumption. rewrite find_app_no by (apply ds_no; [reflexivity|assumption]).
    destruct (ds_len_pos a Hwf) as [k Hk]. rewrite Hk, <- Hk.
    rewrite firstn_len, skipn_S_len, parse_pos_ds by assumption.
    destruct (N.ltb_spec (dval a) L); destruct (N.leb_spec L (dval a)); try reflexivity; lia.
  - rewrite trim_start_id by reflexivity. cbn [find tl]. rewrite N.eqb_refl.
    rewrite parse_pos_ds by assumption. unfold u64_saturating_sub.
    destruct (N.eqb_spec (dval n) 0); destruct (N.eqb_spec L 0); destruct (N.ltb_spec 0 (dval n)); destruct (N.ltb_spec 0 L);
      cbn [orb andb]; try reflexivity; try lia. f_equal. f_equal. lia.
Qed.

Lemma range_elem_overflow L ws s : all_ows ws -> wf_spec s -> ~ bounded s ->
  range_elem L (ws ++ render1 s) = EBad.
Proof.
  intros Hws Hwf Hb. unfold range_elem. rewrite trim_start_app by assumption.
  destruct s as [a b|a|n]; cbn [render1 bounded wf_spec] in *.
  - destruct Hwf as [Wa Wb]. rewrite trim_ds by assumption.
    rewrite find_app_no by (apply ds_no; [reflexivity|assumption]).
    destruct (ds_len_pos a Wa) as [k Hk]. rewrite Hk, <- Hk.
    rewrite firstn_len, skipn_S_len.
    destruct (N.lt_ge_cases (dval a) U64) as [Ha|Ha].
    + rewrite parse_pos_ds by assumption.
      destruct (ds_head b Wb) as (d & t & E & _). rewrite E, <- E.
      rewrite parse_pos_ds_overflow; [reflexivity|assumption|lia].
    + now rewrite parse_pos_ds_overflow.
  - rewrite trim_ds by assumption. rewrite find_app_no by (apply ds_no; [reflexivity|assumption]).
    destruct (ds_len_pos a Hwf) as [k Hk]. rewrite Hk, <- Hk.
    rewrite firstn_len. rewrite parse_pos_ds_overflow; [reflexivity|assumption|lia].
  - rewrite trim_start_id by reflexivity. cbn [find tl]. rewrite N.eqb_refl.
    rewrite parse_pos_ds_overflow; [reflexivity|assumption|lia].
Qed.

(* converse: whatever one element the parser accepts is OWS followed by a grammatical spec *)
Lemma range_elem_accepts L x : range_elem L x <> EBad ->
  exists ws s, x = ws ++ render1 s /\ all_ows ws /\ wf_spec s /\ bounded s.
Proof.
  unfold range_elem. destruct (trim_start_decomp x) as (ws & Hws & Hx & _).
  remember (trim_start x) as r eqn:Er. clear Er. cbv zeta. intros H.
  destruct (find 45 r) as [[|h]|] eqn:Hf; [| |congruence].
  - destruct (find_some _ _ _ Hf) as (Hr & _ & _). cbn [firstn app] in Hr.
    assert (Hr' : r = 45 :: tl r).
    { destruct r as [|c r']; [discriminate Hr|]. cbn in Hr. injection Hr as Hc. subst c. reflexivity. }
    destruct (parse_pos (tl r)) as [n|] eqn:Hp; [|congruence].
    destruct (parse_pos_some _ _ Hp) as (Hds & Hv & Hlt).
    exists ws, (Suffix (tl r)). cbn [render1 wf_spec bounded].
    split; [rewrite Hx at 1; f_equal; exact Hr'|].
    split; [assumption|]. split; [assumption|]. now subst n.
  - destruct (find_some _ _ _ Hf) as (Hr & Hno & Hlen).
    destruct (parse_pos (firstn (S h) r)) as [a|] eqn:Hp; [|congruence].
    destruct (parse_pos_some _ _ Hp) as (Hds & Hv & Hlt).
    destruct (skipn (S (S h)) r) as [|c rest] eqn:Hs.
    + exists ws, (From (firstn (S h) r)). cbn [render1 wf_spec bounded].
      split; [rewrite Hx at 1; f_equal; exact Hr|].
      split; [assumption|]. split; [assumption|]. now subst a.
    + destruct (parse_pos (c :: rest)) as [b|] eqn:Hpb; [|congruence].
      destruct (parse_pos_some _ _ Hpb) as (Hdb & Hvb & Hltb).
      exists ws, (FromTo (firstn (S h) r) (c :: rest)). cbn [render1 wf_spec bounded].
      split; [rewrite Hx at 1; f_equal; exact Hr|].
      split; [assumption|]. split; [split; assumption|]. split; [now subst a|now subst b].
Qed.

(* ---- the comma list ---- *)
Lemma render1_no_comma s : wf_spec s -> ~ In 44 (render1 s).
Proof.
  destruct s as [a b|a|n]; cbn [render1 wf_spec]; rewrite ?in_app_iff; cbn [In]; intros Hw H.
  - destruct Hw as [Wa Wb]. destruct H as [H|[H|H]]; [|discriminate|];
      revert H; apply ds_no; auto.
  - destruct H as [H|[H|[]]]; [|discriminate]. revert H; apply ds_no; auto.
  - destruct H as [H|H]; [discriminate|]. revert H; apply ds_no; auto.
Qed.
Lemma ows_no_comma ws : all_ows ws -> ~ In 44 ws.
Proof. unfold all_ows. rewrite forallb_forall. intros H Hin. specialize (H _ Hin). unfold is_ows in H. lia. Qed.

Definition elem_ok (p : bytes * rspec) : Prop := all_ows (fst p) /\ wf_spec (snd p).
Definition elem_bytes (p : bytes * rspec) : bytes := fst p ++ render1 (snd p).

Lemma elem_bytes_no_comma p : elem_ok p -> ~ In 44 (elem_bytes p).
Proof.
  intros [Hw Hs]. unfold elem_bytes. rewrite in_app_iff.
  intros [H|H]; [eapply ows_no_comma; eauto|eapply render1_no_comma; eauto].
Qed.

Lemma split_render_tail l : Forall elem_ok l ->
  forall x0, ~ In 44 x0 ->
  split_on 44 (x0 ++ render_tail l) = x0 :: map elem_bytes l.
Proof.
  induction l as [|[ws x] t IH]; intros HF x0 Hx0; cbn [render_tail map].
  - rewrite app_nil_r. now apply split_on_nosep.
  - inversion HF as [|? ? Hp Ht]; subst.
    rewrite split_on_app by assumption. f_equal.
    rewrite app_assoc. apply IH; [assumption|]. now apply (elem_bytes_no_comma (ws, x)).
Qed.

Lemma join_render ws x l :
  join 44 (map elem_bytes ((ws, x) :: l)) = ws ++ render1 x ++ render_tail l.
Proof.
  revert ws x; induction l as [|[ws' x'] t IH]; intros ws x.
  - cbn [map join render_tail elem_bytes fst snd]. now rewrite app_nil_r.
  - change (map elem_bytes ((ws, x) :: (ws', x') :: t))
      with (elem_bytes (ws, x) :: map elem_bytes ((ws', x') :: t)).
    change (join 44 (elem_bytes (ws, x) :: map elem_bytes ((ws', x') :: t)))
      with (elem_bytes (ws, x) ++ 44 :: join 44 (map elem_bytes ((ws', x') :: t))).
    rewrite IH. unfold elem_bytes. cbn [fst snd render_tail]. now rewrite <- !app_assoc.
Qed.

Lemma range_elems_spec L l : Forall (fun p => elem_ok p /\ bounded (snd p)) l -> L < U64 ->
  forall acc, range_elems L (map elem_bytes l) acc
              = Some (rev acc ++ filter_map (resolve1 L) (map snd l)).
Proof.
  intros HF HL. induction l as [|[ws s] t IH]; intros acc; cbn [map range_elems filter_map snd].
  - now rewrite app_nil_r.
  - inversion HF as [|? ? [[Hw Hs] Hb] Ht]; subst. cbn [fst snd] in *.
    unfold elem_bytes at 1. cbn [fst snd].
    rewrite range_elem_render by assumption.
    destruct (resolve1 L s) as [r|]; rewrite IH by assumption; [|reflexivity].
    cbn [rev]. now rewrite <- app_assoc.
Qed.

Lemma range_elems_bad L l : forall acc, Exists (fun x => range_elem L x = EBad) l ->
  range_elems L l acc = None.
Proof.
  induction l as [|x t IH]; intros acc H; [inversion H|].
  cbn [range_elems]. inversion H as [? ? Hx|? ? Ht]; subst.
  - now rewrite Hx.
  - destruct (range_elem L x); auto.
Qed.

Lemma range_elems_accepts L l : forall acc r, range_elems L l acc = Some r ->
  Forall (fun x => range_elem L x <> EBad) l.
Proof.
  induction l as [|x t IH]; intros acc r H; [constructor|].
  cbn [range_elems] in H. destruct (range_elem L x) eqn:E; [discriminate| |];
    (constructor; [congruence|eapply IH; eauto]).
Qed.

Lemma visible_ds a : forallb is_digit a = true -> forallb is_visible a = true.
Proof.
  rewrite !forallb_forall. intros H x Hx. specialize (H x Hx). unfold is_digit in H. unfold is_visible. lia.
Qed.
Lemma visible_ows a : all_ows a -> forallb is_visible a = true.
Proof.
  unfold all_ows. rewrite !forallb_forall. intros H x Hx. specialize (H x Hx). unfold is_ows in H. unfold is_visible. lia.
Qed.
Lemma visible_render1 s : wf_spec s -> forallb is_visible (render1 s) = true.
Proof.
  destruct s as [a b|a|n]; cbn [render1 wf_spec]; intros Hw; rewrite ?forallb_app; cbn [forallb].
  - destruct Hw as [[_ Ha] [_ Hb]]. now rewrite !visible_ds.
  - destruct Hw as [_ Ha]. now rewrite !visible_ds.
  - destruct Hw as [_ Ha]. now rewrite !visible_ds.
Qed.
Lemma visible_render_tail l : Forall elem_ok l -> forallb is_visible (render_tail l) = true.
Proof.
  induction l as [|[ws x] t IH]; intros HF; [reflexivity|]. inversion HF as [|? ? [Hw Hs] Ht]; subst.
  cbn [render_tail forallb fst snd] in *. rewrite !forallb_app, visible_ows, visible_render1, IH by assumption.
  reflexivity.
Qed.

(* ---- main theorems ---- *)

(* Every grammatical byte-range-set (OWS allowed before every element, any number of
   elements, leading zeros, all numbers below 2^64) resolves as RFC 7233 prescribes. *)
Theorem range_parse_grammar L ws0 x l :
  L < U64 -> elem_ok (ws0, x) -> bounded x -> Forall (fun p => elem_ok p /\ bounded (snd p)) l ->
  range_parse (Some (bytes_eq_prefix ++ render_set ws0 x l)) L = spec_resolve L (x :: map snd l).
Proof.
  intros HL [Hw0 Hx] Hbx HF. cbn [fst snd] in *.
  assert (HF' : Forall elem_ok l) by (eapply Forall_impl; [|exact HF]; cbn; tauto).
  unfold range_parse, spec_resolve, to_str.
  rewrite forallb_app. unfold render_set. rewrite !forallb_app.
  rewrite (visible_ows ws0), (visible_render1 x), (visible_render_tail l) by assumption.
  change (forallb is_visible bytes_eq_prefix) with true. cbn [andb].
  rewrite strip_prefix_app.
  rewrite app_assoc. rewrite split_render_tail; [|assumption|apply (elem_bytes_no_comma (ws0, x)); split; assumption].
  change ((ws0 ++ render1 x) :: map elem_bytes l) with (map elem_bytes ((ws0, x) :: l)).
  rewrite range_elems_spec; [| |assumption].
  2:{ constructor; [split; [split|]; assumption|assumption]. }
  cbn [rev app map snd]. destruct (filter_map (resolve1 L) (x :: map snd l)); reflexivity.
Qed.

(* A number of 2^64 or more anywhere makes the whole header ignored. *)
Theorem range_parse_overflow L ws0 x l :
  elem_ok (ws0, x) -> Forall elem_ok l ->
  Exists (fun s => ~ bounded s) (x :: map snd l) ->
  range_parse (Some (bytes_eq_prefix ++ render_set ws0 x l)) L = RNone.
Proof.
  intros [Hw0 Hx] HF HE. cbn [fst snd] in *.
  unfold range_parse, to_str.
  rewrite forallb_app. unfold render_set. rewrite !forallb_app.
  rewrite (visible_ows ws0), (visible_render1 x), (visible_render_tail l) by assumption.
  change (forallb is_visible bytes_eq_prefix) with true. cbn [andb].
  rewrite strip_prefix_app.
  rewrite app_assoc. rewrite split_render_tail; [|assumption|apply (elem_bytes_no_comma (ws0, x)); split; assumption].
  change ((ws0 ++ render1 x) :: map elem_bytes l) with (map elem_bytes ((ws0, x) :: l)).
  rewrite range_elems_bad; [reflexivity|].
  assert (G : forall l', Forall elem_ok l' -> Exists (fun s => ~ bounded s) (map snd l') ->
              Exists (fun x => range_elem L x = EBad) (map elem_bytes l')).
  { induction l' as [|[ws s] t IH]; intros HF' HE'; [inversion HE'|].
    inversion HF' as [|? ? [Hw Hs] Ht]; subst. cbn [map snd fst] in *.
    inversion HE' as [? ? Hb|? ? Hb]; subst.
    - left. unfold elem_bytes. cbn [fst snd]. now apply range_elem_overflow.
    - right. now apply IH. }
  apply G; [constructor; [split; assumption|assumption]|exact HE].
Qed.

(* Converse: a header that is not ignored is "bytes=" followed by a (leniently spaced)
   grammatical byte-range-set whose numbers all fit in 64 bits.  Hence anything outside
   that grammar -- other unit, missing '-', signs, empty elements, non-ASCII -- is ignored. *)
Lemma exists_map {A B} (f : A -> B) (Q : A -> Prop) xs :
  Forall (fun x => exists p, x = f p /\ Q p) xs -> exists ps, xs = map f ps /\ Forall Q ps.
Proof.
  induction xs as [|x t IH]; intros H.
  - exists []. split; [reflexivity|constructor].
  - inversion H as [|? ? [p [Hp Hq]] Ht]; subst. destruct (IH Ht) as (ps & E & F).
    exists (p :: ps). split; [cbn; now f_equal|now constructor].
Qed.

Theorem range_parse_not_ignored h L :
  range_parse (Some h) L <> RNone ->
  exists ws0 x l, h = bytes_eq_prefix ++ render_set ws0 x l /\
    elem_ok (ws0, x) /\ bounded x /\ Forall (fun p => elem_ok p /\ bounded (snd p)) l.
Proof.
  unfold range_parse, to_str. destruct (forallb is_visible h); [|congruence].
  destruct (strip_prefix bytes_eq_prefix h) as [b|] eqn:Hp; [|congruence].
  apply strip_prefix_some in Hp.
  destruct (range_elems L (split_on 44 b) []) as [r|] eqn:He; [|congruence]. intros _.
  apply range_elems_accepts in He.
  assert (H2 : Forall (fun x => exists p, x = elem_bytes p /\ (elem_ok p /\ bounded (snd p))) (split_on 44 b)).
  { eapply Forall_impl; [|exact He]. intros x Hx. destruct (range_elem_accepts _ _ Hx) as (ws & s & E & Hw & Hs & Hb).
    exists (ws, s). unfold elem_bytes, elem_ok. cbn [fst snd]. tauto. }
  destruct (exists_map _ _ _ H2) as (ps & E & F).
  destruct ps as [|[ws0 x] l]; [exfalso; eapply split_on_nonempty; exact E|].
  exists ws0, x, l. inversion F as [|? ? [Hok Hb] Fl]; subst. repeat split; try assumption; try apply Hok.
  f_equal. rewrite <- (join_split 44 b), E. apply join_render.
Qed.

(* Shape of every satisfiable result: non-empty, and each range non-empty within the entity. *)
Lemma range_elem_push_wf L x a e : range_elem L x = EPush (a, e) -> a < e /\ e <= L.
Proof.
  unfold range_elem. destruct (find 45 (trim_start x)) as [[|h]|]; [| |discriminate].
  - destruct (parse_pos _) as [n|]; [|discriminate].
    destruct (N.eqb_spec n 0); destruct (N.eqb_spec L 0); cbn [orb]; try discriminate.
    intros HH; inversion HH; subst. unfold u64_saturating_sub. lia.
  - destruct (parse_pos _) as [f|]; [|discriminate].
    destruct (skipn _ _) as [|c rest].
    + destruct (N.leb_spec L f); [discriminate|]. intros HH; inversion HH; subst. lia.
    + destruct (parse_pos _) as [l|]; [|discriminate].
      match goal with |- context [?p <=? f] => destruct (N.leb_spec p f) end; [discriminate|].
      intros HH; inversion HH; subst. lia.
Qed.

Lemma range_elems_wf L l : forall acc r, range_elems L l acc = Some r ->
  Forall (fun p => fst p < snd p /\ snd p <= L) acc -> Forall (fun p => fst p < snd p /\ snd p <= L) r.
Proof.
  induction l as [|x t IH]; intros acc r H Hacc; cbn [range_elems] in H.
  - inversion H; subst. apply Forall_rev. exact Hacc.
  - destruct (range_elem L x) as [| |[a e]] eqn:E; [discriminate|eauto|].
    eapply IH; [exact H|]. constructor; [|exact Hacc]. cbn [fst snd]. eapply range_elem_push_wf; eauto.
Qed.

Theorem range_parse_sat_wf h L l : range_parse h L = RSat l ->
  l <> [] /\ Forall (fun p => fst p < snd p /\ snd p <= L) l.
Proof.
  unfold range_parse. destruct h as [v|]; [|discriminate]. destruct (to_str v); [|discriminate].
  destruct (strip_prefix _ _); [|discriminate].
  destruct (range_elems L _ []) as [[|p r]|] eqn:E; try discriminate.
  intros H; inversion H; subst. split; [discriminate|]. eapply range_elems_wf; [exact E|constructor].
Qed.
