(* C06: the multipart body streams exactly the wire format of Spec/Multipart.v. *)
From Coq Require Import String.
From HS Require Import Lib.Base Lib.Bytes Lib.Dec Model.Range Model.Body Model.Serve Spec.Multipart
  Proofs.BodyP Proofs.BodyRun Proofs.EchoP Proofs.ServeP.
Ltac Zify.zify_post_hook ::= Z.div_mod_to_equations.

Section Wire.
Variable content : N -> N.
Notation crange := (content_range content).

Lemma content_from_length a n : length (content_from content a n) = n.
Proof. revert a; induction n as [|n IH]; intros a; cbn [content_from length]; [reflexivity|now rewrite IH]. Qed.
Lemma crange_len a e : lenN (crange a e) = e - a.
Proof. unfold content_range, lenN. rewrite content_from_length. lia. Qed.

(* the pre-rendered part header of the model is the part head of the wire format *)
Lemma hdr_of_is_part_head L eh r : hdr_of L (each_part_headers eh) r = mp_part_head L eh r.
Proof. reflexivity. Qed.
Lemma trailer_is_close : PART_TRAILER = mp_close.
Proof. reflexivity. Qed.

(* bytes still to come from a list of pre-rendered headers and their ranges *)
Fixpoint tail_bytes (phs : list bytes) (rs : list (N * N)) : bytes :=
  match phs, rs with
  | p :: phs', (a, e) :: rs' => p ++ crange a e ++ tail_bytes phs' rs'
  | _, _ => []
  end.

Lemma tail_bytes_wire L eh rs : tail_bytes (map (hdr_of L (each_part_headers eh)) rs) rs ++ PART_TRAILER = mp_wire content L eh rs.
Proof.
  unfold mp_wire. rewrite trailer_is_close. f_equal.
  induction rs as [|[a e] t IH]; cbn [map tail_bytes flat_map]; [reflexivity|].
  rewrite IH, hdr_of_is_part_head. unfold mp_part. cbn [fst snd]. now rewrite <- app_assoc.
Qed.

Lemma tail_len_bytes phs rs : Forall (fun r => fst r <= snd r) rs -> length phs = length rs ->
  lenN (tail_bytes phs rs) = tail_len phs rs.
Proof.
  revert rs; induction phs as [|p phs IH]; intros [|[a e] rs] HF Hl; cbn [tail_bytes tail_len]; try reflexivity; try discriminate.
  inversion HF; subst. cbn [length] in Hl. rewrite !lenN_app, crange_len, IH by (assumption || lia). lia.
Qed.

(* C06: the announced total is the length of the wire format, whatever the digit widths and headers *)
Theorem multipart_total_is_wire_length L eh rs : Forall (fun r => fst r <= snd r) rs ->
  tail_len (map (hdr_of L (each_part_headers eh)) rs) rs + TRAILER_LEN = lenN (mp_wire content L eh rs).
Proof.
  intros HF. rewrite <- tail_bytes_wire, lenN_app, tail_len_bytes by (assumption || now rewrite map_length).
  rewrite trailer_len. reflexivity.
Qed.

(* ---- the streaming invariant, for entity streams that honour the contract ---- *)
Variable streams : list (list ev).

Definition honest_for (rs : list (N * N)) : Prop :=
  forall i a e, nth_error rs i = Some (a, e) ->
    stream_bytes (stream_of streams i) = crange a e /\ existsb ev_is_err (stream_of streams i) = false.

Lemma stream_total_bytes s : stream_total s = lenN (stream_bytes s).
Proof.
  induction s as [|[|d|c] t IH]; cbn [stream_total stream_bytes flat_map ev_bytes]; try exact IH; [reflexivity|].
  fold (stream_bytes t). rewrite lenN_app, IH. reflexivity.
Qed.

(* ---- termination measure: the number of polls an honest multipart body still needs ----
   one per part header, one per event of each part's stream (the poll that finds a part's stream
   exhausted hands over the next header or the closing delimiter), one for the closing delimiter,
   one for the end *)
Fixpoint hm (i k : nat) : nat :=
  match k with O => 2%nat | S k' => S (length (stream_of streams i) + hm (S i) k') end.
Definition wm (m : mp) : nat :=
  let n := length (m_ranges m) in
  let i := Nat.div2 (m_state m) in
  match m_cur m with
  | Some x => (length (x_s x) + hm (S i) (n - S i))%nat
  | None => if Nat.eqb (m_state m) (mp_end_state m) then 1%nat
            else if Nat.odd (m_state m) then (length (stream_of streams i) + hm (S i) (n - S i))%nat
            else hm i (n - i)
  end.
Lemma hm_step i n : (i < n)%nat -> hm i (n - i) = S (length (stream_of streams i) + hm (S i) (n - S i)).
Proof. intros H. replace (n - i)%nat with (S (n - S i)) by lia. reflexivity. Qed.
Lemma wm_header m i : m_cur m = None -> m_state m = (2 * i)%nat -> wm m = hm i (length (m_ranges m) - i).
Proof.
  intros Hc Hs. unfold wm, mp_end_state. rewrite Hc, Hs, div2_double, odd_double.
  destruct (Nat.eqb_spec (2 * i) (S (2 * length (m_ranges m)))) as [E|_]; [lia|reflexivity].
Qed.
Lemma wm_open m i : m_cur m = None -> m_state m = S (2 * i) -> (i < length (m_ranges m))%nat ->
  wm m = (length (stream_of streams i) + hm (S i) (length (m_ranges m) - S i))%nat.
Proof.
  intros Hc Hs Hi. unfold wm, mp_end_state. rewrite Hc, Hs, div2_double1, odd_double1.
  destruct (Nat.eqb_spec (S (2 * i)) (S (2 * length (m_ranges m)))) as [E|_]; [lia|reflexivity].
Qed.
Lemma wm_body m i x : m_cur m = Some x -> m_state m = S (2 * i) ->
  wm m = (length (x_s x) + hm (S i) (length (m_ranges m) - S i))%nat.
Proof. intros Hc Hs. unfold wm. now rewrite Hc, Hs, div2_double1. Qed.
Lemma wm_done m : m_cur m = None -> m_state m = mp_end_state m -> wm m = 1%nat.
Proof. intros Hc Hs. unfold wm. rewrite Hc, Hs, Nat.eqb_refl. reflexivity. Qed.
Lemma xl_poll_consumes x x' r : xl_poll x = (x', r) -> (r = PPending \/ exists d, r = PData d) ->
  length (x_s x) = S (length (x_s x')).
Proof.
  intros H Hr. rewrite (xl_poll_stream _ _ _ H). unfold xl_poll in H.
  destruct (x_s x) as [|e t]; [|reflexivity].
  exfalso. destruct (x_rem x =? 0); inversion H; subst; destruct Hr as [Hr|[d Hr]]; discriminate Hr.
Qed.

Inductive WState (m : mp) : bytes -> Prop :=
| WS_header i :
    m_state m = (2 * i)%nat -> m_cur m = None -> (i <= length (m_ranges m))%nat -> length (m_calls m) = i ->
    rev (m_calls m) = firstn (length (m_calls m)) (m_ranges m) ->
    WState m (tail_bytes (skipn i (m_ph m)) (skipn i (m_ranges m)) ++ PART_TRAILER)
| WS_open i a e :
    m_state m = S (2 * i) -> m_cur m = None -> nth_error (m_ranges m) i = Some (a, e) -> length (m_calls m) = i ->
    rev (m_calls m) = firstn (length (m_calls m)) (m_ranges m) ->
    WState m (crange a e ++ tail_bytes (skipn (S i) (m_ph m)) (skipn (S i) (m_ranges m)) ++ PART_TRAILER)
| WS_body i x :
    m_state m = S (2 * i) -> m_cur m = Some x -> (i < length (m_ranges m))%nat -> length (m_calls m) = S i ->
    honest_x x -> rev (m_calls m) = firstn (length (m_calls m)) (m_ranges m) ->
    WState m (stream_bytes (x_s x) ++ tail_bytes (skipn (S i) (m_ph m)) (skipn (S i) (m_ranges m)) ++ PART_TRAILER)
| WS_done :
    m_state m = mp_end_state m -> m_cur m = None -> rev (m_calls m) = firstn (length (m_calls m)) (m_ranges m) -> WState m [].

(* one poll: no error, and what is still to come shrinks by exactly what was handed over *)
Theorem wire_step m pend : MInv m -> honest_for (m_ranges m) -> WState m pend ->
  exists m' r, mp_poll MP_FUEL streams m = Ok (m', r) /\ is_perr r = false /\ MInv m' /\
               m_ranges m' = m_ranges m /\
               (exists pend', WState m' pend' /\ pend = res_bytes r ++ pend' /\ (r = PEnd -> pend = [])) /\
               (r = PEnd \/ wm m = S (wm m')).
Proof.
  intros HI Hh HW. destruct (mp_poll_total streams m HI) as (m' & r & E & HI'). exists m', r. split; [exact E|].
  destruct HI as (Hl & Hr & _). unfold MP_FUEL in E.
  (* the body case, used twice *)
  assert (Hbody : forall f m0 i x m1 r1, m_state m0 = S (2 * i) -> m_cur m0 = Some x -> (i < length (m_ranges m0))%nat ->
            length (m_calls m0) = S i -> honest_x x -> length (m_ph m0) = length (m_ranges m0) ->
            rev (m_calls m0) = firstn (length (m_calls m0)) (m_ranges m0) ->
            mp_poll (S f) streams m0 = Ok (m1, r1) ->
            wm m0 = S (wm m1) /\ is_perr r1 = false /\ m_ranges m1 = m_ranges m0 /\
            exists pend', WState m1 pend' /\
              stream_bytes (x_s x) ++ tail_bytes (skipn (S i) (m_ph m0)) (skipn (S i) (m_ranges m0)) ++ PART_TRAILER = res_bytes r1 ++ pend' /\
              (r1 = PEnd -> False)).
  { intros f m0 i x m1 r1 Hs Hc Hi Hcalls Hx Hl0 Hci H0. rewrite mp_poll_S, Hc in H0.
    destruct (xl_poll x) as [x' rx] eqn:Ex. destruct (honest_x_step _ _ _ Hx Ex) as [Hx' Hne].
    pose proof (xl_poll_stream _ _ _ Ex) as Hst.
    destruct rx as [|d| |e0]; try discriminate.
    - inversion H0; subst.
      split; [rewrite (wm_body m0 i x Hc Hs); match goal with |- _ = S (wm ?m1) => rewrite (wm_body m1 i x' eq_refl Hs) end; cbn [m_ranges];
              rewrite (xl_poll_consumes _ _ _ Ex (or_introl eq_refl)); reflexivity|].
      split; [reflexivity|]. split; [reflexivity|]. eexists. split.
      + eapply (WS_body _ i x'); cbn [m_state m_cur m_ranges m_calls]; auto.
      + cbn [m_ph m_ranges res_bytes app]. split; [|discriminate].
        unfold xl_poll in Ex. destruct (x_s x) as [|[|d|c] t] eqn:Es; try (destruct (x_rem x =? 0); discriminate);
          try (destruct (lenN d <=? x_rem x); discriminate); inversion Ex; subst. reflexivity.
    - unfold u64_sub in H0. destruct (lenN d <=? m_rem m0); [|discriminate]. cbn [bind] in H0.
      inversion H0; subst.
      split; [rewrite (wm_body m0 i x Hc Hs); match goal with |- _ = S (wm ?m1) => rewrite (wm_body m1 i x' eq_refl Hs) end; cbn [m_ranges];
              rewrite (xl_poll_consumes _ _ _ Ex (or_intror (ex_intro _ d eq_refl))); reflexivity|].
      split; [reflexivity|]. split; [reflexivity|]. eexists. split.
      + eapply (WS_body _ i x'); cbn [m_state m_cur m_ranges m_calls]; auto.
      + cbn [m_ph m_ranges res_bytes]. split; [|discriminate].
        unfold xl_poll in Ex. destruct (x_s x) as [|[|d0|c] t] eqn:Es; try (destruct (x_rem x =? 0); discriminate); try discriminate.
        destruct (lenN d0 <=? x_rem x); inversion Ex; subst. cbn [stream_bytes flat_map ev_bytes x_s].
        now rewrite <- app_assoc.
    - (* the part ended: next header or the trailer *)
      destruct (xl_poll_accounting _ _ _ Ex) as (Hz & -> & Hnil).
      unfold mp_idle in H0. cbn [m_state m_ranges m_ph m_rem m_cur m_calls] in H0.
      rewrite Hs in H0. replace (S (S (2 * i))) with (2 * S i)%nat in H0 by lia.
      rewrite div2_double, odd_double, andb_false_r in H0. rewrite Hnil. cbn [stream_bytes flat_map app].
      destruct (Nat.eqb_spec (S i) (length (m_ranges m0))) as [Heq|Hne2].
      + unfold u64_sub in H0. destruct (lenN PART_TRAILER <=? m_rem m0); [|discriminate]. cbn [bind] in H0.
        inversion H0; subst.
        split; [rewrite (wm_body m0 i x Hc Hs), Hnil, wm_done;
                [|reflexivity|unfold mp_end_state; cbn [m_state m_ranges]; lia];
                replace (length (m_ranges m0) - S i)%nat with 0%nat by lia; reflexivity|].
        split; [reflexivity|]. split; [reflexivity|]. exists []. split.
        * apply WS_done; unfold mp_end_state; cbn [m_state m_cur m_rem m_ranges m_calls]; try reflexivity; try lia; exact Hci.
        * rewrite skipn_all2 by lia. cbn [tail_bytes res_bytes app]. rewrite app_nil_r. split; [reflexivity|discriminate].
      + destruct (nth_error (m_ph m0) (S i)) as [v|] eqn:Ev; [|discriminate].
        unfold u64_sub in H0. destruct (lenN v <=? m_rem m0); [|discriminate]. cbn [bind] in H0.
        inversion H0; subst.
        assert (Hlt : (S i < length (m_ranges m0))%nat) by lia.
        split; [rewrite (wm_body m0 i x Hc Hs), Hnil, (wm_open _ (S i));
                [|reflexivity|cbn [m_state]; lia|cbn [m_ranges]; exact Hlt];
                cbn [m_ranges length plus]; apply hm_step; exact Hlt|].
        split; [reflexivity|]. split; [reflexivity|].
        destruct (nth_error_some_lt (m_ranges m0) (S i) Hlt) as [[a e] Hre].
        eexists. split.
        * eapply (WS_open _ (S i) a e); cbn [m_state m_cur m_ranges m_calls]; auto; try lia.
        * cbn [m_ph m_ranges res_bytes]. rewrite (skipn_nth _ _ _ Ev), (skipn_nth _ _ _ Hre). cbn [tail_bytes].
          rewrite set_nth_skipn by lia. rewrite <- !app_assoc. split; [reflexivity|discriminate]. }
  assert (Goal' : (r = PEnd \/ wm m = S (wm m')) /\ is_perr r = false /\ m_ranges m' = m_ranges m /\
                  exists pend', WState m' pend' /\ pend = res_bytes r ++ pend' /\ (r = PEnd -> pend = [])).
  { destruct HW as [i Hs Hc Hi Hcl Hci|i a e Hs Hc Hre Hcl Hci|i x Hs Hc Hi Hcl Hx Hci|Hs Hc Hci].
    - rewrite mp_poll_S, Hc in E. unfold mp_idle in E. rewrite Hs, div2_double, odd_double, andb_false_r in E.
      destruct (Nat.eqb_spec i (length (m_ranges m))) as [Heq|Hne].
      + unfold u64_sub in E. destruct (_ <=? _); [|discriminate]. cbn [bind] in E. injection E as Em Er; subst m' r.
        split; [right; rewrite (wm_header m i Hc Hs), wm_done;
                [|reflexivity|unfold mp_end_state; cbn [m_state m_ranges]; lia];
                replace (length (m_ranges m) - i)%nat with 0%nat by lia; reflexivity|].
        split; [reflexivity|]. split; [reflexivity|]. exists []. split.
        * apply WS_done; unfold mp_end_state; cbn [m_state m_cur m_ranges m_calls]; [lia|reflexivity|exact Hci].
        * rewrite !skipn_all2 by lia. cbn [tail_bytes res_bytes app]. rewrite app_nil_r. split; [reflexivity|discriminate].
      + destruct (nth_error (m_ph m) i) as [v|] eqn:Ev; [|discriminate].
        unfold u64_sub in E. destruct (_ <=? _); [|discriminate]. cbn [bind] in E. injection E as Em Er; subst m' r.
        assert (Hlt : (i < length (m_ranges m))%nat) by lia.
        split; [right; rewrite (wm_header m i Hc Hs), (wm_open _ i);
                [|reflexivity|cbn [m_state]; rewrite ?Hs; reflexivity|cbn [m_ranges]; exact Hlt];
                cbn [m_ranges]; apply hm_step; exact Hlt|].
        split; [reflexivity|]. split; [reflexivity|].
        destruct (nth_error_some_lt (m_ranges m) i Hlt) as [[a e] Hre].
        eexists. split.
        * eapply (WS_open _ i a e); cbn [m_state m_cur m_ranges m_calls]; auto.
        * cbn [m_ph m_ranges res_bytes]. rewrite (skipn_nth _ _ _ Ev), (skipn_nth _ _ _ Hre). cbn [tail_bytes].
          rewrite set_nth_skipn by lia. rewrite <- !app_assoc. split; [reflexivity|discriminate].
    - assert (Hi : (i < length (m_ranges m))%nat) by (apply nth_error_Some; congruence).
      rewrite mp_poll_S, Hc in E. unfold mp_idle in E. rewrite Hs, div2_double1, odd_double1, andb_true_r in E.
      destruct (Nat.eqb_spec i (length (m_ranges m))) as [Heq|_]; [lia|]. rewrite Hre in E.
      unfold u64_sub in E. destruct (a <=? e); [|discriminate]. cbn [bind] in E. rewrite Hcl in E.
      destruct (Hh i a e Hre) as [Hb He].
      set (x0 := {| x_s := stream_of streams i; x_rem := e - a |}) in *.
      set (m0 := {| m_cur := Some x0; m_state := S (2 * i); m_ph := m_ph m; m_ranges := m_ranges m;
                    m_rem := m_rem m; m_calls := (a, e) :: m_calls m |}) in *.
      assert (Hx0 : honest_x x0).
      { split; [cbn [x0 x_s x_rem]; rewrite stream_total_bytes, Hb, crange_len; reflexivity|exact He]. }
      assert (Hcalls0 : length (m_calls m0) = S i) by (cbn [m0 m_calls length]; now rewrite Hcl).
      assert (Hci0 : rev (m_calls m0) = firstn (length (m_calls m0)) (m_ranges m0)).
      { cbn [m0 m_calls m_ranges rev length]. rewrite Hci, Hcl. clear -Hre. revert i Hre. generalize (m_ranges m).
        induction l as [|y l IH]; intros [|i] H; cbn in *; try discriminate; [now inversion H|]. f_equal. now apply IH. }
      destruct (Hbody 2%nat m0 i x0 m' r eq_refl eq_refl Hi Hcalls0 Hx0 Hl Hci0 E) as (WM & Hne & Hrs & pend' & HW' & Heq & Hnend).
      split; [right; rewrite <- WM, (wm_open m i Hc Hs Hi), (wm_body m0 i x0 eq_refl eq_refl); reflexivity|].
      split; [exact Hne|]. split; [exact Hrs|]. exists pend'. split; [exact HW'|].
      cbn [m0 m_ph m_ranges x0 x_s] in Heq. rewrite Hb in Heq. split; [exact Heq|]. intros ->. exfalso. now apply Hnend.
    - destruct (Hbody 3%nat m i x m' r Hs Hc Hi Hcl Hx Hl Hci E) as (WM & Hne & Hrs & pend' & HW' & Heq & Hnend).
      split; [right; exact WM|].
      split; [exact Hne|]. split; [exact Hrs|]. exists pend'. split; [exact HW'|]. split; [exact Heq|].
      intros ->. exfalso. now apply Hnend.
    - rewrite mp_poll_S, Hc in E. unfold mp_idle in E. rewrite Hs in E. unfold mp_end_state in E.
      rewrite div2_double1, odd_double1, Nat.eqb_refl in E. cbn [andb] in E.
      destruct (m_rem m =? 0); [|discriminate]. injection E as Em Er; subst m' r.
      split; [left; reflexivity|].
      split; [reflexivity|]. split; [reflexivity|]. exists []. split; [now apply WS_done|]. split; reflexivity. }
  destruct Goal' as (G0 & G1 & G2 & G3). split; [exact G1|]. split; [exact HI'|]. split; [exact G2|]. split; [exact G3|exact G0].
Qed.

(* any number of polls: never an error; what was handed over plus what is still to come is the
   wire format; at the clean end everything has been handed over *)
Theorem wire_run n : forall m pend rs bf, MInv m -> honest_for (m_ranges m) -> WState m pend ->
  run n streams (BMulti m) = Ok (rs, bf) ->
  existsb is_perr rs = false /\
  exists m' pend', bf = BMulti m' /\ WState m' pend' /\ m_ranges m' = m_ranges m /\ data_bytes rs ++ pend' = pend /\
                   (existsb is_pend rs = true -> pend' = []).
Proof.
  induction n as [|k IH]; intros m pend rs bf HI Hh HW HH; cbn [run] in HH.
  - inversion HH; subst. split; [reflexivity|]. exists m, pend. repeat split; auto. discriminate.
  - cbn [body_poll] in HH.
    destruct (wire_step m pend HI Hh HW) as (m1 & r & E & Hne & HI1 & Hrs1 & (pend1 & HW1 & Eq1 & Hend1) & _).
    rewrite E in HH. cbn [bind] in HH.
    destruct (run k streams (BMulti m1)) as [[rs' bf']|t] eqn:Hr; [|discriminate]. inversion HH; subst.
    assert (Hh1 : honest_for (m_ranges m1)) by (rewrite Hrs1; exact Hh).
    destruct (IH m1 pend1 rs' bf HI1 Hh1 HW1 Hr) as (He & m2 & pend2 & Eb & HW2 & Hrs2 & Eq2 & Hend2).
    split; [cbn [existsb]; rewrite Hne, He; reflexivity|].
    exists m2, pend2. split; [exact Eb|]. split; [exact HW2|]. split; [congruence|]. split.
    + unfold data_bytes in *. cbn [flat_map]. rewrite <- app_assoc, Eq2. reflexivity.
    + cbn [existsb]. intros Hp. destruct r as [|d| |e0]; cbn [is_pend orb] in Hp; try (now apply Hend2).
      (* the end was reported now: nothing was pending, and nothing comes after *)
      specialize (Hend1 eq_refl). cbn [res_bytes app] in Hend1. rewrite Hend1 in Eq2.
      apply app_eq_nil in Eq2. destruct Eq2 as [_ E2]. exact E2.
Qed.
(* ---- liveness: an honest multipart body reaches its clean end, within wm m polls ---- *)
Lemma hm_ge2 i k : (2 <= hm i k)%nat.
Proof. revert i; induction k as [|k IH]; intros i; cbn [hm]; [lia|]. specialize (IH (S i)). lia. Qed.
Lemma wm_pos m pend : WState m pend -> (1 <= wm m)%nat.
Proof.
  intros [i Hs Hc Hi Hcl Hci|i a e Hs Hc Hre Hcl Hci|i x Hs Hc Hi Hcl Hx Hci|Hs Hc Hci].
  - rewrite (wm_header m i Hc Hs). pose proof (hm_ge2 i (length (m_ranges m) - i)). lia.
  - assert (Hi : (i < length (m_ranges m))%nat) by (apply nth_error_Some; congruence).
    rewrite (wm_open m i Hc Hs Hi). pose proof (hm_ge2 (S i) (length (m_ranges m) - S i)). lia.
  - rewrite (wm_body m i x Hc Hs). pose proof (hm_ge2 (S i) (length (m_ranges m) - S i)). lia.
  - rewrite (wm_done m Hc Hs). lia.
Qed.
Theorem wire_terminates k : forall m pend rs bf, MInv m -> honest_for (m_ranges m) -> WState m pend ->
  (wm m <= k)%nat -> run k streams (BMulti m) = Ok (rs, bf) -> existsb is_pend rs = true.
Proof.
  induction k as [|k IH]; intros m pend rs bf HI Hh HW Hk HH.
  - pose proof (wm_pos m pend HW). lia.
  - cbn [run body_poll] in HH.
    destruct (wire_step m pend HI Hh HW) as (m1 & r & E & Hne & HI1 & Hrs1 & (pend1 & HW1 & Eq1 & Hend1) & Hm).
    rewrite E in HH. cbn [bind] in HH.
    destruct (run k streams (BMulti m1)) as [[rs' bf']|t] eqn:Hr; [|discriminate]. inversion HH; subst.
    cbn [existsb]. destruct Hm as [->|Hm]; [reflexivity|].
    apply orb_true_iff. right.
    assert (Hh1 : honest_for (m_ranges m1)) by (rewrite Hrs1; exact Hh).
    eapply (IH m1 pend1 rs' bf HI1 Hh1 HW1); [lia|exact Hr].
Qed.
End Wire.

Section Top.
Variable fmt_date : N -> bytes.
Variable parse_date : bytes -> option N.
Variable content : N -> N.

(* C06: a multi-range 206 declares multipart/byteranges with the boundary, has no top-level
   Content-Range, announces exactly the length of the wire format, and -- for an entity whose
   streams honour the contract, however they chunk -- its body, polled any number of times, is a
   prefix of the wire format without any error, and exactly the wire format at the clean end, the
   ranges being read in request order. *)
Theorem multipart_response now ent req r streams :
  e_len ent < U64 -> serve_model fmt_date parse_date now ent req = Ok r -> r_meth req = GET ->
  status r = 206 -> ServeProps.values H_CONTENT_RANGE (hdrs r) = [] ->
  exists rs total,
    let eh := if snd (if_range_gate (e_etag ent) req) then e_hdrs ent else [] in
    ranges_wf (e_len ent) rs /\ (2 <= length rs)%nat /\
    range_parse (fst (if_range_gate (e_etag ent) req)) (e_len ent) = RSat rs /\
    hdrs r = h0_of fmt_date now ent ++ [(H_CONTENT_LENGTH, dec total); (H_CONTENT_TYPE, V_MULTIPART)] /\
    total = lenN (mp_wire content (e_len ent) eh rs) /\
    (honest_for content streams rs ->
     forall n rs_ bf, run n streams (fst (body_init streams (rplan r))) = Ok (rs_, bf) ->
       existsb is_perr rs_ = false /\
       (exists rest, data_bytes rs_ ++ rest = mp_wire content (e_len ent) eh rs) /\
       (existsb is_pend rs_ = true -> data_bytes rs_ = mp_wire content (e_len ent) eh rs) /\
       ((hm streams 0 (length rs) <= n)%nat -> existsb is_pend rs_ = true)).
Proof.
  intros HL HH Hm Hs Hct. pose proof (serve_shape _ _ now ent req r HL HH) as S.
  destruct S as [| | | | | |a e Hg Hc Hr Hae Hel|rs total Hg Hc Hr Hw Hlen each Ht Htl Hest|]; cbn [status] in Hs; try discriminate.
  - (* a single-range 206 always carries a top-level Content-Range *)
    exfalso. cbn [hdrs] in Hct. revert Hct.
    destruct (snd (if_range_gate (e_etag ent) req)); rewrite !ServeProps.values_app;
      rewrite (ServeProps.values_h0 fmt_date parse_date) by (let E := fresh in intros E; vm_compute in E; discriminate E);
      unfold ServeProps.values at 1; cbn [filter map fst snd]; rewrite beq_bytes_refl; cbn [map snd app]; discriminate.
  - exists rs, total. cbv zeta. split; [exact Hw|]. split; [exact Hlen|]. split; [exact Hr|]. split; [reflexivity|].
    assert (Heach : each = each_part_headers (if snd (if_range_gate (e_etag ent) req) then e_hdrs ent else [])).
    { unfold each. destruct (snd (if_range_gate (e_etag ent) req)); reflexivity. }
    split.
    + rewrite Ht, Heach. apply (multipart_total_is_wire_length content). now apply (ranges_wf_le fmt_date parse_date (e_len ent)).
    + intros Hh n rs_ bf Hrun. cbn [rplan] in Hrun. rewrite Hm in Hrun. change (beq_bytes GET HEAD) with false in Hrun.
      cbn [body_init fst] in Hrun.
      set (m0 := {| m_cur := None; m_state := 0; m_ph := map (hdr_of (e_len ent) each) rs; m_ranges := rs; m_rem := total; m_calls := [] |}) in *.
      assert (HI0 : MInv m0).
      { split; [cbn [m0 m_ph m_ranges]; now rewrite map_length|]. split; [now apply (ranges_wf_le fmt_date parse_date (e_len ent))|].
        apply (MS_header _ 0); cbn [m0 m_state m_cur m_ranges m_ph m_rem skipn]; try reflexivity; try lia; try exact Ht. }
      assert (HW0 : WState content m0 (tail_bytes content (map (hdr_of (e_len ent) each) rs) rs ++ PART_TRAILER)).
      { apply (WS_header content m0 0); cbn [m0 m_state m_cur m_ranges m_calls length]; try reflexivity; lia. }
      destruct (wire_run content streams n m0 _ rs_ bf HI0 Hh HW0 Hrun) as (He & m' & pend' & _ & _ & _ & Eq & Hend).
      rewrite Heach, tail_bytes_wire in Eq.
      split; [exact He|]. split; [exists pend'; exact Eq|]. split.
      * intros Hp. rewrite (Hend Hp), app_nil_r in Eq. exact Eq.
      * intros Hn. eapply (wire_terminates content streams n m0 _ rs_ bf HI0 Hh HW0); [|exact Hrun].
        rewrite (wm_header streams m0 0 eq_refl eq_refl). cbn [m0 m_ranges]. rewrite Nat.sub_0_r. exact Hn.
Qed.
End Top.
