(* Model/Etag.v (byte-level tokenizer and comparisons) against Spec/Validators.v (ASTs). *)
From HS Require Import Lib.Base Lib.Bytes Model.Etag Spec.Validators.
Ltac Zify.zify_post_hook ::= Z.div_mod_to_equations.

Lemma render_tag_strong o : render_tag {| t_weak := false; t_opaque := o |} = 34 :: o ++ [34].
Proof. reflexivity. Qed.
Lemma render_tag_weak o : render_tag {| t_weak := true; t_opaque := o |} = 87 :: 47 :: 34 :: o ++ [34].
Proof. reflexivity. Qed.

Lemma render_tag_head t : exists b r, render_tag t = b :: r /\ is_ows b = false /\ b <> 44.
Proof.
  destruct t as [[|] o]; [rewrite render_tag_weak|rewrite render_tag_strong]; eexists _, _; (split; [reflexivity|]);
    split; try reflexivity; discriminate.
Qed.

Lemma starts_with_wq_strong o r : starts_with W_SLASH_Q (34 :: o ++ r) = false.
Proof. reflexivity. Qed.

(* one step of the iterator on a rendered tag followed by anything *)
Lemma list_next_tag t rest : tag_ok t ->
  list_next (render_tag t ++ rest) =
  (Some (render_tag t, match rest with 44 :: r => trim_start r | _ => rest end), false).
Proof.
  intros Hok. unfold tag_ok in Hok. destruct t as [[|] o]; cbn [t_opaque] in Hok.
  - rewrite render_tag_weak. cbn [app]. unfold list_next.
    change (starts_with W_SLASH_Q (87 :: 47 :: 34 :: (o ++ [34]) ++ rest)) with true. cbv iota.
    change (skipn 3 (87 :: 47 :: 34 :: (o ++ [34]) ++ rest)) with ((o ++ [34]) ++ rest).
    unfold position_dq. rewrite <- app_assoc. cbn [app]. rewrite find_app_no by assumption.
    cbn [option_map].
    replace (S (length o + 3)) with (length (87 :: 47 :: 34 :: o ++ [34])) by (cbn [length]; rewrite app_length; cbn [length]; lia).
    replace (87 :: 47 :: 34 :: o ++ 34 :: rest) with ((87 :: 47 :: 34 :: o ++ [34]) ++ rest)
      by (cbn [app]; rewrite <- app_assoc; reflexivity).
    rewrite firstn_len.
    replace (skipn (length (87 :: 47 :: 34 :: o ++ [34])) ((87 :: 47 :: 34 :: o ++ [34]) ++ rest)) with rest
      by (rewrite skipn_app, skipn_all, Nat.sub_diag; reflexivity).
    reflexivity.
  - rewrite render_tag_strong. cbn [app]. unfold list_next.
    change (starts_with W_SLASH_Q (34 :: (o ++ [34]) ++ rest)) with false. cbv iota.
    change (starts_with DQ (34 :: (o ++ [34]) ++ rest)) with true. cbv iota.
    change (skipn 1 (34 :: (o ++ [34]) ++ rest)) with ((o ++ [34]) ++ rest).
    unfold position_dq. rewrite <- app_assoc. cbn [app]. rewrite find_app_no by assumption.
    cbn [option_map].
    replace (S (length o + 1)) with (length (34 :: o ++ [34])) by (cbn [length]; rewrite app_length; cbn [length]; lia).
    replace (34 :: o ++ 34 :: rest) with ((34 :: o ++ [34]) ++ rest)
      by (cbn [app]; rewrite <- app_assoc; reflexivity).
    rewrite firstn_len.
    replace (skipn (length (34 :: o ++ [34])) ((34 :: o ++ [34]) ++ rest)) with rest
      by (rewrite skipn_app, skipn_all, Nat.sub_diag; reflexivity).
    reflexivity.
Qed.

Definition elem_ok (p : bytes * tag) : Prop := all_ows (fst p) /\ tag_ok (snd p).

Lemma render_tag_length t : (2 <= length (render_tag t))%nat.
Proof. destruct t as [[|] o]; [rewrite render_tag_weak|rewrite render_tag_strong]; simpl length; rewrite app_length; simpl length; lia. Qed.

Lemma trim_start_tag ws t rest : all_ows ws -> trim_start (ws ++ render_tag t ++ rest) = render_tag t ++ rest.
Proof.
  intros Hw. rewrite trim_start_app by assumption.
  destruct (render_tag_head t) as (b & r & E & Hb & _). rewrite E. cbn [app]. now apply trim_start_id.
Qed.

(* the whole list: the iterator yields exactly the rendered tags, in order, and is not corrupt --
   for any number of tags and any tag content without a double quote (commas and spaces included) *)
Lemma list_items_tags : forall l t fuel, tag_ok t -> Forall elem_ok l ->
  (length (render_tag t ++ render_tags_tail l) < fuel)%nat ->
  list_items fuel (render_tag t ++ render_tags_tail l) = (render_tag t :: map (fun p => render_tag (snd p)) l, false).
Proof.
  induction l as [|[ws t2] l IH]; intros t fuel Hok HF Hfuel.
  - cbn [render_tags_tail map] in *. destruct fuel as [|f]; [lia|]. cbn [list_items].
    rewrite list_next_tag by assumption.
    destruct f as [|f].
    + rewrite app_nil_r in Hfuel. pose proof (render_tag_length t). lia.
    + cbn [list_items list_next]. reflexivity.
  - inversion HF as [|? ? [Hw Hok2] HF']; subst. cbn [fst snd] in *.
    cbn [render_tags_tail map snd] in *. destruct fuel as [|f]; [lia|]. cbn [list_items].
    rewrite list_next_tag by assumption.
    rewrite trim_start_tag by assumption.
    rewrite IH; [reflexivity|assumption|assumption|].
    rewrite !app_length in *. cbn [length] in *. rewrite !app_length in Hfuel. pose proof (render_tag_length t). lia.
Qed.

Theorem etag_list_tags t l : tag_ok t -> Forall elem_ok l ->
  etag_list (render_tag_list (TList t l)) = (map render_tag (tags_of (TList t l)), false).
Proof.
  intros Hok HF. unfold etag_list. cbn [render_tag_list tags_of map]. rewrite list_items_tags; auto.
  now rewrite map_map.
Qed.

(* comparison functions on rendered tags are the RFC 7232 functions on ASTs *)
Lemma app_inj_tail_byte (a b : bytes) x : a ++ [x] = b ++ [x] -> a = b.
Proof. intros H. now apply app_inj_tail in H. Qed.

Lemma beq_render a b : beq_bytes (render_tag a) (render_tag b) = Bool.eqb (t_weak a) (t_weak b) && beq_bytes (t_opaque a) (t_opaque b).
Proof.
  destruct a as [[|] oa], b as [[|] ob]; cbn [t_weak t_opaque Bool.eqb andb];
    rewrite ?render_tag_weak, ?render_tag_strong; try reflexivity.
  - cbn [beq_bytes]. rewrite !N.eqb_refl. cbn [andb].
    destruct (beq_bytes oa ob) eqn:E.
    + apply beq_bytes_spec in E. subst. apply beq_bytes_refl.
    + apply beq_bytes_false. intros H. apply app_inj_tail_byte in H. apply beq_bytes_false in E. contradiction.
  - cbn [beq_bytes]. rewrite N.eqb_refl. cbn [andb].
    destruct (beq_bytes oa ob) eqn:E.
    + apply beq_bytes_spec in E. subst. apply beq_bytes_refl.
    + apply beq_bytes_false. intros H. apply app_inj_tail_byte in H. apply beq_bytes_false in E. contradiction.
Qed.

Lemma starts_w_render a : starts_with W_SLASH (render_tag a) = t_weak a.
Proof. destruct a as [[|] o]; reflexivity. Qed.

Lemma strip_w_render a : strip_w (render_tag a) = 34 :: t_opaque a ++ [34].
Proof. destruct a as [[|] o]; reflexivity. Qed.

Theorem strong_eq_render a b : strong_eq (render_tag a) (render_tag b) = strong_eq_spec a b.
Proof.
  unfold strong_eq, strong_eq_spec. rewrite beq_render, starts_w_render.
  destruct (t_weak a), (t_weak b), (beq_bytes (t_opaque a) (t_opaque b)); reflexivity.
Qed.

Theorem weak_eq_render a b : weak_eq (render_tag a) (render_tag b) = weak_eq_spec a b.
Proof.
  unfold weak_eq, weak_eq_spec. rewrite !strip_w_render. cbn [beq_bytes]. rewrite N.eqb_refl. cbn [andb].
  destruct (beq_bytes (t_opaque a) (t_opaque b)) eqn:E.
  - apply beq_bytes_spec in E. rewrite E. apply beq_bytes_refl.
  - apply beq_bytes_false. intros H. apply app_inj_tail_byte in H. apply beq_bytes_false in E. contradiction.
Qed.

Lemma existsb_map {A B} (f : A -> B) (p : B -> bool) l : existsb p (map f l) = existsb (fun x => p (f x)) l.
Proof. induction l as [|x l IH]; cbn; [reflexivity|]. now rewrite IH. Qed.

Lemma existsb_ext {A} (f g : A -> bool) l : (forall x, f x = g x) -> existsb f l = existsb g l.
Proof. intros H. induction l as [|x l IH]; cbn; [reflexivity|]. now rewrite H, IH. Qed.

Definition list_ok (l : tag_list) : Prop :=
  match l with TStar => True | TList t r => tag_ok t /\ Forall elem_ok r end.

Lemma render_list_not_star t r : beq_bytes (render_tag_list (TList t r)) STAR = false.
Proof.
  cbn [render_tag_list]. destruct t as [[|] o]; [rewrite render_tag_weak|rewrite render_tag_strong]; reflexivity.
Qed.

(* any_match / none_match on rendered headers *)
Theorem any_match_render (etag : option tag) (im : option tag_list) :
  match im with Some l => list_ok l | None => True end ->
  any_match (option_map render_tag etag) (option_map render_tag_list im) =
  Some (match im with
        | None | Some TStar => true
        | Some l => match etag with Some e => existsb (fun t => strong_eq_spec t e) (tags_of l) | None => false end
        end).
Proof.
  intros Hok. destruct im as [[|t r]|]; cbn [option_map any_match]; try reflexivity.
  rewrite render_list_not_star. destruct etag as [e|]; cbn [option_map]; [|reflexivity].
  destruct Hok as [H1 H2]. rewrite etag_list_tags by assumption. rewrite existsb_map.
  f_equal. apply existsb_ext. intros x. apply strong_eq_render.
Qed.

Theorem none_match_render (etag : option tag) (inm : option tag_list) :
  match inm with Some l => list_ok l | None => True end ->
  none_match (option_map render_tag etag) (option_map render_tag_list inm) =
  match inm with
  | None => None
  | Some TStar => Some false
  | Some l => Some (negb (match etag with Some e => existsb (fun t => weak_eq_spec t e) (tags_of l) | None => false end))
  end.
Proof.
  intros Hok. destruct inm as [[|t r]|]; cbn [option_map none_match]; try reflexivity.
  rewrite render_list_not_star. destruct etag as [e|]; cbn [option_map]; [|reflexivity].
  destruct Hok as [H1 H2]. rewrite etag_list_tags by assumption. rewrite existsb_map.
  do 2 f_equal. apply existsb_ext. intros x. apply weak_eq_render.
Qed.
