(* Transliteration of parse_qvalue and should_gzip in src/lib.rs. *)
From Coq Require Import String.
From HS Require Import Lib.Base Lib.Bytes Lib.Dec.

(* u16::from_str: optional '+', then 1*DIGIT, value < 2^16 *)
Fixpoint parse_digits16 (s : bytes) (acc : N) : option N :=
  match s with
  | [] => Some acc
  | b :: t => if is_digit b then let a := acc * 10 + (b - 48) in
                if a <? 65536 then parse_digits16 t a else None else None
  end.
Definition parse_u16 (s : bytes) : option N :=
  let d := match s with 43 :: t => t | _ => s end in
  match d with [] => None | _ => parse_digits16 d 0 end.

Definition Q_ONES : list bytes := [bs "1"; bs "1."; bs "1.0"; bs "1.00"; bs "1.000"].
Definition Q_ZEROS : list bytes := [bs "0"; bs "0."].
Definition mem_bytes (x : bytes) (l : list bytes) : bool := existsb (beq_bytes x) l.

(* Ok None models Err(()); the u16 multiplication is checked as a debug build does *)
Definition parse_qvalue (s : bytes) : M (option N) :=
  if mem_bytes s Q_ONES then Ok (Some 1000)
  else if mem_bytes s Q_ZEROS then Ok (Some 0)
  else if negb (starts_with (bs "0.") s) then Ok None
  else
    let v := skipn 2 s in
    match (match length v with 1%nat => Some 100 | 2%nat => Some 10 | 3%nat => Some 1 | _ => None end) with
    | None => Ok None
    | Some factor =>
        match parse_u16 v with
        | None => Ok None
        | Some x => if x * factor <? 65536 then Ok (Some (x * factor)) else Panic P_MUL_OVERFLOW
        end
    end.

Record qstate := { q_gzip : option N; q_identity : option N; q_star : option N }.

(* one element of `for qi in parts`: None = `return false` (unparseable) *)
Definition negot_elem (st : qstate) (qi : bytes) : M (option qstate) :=
  let! cq :=
    match split_once 59 qi with
    | None => Ok (Some (trim qi, 1000))
    | Some (c, q) =>
        match strip_prefix (bs "q=") (trim q) with
        | None => Ok None
        | Some qv => let! r := parse_qvalue qv in
                     Ok (match r with Some x => Some (trim c, x) | None => None end)
        end
    end in
  match cq with
  | None => Ok None
  | Some (coding, quality) =>
      Ok (Some (if beq_bytes coding (bs "gzip") then {| q_gzip := Some quality; q_identity := q_identity st; q_star := q_star st |}
                else if beq_bytes coding (bs "identity") then {| q_gzip := q_gzip st; q_identity := Some quality; q_star := q_star st |}
                else if beq_bytes coding (bs "*") then {| q_gzip := q_gzip st; q_identity := q_identity st; q_star := Some quality |}
                else st))
  end.

Fixpoint negot_elems (st : qstate) (l : list bytes) : M (option qstate) :=
  match l with
  | [] => Ok (Some st)
  | qi :: t => let! r := negot_elem st qi in
               match r with None => Ok None | Some st' => negot_elems st' t end
  end.

Definition or_else (a b : option N) : option N := match a with Some _ => a | None => b end.
Definition unwrap_or (a : option N) (d : N) : N := match a with Some x => x | None => d end.

Definition negot_final (st : qstate) : bool :=
  let gzip_q := unwrap_or (or_else (q_gzip st) (q_star st)) 0 in
  let identity_q := unwrap_or (or_else (q_identity st) (q_star st)) 1 in
  (0 <? gzip_q) && (identity_q <=? gzip_q).

Definition should_gzip (accept_encoding : option bytes) : M bool :=
  match accept_encoding with
  | None => Ok false
  | Some v =>
      match to_str v with
      | None => Ok false
      | Some s =>
          let! r := negot_elems {| q_gzip := None; q_identity := None; q_star := None |} (split_on 44 s) in
          Ok (match r with None => false | Some st => negot_final st end)
      end
  end.
