(* Transliteration of validate_path and FsDir::get in src/dir.rs over an openat oracle. *)
From Coq Require Import String.
From HS Require Import Lib.Base Lib.Bytes Model.Negot.

Inductive path_err := ENul | EAbsolute | EDotDot.

(* the loop over '/'-separated segments *)
Fixpoint segments_ok (segs : list bytes) : bool :=
  match segs with
  | [] => true
  | s :: t => if beq_bytes s [46; 46] then false else segments_ok t
  end.
Definition validate_path (p : bytes) : option path_err :=
  if existsb (N.eqb 0) p then Some ENul                       (* memchr(0, path) *)
  else match p with
       | 47 :: _ => Some EAbsolute                             (* first() == Some(b'/') *)
       | _ => if segments_ok (split_on 47 p) then None else Some EDotDot
       end.

(* what openat(base_fd, name, O_RDONLY) yields *)
Inductive open_res :=
| ONotFound
| OError (kind : N)                      (* any other errno, by ErrorKind discriminant supplied by the harness *)
| OOpened (ino : N) (is_dir : bool).

Inductive get_res :=
| GInvalid (e : path_err)
| GError (kind : N)
| GNotFound
| GNode (ino : N) (is_gzipped : bool) (auto_gzip : bool).

Definition DOT_GZ : bytes := [46; 103; 122].
(* the harness's code for ENAMETOOLONG: path + ".gz" exceeds NAME_MAX / PATH_MAX, so the sibling cannot exist *)
Definition K_NAMETOOLONG : N := 5.

Section WithFs.
Variable openat : bytes -> open_res.

(* the sequence of openat calls is recorded too (second component) *)
Definition fsdir_get (auto_gzip : bool) (path : bytes) (accept_encoding : option bytes) : M (get_res * list bytes) :=
  match validate_path path with
  | Some e => Ok (GInvalid e, [])
  | None =>
      let! sg := should_gzip accept_encoding in
      let try_plain (calls : list bytes) : get_res * list bytes :=
        match openat path with
        | OOpened ino _ => (GNode ino false auto_gzip, calls ++ [path])
        | ONotFound => (GNotFound, calls ++ [path])
        | OError k => (GError k, calls ++ [path])
        end in
      if auto_gzip && sg then
        let gz := path ++ DOT_GZ in
        match openat gz with
        | OOpened ino false => Ok (GNode ino true auto_gzip, [gz])
        | OOpened _ true => Ok (try_plain [gz])               (* .gz directories are ignored *)
        | ONotFound => Ok (try_plain [gz])
        | OError k => if k =? K_NAMETOOLONG then Ok (try_plain [gz])       (* fix F11 *)
                      else Ok (GError k, [gz])
        end
      else Ok (try_plain [])
  end.

(* the pinned tree: every error of the .gz probe other than NotFound was returned *)
Definition fsdir_get_legacy (auto_gzip : bool) (path : bytes) (accept_encoding : option bytes) : M (get_res * list bytes) :=
  match validate_path path with
  | Some e => Ok (GInvalid e, [])
  | None =>
      let! sg := should_gzip accept_encoding in
      let try_plain (calls : list bytes) : get_res * list bytes :=
        match openat path with
        | OOpened ino _ => (GNode ino false auto_gzip, calls ++ [path])
        | ONotFound => (GNotFound, calls ++ [path])
        | OError k => (GError k, calls ++ [path])
        end in
      if auto_gzip && sg then
        let gz := path ++ DOT_GZ in
        match openat gz with
        | OOpened ino false => Ok (GNode ino true auto_gzip, [gz])
        | OOpened _ true => Ok (try_plain [gz])
        | ONotFound => Ok (try_plain [gz])
        | OError k => Ok (GError k, [gz])
        end
      else Ok (try_plain [])
  end.
End WithFs.

(* Node::encoding / add_encoding_headers *)
Definition node_encoding (is_gzipped : bool) : option bytes := if is_gzipped then Some (bs "gzip") else None.
Definition node_headers (is_gzipped auto_gzip : bool) : list (bytes * bytes) :=
  (if is_gzipped then [(bs "content-encoding", bs "gzip")] else [])
  ++ (if auto_gzip then [(bs "vary", bs "accept-encoding")] else []).
