(* The chunker at critical-section and wake granularity: the producer's operations are the
   sequential ones of Model/Chunker.v, but the wake-up an operation owes is delivered by a separate
   step (the real code calls Waker::wake after releasing the lock), so consumer steps can fall in
   between. A schedule is an arbitrary list of choices. *)
From HS Require Import Lib.Base Lib.Bytes Model.Chunker.

Inductive cons := CRun | CParked (w : N) | CDone.

Record kst := {
  k_s : cstate;
  k_pend : option N;          (* waker taken inside the last critical section, not yet woken *)
  k_prog : list cop;          (* producer operations still to run *)
  k_cons : cons;
  k_woken : list N            (* wakers whose task has been made runnable and not polled since *)
}.

Inductive choice := P_cs | P_wake | C_poll (w : N) | C_drop.

Definition producer_op (o : cop) : bool :=
  match o with OWrite _ | OFlush | OAbort | ODropWriter => true | _ => false end.

Definition remove_w (w : N) (l : list N) : list N := filter (fun x => negb (x =? w)) l.
Definition mem_w (w : N) (l : list N) : bool := existsb (N.eqb w) l.

Definition kstep (k : kst) (c : choice) : option (kst * copres) :=
  match c with
  | P_cs =>
      match k_pend k, k_prog k with
      | None, op :: rest =>
          if producer_op op then
            let '(s', r, wk) := cstep (k_s k) op in
            Some ({| k_s := s'; k_pend := hd_error wk; k_prog := rest; k_cons := k_cons k; k_woken := k_woken k |}, r)
          else None
      | _, _ => None
      end
  | P_wake =>
      match k_pend k with
      | Some w => Some ({| k_s := k_s k; k_pend := None; k_prog := k_prog k; k_cons := k_cons k; k_woken := w :: k_woken k |}, RUnit)
      | None => None
      end
  | C_poll w =>
      match k_cons k with
      | CDone => None
      | _ =>
          let '(s', r, _) := cstep (k_s k) (OPoll w) in
          let cons' := match r with
                       | RPoll None => CParked w
                       | RPoll (Some (Some (Some _))) => CRun
                       | _ => CDone
                       end in
          Some ({| k_s := s'; k_pend := k_pend k; k_prog := k_prog k; k_cons := cons'; k_woken := remove_w w (k_woken k) |}, r)
      end
  | C_drop =>
      match k_cons k with
      | CDone => None
      | _ => let '(s', r, _) := cstep (k_s k) ODropReader in
             Some ({| k_s := s'; k_pend := k_pend k; k_prog := k_prog k; k_cons := CDone; k_woken := k_woken k |}, r)
      end
  end.

Fixpoint krun (k : kst) (cs : list choice) : option kst :=
  match cs with
  | [] => Some k
  | c :: t => match kstep k c with Some (k', _) => krun k' t | None => None end
  end.

Definition kinit (cap : N) (prog : list cop) : kst :=
  {| k_s := cinit cap; k_pend := None; k_prog := prog; k_cons := CRun; k_woken := [] |}.
