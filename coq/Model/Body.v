(* Transliteration of src/body.rs (Once, ExactLenStream) and of MultipartStream in
   src/serving.rs, as explicit state machines over scripted entity streams. *)
From HS Require Import Lib.Base Lib.Bytes.

(* What an entity's stream does on successive polls; the end of the list is Ready(None)
   and stays so. *)
Inductive ev := EvPending | EvData (b : bytes) | EvErr (code : N).
Inductive perr := ErrEntity (code : N) | ErrShort (n : N) | ErrLong (n : N).
Inductive pollres := PPending | PData (b : bytes) | PEnd | PErr (e : perr).

(* ExactLenStream { stream, remaining } *)
Record xl := { x_s : list ev; x_rem : N }.

Definition xl_poll (x : xl) : xl * pollres :=
  match x_s x with
  | [] =>                                                   (* Poll::Ready(None) *)
      if x_rem x =? 0 then (x, PEnd)
      else ({| x_s := []; x_rem := 0 |}, PErr (ErrShort (x_rem x)))      (* mem::take: fuse *)
  | EvPending :: t => ({| x_s := t; x_rem := x_rem x |}, PPending)
  | EvData d :: t =>
      let n := lenN d in
      if n <=? x_rem x                                      (* remaining.checked_sub(d_len) *)
      then ({| x_s := t; x_rem := x_rem x - n |}, PData d)
      else ({| x_s := t; x_rem := 0 |}, PErr (ErrLong (n - x_rem x)))
  | EvErr c :: t => ({| x_s := t; x_rem := x_rem x |}, PErr (ErrEntity c))
  end.

Definition PART_TRAILER : bytes := [13;10;45;45;66;45;45;13;10].   (* \r\n--B--\r\n *)

(* MultipartStream { cur, state, part_headers, ranges, entity, remaining }.
   m_calls: get_range calls made so far (most recent first); the k-th call (0-based)
   receives the k-th scripted stream. *)
Record mp := { m_cur : option xl; m_state : nat; m_ph : list bytes; m_ranges : list (N * N);
               m_rem : N; m_calls : list (N * N) }.

Definition set_nth {A} (i : nat) (v : A) (l : list A) : list A :=
  firstn i l ++ match skipn i l with [] => [] | _ :: t => v :: t end.

Definition stream_of (streams : list (list ev)) (k : nat) : list ev := nth k streams [].

Definition mp_end_state (m : mp) : nat := S (2 * length (m_ranges m)).

(* The part of the loop body after `if let Some(cur)`: decide by `state`. `again` is the
   next loop iteration. *)
Definition mp_idle (streams : list (list ev)) (again : mp -> M (mp * pollres)) (m : mp) : M (mp * pollres) :=
  let i := Nat.div2 (m_state m) in                      (* state >> 1 *)
  let odd := Nat.odd (m_state m) in                     (* state & 1 == 1 *)
  let n := length (m_ranges m) in
  if Nat.eqb i n && odd then
    if m_rem m =? 0 then Ok (m, PEnd) else Panic P_DEBUG_ASSERT   (* debug_assert_eq!(remaining, 0) *)
  else if Nat.eqb i n then
    let! rem := u64_sub (m_rem m) (lenN PART_TRAILER) in
    Ok ({| m_cur := None; m_state := S (m_state m); m_ph := m_ph m; m_ranges := m_ranges m;
           m_rem := rem; m_calls := m_calls m |}, PData PART_TRAILER)
  else if odd then
    match nth_error (m_ranges m) i with
    | None => Panic P_INDEX
    | Some (a, e) =>
        let! l := u64_sub e a in
        again
          {| m_cur := Some {| x_s := stream_of streams (length (m_calls m)); x_rem := l |};
             m_state := m_state m; m_ph := m_ph m; m_ranges := m_ranges m;
             m_rem := m_rem m; m_calls := (a, e) :: m_calls m |}
    end
  else
    match nth_error (m_ph m) i with
    | None => Panic P_INDEX
    | Some v =>                                         (* mem::take(&mut part_headers[i]) *)
        let! rem := u64_sub (m_rem m) (lenN v) in
        Ok ({| m_cur := None; m_state := S (m_state m); m_ph := set_nth i [] (m_ph m);
               m_ranges := m_ranges m; m_rem := rem; m_calls := m_calls m |}, PData v)
    end.

Fixpoint mp_poll (fuel : nat) (streams : list (list ev)) (m : mp) : M (mp * pollres) :=
  match fuel with
  | O => Panic P_FUEL
  | S f =>
    match m_cur m with
    | Some x =>
        let (x', r) := xl_poll x in
        match r with
        | PData d =>
            let! rem := u64_sub (m_rem m) (lenN d) in
            Ok ({| m_cur := Some x'; m_state := m_state m; m_ph := m_ph m; m_ranges := m_ranges m;
                   m_rem := rem; m_calls := m_calls m |}, PData d)
        | PErr e =>                                         (* Fuse (with fix F8: cur = None) *)
            Ok ({| m_cur := None; m_state := mp_end_state m; m_ph := m_ph m; m_ranges := m_ranges m;
                   m_rem := 0; m_calls := m_calls m |}, PErr e)
        | PEnd =>
            mp_idle streams (mp_poll f streams)
                 {| m_cur := None; m_state := S (m_state m); m_ph := m_ph m; m_ranges := m_ranges m;
                    m_rem := m_rem m; m_calls := m_calls m |}
        | PPending =>
            Ok ({| m_cur := Some x'; m_state := m_state m; m_ph := m_ph m; m_ranges := m_ranges m;
                   m_rem := m_rem m; m_calls := m_calls m |}, PPending)
        end
    | None => mp_idle streams (mp_poll f streams) m
    end
  end.

(* One poll needs at most: finish cur, (state even) emit -- or create cur, poll it, finish it, emit. *)
Definition MP_FUEL : nat := 4.

Inductive body :=
| BOnce (o : option bytes)
| BExact (x : xl)
| BMulti (m : mp).

Definition body_poll (streams : list (list ev)) (b : body) : M (body * pollres) :=
  match b with
  | BOnce o => Ok (BOnce None, match o with Some d => PData d | None => PEnd end)   (* c.take() *)
  | BExact x => let (x', r) := xl_poll x in Ok (BExact x', r)
  | BMulti m => let! (m', r) := mp_poll MP_FUEL streams m in Ok (BMulti m', r)
  end.

(* Body::size_hint: always exact for these three kinds. *)
Definition body_hint (b : body) : N :=
  match b with
  | BOnce (Some d) => lenN d
  | BOnce None => 0
  | BExact x => x_rem x
  | BMulti m => m_rem m
  end.
Definition body_eos (b : body) : bool :=
  match b with
  | BOnce o => match o with None => true | Some _ => false end
  | BExact x => x_rem x =? 0
  | BMulti m => m_rem m =? 0
  end.
Definition body_calls (b : body) (initial : list (N * N)) : list (N * N) :=
  match b with BMulti m => rev (m_calls m) | _ => initial end.

(* ---- pinned-tree behaviour of the Fuse branch (F8): `cur` is left in place ---- *)
Fixpoint mp_poll_legacy (fuel : nat) (streams : list (list ev)) (m : mp) : M (mp * pollres) :=
  match fuel with
  | O => Panic P_FUEL
  | S f =>
    match m_cur m with
    | Some x =>
        let (x', r) := xl_poll x in
        match r with
        | PData d =>
            let! rem := u64_sub (m_rem m) (lenN d) in
            Ok ({| m_cur := Some x'; m_state := m_state m; m_ph := m_ph m; m_ranges := m_ranges m;
                   m_rem := rem; m_calls := m_calls m |}, PData d)
        | PErr e =>                                         (* pinned tree: cur stays *)
            Ok ({| m_cur := Some x'; m_state := mp_end_state m; m_ph := m_ph m; m_ranges := m_ranges m;
                   m_rem := 0; m_calls := m_calls m |}, PErr e)
        | PEnd =>
            mp_idle streams (mp_poll_legacy f streams)
                 {| m_cur := None; m_state := S (m_state m); m_ph := m_ph m; m_ranges := m_ranges m;
                    m_rem := m_rem m; m_calls := m_calls m |}
        | PPending =>
            Ok ({| m_cur := Some x'; m_state := m_state m; m_ph := m_ph m; m_ranges := m_ranges m;
                   m_rem := m_rem m; m_calls := m_calls m |}, PPending)
        end
    | None => mp_idle streams (mp_poll_legacy f streams) m
    end
  end.
