(* Transliteration of src/chunker.rs (Writer, Reader, the shared state) and of the Raw / Dead
   cases of BodyWriter in src/gzip.rs, for sequential histories (tree with fix F9 applied:
   dropping the Reader marks the shared state ReaderFused). One mutex-protected section per
   operation; wake-ups happen after the section. *)
From HS Require Import Lib.Base Lib.Bytes.

Inductive sstate :=
| SOk (ready : list bytes) (ready_bytes : N) (writer_dropped : bool)
| SErr
| SFused.

Inductive wkind := WRaw | WDead | WGone.     (* BodyWriter: Inner::Raw, Inner::Dead, dropped *)

Record cstate := {
  c_st : sstate;
  c_waker : option N;        (* Shared.waker: identity of the registered waker *)
  c_buf : bytes;             (* Writer.buf *)
  c_cap : N;                 (* Writer.cap *)
  c_w : wkind;
  c_reader : bool            (* the Body (Reader) still exists *)
}.

Definition cinit (cap : N) : cstate :=
  {| c_st := SOk [] 0 false; c_waker := None; c_buf := []; c_cap := cap; c_w := WRaw; c_reader := true |}.

Inductive copres :=                   (* result of one operation *)
| RUnit                               (* abort, drops *)
| RWrite (r : option N)               (* write: Ok n / Err *)
| RIo (ok : bool)                     (* write_all, flush: Ok / Err *)
| RPoll (r : option (option (option bytes)))   (* None = Pending; Some None = end; Some (Some None) = error; Some (Some (Some d)) *)
| RNoReader.

(* Writer::flush_helper(dropping): Ok true / Err; second component: waker to wake afterwards *)
Definition flush_helper (s : cstate) (dropping : bool) : cstate * bool * option N :=
  match c_buf s, dropping with
  | [], false => (s, true, None)                                  (* nothing buffered: no lock taken *)
  | _, _ =>
      match c_st s with
      | SOk ready rb wd =>
          let '(ready', rb') := match c_buf s with
                                | [] => (ready, rb)
                                | b => (ready ++ [b], rb + lenN b)
                                end in
          ({| c_st := SOk ready' rb' dropping; c_waker := None; c_buf := []; c_cap := c_cap s;
              c_w := c_w s; c_reader := c_reader s |}, true, c_waker s)
      | _ => match c_buf s with
             | [] => (s, true, None)
             | _ => (s, false, None)
             end
      end
  end.

(* Writer::write: how many bytes are taken, whether the chunk is full; then flush if full *)
Definition writer_write (s : cstate) (data : bytes) : cstate * option N * option N :=
  let remaining := c_cap s - lenN (c_buf s) in
  let full := remaining <=? lenN data in
  let n := if full then remaining else lenN data in
  let s1 := {| c_st := c_st s; c_waker := c_waker s; c_buf := c_buf s ++ firstn (N.to_nat n) data; c_cap := c_cap s;
               c_w := c_w s; c_reader := c_reader s |} in
  if full then
    let '(s2, ok, wk) := flush_helper s1 false in
    if ok then (s2, Some n, wk) else (s2, None, wk)
  else (s1, Some n, None).

Definition set_w (s : cstate) (w : wkind) : cstate :=
  {| c_st := c_st s; c_waker := c_waker s; c_buf := c_buf s; c_cap := c_cap s; c_w := w; c_reader := c_reader s |}.

(* dropping the chunker::Writer (when BodyWriter is dropped or goes Dead): flush_helper(true), result ignored *)
Definition drop_writer_inner (s : cstate) : cstate * option N :=
  let '(s1, _, wk) := flush_helper s true in
  ({| c_st := c_st s1; c_waker := c_waker s1; c_buf := []; c_cap := c_cap s1; c_w := c_w s1; c_reader := c_reader s1 |}, wk).

Inductive cop :=
| OWrite (d : bytes) | OWriteAll (d : bytes) | OFlush | OAbort | ODropWriter
| OPoll (w : N) | ODropReader.

(* std's default Write::write_all over BodyWriter::write; fuel = |d| + 1 *)
Fixpoint write_all_loop (fuel : nat) (step : cstate -> bytes -> cstate * option N * list N)
         (s : cstate) (d : bytes) (woken : list N) : cstate * bool * list N :=
  match d with
  | [] => (s, true, woken)
  | _ =>
    match fuel with
    | O => (s, false, woken)
    | S f =>
        let '(s1, r, wk) := step s d in
        match r with
        | None => (s1, false, woken ++ wk)
        | Some 0 => (s1, false, woken ++ wk)                      (* ErrorKind::WriteZero *)
        | Some n => write_all_loop f step s1 (skipn (N.to_nat n) d) (woken ++ wk)
        end
    end
  end.

Definition opt_list (o : option N) : list N := match o with Some w => [w] | None => [] end.

(* BodyWriter::write *)
Definition bw_write (s : cstate) (d : bytes) : cstate * option N * list N :=
  match c_w s with
  | WRaw =>
      let '(s1, r, wk) := writer_write s d in
      match r with
      | Some n => (s1, Some n, opt_list wk)
      | None => let '(s2, wk2) := drop_writer_inner (set_w s1 WDead) in (s2, None, opt_list wk ++ opt_list wk2)
      end
  | _ => (s, None, [])
  end.

(* one operation: new state, result, wakers woken (in order) *)
Definition cstep (s : cstate) (o : cop) : cstate * copres * list N :=
  match o with
  | OWrite d => let '(s1, r, wk) := bw_write s d in (s1, RWrite r, wk)
  | OWriteAll d => let '(s1, ok, wk) := write_all_loop (S (length d)) bw_write s d [] in (s1, RIo ok, wk)
  | OFlush =>
      match c_w s with
      | WRaw =>
          let '(s1, ok, wk) := flush_helper s false in
          if ok then (s1, RIo true, opt_list wk)
          else let '(s2, wk2) := drop_writer_inner (set_w s1 WDead) in (s2, RIo false, opt_list wk ++ opt_list wk2)
      | _ => (s, RIo false, [])
      end
  | OAbort =>
      match c_w s with
      | WRaw =>
          (* Writer::abort, then the Writer is dropped *)
          let '(s1, wk) := match c_st s with
                           | SOk _ _ _ => ({| c_st := SErr; c_waker := None; c_buf := c_buf s; c_cap := c_cap s;
                                              c_w := c_w s; c_reader := c_reader s |}, c_waker s)
                           | _ => (s, None)
                           end in
          let '(s2, wk2) := drop_writer_inner (set_w s1 WDead) in
          (s2, RUnit, opt_list wk ++ opt_list wk2)
      | WDead => (s, RUnit, [])
      | WGone => (s, RUnit, [])
      end
  | ODropWriter =>
      match c_w s with
      | WRaw => let '(s1, wk) := drop_writer_inner (set_w s WGone) in (s1, RUnit, opt_list wk)
      | _ => (set_w s WGone, RUnit, [])
      end
  | OPoll w =>
      if negb (c_reader s) then (s, RNoReader, []) else
      match c_st s with
      | SOk (c :: ready) rb wd =>
          let st' := match ready, wd with
                     | [], true => SFused
                     | _, _ => SOk ready (rb - lenN c) wd
                     end in
          ({| c_st := st'; c_waker := c_waker s; c_buf := c_buf s; c_cap := c_cap s; c_w := c_w s; c_reader := true |},
           RPoll (Some (Some (Some c))), [])
      | SOk [] rb false =>
          ({| c_st := SOk [] rb false; c_waker := Some w; c_buf := c_buf s; c_cap := c_cap s; c_w := c_w s; c_reader := true |},
           RPoll None, [])
      | SOk [] _ true =>
          ({| c_st := SFused; c_waker := c_waker s; c_buf := c_buf s; c_cap := c_cap s; c_w := c_w s; c_reader := true |},
           RPoll (Some None), [])
      | SErr =>
          ({| c_st := SFused; c_waker := c_waker s; c_buf := c_buf s; c_cap := c_cap s; c_w := c_w s; c_reader := true |},
           RPoll (Some (Some None)), [])
      | SFused => (s, RPoll (Some None), [])
      end
  | ODropReader =>
      if negb (c_reader s) then (s, RNoReader, []) else
      ({| c_st := SFused; c_waker := None; c_buf := c_buf s; c_cap := c_cap s; c_w := c_w s; c_reader := false |}, RUnit, [])
  end.

(* Reader::size_hint and is_end_stream *)
Definition chunker_hint (s : cstate) : N * option N :=
  match c_st s with
  | SOk _ rb wd => (rb, if wd then Some rb else None)
  | _ => (0, None)
  end.
Definition chunker_eos (s : cstate) : bool :=
  match c_st s with
  | SOk _ rb wd => (rb =? 0) && wd
  | SErr => false
  | SFused => true
  end.

Fixpoint crun (s : cstate) (ops : list cop) : cstate * list (copres * list N) :=
  match ops with
  | [] => (s, [])
  | o :: t => let '(s1, r, wk) := cstep s o in
              let '(sf, rs) := crun s1 t in (sf, (r, wk) :: rs)
  end.

(* ---- the pinned tree: dropping the Reader changes nothing (F9) ---- *)
Definition cstep_legacy (s : cstate) (o : cop) : cstate * copres * list N :=
  match o with
  | ODropReader =>
      if negb (c_reader s) then (s, RNoReader, []) else
      ({| c_st := c_st s; c_waker := c_waker s; c_buf := c_buf s; c_cap := c_cap s; c_w := c_w s; c_reader := false |}, RUnit, [])
  | _ => cstep s o
  end.
