(* Transliteration of src/range.rs `parse` (tree with fixes F1-F4 applied).
   Each Rust construct is named next to its model.                                  *)
From HS Require Import Lib.Base Lib.Bytes Lib.Dec.

Inductive resolved := RNone | RNotSat | RSat (l : list (N * N)).   (* half-open start,end *)
Inductive elem_res := EBad | ESkip | EPush (r : N * N).

(* body of `for r in bytes.split(',')` *)
Definition range_elem (len : N) (r0 : bytes) : elem_res :=
  let r := trim_start r0 in                             (* r.trim_start_matches([' ', '\t']) *)
  match find 45 r with                                  (* r.find('-') *)
  | None => EBad
  | Some O =>                                           (* hyphen == 0: suffix-byte-range-spec *)
      match parse_pos (tl r) with                       (* parse_pos(&r[1..]) *)
      | None => EBad
      | Some last =>
          if (last =? 0) || (len =? 0) then ESkip       (* selects nothing *)
          else EPush (u64_saturating_sub len last, len) (* len.saturating_sub(last)..len *)
      end
  | Some h =>
      match parse_pos (firstn h r) with                 (* parse_pos(&r[0..hyphen]) *)
      | None => EBad
      | Some first =>
          let rest := skipn (S h) r in                  (* &r[hyphen + 1..] *)
          match (match rest with
                 | [] => Some len                       (* no end specified; use EOF *)
                 | _ => match parse_pos rest with
                        | None => None
                        | Some l => Some (N.min (u64_saturating_add l 1) len)
                        end
                 end) with
          | None => EBad
          | Some e => if e <=? first then ESkip else EPush (first, e)   (* first >= end: skip *)
          end
      end
  end.

Fixpoint range_elems (len : N) (l : list bytes) (acc : list (N*N)) : option (list (N*N)) :=
  match l with
  | [] => Some (rev acc)
  | x :: t => match range_elem len x with
              | EBad => None
              | ESkip => range_elems len t acc
              | EPush r => range_elems len t (r :: acc)
              end
  end.

Definition bytes_eq_prefix : bytes := [98;121;116;101;115;61].   (* "bytes=" *)

Definition range_parse (h : option bytes) (len : N) : resolved :=
  match h with
  | None => RNone
  | Some v =>
    match to_str v with                                  (* v.to_str().ok() *)
    | None => RNone
    | Some s =>
      match strip_prefix bytes_eq_prefix s with          (* range.strip_prefix("bytes=") *)
      | None => RNone
      | Some b => match range_elems len (split_on 44 b) [] with
                  | None => RNone
                  | Some [] => RNotSat
                  | Some l => RSat l
                  end
      end
    end
  end.

(* ---- the pinned tree's behaviour (before fixes F1-F4), for the refutation witnesses ---- *)
(* u64::from_str accepts a leading '+' *)
Definition parse_u64_legacy (s : bytes) : option N :=
  match s with
  | 43 :: t => parse_pos t
  | _ => parse_pos s
  end.
Inductive elem_res_l := LBad | LSkip | LPush (r : N * N) | LPanic.
Definition range_elem_legacy (len : N) (r0 : bytes) : elem_res_l :=
  let r := trim_start r0 in
  match find 45 r with
  | None => LBad
  | Some O =>
      match parse_u64_legacy (tl r) with
      | None => LBad
      | Some last => if len <=? last then LSkip else LPush (len - last, len)
      end
  | Some h =>
      match parse_u64_legacy (firstn h r) with
      | None => LBad
      | Some first =>
          let rest := skipn (S h) r in
          match rest with
          | [] => if len <=? first then LSkip else LPush (first, len)
          | _ => match parse_u64_legacy rest with
                 | None => LBad
                 | Some l => if l + 1 <? U64 then
                               let e := N.min (l + 1) len in
                               if e <=? first then LSkip else LPush (first, e)
                             else LPanic                 (* `+ 1` overflows in a debug build *)
                 end
          end
      end
  end.
