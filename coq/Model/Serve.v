(* Transliteration of src/serving.rs: parse_modified_hdrs, serve_inner, prepare_multipart, serve
   (tree with fixes F5-F7 applied).  httpdate and the clock are parameters.            *)
From Coq Require Import String.
From HS Require Import Lib.Base Lib.Bytes Lib.Dec Model.Range Model.Etag Model.Body.

Record entity := {
  e_len : N;
  e_etag : option bytes;
  e_lm : option N;                     (* modification time, ns since the epoch *)
  e_hdrs : list (bytes * bytes)        (* what add_headers adds, as HeaderMap::iter yields it *)
}.
(* HeaderMap::get(name): first value of that name, if any *)
Record request := {
  r_meth : bytes;
  r_range : option bytes; r_if_range : option bytes;
  r_if_match : option bytes; r_inm : option bytes;
  r_ims : option bytes; r_ius : option bytes
}.

Inductive plan :=
| PlOnce (o : option bytes)
| PlExact (a e : N)                                   (* ExactLenStream over get_range(a..e) *)
| PlMulti (ph : list bytes) (rs : list (N * N)) (total : N).
Record resp := { status : N; hdrs : list (bytes * bytes); rplan : plan }.

Definition GET : bytes := [71;69;84].
Definition HEAD : bytes := [72;69;65;68].
Definition NS : N := 1000000000.

Section WithDates.
(* httpdate::fmt_http_date on whole seconds, httpdate::parse_http_date to whole seconds *)
Variable fmt_date : N -> bytes.
Variable parse_date : bytes -> option N.

(* since.to_str().map_err(|_| ERR)? then parse_http_date(..).map_err(|_| ERR)? *)
Definition parse_date_hdr (v : bytes) : option N :=
  match to_str v with None => None | Some s => parse_date s end.

Inductive cond := CErr (msg : bytes) | COk (precondition_failed not_modified : bool).

Definition ERR_IM : bytes := bs "Unparseable If-Match header"%string.
Definition ERR_IUS : bytes := bs "Unparseable If-Unmodified-Since"%string.
Definition ERR_IMS : bytes := bs "Unparseable If-Modified-Since"%string.

Definition parse_modified_hdrs (etag : option bytes) (req : request) (lm : option N) : cond :=
  match any_match etag (r_if_match req) with
  | None => CErr ERR_IM
  | Some am =>
    let pf : option bool :=
      if negb am then Some true
      else match r_if_match req, lm, r_ius req with
           | None, Some m, Some since =>                 (* fix F7: only without If-Match *)
               match parse_date_hdr since with
               | None => None
               | Some d => Some (d <? m / NS)            (* fix F5: whole seconds of m > d *)
               end
           | _, _, _ => Some false
           end in
    match pf with
    | None => CErr ERR_IUS
    | Some pf =>
      let nm : option bool :=
        match none_match etag (r_inm req) with
        | Some true => Some false
        | Some false => Some true
        | None =>
            match lm, r_ims req with
            | Some m, Some since =>
                match parse_date_hdr since with
                | None => None
                | Some d => Some (m / NS <=? d)          (* fix F6 *)
                end
            | _, _ => Some false
            end
        end in
      match nm with
      | None => CErr ERR_IMS
      | Some nm => COk pf nm
      end
    end
  end.

Definition H_ALLOW := bs "allow"%string.
Definition H_ACCEPT_RANGES := bs "accept-ranges"%string.
Definition H_DATE := bs "date"%string.
Definition H_LAST_MODIFIED := bs "last-modified"%string.
Definition H_ETAG := bs "etag"%string.
Definition H_CONTENT_RANGE := bs "content-range"%string.
Definition H_CONTENT_LENGTH := bs "content-length"%string.
Definition H_CONTENT_TYPE := bs "content-type"%string.
Definition V_MULTIPART := bs "multipart/byteranges; boundary=B"%string.
Definition CRLF : bytes := [13;10].

Definition BODY_405 := bs "This resource only supports GET and HEAD."%string.
Definition BODY_412 := bs "Precondition failed"%string.
Definition BODY_413 := bs "Multipart response too large"%string.

(* each_part_headers: "k: v\r\n" for every entity header *)
Definition each_part_headers (h : list (bytes * bytes)) : bytes :=
  flat_map (fun kv => fst kv ++ [58;32] ++ snd kv ++ CRLF) h.

Definition PART_PREFIX := bs "--B"%string.
Definition CONTENT_RANGE_BYTES := bs "Content-Range: bytes "%string.

(* write!(buf, "\r\n--B\r\nContent-Range: bytes {}-{}/{}\r\n", start, end - 1, len) ++ each ++ "\r\n" *)
Definition part_header (len : N) (each : bytes) (a e1 : N) : bytes :=
  CRLF ++ PART_PREFIX ++ CRLF ++ CONTENT_RANGE_BYTES ++ dec a ++ [45] ++ dec e1 ++ [47] ++ dec len ++ CRLF
  ++ each ++ CRLF.

(* prepare_multipart's loop: Ok None = MultipartLenOverflowError *)
Fixpoint prepare_parts (len : N) (each : bytes) (rs : list (N * N)) (body_len : N) (acc : list bytes)
  : M (option (list bytes * N)) :=
  match rs with
  | [] =>
      match u64_checked_add body_len (lenN PART_TRAILER) with
      | None => Ok None
      | Some t => Ok (Some (rev acc, t))
      end
  | (a, e) :: t =>
      let! e1 := u64_sub e 1 in                          (* r.end - 1 *)
      let buf := part_header len each a e1 in
      let! l := u64_sub e a in                           (* r.end - r.start *)
      match u64_checked_add body_len (lenN buf) with
      | None => Ok None
      | Some b1 => match u64_checked_add b1 l with
                   | None => Ok None
                   | Some b2 => prepare_parts len each t b2 (buf :: acc)
                   end
      end
  end.

(* est_len: try_fold(0, |acc, r| acc.checked_add(80).and_then(|a| a.checked_add(r.end - r.start))) *)
Fixpoint est_len (rs : list (N * N)) (acc : N) : M (option N) :=
  match rs with
  | [] => Ok (Some acc)
  | (a, e) :: t =>
      match u64_checked_add acc 80 with
      | None => Ok None
      | Some a1 => let! l := u64_sub e a in
                   match u64_checked_add a1 l with
                   | None => Ok None
                   | Some a2 => est_len t a2
                   end
      end
  end.

(* The If-Range gate: the Range header that stays in force, and whether a partial response
   includes the entity's headers (RFC 7233 section 4.1: iff the client sent no If-Range). *)
Definition if_range_gate (etag : option bytes) (req : request) : option bytes * bool :=
  match r_if_range req with
  | Some ifr =>
      if starts_with W_SLASH_Q ifr || starts_with DQ ifr then
        match etag with
        | Some e => if strong_eq ifr e then (r_range req, false) else (None, true)
        | None => (None, true)
        end
      else (None, true)                               (* date case: never match *)
  | None => (r_range req, true)
  end.

Definition serve_model (now_s : N) (ent : entity) (req : request) : M resp :=
  let is_head := beq_bytes (r_meth req) HEAD in
  if negb (beq_bytes (r_meth req) GET) && negb is_head then
    Ok {| status := 405; hdrs := [(H_ALLOW, bs "get, head"%string)]; rplan := PlOnce (Some BODY_405) |}
  else
  let lm := e_lm ent in
  let etag := e_etag ent in
  match parse_modified_hdrs etag req lm with
  | CErr s => Ok {| status := 400; hdrs := []; rplan := PlOnce (Some s) |}
  | COk precondition_failed not_modified =>
    let '(range_hdr, include_on_range) := if_range_gate etag req in
    let h0 := [(H_ACCEPT_RANGES, bs "bytes"%string)]
              ++ match lm with
                 | Some m => [(H_DATE, fmt_date now_s); (H_LAST_MODIFIED, fmt_date (N.min (m / NS) now_s))]
                 | None => []
                 end
              ++ match etag with Some e => [(H_ETAG, e)] | None => [] end in
    if precondition_failed then Ok {| status := 412; hdrs := h0; rplan := PlOnce (Some BODY_412) |}
    else if not_modified then Ok {| status := 304; hdrs := h0; rplan := PlOnce None |}
    else
    let len := e_len ent in
    let finish (st : N) (h : list (bytes * bytes)) (a e : N) (include : bool) : M resp :=
      let! l := u64_sub e a in
      let h1 := h ++ [(H_CONTENT_LENGTH, dec l)] in
      let h2 := if include then h1 ++ e_hdrs ent else h1 in
      Ok {| status := st; hdrs := h2; rplan := if is_head then PlOnce None else PlExact a e |} in
    match range_parse range_hdr len with
    | RNone => finish 200 h0 0 len true
    | RNotSat =>
        Ok {| status := 416; hdrs := h0 ++ [(H_CONTENT_RANGE, bs "bytes */"%string ++ dec len)]; rplan := PlOnce None |}
    | RSat [(a, e)] =>
        let! e1 := u64_sub e 1 in
        let h1 := h0 ++ [(H_CONTENT_RANGE, bs "bytes "%string ++ dec a ++ [45] ++ dec e1 ++ [47] ++ dec len)] in
        finish 206 h1 a e include_on_range
    | RSat rs =>
        let! est := est_len rs 0 in
        if match est with Some l => l <? len | None => false end then
          let each := if include_on_range then each_part_headers (e_hdrs ent) else [] in
          let! pp := prepare_parts len each rs 0 [] in
          match pp with
          | None => Ok {| status := 413; hdrs := []; rplan := PlOnce (Some BODY_413) |}
          | Some (ph, total) =>
              let h1 := h0 ++ [(H_CONTENT_LENGTH, dec total); (H_CONTENT_TYPE, V_MULTIPART)] in
              Ok {| status := 206; hdrs := h1;
                    rplan := if is_head then PlOnce None else PlMulti ph rs total |}
          end
        else finish 200 h0 0 len true
    end
  end.

End WithDates.

(* serve(): turn the plan into a body. Full / single-range bodies call get_range at once
   (call 0); multipart bodies call it lazily while being polled. *)
Definition body_init (streams : list (list ev)) (p : plan) : body * list (N * N) :=
  match p with
  | PlOnce o => (BOnce o, [])
  | PlExact a e => (BExact {| x_s := stream_of streams 0; x_rem := e - a |}, [(a, e)])
  | PlMulti ph rs total =>
      (BMulti {| m_cur := None; m_state := 0; m_ph := ph; m_ranges := rs; m_rem := total; m_calls := [] |}, [])
  end.

(* ---- pinned-tree comparisons (before F5-F7), for the refutation witnesses ---- *)
Section Legacy.
Variable parse_date : bytes -> option N.
Definition parse_modified_hdrs_legacy (etag : option bytes) (req : request) (lm : option N) : cond :=
  match any_match etag (r_if_match req) with
  | None => CErr ERR_IM
  | Some am =>
    let pf : option bool :=
      if negb am then Some true
      else match lm, r_ius req with
           | Some m, Some since =>
               match parse_date_hdr parse_date since with
               | None => None
               | Some d => Some (d * NS <? m)             (* *m > parsed, at ns resolution *)
               end
           | _, _ => Some false
           end in
    match pf with
    | None => CErr ERR_IUS
    | Some pf =>
      let nm : option bool :=
        match none_match etag (r_inm req) with
        | Some true => Some false
        | Some false => Some true
        | None =>
            match lm, r_ims req with
            | Some m, Some since =>
                match parse_date_hdr parse_date since with
                | None => None
                | Some d => Some (m <=? d * NS)
                end
            | _, _ => Some false
            end
        end in
      match nm with
      | None => CErr ERR_IMS
      | Some nm => COk pf nm
      end
    end
  end.
End Legacy.
