(* Transliteration of the Gzipped case of BodyWriter (src/gzip.rs) over an abstract encoder.
   flate2's GzEncoder<chunker::Writer> is, seen from http-serve, an object that on write / flush /
   finish hands byte strings to the chunk writer through retry loops (write_header, zio::Writer::dump,
   the trailer loop): every one of them is "write until drained, stop at the first error", i.e.
   std::io::Write::write_all over chunker::Writer::write -- the OWriteAll of Model/Chunker.v, including
   what happens on failure (BodyWriter becomes Dead, the encoder and the chunk writer are dropped; the
   shared state is not Ok then, so whatever the dying encoder still emits is never published).
   What the encoder emits is abstract: the three functions below are Section variables. *)
From HS Require Import Lib.Base Lib.Bytes Model.Chunker.

Section Gz.
Variable enc : Type.
Variable enc_write : enc -> bytes -> enc * bytes * N.   (* GzEncoder::write(buf): new state, bytes emitted (the header first), input consumed *)
Variable enc_flush : enc -> enc * bytes.               (* GzEncoder::flush up to the inner flush: the sync-flush emission *)
Variable enc_finish : enc -> bytes.                    (* Drop -> try_finish: the rest of the stream and the trailer *)

Inductive gin := GGz (e : enc) | GOff.                  (* Inner::Gzipped(e) | Inner::Dead or dropped *)

(* one GzEncoder::flush: the sync-flush emission is pushed through the chunk writer, then
   chunker::Writer::flush publishes it; None when either step fails *)
Definition gflush1 (s : cstate) (e : enc) : cstate * option enc * list N * bytes :=
  let '(e', em) := enc_flush e in
  let '(s1, r, wk) := cstep s (OWriteAll em) in
  match r with
  | RIo true =>
      let '(s2, r2, wk2) := cstep s1 OFlush in          (* self.obj.flush(): chunker::Writer::flush *)
      match r2 with
      | RIo true => (s2, Some e', wk ++ wk2, em)
      | _ => (s2, None, wk ++ wk2, em)
      end
  | _ => (s1, None, wk, em)
  end.

(* one operation on BodyWriter(Gzipped) + body: new chunker state, new inner, result, wake-ups, bytes emitted *)
Definition gstep (s : cstate) (g : gin) (o : cop) : cstate * gin * copres * list N * bytes :=
  match g, o with
  | GGz e, OWrite d =>
      let '(e', em, n) := enc_write e d in
      let '(s', r, wk) := cstep s (OWriteAll em) in
      match r with
      | RIo true => (s', GGz e', RWrite (Some n), wk, em)
      | _ => (s', GOff, RWrite None, wk, em)               (* r.is_err() => Inner::Dead *)
      end
  | GGz e, OFlush =>
      (* `w.flush().and_then(|()| w.flush())` (fix F10): flate2 asks for the sync flush only once, and
         the request is lost when output is still pending inside the encoder (after a partially
         accepted write); the first flush drains that, the second one syncs *)
      match gflush1 s e with
      | (s1, Some e1, wk1, em1) =>
          match gflush1 s1 e1 with
          | (s2, Some e2, wk2, em2) => (s2, GGz e2, RIo true, wk1 ++ wk2, em1 ++ em2)
          | (s2, None, wk2, em2) => (s2, GOff, RIo false, wk1 ++ wk2, em1 ++ em2)
          end
      | (s1, None, wk1, em1) => (s1, GOff, RIo false, wk1, em1)
      end
  | GGz e, ODropWriter =>
      let em := enc_finish e in
      let '(s1, _, wk) := cstep s (OWriteAll em) in         (* `let _ = self.try_finish()` *)
      let '(s2, _, wk2) := cstep s1 ODropWriter in
      (s2, GOff, RUnit, wk ++ wk2, em)
  | GGz e, OAbort =>
      let '(s1, _, wk) := cstep s OAbort in                 (* g.get_mut().abort(error); then g is dropped *)
      (s1, GOff, RUnit, wk, [])
  | _, _ => let '(s1, r, wk) := cstep s o in (s1, g, r, wk, [])   (* polls, body drop; a dead writer refuses *)
  end.

Fixpoint grun (s : cstate) (g : gin) (ops : list cop) : cstate * gin * list (copres * list N) * bytes :=
  match ops with
  | [] => (s, g, [], [])
  | o :: t =>
      let '(s1, g1, r, wk, em) := gstep s g o in
      let '(sf, gf, rs, ems) := grun s1 g1 t in
      (sf, gf, (r, wk) :: rs, em ++ ems)
  end.

(* what the encoder alone produces over a session of writes and flushes ended by the drop *)
Fixpoint session (e : enc) (ops : list cop) : bytes :=
  match ops with
  | [] => []
  | OWrite d :: t => let '(e', em, _) := enc_write e d in em ++ session e' t
  | OFlush :: t => let '(e1, em1) := enc_flush e in let '(e2, em2) := enc_flush e1 in em1 ++ em2 ++ session e2 t
  | ODropWriter :: _ => enc_finish e
  | _ :: t => session e t
  end.
End Gz.
