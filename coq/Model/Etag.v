(* Transliteration of src/etag.rs. *)
From HS Require Import Lib.Base Lib.Bytes.

Definition W_SLASH : bytes := [87; 47].            (* W/ *)
Definition W_SLASH_Q : bytes := [87; 47; 34].      (* W/DQUOTE *)
Definition DQ : bytes := [34].                     (* DQUOTE *)
Definition STAR : bytes := [42].                   (* * *)

Definition strip_w (a : bytes) : bytes :=          (* a.strip_prefix(bDQUOTEW/DQUOTE).unwrap_or(a) *)
  match strip_prefix W_SLASH a with Some r => r | None => a end.
Definition weak_eq (a b : bytes) : bool := beq_bytes (strip_w a) (strip_w b).
Definition strong_eq (a b : bytes) : bool := beq_bytes a b && negb (starts_with W_SLASH a).

(* position(|&b| b == DQUOTE) *)
Definition position_dq (s : bytes) : option nat := find 34 s.

(* One call of List::next: None = iterator finished (second component: corrupt flag set). *)
Definition list_next (rem : bytes) : option (bytes * bytes) * bool :=
  match rem with
  | [] => (None, false)
  | _ =>
    let e := if starts_with W_SLASH_Q rem then option_map (fun p => (p + 3)%nat) (position_dq (skipn 3 rem))
             else if starts_with DQ rem then option_map (fun p => (p + 1)%nat) (position_dq (skipn 1 rem))
             else None in
    match e with
    | None => (None, true)
    | Some e =>
        let etag := firstn (S e) rem in               (* split_at(end + 1) *)
        let r := skipn (S e) rem in
        let r' := match r with
                  | 44 :: t => trim_start t           (* [b',', r @ ..] then skip SP / HT *)
                  | _ => r
                  end in
        (Some (etag, r'), false)
    end
  end.

(* `for item in &mut items`: all items, then the corrupt flag. Fuel: every item consumes >= 2 bytes. *)
Fixpoint list_items (fuel : nat) (rem : bytes) : list bytes * bool :=
  match fuel with
  | O => ([], true)
  | S f => match list_next rem with
           | (None, c) => ([], c)
           | (Some (t, r), _) => let (l, c) := list_items f r in (t :: l, c)
           end
  end.
Definition etag_list (v : bytes) : list bytes * bool := list_items (S (length v)) v.

(* etag::none_match *)
Definition none_match (etag : option bytes) (inm : option bytes) : option bool :=
  match inm with
  | None => None
  | Some m =>
    if beq_bytes m STAR then Some false else
    match etag with
    | None => Some true
    | Some e => let (items, corrupt) := etag_list m in
                if corrupt then None else Some (negb (existsb (fun it => weak_eq it e) items))
    end
  end.

(* etag::any_match: None models Err(DQUOTEUnparseable If-Match headerDQUOTE) *)
Definition any_match (etag : option bytes) (im : option bytes) : option bool :=
  match im with
  | None => Some true
  | Some m =>
    if beq_bytes m STAR then Some true else
    match etag with
    | None => Some false
    | Some e => let (items, corrupt) := etag_list m in
                if corrupt then None else Some (existsb (fun it => strong_eq it e) items)
    end
  end.
