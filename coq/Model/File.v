(* Transliteration of ChunkedReadFile (src/file.rs) and FileExt::read_at (src/platform.rs, unix)
   over a pread oracle. *)
From HS Require Import Lib.Base Lib.Bytes Lib.Hex.

Definition CHUNK_SIZE : N := 65536.

(* the modification time is |t| nanoseconds from the epoch, f_mtime_neg telling on which side (fix F12:
   times before 1970 are printed with a minus sign instead of refused) *)
Record fmeta := { f_is_file : bool; f_ino : N; f_len : N; f_mtime_ns : N; f_mtime_neg : bool }.

(* ChunkedReadFile::new_with_metadata: refuses anything but a regular file; captures the metadata *)
Definition crf_new (m : fmeta) : option fmeta := if f_is_file m then Some m else None.
Definition crf_len (m : fmeta) : N := f_len m.
Definition crf_last_modified (m : fmeta) : N := f_mtime_ns m.
Definition crf_last_modified_neg (m : fmeta) : bool := f_mtime_neg m.

(* etag(): "{:x}:{:x}:{}{:x}:{:x}" of inode, len, sign, |mtime| secs, subsec nanos, in double quotes *)
Definition NSEC : N := 1000000000.
Definition mtime_sign (m : fmeta) : bytes := if f_mtime_neg m then [45] else [].
Definition crf_etag (m : fmeta) : bytes :=
  [34] ++ hex (f_ino m) ++ [58] ++ hex (f_len m) ++ [58] ++ (mtime_sign m ++ hex (f_mtime_ns m / NSEC)) ++ [58] ++ hex (f_mtime_ns m mod NSEC) ++ [34].

Section WithFile.
(* the file as the kernel shows it at the time of the k-th read: its length (truncation = the
   length shrinking), its bytes, and how many bytes a read returns (any number from 1 to what
   was asked for and is available: short reads are legal) *)
Variable content : N -> N.
Variable flen : nat -> N.
Variable short : nat -> N.

Fixpoint bytes_from (a : N) (n : nat) : bytes :=
  match n with O => [] | S k => content a :: bytes_from (a + 1) k end.

Inductive rres := RData (d : bytes) | RErrEof | REnd.
Record rstate := { r_start : N; r_end : N; r_reads : nat }.     (* `left` of the unfold, and the read counter *)

(* one poll of the unfold stream *)
Definition read_poll (s : rstate) : rstate * rres :=
  if r_start s =? r_end s then (s, REnd)
  else
    let chunk := N.min CHUNK_SIZE (r_end s - r_start s) in
    let avail := flen (r_reads s) - r_start s in
    if avail =? 0 then
      (* pread returned 0: UnexpectedEof; the unfold state is unchanged *)
      ({| r_start := r_start s; r_end := r_end s; r_reads := S (r_reads s) |}, RErrEof)
    else
      let n := N.max 1 (N.min (N.min chunk avail) (short (r_reads s))) in
      ({| r_start := r_start s + n; r_end := r_end s; r_reads := S (r_reads s) |},
       RData (bytes_from (r_start s) (N.to_nat n))).

Fixpoint read_run (k : nat) (s : rstate) : list rres * rstate :=
  match k with
  | O => ([], s)
  | S k' => let (s1, r) := read_poll s in let (rs, sf) := read_run k' s1 in (r :: rs, sf)
  end.
End WithFile.
