(* Transliteration of streaming_body / StreamingBodyBuilder::build in src/lib.rs. *)
From Coq Require Import String.
From HS Require Import Lib.Base Lib.Bytes Model.Negot.

Record builder := { b_chunk_size : N; b_gzip_level : N; b_should_gzip : bool; b_body_needed : bool }.
Inductive writer_kind := KRaw | KGzip (level : N).

Definition HEAD_M : bytes := [72;69;65;68].

(* streaming_body(req): the same function for Request and for Parts (both only expose method and headers) *)
Definition streaming_body (meth : bytes) (accept_encoding : option bytes) : M builder :=
  let! sg := should_gzip accept_encoding in
  Ok {| b_chunk_size := 4096; b_gzip_level := 6; b_should_gzip := sg; b_body_needed := negb (beq_bytes meth HEAD_M) |}.

Definition with_chunk_size (b : builder) (n : N) : builder :=
  {| b_chunk_size := n; b_gzip_level := b_gzip_level b; b_should_gzip := b_should_gzip b; b_body_needed := b_body_needed b |}.
Definition with_gzip_level (b : builder) (l : N) : builder :=
  {| b_chunk_size := b_chunk_size b; b_gzip_level := l; b_should_gzip := b_should_gzip b; b_body_needed := b_body_needed b |}.

(* build(): response headers and the writer (None for HEAD). `assert!(cap > 0)` in with_chunk_size *)
Definition build (b : builder) : M (list (bytes * bytes) * option writer_kind) :=
  if b_chunk_size b =? 0 then Panic P_ASSERT else
  let gz := b_should_gzip b && (0 <? b_gzip_level b) in
  let hdrs := [(bs "vary", bs "accept-encoding")] ++ (if gz then [(bs "content-encoding", bs "gzip")] else []) in
  Ok (hdrs, if b_body_needed b then Some (if gz then KGzip (b_gzip_level b) else KRaw) else None).
