//! Producer programs and consumer policies for the schedule engine.
use crate::rng::Rng;
use crate::sched_engine::{POp, SchedCase};

pub fn gen_c10(rng: &mut Rng, thorough: bool, emit: &mut dyn FnMut(SchedCase)) {
    let maxlen = if thorough { 4 } else { 3 };
    for cap in [1usize, 2] {
        // alphabet: a write that completes a chunk, one that does not (cap 2), flush, wait, abort, drop
        let mut alphabet: Vec<POp> = vec![POp::Write(vec![1; cap]), POp::Flush, POp::WaitParked, POp::Abort, POp::Drop];
        if cap > 1 {
            alphabet.push(POp::Write(vec![2; 1]));
        }
        let mut programs: Vec<Vec<POp>> = vec![];
        let mut stack: Vec<Vec<POp>> = vec![vec![]];
        while let Some(cur) = stack.pop() {
            if !cur.is_empty() {
                programs.push(cur.clone());
            }
            // nothing interesting happens after the writer is gone except failing calls: allow one more op
            let gone = cur.iter().filter(|o| matches!(o, POp::Drop | POp::Abort)).count();
            if cur.len() < maxlen && gone < 1 {
                for a in &alphabet {
                    let mut n = cur.clone();
                    n.push(a.clone());
                    stack.push(n);
                }
            } else if cur.len() < maxlen && gone == 1 && matches!(cur.last(), Some(POp::Drop | POp::Abort)) {
                for a in [POp::Write(vec![3; cap]), POp::Flush] {
                    let mut n = cur.clone();
                    n.push(a);
                    stack.push(n);
                }
            }
        }
        for prog in programs {
            for fresh in [false, true] {
                for spurious in [0u32, 2] {
                    if !thorough && !rng.chance(1, 3) && !(spurious == 0 && !fresh) {
                        continue;
                    }
                    emit(SchedCase { cap, program: prog.clone(), fresh_waker: fresh, spurious, drop_after: None, probe_held: false, sample_hints: false,
                                     class: format!("S:cap={} fresh={} spurious={} prog={:?}", cap, fresh, spurious, short(&prog)) });
                }
            }
            // the consumer drops the body after 0..2 polls (C11's concurrent part)
            if thorough || rng.chance(1, 4) {
                for d in 0..3u32 {
                    emit(SchedCase { cap, program: prog.clone(), fresh_waker: false, spurious: 0, drop_after: Some(d), probe_held: false, sample_hints: false,
                                     class: format!("S:cap={} drop-body-after={} prog={:?}", cap, d, short(&prog)) });
                }
            }
        }
    }
}

/// C10 with the probe cases that keep the body (the consumer polls inside producer critical sections)
pub fn gen_c10_all(rng: &mut Rng, thorough: bool, emit: &mut dyn FnMut(SchedCase)) {
    gen_c10(rng, thorough, emit);
    gen_probe(&mut |c: SchedCase| {
        if c.drop_after.is_none() {
            emit(c)
        }
    });
}

/// Probe mode (see SchedCase::probe_held): short programs against a consumer that polls on or drops
/// the body, with the consumer also scheduled INSIDE the producer's critical sections.
pub fn gen_probe(emit: &mut dyn FnMut(SchedCase)) {
    for cap in [1usize, 2] {
        let mut progs: Vec<Vec<POp>> = vec![
            vec![POp::Write(vec![1; cap]), POp::Write(vec![2; cap]), POp::Flush],
            vec![POp::Write(vec![1; cap]), POp::Drop],
            vec![POp::Write(vec![1; cap]), POp::Abort, POp::Flush],
            vec![POp::Write(vec![1; cap]), POp::Write(vec![2; cap]), POp::Write(vec![3; cap])],
        ];
        if cap > 1 {
            progs.push(vec![POp::Write(vec![1; 1]), POp::Flush, POp::Write(vec![2; 1]), POp::Flush]);
            progs.push(vec![POp::Write(vec![1; 1]), POp::Drop]);
        }
        for prog in progs {
            for d in [None, Some(0u32), Some(1)] {
                emit(SchedCase { cap, program: prog.clone(), fresh_waker: false, spurious: 0, drop_after: d, probe_held: true, sample_hints: false,
                                 class: format!("S:probe-held cap={} drop-body-after={:?} prog={:?}", cap, d, short(&prog)) });
            }
        }
    }
}

/// C11's concurrent part: the programs of gen_c10 that abort, and every program against a consumer
/// that drops the body early
pub fn gen_c11(rng: &mut Rng, thorough: bool, emit: &mut dyn FnMut(SchedCase)) {
    gen_c10(rng, thorough, &mut |c: SchedCase| {
        if c.drop_after.is_some() || c.program.iter().any(|o| matches!(o, POp::Abort)) {
            emit(c)
        }
    });
    gen_probe(emit);
}

fn short(p: &[POp]) -> Vec<String> {
    p.iter()
        .map(|o| match o {
            POp::Write(d) => format!("W{}", d.len()),
            POp::Flush => "F".into(),
            POp::WaitParked => "wait".into(),
            POp::Abort => "X".into(),
            POp::Drop => "D".into(),
        })
        .collect()
}

/// C12 under interleavings: the consumer samples size_hint() before every poll while the producer
/// writes, flushes and drops.
pub fn gen_c12(emit: &mut dyn FnMut(SchedCase)) {
    for cap in [1usize, 2, 4] {
        let progs: Vec<Vec<POp>> = vec![
            vec![POp::Write(vec![1; cap]), POp::Drop],
            vec![POp::Write(vec![1; cap]), POp::Write(vec![2; 1]), POp::Drop],
            vec![POp::Write(vec![1; 1]), POp::Flush, POp::Write(vec![2; 1]), POp::Drop],
            vec![POp::Write(vec![1; cap]), POp::Write(vec![2; cap]), POp::Flush, POp::Drop],
        ];
        for prog in progs {
            emit(SchedCase { cap, program: prog.clone(), fresh_waker: false, spurious: 0, drop_after: None, probe_held: false, sample_hints: true,
                             class: format!("S:hints cap={} prog={:?}", cap, short(&prog)) });
        }
    }
}
