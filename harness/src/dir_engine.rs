//! FsDir::get against a real directory tree, with the openat results obtained independently.
use crate::rng::Rng;
use crate::val::Val;
use std::ffi::CString;
use std::os::unix::fs::MetadataExt;
use std::os::unix::io::{AsRawFd, FromRawFd};
use std::path::Path;

fn kind_code(e: &std::io::Error) -> u64 {
    use std::io::ErrorKind::*;
    match e.kind() {
        NotFound => 0,
        PermissionDenied => 1,
        InvalidInput => 3,
        Other => 9,
        _ => match e.raw_os_error() {
            Some(libc::ENOTDIR) => 2,
            Some(libc::ELOOP) => 4,
            Some(libc::ENAMETOOLONG) => 5,
            Some(libc::EISDIR) => 6,
            _ => 8,
        },
    }
}

/// openat(base, name, O_RDONLY|O_CLOEXEC) done by the harness itself (libc), then fstat.
fn oracle_open(base: &std::fs::File, name: &[u8]) -> Val {
    let Ok(c) = CString::new(name.to_vec()) else {
        return Val::L(vec![Val::N(1), Val::N(3)]);
    };
    let fd = unsafe { libc::openat(base.as_raw_fd(), c.as_ptr(), libc::O_RDONLY | libc::O_CLOEXEC, 0) };
    if fd < 0 {
        let e = std::io::Error::last_os_error();
        return if e.kind() == std::io::ErrorKind::NotFound { Val::L(vec![Val::N(0)]) } else { Val::L(vec![Val::N(1), Val::N(kind_code(&e))]) };
    }
    let f = unsafe { std::fs::File::from_raw_fd(fd) };
    match f.metadata() {
        Ok(m) => Val::L(vec![Val::N(2), Val::N(m.ino()), Val::boolean(m.is_dir())]),
        Err(e) => Val::L(vec![Val::N(1), Val::N(kind_code(&e))]),
    }
}

pub struct Tree {
    pub _tmp: tempfile::TempDir,
    pub base: std::path::PathBuf,
}

pub fn make_tree() -> Tree {
    let tmp = tempfile::tempdir().unwrap();
    let base = tmp.path().join("base");
    std::fs::create_dir(&base).unwrap();
    let w = |p: &Path, s: &str| std::fs::write(p, s).unwrap();
    w(&tmp.path().join("secret"), "TOPSECRET");
    w(&base.join("a"), "plain a");
    w(&base.join("a.gz"), "gz a");
    w(&base.join("secret"), "inside secret");
    w(&base.join("..a"), "dotdot-a");
    w(&base.join("a.."), "a-dotdot");
    w(&base.join("..."), "three dots");
    w(&base.join("sub.gz"), "gz named like the directory");
    // names that themselves end in .gz and have a .gz sibling of their own (a blanket `gzip -k` over the tree)
    w(&base.join("c.gz"), "plain file whose name ends in .gz");
    w(&base.join("c.gz.gz"), "its gz sibling");
    w(&base.join("d.tar.gz"), "tarball");
    w(&base.join("d.tar.gz.gz"), "tarball sibling");
    // symbolic links: to a file inside, to a file outside, to the parent directory (openat follows them;
    // the property speaks of the path's segments, and the lookup table below is obtained the same way)
    let _ = std::os::unix::fs::symlink("a", base.join("ln-a"));
    let _ = std::os::unix::fs::symlink("../secret", base.join("ln-out"));
    let _ = std::os::unix::fs::symlink("..", base.join("ln-up"));
    // a .gz sibling that exists, opens and is neither a directory nor a regular file (a link to a device):
    // "that sibling exists and is not a directory" -- it is substituted
    w(&base.join("page"), "page");
    let _ = std::os::unix::fs::symlink("/dev/null", base.join("page.gz"));
    // and one that is a link to a directory, and a dangling one
    w(&base.join("q"), "q");
    let _ = std::os::unix::fs::symlink("sub", base.join("q.gz"));
    w(&base.join("r"), "r");
    let _ = std::os::unix::fs::symlink("nowhere", base.join("r.gz"));
    std::fs::create_dir(base.join("sub")).unwrap();
    w(&base.join("sub").join("a"), "sub a");
    std::fs::create_dir(base.join("sub").join("a.gz")).unwrap();
    w(&base.join("sub").join("b.gz"), "only gz");
    w(&base.join("sub").join("x.gz"), "sub x.gz");
    w(&base.join("sub").join("x.gz.gz"), "sub x.gz.gz");
    w(&base.join("sub").join("secret"), "sub secret");
    std::fs::create_dir(base.join("sub").join("sub")).unwrap();
    w(&base.join("sub").join("sub").join("a"), "deep a");
    w(&base.join("sub").join("sub").join("a.gz"), "deep gz");
    // names at the NAME_MAX boundary: a 252-byte name whose .gz sibling (255 bytes) is still a legal name,
    // a 253-byte name whose sibling would be too long, each also without a sibling
    for (n, gz) in [(252usize, true), (251, true), (250, false), (253, false)] {
        let name = long_name(n);
        w(&base.join(&name), "long plain");
        if gz {
            w(&base.join(format!("{}.gz", name)), "long gz");
        }
    }
    Tree { _tmp: tmp, base }
}

pub fn long_name(n: usize) -> String {
    (0..n).map(|i| (b'a' + ((i * 7 + n) % 26) as u8) as char).collect()
}

pub struct DirCase {
    pub path: Vec<u8>,
    pub auto_gzip: bool,
    pub ae: Option<Vec<u8>>,
    /// further request headers handed to FsDir::get (a Range, conditional headers): the lookup must not depend on them
    pub extra: Vec<(&'static str, &'static str)>,
    pub class: String,
}

pub fn run(rt: &tokio::runtime::Runtime, tree: &Tree, base_file: &std::fs::File, c: &DirCase) -> String {
    // the API takes &str: non-UTF-8 paths cannot be expressed
    let path_str = String::from_utf8(c.path.clone()).expect("utf-8 path");
    let mut hdrs = http::HeaderMap::new();
    if let Some(ae) = &c.ae {
        hdrs.insert(http::header::ACCEPT_ENCODING, http::HeaderValue::from_bytes(ae).unwrap());
    }
    for (k, v) in &c.extra {
        hdrs.insert(http::header::HeaderName::from_static(k), http::HeaderValue::from_static(v));
    }
    let dir = http_serve::dir::FsDir::builder().auto_gzip(c.auto_gzip).for_path(&tree.base).unwrap();
    let res = rt.block_on(async {
        let h = tokio::spawn(async move { dir.get(&path_str, &hdrs).await });
        h.await
    });
    let obs = match res {
        Err(_) => Val::L(vec![Val::N(9)]),
        Ok(Err(e)) => {
            let msg = e.to_string();
            if e.kind() == std::io::ErrorKind::InvalidInput && msg == "path contains NUL byte" {
                Val::L(vec![Val::N(0), Val::N(0)])
            } else if e.kind() == std::io::ErrorKind::InvalidInput && msg == "path is absolute" {
                Val::L(vec![Val::N(0), Val::N(1)])
            } else if e.kind() == std::io::ErrorKind::InvalidInput && msg == "path contains .. segment" {
                Val::L(vec![Val::N(0), Val::N(2)])
            } else if e.kind() == std::io::ErrorKind::NotFound {
                Val::L(vec![Val::N(1)])
            } else {
                Val::L(vec![Val::N(2), Val::N(kind_code(&e))])
            }
        }
        Ok(Ok(node)) => {
            let ino = node.metadata().ino();
            let enc = node.encoding().map(|s| Val::bytes(s.as_bytes()));
            let mut h = http::HeaderMap::new();
            node.add_encoding_headers(&mut h);
            let mut hv: Vec<(Vec<u8>, Vec<u8>)> = h.iter().map(|(k, v)| (k.as_str().as_bytes().to_vec(), v.as_bytes().to_vec())).collect();
            hv.sort();
            let gz = node.encoding().is_some();
            // what the file handle really is
            let f = node.into_file();
            let real_ino = f.metadata().map(|m| m.ino()).unwrap_or(0);
            let ino = if real_ino == ino { ino } else { 0 };
            Val::L(vec![Val::N(3), Val::N(ino), Val::boolean(gz), Val::opt(enc), Val::L(hv.into_iter().map(|(k, v)| Val::L(vec![Val::B(k), Val::B(v)])).collect())])
        }
    };
    let mut gz_name = c.path.clone();
    gz_name.extend_from_slice(b".gz");
    let table = Val::L(vec![
        Val::L(vec![Val::bytes(&c.path), oracle_open(base_file, &c.path)]),
        Val::L(vec![Val::bytes(&gz_name), oracle_open(base_file, &gz_name)]),
    ]);
    let input = Val::L(vec![Val::boolean(c.auto_gzip), Val::bytes(&c.path), Val::opt(c.ae.as_ref().map(|a| Val::bytes(a))), table]);
    Val::L(vec![input, obs]).to_string()
}

pub fn gen_c19(rng: &mut Rng, thorough: bool, emit: &mut dyn FnMut(DirCase)) {
    let words: [&str; 9] = ["a", "sub", "..", ".", "...", "..a", "a..", "", "secret"];
    let maxseg = if thorough { 4 } else { 3 };
    let aes: Vec<Option<&str>> = vec![None, Some("gzip"), Some("identity"), Some("gzip;q=0"), Some("*")];
    let mut paths: Vec<String> = vec![];
    let mut stack: Vec<Vec<&str>> = words.iter().map(|w| vec![*w]).collect();
    while let Some(cur) = stack.pop() {
        paths.push(cur.join("/"));
        if cur.len() < maxseg {
            for w in &words {
                let mut n = cur.clone();
                n.push(w);
                stack.push(n);
            }
        }
    }
    for p in &paths {
        for (lead, trail) in [(false, false), (true, false), (false, true), (true, true)] {
            let full = format!("{}{}{}", if lead { "/" } else { "" }, p, if trail { "/" } else { "" });
            for auto in [true, false] {
                for ae in &aes {
                    if !thorough && !(auto && ae.is_some()) && !rng.chance(1, 3) {
                        continue;
                    }
                    if !thorough && p.matches('/').count() >= 2 && !rng.chance(1, 3) {
                        continue;
                    }
                    emit(DirCase { path: full.clone().into_bytes(), auto_gzip: auto, ae: ae.map(|s| s.as_bytes().to_vec()), extra: vec![], class: format!("X:path {:?} auto_gzip={} ae={:?}", full, auto, ae) });
                }
            }
        }
    }
    // NUL injected at every position of the short paths
    for p in paths.iter().filter(|p| p.len() <= 8) {
        for i in 0..=p.len() {
            let mut b = p.as_bytes().to_vec();
            b.insert(i, 0);
            emit(DirCase { path: b, auto_gzip: true, ae: Some(b"gzip".to_vec()), extra: vec![], class: format!("X:nul@{} in {:?}", i, p) });
        }
    }
    // other names: .gz given explicitly, dots, long names
    let longs: Vec<String> = [252usize, 251, 250, 253, 255, 256].iter().map(|n| long_name(*n)).collect();
    let mut named: Vec<String> = ["a.gz", "sub/a.gz", "sub/b", "sub/b.gz", "sub.gz", "sub", "sub/", "sub/sub/a", "sub/./a", "sub//a", "./a", "a/.", "a/", "..gz", "...gz", ".gz", "", "a.gz.gz", "c.gz", "c.gz.gz", "c", "d.tar.gz", "d.tar", "sub/x.gz", "sub/x", "sub/x.gz.gz", "page", "page.gz", "q", "r", "ln-a", "ln-out", "ln-up/secret", "ln-up", "ln-a.gz", "nonexistent", "sub/nonexistent", "a/b"].iter().map(|s| s.to_string()).collect();
    named.extend(longs);
    for p in named.iter().map(|s| s.as_str()) {
        for auto in [true, false] {
            for ae in &aes {
                emit(DirCase { path: p.as_bytes().to_vec(), auto_gzip: auto, ae: ae.map(|s| s.as_bytes().to_vec()), extra: vec![], class: format!("G:named {:?} auto_gzip={} ae={:?}", p, auto, ae) });
            }
        }
    }
    // the same lookups for requests that carry other headers as well (a resumed download, a revalidation)
    for p in ["a", "sub/a", "c.gz", "sub/b", "page", "nonexistent"] {
        for extra in [vec![("range", "bytes=0-1")], vec![("range", "bytes=100-"), ("if-range", "\"x\"")], vec![("if-none-match", "\"x\""), ("if-modified-since", "Sun, 06 Nov 1994 08:49:37 GMT")]] {
            for ae in [Some("gzip"), None] {
                emit(DirCase { path: p.as_bytes().to_vec(), auto_gzip: true, ae: ae.map(|s| s.as_bytes().to_vec()), extra: extra.clone(), class: format!("G:other-headers {:?} ae={:?} {:?}", p, ae, extra) });
            }
        }
    }
    let long = "x".repeat(5000);
    emit(DirCase { path: long.into_bytes(), auto_gzip: true, ae: Some(b"gzip".to_vec()), extra: vec![], class: "N:long-name".into() });
}

/// One FsDir used for several lookups while the tree changes in between: a sibling that appears later must be
/// found, one that disappears must no longer be used -- every lookup looks at the directory as it is then
/// (C19: "that sibling exists"). Harness-level checks.
pub fn reuse_checks(rt: &tokio::runtime::Runtime) -> Vec<String> {
    let mut fails = vec![];
    let tmp = tempfile::tempdir().unwrap();
    let base = tmp.path().join("base");
    std::fs::create_dir(&base).unwrap();
    std::fs::write(base.join("late"), "plain").unwrap();
    std::fs::write(base.join("early"), "plain").unwrap();
    std::fs::write(base.join("early.gz"), "gz").unwrap();
    let dir = http_serve::dir::FsDir::builder().for_path(&base).unwrap();
    let mut hdrs = http::HeaderMap::new();
    hdrs.insert(http::header::ACCEPT_ENCODING, http::HeaderValue::from_static("gzip"));
    let lookup = |name: &'static str| -> Option<bool> {
        let d = dir.clone();
        let h = hdrs.clone();
        rt.block_on(async move { tokio::spawn(async move { d.get(name, &h).await }).await }).ok().and_then(|r| r.ok()).map(|n| n.encoding().is_some())
    };
    if lookup("late") != Some(false) {
        fails.push("first-lookup-without-sibling".to_string());
    }
    if lookup("early") != Some(true) {
        fails.push("first-lookup-with-sibling".to_string());
    }
    std::fs::write(base.join("late.gz"), "gz").unwrap();
    std::fs::remove_file(base.join("early.gz")).unwrap();
    for round in 0..2 {
        if lookup("late") != Some(true) {
            fails.push(format!("sibling-created-after-an-earlier-lookup-is-not-substituted(round={})", round));
        }
        if lookup("early") != Some(false) {
            fails.push(format!("sibling-removed-after-an-earlier-lookup-is-still-reported(round={})", round));
        }
    }
    // the base directory is the directory that was opened, not whatever carries its name later: after a
    // rename-and-replace deployment the same FsDir still serves from the original directory
    {
        use std::os::unix::fs::MetadataExt;
        let want = std::fs::metadata(base.join("late")).map(|m| m.ino()).unwrap_or(0);
        let other = tmp.path().join("other");
        std::fs::create_dir(&other).unwrap();
        std::fs::write(other.join("late"), "from another directory").unwrap();
        std::fs::rename(&base, tmp.path().join("base-old")).unwrap();
        std::fs::rename(&other, &base).unwrap();
        let d = dir.clone();
        let got = rt.block_on(async move { tokio::spawn(async move { d.get("late", &http::HeaderMap::new()).await }).await }).ok().and_then(|r| r.ok()).map(|n| n.metadata().ino());
        if got != Some(want) {
            fails.push("file-outside-the-opened-base-directory-after-it-was-renamed-and-replaced".to_string());
        }
    }
    fails
}
