//! The generic value syntax shared with the evaluator: numbers, byte strings, lists.
#[derive(Clone, Debug, PartialEq, Eq)]
pub enum Val {
    N(u64),
    /// a number beyond 64 bits (same syntax as N)
    Big(u128),
    B(Vec<u8>),
    L(Vec<Val>),
}

impl Val {
    pub fn opt(o: Option<Val>) -> Val {
        match o {
            None => Val::L(vec![]),
            Some(v) => Val::L(vec![v]),
        }
    }
    pub fn bytes(b: &[u8]) -> Val {
        Val::B(b.to_vec())
    }
    pub fn boolean(b: bool) -> Val {
        Val::N(b as u64)
    }
    pub fn write(&self, out: &mut String) {
        match self {
            Val::N(n) => out.push_str(&n.to_string()),
            Val::Big(n) => out.push_str(&n.to_string()),
            Val::B(b) => {
                out.push('x');
                for c in b {
                    out.push_str(&format!("{:02x}", c));
                }
            }
            Val::L(l) => {
                out.push('(');
                for v in l {
                    out.push(' ');
                    v.write(out);
                }
                out.push_str(" )");
            }
        }
    }
    pub fn to_string(&self) -> String {
        let mut s = String::new();
        self.write(&mut s);
        s
    }
    pub fn parse(s: &str) -> Result<Val, String> {
        let toks: Vec<&str> = s.split_whitespace().collect();
        let (v, n) = Self::parse_at(&toks, 0)?;
        if n != toks.len() {
            return Err("trailing tokens".into());
        }
        Ok(v)
    }
    fn parse_at(toks: &[&str], i: usize) -> Result<(Val, usize), String> {
        let t = *toks.get(i).ok_or("unexpected end")?;
        if t == "(" {
            let mut items = vec![];
            let mut j = i + 1;
            loop {
                let t = *toks.get(j).ok_or("unterminated list")?;
                if t == ")" {
                    return Ok((Val::L(items), j + 1));
                }
                let (v, k) = Self::parse_at(toks, j)?;
                items.push(v);
                j = k;
            }
        } else if let Some(h) = t.strip_prefix('x') {
            if h.len() % 2 != 0 {
                return Err("odd hex".into());
            }
            let mut b = Vec::with_capacity(h.len() / 2);
            for k in 0..h.len() / 2 {
                b.push(u8::from_str_radix(&h[2 * k..2 * k + 2], 16).map_err(|e| e.to_string())?);
            }
            Ok((Val::B(b), i + 1))
        } else {
            match t.parse::<u64>() {
                Ok(n) => Ok((Val::N(n), i + 1)),
                Err(_) => Ok((Val::Big(t.parse::<u128>().map_err(|e| e.to_string())?), i + 1)),
            }
        }
    }
    pub fn as_list(&self) -> Option<&Vec<Val>> {
        match self {
            Val::L(l) => Some(l),
            _ => None,
        }
    }
    pub fn as_n(&self) -> Option<u64> {
        match self {
            Val::N(n) => Some(*n),
            _ => None,
        }
    }
    pub fn as_n128(&self) -> Option<u128> {
        match self {
            Val::N(n) => Some(*n as u128),
            Val::Big(n) => Some(*n),
            _ => None,
        }
    }
    pub fn n128(n: u128) -> Val {
        if n <= u64::MAX as u128 {
            Val::N(n as u64)
        } else {
            Val::Big(n)
        }
    }
    pub fn as_b(&self) -> Option<&Vec<u8>> {
        match self {
            Val::B(b) => Some(b),
            _ => None,
        }
    }
    pub fn as_opt(&self) -> Option<Option<&Val>> {
        match self {
            Val::L(l) if l.is_empty() => Some(None),
            Val::L(l) if l.len() == 1 => Some(Some(&l[0])),
            _ => None,
        }
    }
}
