//! A scripted `Entity`: configurable length, validators and headers, position-dependent
//! content, and per-`get_range`-call stream recipes. Records every call and the events
//! each stream was built from.
use bytes::Bytes;
use futures_core::Stream;
use http::header::{HeaderMap, HeaderName, HeaderValue};
use std::ops::Range;
use std::pin::Pin;
use std::sync::{Arc, Mutex};
use std::task::{Context, Poll};
use std::time::{Duration, SystemTime};

pub type BoxError = Box<dyn std::error::Error + Send + Sync>;

/// Position-dependent content: any shift, swap or repetition of bytes is visible.
pub fn content(p: u64) -> u8 {
    (((p % 251) + 7 * ((p / 251) % 13) + ((p / 65536) % 256)) % 256) as u8
}
pub fn content_range(a: u64, e: u64) -> Vec<u8> {
    (a..e).map(content).collect()
}

/// The entity's chunk type: a `Buf` of up to two pieces. The `Entity` trait allows any `Buf` ("may be
/// something more exotic" than `Bytes`); with `split` a chunk of two or more bytes is handed over as
/// two non-contiguous pieces, so that `chunk().len() < remaining()`.
#[derive(Debug)]
pub struct PieceBuf {
    a: Bytes,
    b: Bytes,
}
impl PieceBuf {
    pub fn new(d: Vec<u8>, split: bool) -> Self {
        if split && d.len() >= 2 {
            let m = d.len() / 2;
            PieceBuf { a: Bytes::from(d[..m].to_vec()), b: Bytes::from(d[m..].to_vec()) }
        } else {
            PieceBuf { a: Bytes::from(d), b: Bytes::new() }
        }
    }
    pub fn into_vec(mut self) -> Vec<u8> {
        let mut v = Vec::with_capacity(bytes::Buf::remaining(&self));
        while bytes::Buf::has_remaining(&self) {
            let c = bytes::Buf::chunk(&self).to_vec();
            bytes::Buf::advance(&mut self, c.len());
            v.extend(c);
        }
        v
    }
}
impl bytes::Buf for PieceBuf {
    fn remaining(&self) -> usize {
        self.a.len() + self.b.len()
    }
    fn chunk(&self) -> &[u8] {
        if !self.a.is_empty() { &self.a } else { &self.b }
    }
    fn advance(&mut self, n: usize) {
        let k = n.min(self.a.len());
        bytes::Buf::advance(&mut self.a, k);
        bytes::Buf::advance(&mut self.b, n - k);
    }
}
impl From<Vec<u8>> for PieceBuf {
    fn from(v: Vec<u8>) -> Self {
        PieceBuf::new(v, false)
    }
}
impl From<&'static [u8]> for PieceBuf {
    fn from(v: &'static [u8]) -> Self {
        PieceBuf { a: Bytes::from_static(v), b: Bytes::new() }
    }
}

#[derive(Clone, Debug, PartialEq, Eq)]
pub enum Ev {
    Pending,
    Data(Vec<u8>),
    Err(u64),
}

/// How a stream for one `get_range` call is produced.
#[derive(Clone, Debug)]
pub enum Op {
    /// the next n content bytes from the cursor (may run past the range end)
    Chunk(u64),
    /// everything up to the range end in one chunk (capped; nothing if already there)
    Rest,
    /// like Rest when at most SMALL bytes remain; otherwise 5 bytes and then an error
    /// (keeps bodies small on astronomically large entities)
    RestOrFault,
    Pending,
    Err(u64),
    /// literal events (replay)
    Lit(Ev),
}
pub const REST_CAP: u64 = 1 << 20;
pub const SMALL: u64 = 8192;

pub fn materialize(recipe: &[Op], range: &Range<u64>) -> Vec<Ev> {
    let mut cur = range.start;
    let mut out = vec![];
    for op in recipe {
        match op {
            Op::Chunk(n) => {
                let end = cur.saturating_add(*n);
                out.push(Ev::Data(content_range(cur, end)));
                cur = end;
            }
            Op::Rest => {
                if cur < range.end {
                    let n = (range.end - cur).min(REST_CAP);
                    out.push(Ev::Data(content_range(cur, cur + n)));
                    cur += n;
                }
            }
            Op::RestOrFault => {
                if cur < range.end {
                    if range.end - cur <= SMALL {
                        out.push(Ev::Data(content_range(cur, range.end)));
                        cur = range.end;
                    } else {
                        out.push(Ev::Data(content_range(cur, cur + 5)));
                        cur += 5;
                        out.push(Ev::Err(99));
                    }
                }
            }
            Op::Pending => out.push(Ev::Pending),
            Op::Err(c) => out.push(Ev::Err(*c)),
            Op::Lit(e) => out.push(e.clone()),
        }
    }
    out
}

#[derive(Debug)]
pub struct ScriptError(pub u64);
impl std::fmt::Display for ScriptError {
    fn fmt(&self, f: &mut std::fmt::Formatter<'_>) -> std::fmt::Result {
        write!(f, "scripted entity error {}", self.0)
    }
}
impl std::error::Error for ScriptError {}

#[derive(Clone, Debug)]
pub struct EntityCfg {
    pub len: u64,
    pub etag: Option<Vec<u8>>,
    /// nanoseconds since the epoch (beyond 64 bits for times after the year 2554)
    pub mtime_ns: Option<u128>,
    pub hdrs: Vec<(String, Vec<u8>)>,
    /// recipe for the k-th get_range call; calls beyond the list get `default_recipe`
    pub recipes: Vec<Vec<Op>>,
    pub default_recipe: Vec<Op>,
    /// hand every chunk of two or more bytes over as two non-contiguous pieces
    pub split: bool,
    /// the modification time lies BEFORE the epoch, mtime_ns being its distance (harness-level checks only)
    pub mtime_before_epoch: bool,
    /// add_headers adds one more header whose value grows with every call (a setting reloaded at run time,
    /// an Age that counts up): whatever the entity adds, it must be asked once per response
    pub volatile_hdrs: bool,
    /// etag() takes this long (a validator computed on demand, e.g. a content hash)
    pub slow_etag_ms: u64,
}

#[derive(Default)]
pub struct Log {
    pub calls: Vec<(u64, u64)>,
    pub streams: Vec<Vec<Ev>>,
    /// how often add_headers was called (an entity with `volatile_hdrs` answers differently each time)
    pub hdr_calls: usize,
}

pub struct ScriptedEntity {
    pub cfg: EntityCfg,
    pub log: Arc<Mutex<Log>>,
}

struct ScriptStream {
    evs: std::collections::VecDeque<Ev>,
    split: bool,
}
impl Stream for ScriptStream {
    type Item = Result<PieceBuf, BoxError>;
    fn poll_next(mut self: Pin<&mut Self>, cx: &mut Context<'_>) -> Poll<Option<Self::Item>> {
        match self.evs.pop_front() {
            None => Poll::Ready(None),
            Some(Ev::Pending) => {
                cx.waker().wake_by_ref();
                Poll::Pending
            }
            Some(Ev::Data(d)) => Poll::Ready(Some(Ok(PieceBuf::new(d, self.split)))),
            Some(Ev::Err(c)) => Poll::Ready(Some(Err(Box::new(ScriptError(c))))),
        }
    }
}

impl http_serve::Entity for ScriptedEntity {
    type Error = BoxError;
    type Data = PieceBuf;
    fn len(&self) -> u64 {
        self.cfg.len
    }
    fn get_range(
        &self,
        range: Range<u64>,
    ) -> Pin<Box<dyn Stream<Item = Result<Self::Data, Self::Error>> + Send + Sync>> {
        let mut log = self.log.lock().unwrap();
        let k = log.calls.len();
        log.calls.push((range.start, range.end));
        let recipe = self.cfg.recipes.get(k).unwrap_or(&self.cfg.default_recipe);
        let evs = materialize(recipe, &range);
        log.streams.push(evs.clone());
        Box::pin(ScriptStream { evs: evs.into(), split: self.cfg.split })
    }
    fn add_headers(&self, h: &mut HeaderMap) {
        if self.cfg.volatile_hdrs {
            let mut lg = self.log.lock().unwrap();
            let k = lg.hdr_calls;
            lg.hdr_calls += 1;
            h.append(HeaderName::from_static("x-volatile"), HeaderValue::from_bytes(&vec![b'v'; 1 + 25 * k]).unwrap());
        }
        for (k, v) in &self.cfg.hdrs {
            h.append(
                HeaderName::from_bytes(k.as_bytes()).unwrap(),
                HeaderValue::from_bytes(v).unwrap(),
            );
        }
    }
    fn etag(&self) -> Option<HeaderValue> {
        if self.cfg.slow_etag_ms > 0 {
            std::thread::sleep(Duration::from_millis(self.cfg.slow_etag_ms));
        }
        self.cfg.etag.as_ref().map(|e| HeaderValue::from_bytes(e).unwrap())
    }
    fn last_modified(&self) -> Option<SystemTime> {
        self.cfg
            .mtime_ns
            .map(|ns| {
                let d = Duration::new((ns / 1_000_000_000) as u64, (ns % 1_000_000_000) as u32);
                if self.cfg.mtime_before_epoch { SystemTime::UNIX_EPOCH - d } else { SystemTime::UNIX_EPOCH + d }
            })
    }
}
