//! Drives `http_serve::serve` on one scripted case and records what the API shows.
use crate::entity::{BoxError, EntityCfg, Ev, Log, Op, ScriptError, ScriptedEntity};
use crate::val::Val;
use http_body::Body as _;
use std::panic::{catch_unwind, AssertUnwindSafe};
use std::pin::Pin;
use std::sync::{Arc, Mutex};
use std::task::{Context, Poll, RawWaker, RawWakerVTable, Waker};
use std::time::SystemTime;

#[derive(Clone, Debug)]
pub struct ServeCase {
    pub ent: EntityCfg,
    pub method: Vec<u8>,
    /// request header lines in order (names may repeat)
    pub headers: Vec<(String, Vec<u8>)>,
    pub extra_polls: u32,
    /// stop polling after this many polls even without a terminal event
    pub max_polls: u32,
    pub class: String,
    /// what the generator knows about the request (ASTs for the oracles); `( )` when nothing
    pub hints: Val,
}

pub fn noop_waker() -> Waker {
    fn clone(_: *const ()) -> RawWaker {
        RawWaker::new(std::ptr::null(), &VTABLE)
    }
    fn noop(_: *const ()) {}
    static VTABLE: RawWakerVTable = RawWakerVTable::new(clone, noop, noop, noop);
    unsafe { Waker::from_raw(RawWaker::new(std::ptr::null(), &VTABLE)) }
}

fn first<'a>(hs: &'a [(String, Vec<u8>)], name: &str) -> Option<&'a Vec<u8>> {
    hs.iter().find(|(k, _)| k.eq_ignore_ascii_case(name)).map(|(_, v)| v)
}

fn secs_of(t: SystemTime) -> u64 {
    t.duration_since(SystemTime::UNIX_EPOCH).map(|d| d.as_secs()).unwrap_or(0)
}

/// "@<secs>" when the value is an HTTP date that round-trips, else the raw bytes.
fn normalise_date(v: &[u8], checks: &mut Vec<String>) -> Vec<u8> {
    if let Ok(s) = std::str::from_utf8(v) {
        if let Ok(t) = httpdate::parse_http_date(s) {
            if httpdate::fmt_http_date(t) == s {
                return format!("@{}", secs_of(t)).into_bytes();
            }
            checks.push("date-roundtrip".into());
        }
    }
    v.to_vec()
}

fn ev_val(e: &Ev) -> Val {
    match e {
        Ev::Pending => Val::N(0),
        Ev::Data(d) => Val::B(d.clone()),
        Ev::Err(c) => Val::L(vec![Val::N(*c)]),
    }
}

fn classify_err(e: &BoxError) -> Val {
    if let Some(s) = e.downcast_ref::<ScriptError>() {
        return Val::L(vec![Val::N(0), Val::N(s.0)]);
    }
    let msg = e.to_string();
    if let Some(r) = msg.strip_prefix("stream ended with ") {
        if let Some(n) = r.strip_suffix(" bytes still expected") {
            if let Ok(n) = n.parse::<u64>() {
                return Val::L(vec![Val::N(1), Val::N(n)]);
            }
        }
    }
    if let Some(r) = msg.strip_prefix("stream returned (at least) ") {
        if let Some(n) = r.strip_suffix(" bytes more than expected") {
            if let Ok(n) = n.parse::<u64>() {
                return Val::L(vec![Val::N(2), Val::N(n)]);
            }
        }
    }
    Val::L(vec![Val::N(9), Val::B(msg.into_bytes())])
}

fn hint_val<B: http_body::Body>(b: &B) -> Val {
    let h = b.size_hint();
    match h.upper() {
        Some(u) if u == h.lower() => Val::N(u),
        u => Val::L(vec![Val::N(h.lower()), Val::opt(u.map(Val::N))]),
    }
}

pub struct Outcome {
    pub input: Val,
    pub obs: Val,
    pub checks: Vec<String>,
    /// status and raw response headers (None when serve panicked)
    pub raw: Option<(u16, Vec<(String, Vec<u8>)>)>,
    pub ncalls: usize,
    pub body_bytes: u64,
}

fn has_hint(case: &ServeCase, key: u64) -> bool {
    match &case.hints {
        Val::L(l) => l.iter().any(|h| matches!(h, Val::L(kv) if kv.first().and_then(|k| k.as_n()) == Some(key))),
        _ => false,
    }
}

fn hint_n(case: &ServeCase, key: u64) -> Option<u64> {
    match &case.hints {
        Val::L(l) => l.iter().find_map(|h| match h {
            Val::L(kv) if kv.len() == 2 && kv[0].as_n() == Some(key) => kv[1].as_n(),
            _ => None,
        }),
        _ => None,
    }
}

fn subsec_ms() -> u32 {
    SystemTime::now().duration_since(SystemTime::UNIX_EPOCH).map(|d| d.subsec_millis()).unwrap_or(0)
}

/// Hint 9: the case is the second request of a two-request history on one thread that straddles a
/// wall-clock second boundary: a warm-up request late in one second, then (less than a second
/// later) the case itself early in the next second. Anything the crate remembers between
/// responses (a cached clock reading, a cached header value) is stale by then.
fn second_boundary_warm_up() {
    while subsec_ms() < 850 {
        std::thread::sleep(std::time::Duration::from_millis(5));
    }
    let cfg = EntityCfg { len: 10, etag: None, mtime_ns: Some(784111777u128 * 1_000_000_000), hdrs: vec![], recipes: vec![], default_recipe: vec![Op::Rest], split: false, mtime_before_epoch: false, volatile_hdrs: false, slow_etag_ms: 0 };
    let ent = ScriptedEntity { cfg, log: Arc::new(Mutex::new(Log::default())) };
    let req = http::Request::builder().method("GET").body(()).unwrap();
    let _ = catch_unwind(AssertUnwindSafe(|| http_serve::serve(ent, &req)));
    while subsec_ms() >= 850 {
        std::thread::sleep(std::time::Duration::from_millis(2));
    }
    std::thread::sleep(std::time::Duration::from_millis(30));
}

pub fn run(case: &ServeCase) -> Outcome {
    let mut checks = vec![];
    if has_hint(case, 9) {
        second_boundary_warm_up();
    }
    let log = Arc::new(Mutex::new(Log::default()));
    // hint 8: the entity hands its chunks over as two non-contiguous pieces
    let mut cfg = case.ent.clone();
    cfg.split = cfg.split || has_hint(case, 8);
    // hint 11: the entity's add_headers answers differently every time it is asked
    cfg.volatile_hdrs = has_hint(case, 11);
    let ent = ScriptedEntity { cfg, log: log.clone() };
    let mut rb = http::Request::builder().method(http::Method::from_bytes(&case.method).expect("valid method token"));
    for (k, v) in &case.headers {
        rb = rb.header(k.as_str(), http::HeaderValue::from_bytes(v).expect("valid header value"));
    }
    // hint 10: the request's HTTP version
    if let Some(v) = hint_n(case, 10) {
        rb = rb.version(match v {
            0 => http::Version::HTTP_09,
            1 => http::Version::HTTP_10,
            2 => http::Version::HTTP_2,
            _ => http::Version::HTTP_3,
        });
    }
    let req = rb.body(()).unwrap();

    // What HeaderMap::iter yields for the entity's own headers (order used inside multipart parts).
    let mut eh = http::HeaderMap::new();
    http_serve::Entity::add_headers(&ent, &mut eh);
    let ehdrs: Vec<Val> = eh
        .iter()
        .map(|(k, v)| Val::L(vec![Val::bytes(k.as_str().as_bytes()), Val::bytes(v.as_bytes())]))
        .collect();
    // (that was the harness asking; the response's own first question gets the same answer)
    log.lock().unwrap().hdr_calls = 0;

    let t0 = secs_of(SystemTime::now());
    let res = catch_unwind(AssertUnwindSafe(|| http_serve::serve(ent, &req)));
    let t1 = secs_of(SystemTime::now());

    let mut now_s = 0u64;
    let mut npolls = 0u64;
    let mut raw = None;
    let mut body_bytes = 0u64;
    let obs = match res {
        Err(_) => Val::L(vec![Val::bytes(b"PANIC")]),
        Ok(resp) => {
            let (parts, body) = resp.into_parts();
            raw = Some((
                parts.status.as_u16(),
                parts.headers.iter().map(|(k, v)| (k.as_str().to_string(), v.as_bytes().to_vec())).collect::<Vec<_>>(),
            ));
            let mut hdrs: Vec<(Vec<u8>, Vec<u8>)> = vec![];
            for (k, v) in parts.headers.iter() {
                let name = k.as_str().as_bytes().to_vec();
                let mut val = v.as_bytes().to_vec();
                if k == http::header::DATE || k == http::header::LAST_MODIFIED {
                    val = normalise_date(&val, &mut checks);
                    if k == http::header::DATE {
                        if let Some(s) = std::str::from_utf8(&val).ok().and_then(|s| s.strip_prefix('@')) {
                            now_s = s.parse().unwrap_or(0);
                            if now_s < t0 || now_s > t1 {
                                checks.push("C14:date-is-the-clock-at-the-time-of-the-response".into());
                            }
                        }
                    }
                }
                hdrs.push((name, val));
            }
            hdrs.sort();
            let mut body = Box::pin(body);
            let hint0 = hint_val(&*body);
            let eos0 = body.is_end_stream();
            let waker = noop_waker();
            let mut cx = Context::from_waker(&waker);
            let mut polls = vec![];
            let mut after_terminal: Option<u32> = None;
            loop {
                if let Some(k) = after_terminal {
                    if k >= case.extra_polls {
                        break;
                    }
                }
                if npolls >= case.max_polls as u64 {
                    break;
                }
                npolls += 1;
                let r = catch_unwind(AssertUnwindSafe(|| Pin::as_mut(&mut body).poll_frame(&mut cx)));
                let (rv, terminal) = match r {
                    Err(_) => {
                        polls.push(Val::L(vec![Val::N(2), Val::N(0), Val::N(0)]));
                        break;
                    }
                    Ok(Poll::Pending) => (Val::N(0), false),
                    Ok(Poll::Ready(None)) => (Val::N(1), true),
                    Ok(Poll::Ready(Some(Ok(f)))) => match f.into_data() {
                        Ok(d) => {
                            let d = d.into_vec();
                            body_bytes += d.len() as u64;
                            (Val::B(d), false)
                        }
                        Err(_) => (Val::L(vec![Val::N(8)]), false),
                    },
                    Ok(Poll::Ready(Some(Err(e)))) => (classify_err(&e), true),
                };
                let h = hint_val(&*body);
                let e = body.is_end_stream();
                polls.push(Val::L(vec![rv, h, Val::boolean(e)]));
                if let Some(k) = after_terminal.as_mut() {
                    *k += 1;
                } else if terminal {
                    after_terminal = Some(0);
                }
            }
            let calls: Vec<Val> = log.lock().unwrap().calls.iter().map(|(a, e)| Val::L(vec![Val::N(*a), Val::N(*e)])).collect();
            Val::L(vec![
                Val::N(parts.status.as_u16() as u64),
                Val::L(hdrs.into_iter().map(|(k, v)| Val::L(vec![Val::B(k), Val::B(v)])).collect()),
                hint0,
                Val::boolean(eos0),
                Val::L(polls),
                Val::L(calls),
            ])
        }
    };

    // oracle table for the date-valued request headers (after to_str, as the code does)
    let mut dates = vec![];
    for name in ["if-modified-since", "if-unmodified-since"] {
        if let Some(v) = first(&case.headers, name) {
            let parsed = http::HeaderValue::from_bytes(v)
                .ok()
                .and_then(|hv| hv.to_str().ok().map(|s| s.to_string()))
                .and_then(|s| httpdate::parse_http_date(&s).ok())
                .map(|t| Val::N(secs_of(t)));
            dates.push(Val::L(vec![Val::bytes(v), Val::opt(parsed)]));
        }
    }
    // oracle hypothesis: parse (fmt t) = t on the timestamps this case uses
    // (stated for 0 <= t < year 9999 only: later times have no HTTP-date and httpdate refuses to format them)
    for t in [Some(now_s), case.ent.mtime_ns.map(|n| (n / 1_000_000_000) as u64).filter(|s| *s < 253_402_300_800)].into_iter().flatten() {
        let st = SystemTime::UNIX_EPOCH + std::time::Duration::from_secs(t);
        match httpdate::parse_http_date(&httpdate::fmt_http_date(st)) {
            Ok(p) if p == st => {}
            _ => checks.push("oracle-parse-fmt".into()),
        }
    }

    let lg = log.lock().unwrap();
    let streams: Vec<Val> = lg.streams.iter().map(|s| Val::L(s.iter().map(ev_val).collect())).collect();
    let req_field = |n: &str| Val::opt(first(&case.headers, n).map(|v| Val::bytes(v)));
    let input = Val::L(vec![
        Val::N(now_s),
        Val::L(vec![
            Val::N(case.ent.len),
            Val::opt(case.ent.etag.as_ref().map(|e| Val::bytes(e))),
            Val::opt(case.ent.mtime_ns.map(Val::n128)),
            Val::L(ehdrs),
        ]),
        Val::L(vec![
            Val::bytes(&case.method),
            req_field("range"),
            req_field("if-range"),
            req_field("if-match"),
            req_field("if-none-match"),
            req_field("if-modified-since"),
            req_field("if-unmodified-since"),
        ]),
        Val::L(dates),
        Val::L(streams),
        Val::N(npolls),
        case.hints.clone(),
    ]);
    let ncalls = lg.calls.len();
    drop(lg);
    Outcome { input, obs, checks, raw, ncalls, body_bytes }
}

/// Rebuilds a case from an input value (replay / shrinking): streams become literal recipes.
pub fn case_of_input(v: &Val) -> Option<ServeCase> {
    let l = v.as_list()?;
    if l.len() != 7 {
        return None;
    }
    let e = l[1].as_list()?;
    let r = l[2].as_list()?;
    let mut hdrs = vec![];
    for kv in e[3].as_list()? {
        let kv = kv.as_list()?;
        hdrs.push((String::from_utf8(kv[0].as_b()?.clone()).ok()?, kv[1].as_b()?.clone()));
    }
    let mut recipes = vec![];
    for s in l[4].as_list()? {
        let mut ops = vec![];
        for ev in s.as_list()? {
            ops.push(Op::Lit(match ev {
                Val::N(0) => Ev::Pending,
                Val::B(b) => Ev::Data(b.clone()),
                Val::L(c) => Ev::Err(c.first()?.as_n()?),
                _ => return None,
            }));
        }
        recipes.push(ops);
    }
    let names = ["range", "if-range", "if-match", "if-none-match", "if-modified-since", "if-unmodified-since"];
    let mut headers = vec![];
    for (i, n) in names.iter().enumerate() {
        if let Some(v) = r[i + 1].as_opt()? {
            headers.push((n.to_string(), v.as_b()?.clone()));
        }
    }
    let npolls = l[5].as_n()? as u32;
    Some(ServeCase {
        ent: EntityCfg {
            len: e[0].as_n()?,
            etag: e[1].as_opt()?.map(|v| v.as_b().cloned()).flatten(),
            mtime_ns: e[2].as_opt()?.map(|v| v.as_n128()).flatten(),
            hdrs,
            recipes,
            default_recipe: vec![],
            split: false,
            mtime_before_epoch: false,
            volatile_hdrs: false,
            slow_etag_ms: 0,
        },
        method: r[0].as_b()?.clone(),
        headers,
        extra_polls: u32::MAX,
        max_polls: npolls,
        class: "replay".into(),
        hints: l[6].clone(),
    })
}


/// Entities whose modification time lies before 1970 (a restored or mis-dated file): harness-level checks
/// only -- the model's times start at the epoch. serve() must answer (C13), with a Last-Modified that does
/// not exceed the Date (C14); echoing the served Last-Modified must work as for any other entity.
pub fn pre_epoch_checks() -> Vec<String> {
    let mut fails = vec![];
    for (secs, sub) in [(0u64, 1u32), (0, 750_000_000), (31_536_000, 250_000_000), (86_400 * 365 * 300, 0)] {
        for method in ["GET", "HEAD"] {
            // (headers, the status C04 / C03 prescribe: the real time -- before the epoch -- is compared, so any
            //  HTTP date is later than it; 0 = not asserted)
            for (hdrs, want) in [
                (vec![], 200u16),
                (vec![("if-modified-since", "Thu, 01 Jan 1970 00:00:00 GMT")], 304),
                (vec![("if-unmodified-since", "Thu, 01 Jan 1970 00:00:00 GMT")], 200),
                (vec![("if-modified-since", "Sun, 06 Nov 1994 08:49:37 GMT")], 304),
                (vec![("if-unmodified-since", "Sun, 06 Nov 1994 08:49:37 GMT")], 200),
                (vec![("if-modified-since", "Thu, 01 Jan 1970 00:00:01 GMT"), ("if-unmodified-since", "Thu, 01 Jan 1970 00:00:01 GMT")], 304),
                (vec![("if-none-match", "\"xyz\""), ("if-modified-since", "Thu, 01 Jan 1970 00:00:00 GMT")], 200),
                (vec![("if-match", "\"abc\""), ("if-unmodified-since", "Thu, 01 Jan 1970 00:00:00 GMT")], 200),
                (vec![("range", "bytes=1-3")], 206),
                (vec![("range", "bytes=1-3"), ("if-range", "Thu, 01 Jan 1970 00:00:00 GMT")], 200),
                (vec![("range", "bytes=1-3, 5-6")], 0),
                (vec![("range", "bytes=500-")], 416),
            ] {
                let cfg = EntityCfg {
                    len: 100, etag: Some(b"\"abc\"".to_vec()), mtime_ns: Some(secs as u128 * 1_000_000_000 + sub as u128),
                    hdrs: vec![], recipes: vec![], default_recipe: vec![Op::Rest], split: false, mtime_before_epoch: true, volatile_hdrs: false, slow_etag_ms: 0,
                };
                let ent = ScriptedEntity { cfg, log: Arc::new(Mutex::new(Log::default())) };
                let mut rb = http::Request::builder().method(method);
                for (k, v) in &hdrs {
                    rb = rb.header(*k, *v);
                }
                let req = rb.body(()).unwrap();
                let tag = format!("mtime=-{}.{:09}s {} {:?}", secs, sub, method, hdrs);
                match catch_unwind(AssertUnwindSafe(|| http_serve::serve(ent, &req))) {
                    Err(_) => fails.push(format!("serve-panicked-for-an-entity-dated-before-1970({})", tag.replace(',', ";"))),
                    Ok(resp) => {
                        let st = resp.status().as_u16();
                        if ![200u16, 206, 304, 412, 416].contains(&st) {
                            fails.push(format!("unexpected-status-for-an-entity-dated-before-1970({} {})", st, tag.replace(',', ";")));
                        }
                        if want != 0 && st != want {
                            fails.push(format!("status-{}-instead-of-{}-for-an-entity-dated-before-1970({})", st, want, tag.replace(',', ";")));
                        }
                        let date = resp.headers().get("date").and_then(|v| v.to_str().ok()).and_then(|s| httpdate::parse_http_date(s).ok());
                        let lm = resp.headers().get("last-modified").and_then(|v| v.to_str().ok()).and_then(|s| httpdate::parse_http_date(s).ok());
                        if let (Some(d), Some(l)) = (date, lm) {
                            if l > d {
                                fails.push(format!("last-modified-exceeds-date({})", tag.replace(',', ";")));
                            }
                        }
                    }
                }
            }
        }
    }
    fails
}


/// An entity whose validators take time to compute (etag() sleeps past a second boundary) and whose
/// modification time lies in the future, so that Last-Modified is the clock: Date and Last-Modified must come
/// from ONE reading of the clock -- "a Last-Modified that never exceeds that Date" (C14). Harness-level checks.
pub fn slow_validator_checks() -> Vec<String> {
    let mut fails = vec![];
    let now = SystemTime::now().duration_since(SystemTime::UNIX_EPOCH).unwrap().as_secs();
    for (method, hdrs) in [
        ("GET", vec![]),
        ("HEAD", vec![]),
        ("GET", vec![("if-none-match", "\"abc\"")]),
        ("GET", vec![("range", "bytes=500-")]),
    ] {
        let cfg = EntityCfg {
            len: 100, etag: Some(b"\"abc\"".to_vec()), mtime_ns: Some((now as u128 + 86_400) * 1_000_000_000 + 5),
            hdrs: vec![], recipes: vec![], default_recipe: vec![Op::Rest], split: false, mtime_before_epoch: false, volatile_hdrs: false, slow_etag_ms: 1100,
        };
        let ent = ScriptedEntity { cfg, log: Arc::new(Mutex::new(Log::default())) };
        let mut rb = http::Request::builder().method(method);
        for (k, v) in &hdrs {
            rb = rb.header(*k, *v);
        }
        let req = rb.body(()).unwrap();
        let tag = format!("{} {:?}", method, hdrs).replace(',', ";");
        match catch_unwind(AssertUnwindSafe(|| http_serve::serve(ent, &req))) {
            Err(_) => fails.push(format!("serve-panicked-with-a-slow-validator({})", tag)),
            Ok(resp) => {
                let date = resp.headers().get("date").and_then(|v| v.to_str().ok()).and_then(|s| httpdate::parse_http_date(s).ok());
                let lm = resp.headers().get("last-modified").and_then(|v| v.to_str().ok()).and_then(|s| httpdate::parse_http_date(s).ok());
                match (date, lm) {
                    (Some(d), Some(l)) if l > d => fails.push(format!("last-modified-exceeds-date-with-a-slow-validator({})", tag)),
                    (Some(_), Some(_)) => {}
                    _ => fails.push(format!("date-or-last-modified-missing-with-a-slow-validator({})", tag)),
                }
            }
        }
    }
    fails
}

/// Tens of thousands of one-byte ranges on a large entity, served as multipart and drained: no panic, every
/// part there, the length announced (C13, C06, C01). Harness-level checks (the extracted model walks lists and
/// would take minutes on such a case).
pub fn many_parts_checks() -> Vec<String> {
    let mut fails = vec![];
    for n in [300usize, 32_767, 32_768, 40_000, 70_000] {
        let len: u64 = 8 << 20;
        let hdr = format!("bytes={}", (0..n).map(|i| { let p = (i as u64 * 97) % len; format!("{}-{}", p, p) }).collect::<Vec<_>>().join(","));
        let cfg = EntityCfg {
            len, etag: None, mtime_ns: None, hdrs: vec![], recipes: vec![], default_recipe: vec![Op::Rest], split: false,
            mtime_before_epoch: false, volatile_hdrs: false, slow_etag_ms: 0,
        };
        let ent = ScriptedEntity { cfg, log: Arc::new(Mutex::new(Log::default())) };
        let req = http::Request::builder().method("GET").header("range", hdr).body(()).unwrap();
        let r = catch_unwind(AssertUnwindSafe(|| {
            let resp = http_serve::serve(ent, &req);
            let st = resp.status().as_u16();
            let cl: Option<u64> = resp.headers().get("content-length").and_then(|v| v.to_str().ok()).and_then(|s| s.parse().ok());
            let mut body = Box::pin(resp.into_body());
            let waker = noop_waker();
            let mut cx = Context::from_waker(&waker);
            let mut total = 0u64;
            let mut parts = 0usize;
            let mut ended = false;
            for _ in 0..(4 * n + 16) {
                match body.as_mut().poll_frame(&mut cx) {
                    Poll::Ready(Some(Ok(f))) => {
                        if let Ok(d) = f.into_data() {
                            use bytes::Buf;
                            let mut d = d;
                            let b = d.copy_to_bytes(d.remaining());
                            total += b.len() as u64;
                            if b.starts_with(b"\r\n--B\r\n") {
                                parts += 1;
                            }
                        }
                    }
                    Poll::Ready(None) => {
                        ended = true;
                        break;
                    }
                    Poll::Ready(Some(Err(_))) => break,
                    Poll::Pending => break,
                }
            }
            (st, cl, total, parts, ended)
        }));
        match r {
            Err(_) => fails.push(format!("serve-or-its-body-panicked-with-{}-ranges", n)),
            Ok((st, cl, total, parts, ended)) => {
                if st != 206 {
                    fails.push(format!("status-{}-for-{}-efficient-ranges", st, n));
                } else if !ended || cl != Some(total) || parts != n {
                    fails.push(format!("multipart-body-of-{}-ranges-incomplete(ended={} announced={:?} delivered={} parts={})", n, ended, cl, total, parts).replace(',', ";"));
                }
            }
        }
    }
    fails
}
