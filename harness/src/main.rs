mod entity;
mod gen_serve;
mod histories;
mod dir_engine;
mod file_engine;
mod gen_stream;
mod negot;
mod once_engine;
mod stream_engine;
mod rng;
#[cfg(feature = "hooks")]
mod sched_engine;
#[cfg(feature = "hooks")]
mod sched_gen;
mod serve_engine;
mod val;
mod watch;

use std::io::{BufRead, Write};

fn arg(args: &[String], name: &str) -> Option<String> {
    args.iter().position(|a| a == name).and_then(|i| args.get(i + 1).cloned())
}

/// The streaming body polled from inside Waker::wake (stream_engine::inline_wake_checks): harness-level
/// checks attached to one ordinary Body::empty() case.
fn inline_wake_case(prop: &str, cases: &mut dyn Write, meta: &mut dyn Write) {
    if watch::gate("H:polls-from-inside-wake").is_none() {
        return;
    }
    let c = once_engine::OnceCase { kind: 0, data: vec![], polls: 2, class: "H:polls-from-inside-wake".into() };
    let checks: Vec<String> = stream_engine::inline_wake_checks().into_iter().map(|f| format!("{}:{}", prop, f)).collect();
    let id = format!("{}-W0", prop);
    writeln!(cases, "once {} {}", id, once_engine::run(&c).to_string()).unwrap();
    writeln!(meta, "{}\t{}\t{}", id, c.class, checks.join(",")).unwrap();
}

/// The writer dropped while its thread unwinds from a panic (stream_engine::unwind_drop_checks).
fn unwind_drop_case(prop: &str, cases: &mut dyn Write, meta: &mut dyn Write) {
    if watch::gate("H:writer-dropped-while-unwinding").is_none() {
        return;
    }
    let c = once_engine::OnceCase { kind: 0, data: vec![], polls: 2, class: "H:writer-dropped-while-unwinding".into() };
    let mut all = stream_engine::unwind_drop_checks();
    all.extend(stream_engine::long_queue_checks());
    let checks: Vec<String> = all.into_iter().map(|f| format!("{}:{}", prop, f)).collect();
    let id = format!("{}-U0", prop);
    writeln!(cases, "once {} {}", id, once_engine::run(&c).to_string()).unwrap();
    writeln!(meta, "{}\t{}\t{}", id, c.class, checks.join(",")).unwrap();
}

/// A family of harness-level checks attached to one ordinary Body::empty() case.
fn harness_case(prop: &str, class: &str, suffix: &str, fails: Vec<String>, cases: &mut dyn Write, meta: &mut dyn Write) {
    let c = once_engine::OnceCase { kind: 0, data: vec![], polls: 2, class: class.into() };
    let checks: Vec<String> = fails.into_iter().map(|f| format!("{}:{}", prop, f)).collect();
    let id = format!("{}-{}", prop, suffix);
    writeln!(cases, "once {} {}", id, once_engine::run(&c).to_string()).unwrap();
    writeln!(meta, "{}\t{}\t{}", id, c.class, checks.join(",")).unwrap();
}

/// serve() on entities dated before 1970 (serve_engine::pre_epoch_checks): harness-level checks attached to
/// one ordinary Body::empty() case.
fn pre_epoch_case(prop: &str, cases: &mut dyn Write, meta: &mut dyn Write) {
    if watch::gate("H:entities-dated-before-1970").is_none() {
        return;
    }
    let c = once_engine::OnceCase { kind: 0, data: vec![], polls: 2, class: "H:entities-dated-before-1970".into() };
    let checks: Vec<String> = serve_engine::pre_epoch_checks().into_iter().map(|f| format!("{}:{}", prop, f)).collect();
    let id = format!("{}-P0", prop);
    writeln!(cases, "once {} {}", id, once_engine::run(&c).to_string()).unwrap();
    writeln!(meta, "{}\t{}\t{}", id, c.class, checks.join(",")).unwrap();
}

fn main() {
    let args: Vec<String> = std::env::args().collect();
    if args.len() < 2 {
        eprintln!("usage: hs-harness <gen-run|run> ...");
        std::process::exit(2);
    }
    // panics inside the implementation are results, not noise
    if std::env::var("HS_PANIC").is_err() {
        std::panic::set_hook(Box::new(|_| {}));
    }
    match args[1].as_str() {
        "gen-run" => {
            let prop = arg(&args, "--property").expect("--property");
            let tier = arg(&args, "--tier").unwrap_or_else(|| "quick".into());
            let seed: u64 = arg(&args, "--seed").and_then(|s| s.parse().ok()).unwrap_or(0);
            let out = arg(&args, "--out").expect("--out");
            let thorough = tier == "thorough";
            let mut rng = rng::Rng::new(seed);
            // resumption after a case that did not return (see watch.rs): --from K skips the cases
            // before K and appends; --hung lists cases never to execute; --only K runs just case K
            let from: u64 = arg(&args, "--from").and_then(|s| s.parse().ok()).unwrap_or(0);
            let only: Option<u64> = arg(&args, "--only").and_then(|s| s.parse().ok());
            let hung: Vec<u64> = arg(&args, "--hung").map(|s| s.split(',').filter_map(|x| x.parse().ok()).collect()).unwrap_or_default();
            watch::init(from, only, hung);
            watch::start_watchdog(arg(&args, "--case-limit").and_then(|s| s.parse().ok()).unwrap_or(10));
            let open = |path: String| {
                let f = if watch::resumed() {
                    std::fs::OpenOptions::new().append(true).create(true).open(path).unwrap()
                } else {
                    std::fs::File::create(path).unwrap()
                };
                std::io::LineWriter::new(f)
            };
            let mut cases = open(format!("{}.cases", out));
            let mut meta = open(format!("{}.meta", out));
            let mut emit_serve = |c: serve_engine::ServeCase| {
                let idx = match watch::gate(&c.class) {
                    Some(i) => i,
                    None => return,
                };
                let o = serve_engine::run(&c);
                let id = format!("{}-{}", prop, idx);
                let v = val::Val::L(vec![o.input, o.obs]);
                writeln!(cases, "serve {} {}", id, v.to_string()).unwrap();
                writeln!(meta, "{}\t{}\t{}", id, c.class.replace('\t', " ").replace('\n', " "), o.checks.join(",")).unwrap();
            };
            let n_mixed = if thorough { 60000 } else { 4000 };
            let stream_props = ["C08", "C09", "C11", "C17"];
            if stream_props.contains(&prop.as_str()) {
                drop(emit_serve);
                let mut emit_stream = |c: stream_engine::StreamCase| {
                    let idx = match watch::gate(&c.class) {
                        Some(i) => i,
                        None => return,
                    };
                    let o = stream_engine::run(&c);
                    let id = format!("{}-{}", prop, idx);
                    let v = val::Val::L(vec![o.input, o.obs]);
                    writeln!(cases, "stream {} {}", id, v.to_string()).unwrap();
                    writeln!(meta, "{}\t{}\t", id, c.class.replace('\t', " ").replace('\n', " ")).unwrap();
                };
                match prop.as_str() {
                    "C08" => gen_stream::gen_c08(&mut rng, thorough, &mut emit_stream),
                    "C09" => gen_stream::gen_c09(&mut rng, thorough, &mut emit_stream),
                    "C11" => gen_stream::gen_c11(&mut rng, thorough, &mut emit_stream),
                    _ => gen_stream::gen_c17(&mut rng, thorough, &mut emit_stream),
                }
                drop(emit_stream);
                if prop == "C11" {
                    inline_wake_case(&prop, &mut cases, &mut meta);
                    unwind_drop_case(&prop, &mut cases, &mut meta);
                    if watch::gate("H:consumer-dies-in-its-own-conversion").is_some() {
                        harness_case(&prop, "H:consumer-dies-in-its-own-conversion", "D0", stream_engine::poisoning_consumer_checks(), &mut cases, &mut meta);
                    }
                }
                #[cfg(not(feature = "hooks"))]
                if prop == "C11" {
                    eprintln!("built without the schedule engine: the concurrent part of C11 is not explored");
                }
                #[cfg(feature = "hooks")]
                if prop == "C11" {
                    // all interleavings with a concurrently polling consumer
                    let mut k = 0u64;
                    let mut total = 0usize;
                    let mut exhausted_all = true;
                    sched_gen::gen_c11(&mut rng, thorough, &mut |c: sched_engine::SchedCase| {
                        let idx = match watch::gate(&c.class) {
                            Some(i) => i,
                            None => return,
                        };
                        let max = if thorough { 2000 } else { 200 };
                        let (n, ex) = sched_engine::explore(&c, max, &mut |r| {
                            watch::tick();
                            let id = format!("{}-X{}-{}", prop, idx, k);
                            k += 1;
                            writeln!(cases, "{}", sched_engine::case_line(&id, &c, r)).unwrap();
                            let mut checks = vec![];
                            if r.timeout { checks.push("C11:thread-blocked-deadlock".to_string()); }
                            writeln!(meta, "{}\t{} schedule={:?}\t{}", id, c.class, r.choices, checks.join(",")).unwrap();
                        });
                        total += n;
                        exhausted_all &= ex;
                    });
                    eprintln!("schedules={} exhaustive={}", total, exhausted_all);
                }
                return;
            }
            match prop.as_str() {
                "C01" => {
                    gen_serve::gen_mixed(&mut rng, n_mixed, "c01", &mut emit_serve);
                    gen_serve::gen_chunkings(&mut rng, thorough, &mut emit_serve);
                    gen_serve::gen_c06(&mut rng.fork(), false, &mut emit_serve);
                    // every If-Range outcome x Range shape (Content-Length must not depend on it)
                    gen_serve::gen_c05(&mut rng.fork(), false, &mut emit_serve);
                    // the announced multipart length around 2^64 (206 below, 413 from there on)
                    gen_serve::gen_overflow_corner(&mut rng.fork(), false, &mut emit_serve);
                }
                "C02" => {
                    gen_serve::gen_mixed(&mut rng, n_mixed, "c02", &mut emit_serve);
                    gen_serve::gen_chunkings(&mut rng, thorough, &mut emit_serve);
                }
                "C03" => {
                    gen_serve::gen_c03(&mut rng, thorough, &mut emit_serve);
                    gen_serve::gen_overflow_corner(&mut rng.fork(), false, &mut emit_serve);
                }
                "C04" => {
                    gen_serve::gen_c04(&mut rng, thorough, &mut emit_serve);
                    gen_serve::gen_far_future(&mut emit_serve);
                    drop(emit_serve);
                    pre_epoch_case(&prop, &mut cases, &mut meta);
                }
                "C05" => gen_serve::gen_c05(&mut rng, thorough, &mut emit_serve),
                "C06" => {
                    gen_serve::gen_c06(&mut rng, thorough, &mut emit_serve);
                    gen_serve::gen_overflow_corner(&mut rng.fork(), false, &mut emit_serve);
                }
                "C07" => {
                    gen_serve::gen_c07(&mut rng, thorough, &mut emit_serve);
                    gen_serve::gen_mixed(&mut rng, n_mixed / 4, "c20", &mut emit_serve);
                }
                "C12" => {
                    gen_serve::gen_mixed(&mut rng, n_mixed, "c12", &mut emit_serve);
                    gen_serve::gen_c06(&mut rng.fork(), false, &mut emit_serve);
                    gen_serve::gen_c07(&mut rng, false, &mut emit_serve);
                    gen_serve::gen_chunkings(&mut rng, false, &mut emit_serve);
                    // the streaming body kind: hints and the flag sampled after every operation
                    drop(emit_serve);
                    let mut emit_stream = |c: stream_engine::StreamCase| {
                        let idx = match watch::gate(&c.class) {
                            Some(i) => i,
                            None => return,
                        };
                        let o = stream_engine::run(&c);
                        let id = format!("{}-S{}", prop, idx);
                        let v = val::Val::L(vec![o.input, o.obs]);
                        writeln!(cases, "stream {} {}", id, v.to_string()).unwrap();
                        writeln!(meta, "{}\t{}\t", id, c.class.replace('\t', " ").replace('\n', " ")).unwrap();
                    };
                    gen_stream::gen_random(&mut rng, if thorough { 20000 } else { 2500 }, false, false, &mut emit_stream);
                    gen_stream::gen_random(&mut rng, if thorough { 20000 } else { 2500 }, true, false, &mut emit_stream);
                    gen_stream::gen_random(&mut rng, if thorough { 5000 } else { 500 }, true, true, &mut emit_stream);
                    drop(emit_stream);
                    // Body::empty() and the Body::from conversions
                    once_engine::gen(&mut |c: once_engine::OnceCase| {
                        if let Some(idx) = watch::gate(&c.class) {
                            let id = format!("{}-O{}", prop, idx);
                            writeln!(cases, "once {} {}", id, once_engine::run(&c).to_string()).unwrap();
                            writeln!(meta, "{}\t{}\t", id, c.class).unwrap();
                        }
                    });
                    inline_wake_case(&prop, &mut cases, &mut meta);
                    // the streaming body's hint sampled while the producer runs on another thread
                    #[cfg(feature = "hooks")]
                    {
                        let mut k = 0u64;
                        sched_gen::gen_c12(&mut |c: sched_engine::SchedCase| {
                            let idx = match watch::gate(&c.class) {
                                Some(i) => i,
                                None => return,
                            };
                            sched_engine::explore(&c, if thorough { 2000 } else { 300 }, &mut |r| {
                                watch::tick();
                                let id = format!("{}-X{}-{}", prop, idx, k);
                                k += 1;
                                writeln!(cases, "{}", sched_engine::case_line(&id, &c, r)).unwrap();
                                writeln!(meta, "{}\t{} schedule={:?}\t", id, c.class, r.choices).unwrap();
                            });
                        });
                    }
                }
                "C13" => {
                    gen_serve::gen_mixed(&mut rng, n_mixed * 3, "c13", &mut emit_serve);
                    gen_serve::gen_overflow_corner(&mut rng.fork(), thorough, &mut emit_serve);
                    gen_serve::gen_far_future(&mut emit_serve);
                    drop(emit_serve);
                    pre_epoch_case(&prop, &mut cases, &mut meta);
                    if watch::gate("H:tens-of-thousands-of-ranges").is_some() {
                        harness_case(&prop, "H:tens-of-thousands-of-ranges", "M0", serve_engine::many_parts_checks(), &mut cases, &mut meta);
                    }
                }
                "C14" => {
                    drop(emit_serve);
                    histories::gen_c14(&mut rng, thorough, &mut cases, &mut meta, &prop);
                    histories::gen_c14_boundary(thorough, &mut cases, &mut meta, &prop, 0);
                    pre_epoch_case(&prop, &mut cases, &mut meta);
                    if watch::gate("H:slow-validators").is_some() {
                        harness_case(&prop, "H:slow-validators", "V0", serve_engine::slow_validator_checks(), &mut cases, &mut meta);
                    }
                }
                "C15" => {
                    drop(emit_serve);
                    histories::gen_c15(&mut rng, thorough, &mut cases, &mut meta, &prop);
                    // streaming_body: the same headers for HEAD as for GET, but no writer and an empty body
                    gen_stream::gen_c15_twins(&mut |g: stream_engine::StreamCase, h: stream_engine::StreamCase| {
                        let (ig, ih) = match (watch::gate(&g.class), watch::gate(&h.class)) {
                            (Some(a), Some(b)) => (a, b),
                            _ => return,
                        };
                        let og = stream_engine::run(&g);
                        let oh = stream_engine::run(&h);
                        let mut checks = vec![];
                        match (og.obs.as_list(), oh.obs.as_list()) {
                            (Some(lg), Some(lh)) if lg.len() == 5 && lh.len() == 5 => {
                                if lg[0] != lh[0] {
                                    checks.push("C15:streaming-head-headers-differ".to_string());
                                }
                                if lh[1].as_n() != Some(0) {
                                    checks.push("C15:streaming-head-has-a-writer".to_string());
                                }
                                if lg[1].as_n() != Some(1) {
                                    checks.push("C15:streaming-get-has-no-writer".to_string());
                                }
                                let delivered = lh[4].as_list().map(|rs| rs.iter().any(|r| matches!(r.as_list().and_then(|x| x.first()), Some(val::Val::B(b)) if !b.is_empty()))).unwrap_or(false);
                                if delivered {
                                    checks.push("C15:streaming-head-body-not-empty".to_string());
                                }
                            }
                            _ => checks.push("C15:panic".to_string()),
                        }
                        let idg = format!("{}-S{}", prop, ig);
                        writeln!(cases, "stream {} {}", idg, val::Val::L(vec![og.input, og.obs]).to_string()).unwrap();
                        writeln!(meta, "{}\t{}\t", idg, g.class).unwrap();
                        let idh = format!("{}-S{}", prop, ih);
                        writeln!(cases, "stream {} {}", idh, val::Val::L(vec![oh.input, oh.obs]).to_string()).unwrap();
                        writeln!(meta, "{}\t{}\t{}", idh, h.class, checks.join(",")).unwrap();
                    });
                }
                #[cfg(not(feature = "hooks"))]
                "C10" => {
                    eprintln!("built without the schedule engine");
                    std::process::exit(3);
                }
                #[cfg(feature = "hooks")]
                "C10" => {
                    drop(emit_serve);
                    unwind_drop_case(&prop, &mut cases, &mut meta);
                    inline_wake_case(&prop, &mut cases, &mut meta);
                    let mut k = 0u64;
                    let mut total = 0usize;
                    let mut exhausted_all = true;
                    sched_gen::gen_c10_all(&mut rng, thorough, &mut |c: sched_engine::SchedCase| {
                        let idx = match watch::gate(&c.class) {
                            Some(i) => i,
                            None => return,
                        };
                        let max = if thorough { 4000 } else { 400 };
                        let (n, ex) = sched_engine::explore(&c, max, &mut |r| {
                            watch::tick();
                            let id = format!("{}-{}-{}", prop, idx, k);
                            k += 1;
                            writeln!(cases, "{}", sched_engine::case_line(&id, &c, r)).unwrap();
                            let mut checks = vec![];
                            if r.stuck { checks.push("C10:consumer-asleep-while-termination-pending".to_string()); }
                            if r.timeout { checks.push("C10:thread-blocked-deadlock".to_string()); }
                            if r.wake_while_locked { checks.push("C10:wake-while-holding-the-lock".to_string()); }
                            writeln!(meta, "{}\t{} schedule={:?}\t{}", id, c.class, r.choices, checks.join(",")).unwrap();
                        });
                        total += n;
                        exhausted_all &= ex;
                    });
                    eprintln!("schedules={} exhaustive={}", total, exhausted_all);
                }
                "C16" => {
                    drop(emit_serve);
                    negot::gen_c16(&mut rng, thorough, &mut |c: negot::NegotCase| {
                        let idx = match watch::gate(&c.class) {
                            Some(i) => i,
                            None => return,
                        };
                        let id = format!("{}-{}", prop, idx);
                        writeln!(cases, "{}", negot::case_line(&id, &c)).unwrap();
                        writeln!(meta, "{}\t{}\t", id, c.class.replace('\t', " ").replace('\n', " ")).unwrap();
                    });
                }
                "C18" => {
                    drop(emit_serve);
                    let rt = tokio::runtime::Builder::new_multi_thread().worker_threads(2).enable_all().build().unwrap();
                    let tmp = tempfile::tempdir().unwrap();
                    let mut k = 0u64;
                    file_engine::gen_c18(&mut rng, thorough, &mut |c: file_engine::FileCase| {
                        let idx = match watch::gate(&c.class) {
                            Some(i) => i,
                            None => return,
                        };
                        k = idx + 1;
                        let id = format!("{}-{}", prop, idx);
                        let mut checks = vec![];
                        let line = file_engine::run(&rt, tmp.path(), &c, &mut checks);
                        writeln!(cases, "file {} {}", id, line).unwrap();
                        writeln!(meta, "{}\t{}\t{}", id, c.class, checks.join(",")).unwrap();
                    });
                    // validators across instances and the entity through serve(): harness-level checks
                    if watch::gate("H:validators-and-serve").is_none() {
                        return;
                    }
                    let mut checks = file_engine::validator_checks(tmp.path());
                    checks.extend(file_engine::serve_checks(&rt, tmp.path()));
                    checks.extend(file_engine::reuse_checks(&rt, tmp.path()));
                    let id = format!("{}-H{}", prop, k);
                    let c = file_engine::FileCase { kind: 0, size: 5, a: 1, e: 4, truncs: vec![], companion: None, class: "H:validators-and-serve".into() };
                    let mut c2 = vec![];
                    let line = file_engine::run(&rt, tmp.path(), &c, &mut c2);
                    checks.extend(c2);
                    writeln!(cases, "file {} {}", id, line).unwrap();
                    writeln!(meta, "{}\t{}\t{}", id, c.class, checks.join(",")).unwrap();
                }
                "C19" => {
                    drop(emit_serve);
                    let rt = tokio::runtime::Builder::new_multi_thread().worker_threads(2).enable_all().build().unwrap();
                    let tree = dir_engine::make_tree();
                    let base_file = std::fs::File::open(&tree.base).unwrap();
                    dir_engine::gen_c19(&mut rng, thorough, &mut |c: dir_engine::DirCase| {
                        let idx = match watch::gate(&c.class.replace('\0', "\\0")) {
                            Some(i) => i,
                            None => return,
                        };
                        let id = format!("{}-{}", prop, idx);
                        writeln!(cases, "dir {} {}", id, dir_engine::run(&rt, &tree, &base_file, &c)).unwrap();
                        writeln!(meta, "{}\t{}\t", id, c.class.replace('\t', " ").replace('\n', " ").replace('\0', "\\0")).unwrap();
                    });
                    if watch::gate("H:one-FsDir-while-the-tree-changes").is_some() {
                        harness_case(&prop, "H:one-FsDir-while-the-tree-changes", "R0", dir_engine::reuse_checks(&rt), &mut cases, &mut meta);
                    }
                }
                "C20" => {
                    gen_serve::gen_c07(&mut rng, true, &mut emit_serve);
                    gen_serve::gen_mixed(&mut rng, n_mixed, "c20", &mut emit_serve);
                    gen_serve::gen_c06(&mut rng.fork(), false, &mut emit_serve);
                    drop(emit_serve);
                    once_engine::gen(&mut |c: once_engine::OnceCase| {
                        if let Some(idx) = watch::gate(&c.class) {
                            let id = format!("{}-O{}", prop, idx);
                            writeln!(cases, "once {} {}", id, once_engine::run(&c).to_string()).unwrap();
                            writeln!(meta, "{}\t{}\t", id, c.class).unwrap();
                        }
                    });
                    inline_wake_case(&prop, &mut cases, &mut meta);
                }
                _ => {
                    eprintln!("unknown property {}", prop);
                    std::process::exit(2);
                }
            }
        }
        "run" => {
            // re-execute cases given as "serve <id> ( input ... )" lines on stdin (replay, corpus, shrinking)
            let stdin = std::io::stdin();
            let stdout = std::io::stdout();
            let mut out = stdout.lock();
            for line in stdin.lock().lines() {
                let line = line.unwrap();
                let mut it = line.splitn(3, ' ');
                let (engine, id, rest) = (it.next().unwrap_or(""), it.next().unwrap_or(""), it.next().unwrap_or(""));
                #[cfg(feature = "hooks")]
                if engine == "sched" {
                    let v = val::Val::parse(rest).expect("case value");
                    let input = match &v {
                        val::Val::L(l) if l.len() == 2 => l[0].clone(),
                        _ => v.clone(),
                    };
                    let (c, choices) = sched_engine::case_of_input(&input).expect("decodable sched input");
                    let r = sched_engine::run_one(&c, &choices);
                    writeln!(out, "{}", sched_engine::case_line(id, &c, &r)).unwrap();
                }
                if engine == "once" {
                    let v = val::Val::parse(rest).expect("case value");
                    let input = match &v {
                        val::Val::L(l) if l.len() == 2 => l[0].clone(),
                        _ => v.clone(),
                    };
                    let c = once_engine::case_of_input(&input).expect("decodable once input");
                    writeln!(out, "once {} {}", id, once_engine::run(&c).to_string()).unwrap();
                }
                if engine == "stream" {
                    let v = val::Val::parse(rest).expect("case value");
                    let input = match &v {
                        val::Val::L(l) if l.len() == 2 => l[0].clone(),
                        _ => v.clone(),
                    };
                    let c = stream_engine::case_of_input(&input).expect("decodable stream input");
                    let o = stream_engine::run(&c);
                    let v = val::Val::L(vec![o.input, o.obs]);
                    writeln!(out, "stream {} {}", id, v.to_string()).unwrap();
                }
                if engine == "negot" {
                    let v = val::Val::parse(rest).expect("case value");
                    if let val::Val::L(l) = &v {
                        if let Some(val::Val::L(inp)) = l.get(0) {
                            let header = inp.get(0).and_then(|h| h.as_opt()).flatten().and_then(|h| h.as_b().cloned());
                            let c = negot::NegotCase { header, ast: None, more: vec![], class: "replay".into() };
                            // keep the original hint; further header lines are replayed from their bytes
                            let more: Vec<Vec<u8>> = inp.get(2).and_then(|m| m.as_list()).map(|ls| ls.iter().filter_map(|l| l.as_list().and_then(|x| x.first()).and_then(|b| b.as_b().cloned())).collect()).unwrap_or_default();
                            let obs = negot::run_should_gzip_lines(&c.header, &more);
                            let nv = val::Val::L(vec![val::Val::L(inp.clone()), val::Val::N(obs)]);
                            writeln!(out, "negot {} {}", id, nv.to_string()).unwrap();
                        }
                    }
                }
                if engine == "serve" {
                    let v = val::Val::parse(rest).expect("case value");
                    let input = match &v {
                        val::Val::L(l) if l.len() == 2 => l[0].clone(),
                        _ => v.clone(),
                    };
                    let c = serve_engine::case_of_input(&input).expect("decodable serve input");
                    let o = serve_engine::run(&c);
                    let v = val::Val::L(vec![o.input, o.obs]);
                    writeln!(out, "serve {} {}", id, v.to_string()).unwrap();
                }
            }
        }
        _ => {
            eprintln!("unknown command");
            std::process::exit(2);
        }
    }
}
