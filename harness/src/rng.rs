//! SplitMix64: every random choice of a run derives from one seed.
#[derive(Clone)]
pub struct Rng(pub u64);

impl Rng {
    pub fn new(seed: u64) -> Self {
        Rng(seed ^ 0x9e37_79b9_7f4a_7c15)
    }
    pub fn next(&mut self) -> u64 {
        self.0 = self.0.wrapping_add(0x9e37_79b9_7f4a_7c15);
        let mut z = self.0;
        z = (z ^ (z >> 30)).wrapping_mul(0xbf58_476d_1ce4_e5b9);
        z = (z ^ (z >> 27)).wrapping_mul(0x94d0_49bb_1331_11eb);
        z ^ (z >> 31)
    }
    /// uniform in 0..n (n > 0)
    pub fn below(&mut self, n: u64) -> u64 {
        self.next() % n
    }
    pub fn range(&mut self, lo: u64, hi_incl: u64) -> u64 {
        lo + self.below(hi_incl - lo + 1)
    }
    pub fn chance(&mut self, num: u64, den: u64) -> bool {
        self.below(den) < num
    }
    pub fn pick<'a, T>(&mut self, v: &'a [T]) -> &'a T {
        &v[self.below(v.len() as u64) as usize]
    }
    pub fn fork(&mut self) -> Rng {
        Rng(self.next())
    }
}
