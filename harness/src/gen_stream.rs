//! Generators for the stream engine (streaming_body).
use crate::rng::Rng;
use crate::stream_engine::{Op, StreamCase};

/// payload bytes carry their position in the written stream, so loss, duplication and
/// reordering are visible
struct Payload(u64);
impl Payload {
    fn take(&mut self, n: u64) -> Vec<u8> {
        let v = (0..n).map(|i| (((self.0 + i) % 251) + 1) as u8).collect();
        self.0 += n;
        v
    }
}

fn base(cap: usize, ops: Vec<Op>, class: String) -> StreamCase {
    StreamCase { cap, gz_level: 6, pre_calls: vec![], method: "GET".into(), accept_encoding: None, use_parts: false, ops, class }
}

fn write_sizes(cap: u64) -> Vec<u64> {
    let mut v = vec![0, 1, cap.saturating_sub(1), cap, cap + 1, 2 * cap, 3 * cap];
    v.sort();
    v.dedup();
    v
}

#[derive(Clone, Copy, Debug)]
enum Sym {
    W(u64),
    F,
    D,
    X,
    R,
}

fn materialise(syms: &[Sym], finish: bool) -> Vec<Op> {
    let mut p = Payload(0);
    let mut ops = vec![];
    for s in syms {
        ops.push(match s {
            Sym::W(n) => Op::Write(p.take(*n)),
            Sym::F => Op::Flush,
            Sym::D => Op::Drain(1),
            Sym::X => Op::Abort,
            Sym::R => Op::DropReader,
        });
    }
    if finish {
        ops.push(Op::DropWriter);
        ops.push(Op::Drain(1));
        ops.push(Op::Poll(1));
        ops.push(Op::Poll(2));
    }
    ops
}

/// C08: exhaustive short sequences over {write(k), flush, poll-until-pending} for caps 1..4, then drop.
pub fn gen_c08(rng: &mut Rng, thorough: bool, emit: &mut dyn FnMut(StreamCase)) {
    let maxlen = if thorough { 5 } else { 4 };
    for cap in 1..=4u64 {
        let mut alphabet: Vec<Sym> = write_sizes(cap).into_iter().map(Sym::W).collect();
        alphabet.push(Sym::F);
        alphabet.push(Sym::D);
        let mut stack: Vec<Vec<Sym>> = vec![vec![]];
        while let Some(cur) = stack.pop() {
            emit(base(cap as usize, materialise(&cur, true), format!("X:c08 cap={} {:?}", cap, cur)));
            if cur.len() < maxlen {
                for a in &alphabet {
                    let mut n = cur.clone();
                    n.push(*a);
                    stack.push(n);
                }
            }
        }
    }
    // chunk sizes beyond 64 KiB (the builder takes any size), fed with pieces that are not powers of two
    for (cap, piece, total) in [(100_000usize, 30_000usize, 250_000usize), (65_537, 65_537, 200_000), (300_000, 70_001, 700_000), (100_000, 100_010, 100_020), (131_072, 50_000, 300_000)] {
        for all in [true, false] {
            let mut p = Payload(7);
            let mut ops = vec![];
            let mut left = total;
            while left > 0 {
                let k = piece.min(left);
                let d = p.take(k as u64);
                ops.push(if all { Op::WriteAll(d) } else { Op::Write(d) });
                left -= k;
            }
            ops.push(Op::Flush);
            ops.push(Op::DropWriter);
            ops.push(Op::Drain(1));
            ops.push(Op::Poll(1));
            emit(base(cap, ops, format!("G:c08 large-chunk cap={} piece={} total={} write_all={}", cap, piece, total, all)));
        }
    }
    gen_random(rng, if thorough { 40000 } else { 3000 }, false, false, emit);
}

/// random sequences of <= 40 ops for the caps of the quantifier
pub fn gen_random(rng: &mut Rng, n: u64, with_faults: bool, gzip: bool, emit: &mut dyn FnMut(StreamCase)) {
    let caps: Vec<usize> = if gzip { vec![1, 2, 3, 5, 8, 10, 18, 19, 4096, 65536] } else { vec![1, 2, 3, 4, 7, 4096, 65536] };
    for _ in 0..n {
        let cap = *rng.pick(&caps);
        // big chunk sizes: short histories (the evaluator handles bytes as lists)
        let len = if cap >= 4096 { rng.range(0, if cap > 4096 { 5 } else { 12 }) } else { rng.range(0, 40) };
        let mut p = Payload(rng.below(200));
        let mut ops = vec![];
        let fault_at = if with_faults { Some(rng.below(len + 1)) } else { None };
        for i in 0..len {
            if Some(i) == fault_at {
                ops.push(if rng.chance(1, 2) { Op::Abort } else { Op::DropReader });
            }
            let c = cap as u64;
            let big = c >= 4096;
            ops.push(match rng.below(11) {
                10 => {
                    // write_vectored: two or three slices, now and then an empty one in front
                    let k = rng.range(2, 3);
                    let mut ds = vec![];
                    for j in 0..k {
                        let n = if j == 0 && rng.chance(1, 4) { 0 } else if big { *rng.pick(&[1u64, 100, c - 1, c + 1]) } else { rng.below(2 * c + 2) };
                        ds.push(p.take(n));
                    }
                    Op::WriteV(ds)
                }
                0 | 1 => Op::Flush,
                2 => Op::Drain(rng.range(1, 2)),
                3 => Op::Poll(rng.range(1, 3)),
                4 | 5 => {
                    let n = if big { *rng.pick(&[0u64, 1, 100, c - 1, c, c + 1, 2 * c + 5]) } else { rng.below(3 * c + 2) };
                    Op::WriteAll(p.take(n))
                }
                _ => {
                    let n = if big { *rng.pick(&[0u64, 1, 100, c - 1, c, c + 1, 3 * c]) } else { rng.below(3 * c + 2) };
                    Op::Write(p.take(n))
                }
            });
        }
        if Some(len) == fault_at {
            ops.push(if rng.chance(1, 2) { Op::Abort } else { Op::DropReader });
        }
        ops.push(Op::DropWriter);
        ops.push(Op::Drain(1));
        ops.push(Op::Poll(2));
        let mut c = base(cap, ops, format!("R:stream cap={} faults={} gzip={}", cap, with_faults, gzip));
        if gzip {
            c.accept_encoding = Some(b"gzip".to_vec());
            c.gz_level = rng.range(1, 9) as u32;
        }
        emit(c);
    }
}

/// C11: an abort or a body drop at every position of short sequences, raw and gzip.
pub fn gen_c11(rng: &mut Rng, thorough: bool, emit: &mut dyn FnMut(StreamCase)) {
    let maxlen = if thorough { 4 } else { 3 };
    for gzip in [false, true] {
        for cap in [1u64, 2, 4] {
            let alphabet: Vec<Sym> = vec![Sym::W(1), Sym::W(cap), Sym::W(cap + 1), Sym::W(3 * cap), Sym::F, Sym::D];
            let mut stack: Vec<Vec<Sym>> = vec![vec![]];
            while let Some(cur) = stack.pop() {
                for pos in 0..=cur.len() {
                    for fault in [Sym::X, Sym::R] {
                        let mut s = cur.clone();
                        s.insert(pos, fault);
                        // after the fault: more writes and flushes (they must fail), then polls
                        let mut ops = materialise(&s, false);
                        let mut p = Payload(100);
                        for _ in 0..3 {
                            ops.push(Op::Write(p.take(cap)));
                            ops.push(Op::Flush);
                        }
                        ops.push(Op::Drain(1));
                        ops.push(Op::DropWriter);
                        ops.push(Op::Drain(1));
                        ops.push(Op::Poll(1));
                        let mut c = base(cap as usize, ops, format!("X:c11 gzip={} cap={} {:?}", gzip, cap, s));
                        if gzip {
                            c.accept_encoding = Some(b"gzip".to_vec());
                        }
                        emit(c);
                    }
                }
                if cur.len() < maxlen {
                    for a in &alphabet {
                        let mut n = cur.clone();
                        n.push(*a);
                        stack.push(n);
                    }
                }
            }
        }
    }
    // the unbounded-buffering scenario of the property: body dropped, then 1000 x (write chunk, flush)
    for gzip in [false, true] {
        let mut ops = vec![Op::Write(vec![1, 2, 3]), Op::Flush, Op::DropReader];
        for _ in 0..1000 {
            ops.push(Op::WriteAll(vec![7; 64]));
            ops.push(Op::Flush);
        }
        ops.push(Op::DropWriter);
        let mut c = base(64, ops, format!("X:c11-disconnect-1000 gzip={}", gzip));
        if gzip {
            c.accept_encoding = Some(b"gzip".to_vec());
        }
        emit(c);
    }
    gen_random(rng, if thorough { 20000 } else { 2000 }, true, false, emit);
    gen_random(rng, if thorough { 10000 } else { 1000 }, true, true, emit);
}

pub fn payload_kind(rng: &mut Rng, kind: u64, n: usize) -> Vec<u8> {
    match kind {
        0 => vec![],
        1 => vec![b'x'],
        2 => (0..n).map(|_| rng.next() as u8).collect(),          // incompressible
        3 => vec![b'a'; n],                                        // highly compressible
        _ => (0..n).map(|i| b"the quick brown fox "[i % 20]).collect(),
    }
}

/// C09: gzip bodies: levels x caps x payload kinds x write/flush sequences.
pub fn gen_c09(rng: &mut Rng, thorough: bool, emit: &mut dyn FnMut(StreamCase)) {
    let caps: Vec<usize> = vec![1, 2, 3, 5, 8, 10, 18, 19, 4096, 65536];
    let big = if thorough { 200 * 1024 } else { 20 * 1024 };
    for level in 1..=9u32 {
        for cap in &caps {
            for kind in 0..5u64 {
                for shape in 0..4 {
                    if !thorough && (level % 3 != 0) && !rng.chance(1, 3) {
                        continue;
                    }
                    let n = match kind { 0 => 0, 1 => 1, _ => if *cap <= 19 { 600 } else { big } };
                    let data = payload_kind(rng, kind, n);
                    let mut ops = vec![];
                    match shape {
                        0 => ops.push(Op::WriteAll(data.clone())),
                        1 => {
                            // flush in the middle, drain after every flush
                            let mid = data.len() / 2;
                            ops.push(Op::WriteAll(data[..mid].to_vec()));
                            ops.push(Op::Flush);
                            ops.push(Op::Drain(1));
                            ops.push(Op::WriteAll(data[mid..].to_vec()));
                            ops.push(Op::Flush);
                            ops.push(Op::Drain(1));
                        }
                        2 => {
                            // many small writes and flushes
                            let mut i = 0;
                            while i < data.len() {
                                let k = (rng.range(1, 97) as usize).min(data.len() - i);
                                ops.push(Op::Write(data[i..i + k].to_vec()));
                                // Write may accept less: the harness records what was accepted
                                if rng.chance(1, 4) {
                                    ops.push(Op::Flush);
                                    if rng.chance(1, 2) {
                                        ops.push(Op::Drain(1));
                                    }
                                }
                                i += k;
                            }
                        }
                        _ => {
                            ops.push(Op::Flush);
                            ops.push(Op::Flush);
                            ops.push(Op::Drain(1));
                            ops.push(Op::WriteAll(data.clone()));
                        }
                    }
                    ops.push(Op::DropWriter);
                    ops.push(Op::Drain(1));
                    ops.push(Op::Poll(1));
                    let mut c = base(*cap, ops, format!("G:c09 level={} cap={} payload-kind={} n={} shape={}", level, cap, kind, n, shape));
                    c.accept_encoding = Some(b"gzip".to_vec());
                    c.gz_level = level;
                    emit(c);
                }
            }
        }
    }
    // write_vectored with a first slice so large and incompressible that the encoder accepts only part of
    // it, followed by a small one: Ok(n) must describe the first n bytes of the concatenation
    for level in [1u32, 6, 9] {
        for cap in [4096usize, 65536] {
            let noise = payload_kind(rng, 2, 200_000);
            let ops = vec![
                Op::WriteV(vec![noise.clone(), b"<<tail>>".to_vec()]),
                Op::Flush,
                Op::Drain(1),
                Op::WriteV(vec![vec![], b"second".to_vec(), noise[..70_000].to_vec()]),
                Op::DropWriter,
                Op::Drain(1),
                Op::Poll(1),
            ];
            let mut c = base(cap, ops, format!("G:c09 vectored level={} cap={}", level, cap));
            c.accept_encoding = Some(b"gzip".to_vec());
            c.gz_level = level;
            emit(c);
            // a plain write so large and incompressible that it is accepted only in part, then flush at once
            // (F10: flate2 loses the sync-flush request while output is still pending in the encoder)
            let ops = vec![Op::Write(noise.clone()), Op::Flush, Op::Drain(1), Op::Write(noise[100_000..].to_vec()), Op::Flush, Op::Flush, Op::Drain(1), Op::DropWriter, Op::Drain(1), Op::Poll(1)];
            // the same with the four bytes a deflate sync flush ends in -- 00 00 ff ff -- as PAYLOAD where the
            // output drained by the first flush ends (a writer that looks at its own output to decide
            // whether a flush already synced must not be fooled)
            {
                let mut crafted = noise.clone();
                for off in [31_740usize, 63_486, 63_743] {
                    crafted[off..off + 4].copy_from_slice(&[0, 0, 0xff, 0xff]);
                }
                let ops = vec![Op::Write(crafted), Op::Flush, Op::Drain(1), Op::DropWriter, Op::Drain(1), Op::Poll(1)];
                let mut c = base(cap, ops, format!("G:c09 partial-write-then-flush sync-marker-in-payload level={} cap={}", level, cap));
                c.accept_encoding = Some(b"gzip".to_vec());
                c.gz_level = level;
                emit(c);
            }
            let mut c = base(cap, ops, format!("G:c09 partial-write-then-flush level={} cap={}", level, cap));
            c.accept_encoding = Some(b"gzip".to_vec());
            c.gz_level = level;
            emit(c);
        }
    }
    // one large incompressible write (or write_all) whose length lies around the point where the encoder's
    // second stored block no longer fits its output buffer, then flush at once
    for n in [63_400usize, 63_491, 63_550, 63_600, 63_747, 63_800, 127_000, 127_100] {
        for all in [false, true] {
            let noise = payload_kind(rng, 2, n);
            let ops = vec![if all { Op::WriteAll(noise) } else { Op::Write(noise) }, Op::Flush, Op::Drain(1), Op::DropWriter, Op::Drain(1), Op::Poll(1)];
            let mut c = base(4096, ops, format!("G:c09 one-large-write-then-flush n={} write_all={}", n, all));
            c.accept_encoding = Some(b"gzip".to_vec());
            c.gz_level = 6;
            emit(c);
        }
    }
    gen_random(rng, if thorough { 10000 } else { 800 }, false, true, emit);
}

/// C17: Accept-Encoding x level x cap x method x request representation.
pub fn gen_c17(rng: &mut Rng, thorough: bool, emit: &mut dyn FnMut(StreamCase)) {
    let aes: Vec<Option<&str>> = vec![
        None, Some(""), Some("gzip"), Some("identity"), Some("*"), Some("br"), Some("gzip;q=0"), Some("gzip;q=0.001"),
        Some("*;q=0"), Some("gzip;q=0, *"), Some("identity;q=0.5, gzip;q=1.0"), Some("identity;q=1.0, gzip;q=0.5"),
        Some("gzip;q=0.5, identity;q=0.5"), Some("deflate, gzip"), Some("x-gzip"), Some("GZIP"), Some("gzip;q=1.001"),
        Some("identity;q=0"), Some("identity;q=0, *;q=0"), Some("gzip ; q=0.3 , identity ; q=0.2"), Some("gzip;q=0.+5"),
    ];
    let payload: Vec<u8> = (0..300u32).map(|i| (i % 7) as u8 + b'a').collect();
    for ae in &aes {
        // 0..9 and 10: "above 0" has no upper end in the property; 10 is the highest level flate2's
        // backend takes without tripping its own debug assertion
        for level in 0..=10u32 {
            for cap in [1usize, 7, 4096] {
                for method in ["GET", "HEAD", "POST"] {
                    for parts in [false, true] {
                        if !thorough && !rng.chance(1, 3) {
                            continue;
                        }
                        let ops = vec![Op::WriteAll(payload.clone()), Op::Flush, Op::Drain(1), Op::WriteAll(payload[..10].to_vec()), Op::DropWriter, Op::Drain(1), Op::Poll(1)];
                        let mut c = base(cap, ops, format!("G:c17 ae={:?} level={} cap={} {} parts={}", ae, level, cap, method, parts));
                        c.accept_encoding = ae.map(|s| s.as_bytes().to_vec());
                        c.gz_level = level;
                        c.method = method.into();
                        c.use_parts = parts;
                        emit(c);
                    }
                }
            }
        }
    }
    // a writer that is dropped without any write (with and without a flush, and after an empty write_all):
    // the body must still be coded as the header says
    for ae in [Some("gzip"), Some("identity"), None, Some("*")] {
        for level in [0u32, 1, 6, 9] {
            for cap in [1usize, 7, 4096] {
                for (sname, ops) in [
                    ("drop-only", vec![Op::DropWriter, Op::Drain(1), Op::Poll(1)]),
                    ("flush-drop", vec![Op::Flush, Op::Drain(1), Op::DropWriter, Op::Drain(1), Op::Poll(1)]),
                    ("empty-write-all-drop", vec![Op::WriteAll(vec![]), Op::DropWriter, Op::Drain(1), Op::Poll(1)]),
                ] {
                    for parts in [false, true] {
                        let mut c = base(cap, ops.clone(), format!("G:c17-nowrite ae={:?} level={} cap={} shape={} parts={}", ae, level, cap, sname, parts));
                        c.accept_encoding = ae.map(|s| s.as_bytes().to_vec());
                        c.gz_level = level;
                        c.use_parts = parts;
                        emit(c);
                    }
                }
            }
        }
    }
    // builder call sequences: an option set more than once (layered configuration), in either order;
    // the calls made last decide
    let pres: Vec<Vec<(u64, u64)>> = vec![
        vec![(1, 0)], vec![(1, 9)], vec![(1, 0), (1, 5)], vec![(0, 1)], vec![(0, 65536), (1, 0)], vec![(1, 0), (0, 3)], vec![(1, 3), (1, 0), (0, 9)],
    ];
    for ae in [None, Some("gzip"), Some("identity"), Some("gzip;q=0.5, identity;q=0.5"), Some("*;q=0")] {
        for pre in &pres {
            for level in [0u32, 1, 6] {
                for method in ["GET", "HEAD"] {
                    for parts in [false, true] {
                        let ops = vec![Op::WriteAll(payload.clone()), Op::Flush, Op::Drain(1), Op::DropWriter, Op::Drain(1), Op::Poll(1)];
                        let mut c = base(7, ops, format!("G:c17-calls ae={:?} pre={:?} level={} {} parts={}", ae, pre, level, method, parts));
                        c.accept_encoding = ae.map(|s| s.as_bytes().to_vec());
                        c.gz_level = level;
                        c.pre_calls = pre.clone();
                        c.method = method.into();
                        c.use_parts = parts;
                        emit(c);
                    }
                }
            }
        }
    }
}

/// C15: streaming_body for HEAD mirrors GET: the same requests built with GET and with HEAD
/// (Accept-Encoding x level x builder call sequences x request representation).
pub fn gen_c15_twins(emit: &mut dyn FnMut(StreamCase, StreamCase)) {
    let payload: Vec<u8> = (0..40u32).map(|i| (i % 7) as u8 + b'a').collect();
    let pres: Vec<Vec<(u64, u64)>> = vec![vec![], vec![(1, 0)], vec![(1, 0), (1, 5)], vec![(0, 3), (1, 9)]];
    for ae in [None, Some(""), Some("gzip"), Some("identity"), Some("*"), Some("br"), Some("gzip;q=0"), Some("identity;q=0.5, gzip;q=1.0"), Some("gzip;q=0.5, identity;q=0.5"), Some("*;q=0")] {
        for level in [0u32, 1, 6, 9] {
            for pre in &pres {
                for parts in [false, true] {
                    let mk = |method: &str| {
                        let ops = vec![Op::WriteAll(payload.clone()), Op::DropWriter, Op::Drain(1), Op::Poll(1)];
                        let mut c = base(7, ops, format!("T:c15-streaming ae={:?} level={} pre={:?} parts={} {}", ae, level, pre, parts, method));
                        c.accept_encoding = ae.map(|s| s.as_bytes().to_vec());
                        c.gz_level = level;
                        c.pre_calls = pre.clone();
                        c.method = method.into();
                        c.use_parts = parts;
                        c
                    };
                    emit(mk("GET"), mk("HEAD"));
                }
            }
        }
    }
}
