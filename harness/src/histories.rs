//! Multi-request generators: echo histories (C14) and GET/HEAD twins (C15).
use crate::gen_serve::*;
use crate::rng::Rng;
use crate::serve_engine::{run, ServeCase};
use crate::val::Val;
use std::io::Write;

fn write_case(cases: &mut dyn Write, meta: &mut dyn Write, prop: &str, n: &mut u64, c: &ServeCase, extra_checks: &[String]) -> Option<crate::serve_engine::Outcome> {
    *n += 1;
    let (idx, exec, write) = crate::watch::gate_history(&c.class);
    if !exec {
        return None;
    }
    let o = run(c);
    if write {
        let id = format!("{}-{}", prop, idx);
        let v = Val::L(vec![o.input.clone(), o.obs.clone()]);
        writeln!(cases, "serve {} {}", id, v.to_string()).unwrap();
        let mut checks = o.checks.clone();
        checks.extend_from_slice(extra_checks);
        writeln!(meta, "{}\t{}\t{}", id, c.class.replace('\t', " ").replace('\n', " "), checks.join(",")).unwrap();
    }
    Some(o)
}

fn raw_header<'a>(raw: &'a [(String, Vec<u8>)], name: &str) -> Option<&'a Vec<u8>> {
    raw.iter().find(|(k, _)| k == name).map(|(_, v)| v)
}

/// C14: GET, then every request echoing a subset of the validators the first response served.
pub fn gen_c14(rng: &mut Rng, thorough: bool, cases: &mut dyn Write, meta: &mut dyn Write, prop: &str) {
    let mut n = 0u64;
    let now = now_secs();
    let ns = |s: u64, sub: u128| Some(s as u128 * 1_000_000_000 + sub);
    let mtimes: Vec<(String, Option<u128>)> = vec![
        ("absent".into(), None),
        ("epoch".into(), Some(0)),
        ("whole-second".into(), ns(T0, 0)),
        ("plus-1ms".into(), ns(T0, 1_000_000)),
        ("plus-1ns".into(), ns(T0, 1)),
        ("1ns-before-next-second".into(), ns(T0, 999_999_999)),
        ("recent".into(), ns(now - 3, 250_000_000)),
        ("future".into(), ns(now + 86400, 5)),
        // no HTTP-date exists for these (a garbage file timestamp): Last-Modified is the clock
        ("future-year-10000".into(), ns(FAR_FUTURE_SECS[0], 0)),
        ("future-far-beyond".into(), ns(FAR_FUTURE_SECS[1], 7)),
    ];
    for etag in etag_variants() {
        for (mname, mtime) in &mtimes {
            for hs in ehdr_sets() {
                for first_req in 0..3 {
                    // first request: plain GET, a single range, or several ranges
                    let h1: Vec<(String, Vec<u8>)> = match first_req {
                        0 => vec![],
                        1 => vec![("range".into(), b"bytes=10-19".to_vec())],
                        _ => vec![("range".into(), b"bytes=0-1, 100-104".to_vec())],
                    };
                    let l = 1000;
                    let c1 = {
                        let mut e1 = ent_with(l, &etag, None, hs.clone());
                        e1.mtime_ns = *mtime;
                        let mut c = case(e1, "GET", h1, format!("H:first mtime={} etag={:?} ehdrs={} req={}", mname, etag.as_ref().map(|t| String::from_utf8_lossy(&t.render()).to_string()), hs.len(), first_req));
                        add_hint(&mut c, 4, Val::opt(etag.as_ref().map(|t| t.val())));
                        c
                    };
                    let o1 = match write_case(cases, meta, prop, &mut n, &c1, &[]) {
                        Some(o) => o,
                        None => continue,
                    };
                    if first_req != 0 && !thorough {
                        continue;
                    }
                    let raw = match &o1.raw {
                        Some((_, h)) => h.clone(),
                        None => continue,
                    };
                    let served_etag = raw_header(&raw, "etag").cloned();
                    let served_lm = raw_header(&raw, "last-modified").cloned();
                    // validators available for echoing
                    let mut avail: Vec<(&str, String, Vec<u8>)> = vec![];
                    if let Some(e) = &served_etag {
                        avail.push(("inm", "if-none-match".into(), e.clone()));
                        if e.starts_with(b"\"") {
                            avail.push(("im", "if-match".into(), e.clone()));
                            avail.push(("ifr", "if-range".into(), e.clone()));
                        }
                    }
                    if let Some(d) = &served_lm {
                        avail.push(("ims", "if-modified-since".into(), d.clone()));
                        avail.push(("ius", "if-unmodified-since".into(), d.clone()));
                    }
                    let k = avail.len();
                    for mask in 1u32..(1 << k) {
                        let subset: Vec<&(&str, String, Vec<u8>)> = (0..k).filter(|i| mask & (1 << i) != 0).map(|i| &avail[i]).collect();
                        let names: Vec<&str> = subset.iter().map(|s| s.0).collect();
                        let mut h2: Vec<(String, Vec<u8>)> = subset.iter().map(|s| (s.1.clone(), s.2.clone())).collect();
                        // If-Range echo: with a single range, with an efficient and with an inefficient range set
                        let range_variant = (mask as usize + n as usize) % 3;
                        if names.contains(&"ifr") {
                            h2.push(("range".into(), match range_variant {
                                0 => b"bytes=5-9".to_vec(),
                                1 => b"bytes=0-1, 100-104".to_vec(),
                                _ => b"bytes=0-400, 500-999".to_vec(),      // estimate >= L: complete 200
                            }));
                        }
                        let expect = if names.contains(&"inm") {
                            0
                        } else if names.contains(&"ims") {
                            0
                        } else if names.contains(&"ifr") {
                            if range_variant == 2 { 1 } else { 2 }
                        } else {
                            1
                        };
                        let m = if rng.chance(1, 6) { "HEAD" } else { "GET" };
                        let mut e2 = ent_with(l, &etag, None, hs.clone());
                        e2.mtime_ns = *mtime;
                        let mut c2 = case(
                            e2,
                            m,
                            h2,
                            format!("H:echo mtime={} etag={:?} echo={} expect={}", mname, etag.as_ref().map(|t| String::from_utf8_lossy(&t.render()).to_string()), names.join("+"), expect),
                        );
                        add_hint(&mut c2, 4, Val::opt(etag.as_ref().map(|t| t.val())));
                        add_hint(&mut c2, 5, Val::N(expect));
                        write_case(cases, meta, prop, &mut n, &c2, &[]);
                    }
                }
            }
        }
    }
}

/// C14: histories that straddle a wall-clock second boundary on one thread (hint 9, see serve_engine):
/// the second response must carry its own clock and a Last-Modified that does not exceed it.
pub fn gen_c14_boundary(thorough: bool, cases: &mut dyn Write, meta: &mut dyn Write, prop: &str, n0: u64) {
    let mut n = n0;
    let now = now_secs();
    let rounds = if thorough { 3 } else { 1 };
    for r in 0..rounds {
        for (mname, mtime) in [("future", (now + 86400) * 1_000_000_000 + 5), ("next-second", (now + 2 + r) * 1_000_000_000)] {
            let etag = etag_variants()[1].clone();
            let mut c = case(ent_with(1000, &etag, Some(mtime), ehdr_sets()[1].clone()), "GET", vec![], format!("H:second-boundary mtime={} round={}", mname, r));
            add_hint(&mut c, 4, Val::opt(etag.as_ref().map(|t| t.val())));
            add_hint(&mut c, 9, Val::N(1));
            write_case(cases, meta, prop, &mut n, &c, &[]);
        }
    }
}

/// C15: every request of a broad mix, replayed with HEAD and diffed against its GET twin.
pub fn gen_c15(rng: &mut Rng, thorough: bool, cases: &mut dyn Write, meta: &mut dyn Write, prop: &str) {
    let mut n = 0u64;
    let mut pool: Vec<ServeCase> = vec![];
    {
        let mut collect = |c: ServeCase| pool.push(c);
        let k = if thorough { 30000 } else { 2500 };
        gen_mixed(&mut rng.fork(), k, "c15", &mut collect);
        gen_c06(&mut rng.fork(), false, &mut collect);
        gen_c05(&mut rng.fork(), false, &mut collect);
        gen_c04(&mut rng.fork(), false, &mut collect);
    }
    let now = now_secs();
    for c in pool {
        if c.method != b"GET" && c.method != b"HEAD" {
            continue;
        }
        let mut g = c.clone();
        g.method = b"GET".to_vec();
        let mut h = c.clone();
        h.method = b"HEAD".to_vec();
        h.class = format!("HEAD-twin {}", c.class);
        let og = match write_case(cases, meta, prop, &mut n, &g, &[]) {
            Some(o) => o,
            None => continue,
        };
        // run HEAD first to learn the outcome, then write it with the twin comparison attached
        let (hidx, hexec, hwrite) = crate::watch::gate_history(&h.class);
        if !hexec {
            continue;
        }
        let oh = run(&h);
        let mut checks = vec![];
        if let (Some((sg, hg)), Some((sh, hh))) = (&og.raw, &oh.raw) {
            if sg != sh {
                checks.push(format!("C15:head-status-differs({}vs{})", sg, sh));
            }
            let future = c.ent.mtime_ns.map(|m| m / 1_000_000_000 + 5 > now as u128).unwrap_or(false);
            let norm = |hs: &Vec<(String, Vec<u8>)>| {
                let mut v: Vec<(String, Vec<u8>)> = hs.iter().filter(|(k, _)| k != "date" && !(future && k == "last-modified")).cloned().collect();
                v.sort();
                v
            };
            if norm(hg) != norm(hh) {
                checks.push("C15:head-headers-differ".to_string());
            }
            if oh.ncalls != 0 {
                checks.push("C15:head-read-entity-data".to_string());
            }
            if [200u16, 206, 304, 416].contains(sh) && oh.body_bytes != 0 {
                checks.push("C15:head-body-not-empty".to_string());
            }
        } else {
            checks.push("C15:panic".to_string());
        }
        n += 1;
        if !hwrite {
            continue;
        }
        let id = format!("{}-{}", prop, hidx);
        let v = Val::L(vec![oh.input.clone(), oh.obs.clone()]);
        writeln!(cases, "serve {} {}", id, v.to_string()).unwrap();
        let mut all = oh.checks.clone();
        all.extend(checks);
        writeln!(meta, "{}\t{}\t{}", id, h.class.replace('\t', " ").replace('\n', " "), all.join(",")).unwrap();
    }
}
