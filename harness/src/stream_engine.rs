//! Drives `streaming_body`: a BodyWriter and its Body under a scripted sequence of operations.
use crate::val::Val;
use bytes::Bytes;
use http_body::Body as _;
use std::io::Write;
use std::panic::{catch_unwind, AssertUnwindSafe};
use std::pin::Pin;
use std::sync::{Arc, Mutex};
use std::task::{Context, Poll, Wake, Waker};

pub type BoxError = Box<dyn std::error::Error + Send + Sync>;

#[derive(Clone, Debug)]
pub enum Op {
    Write(Vec<u8>),
    WriteAll(Vec<u8>),
    /// std::io::Write::write_vectored with these slices (the std default: one write of the first non-empty slice)
    WriteV(Vec<Vec<u8>>),
    Flush,
    Abort,
    DropWriter,
    Poll(u64),
    DropReader,
    /// poll with this waker until Pending or a terminal event (expanded into Polls when recorded)
    Drain(u64),
}

#[derive(Clone, Debug)]
pub struct StreamCase {
    pub cap: usize,
    pub gz_level: u32,
    /// earlier builder calls, made before with_chunk_size(cap).with_gzip_level(gz_level): (0, n) = with_chunk_size(n), (1, l) = with_gzip_level(l)
    pub pre_calls: Vec<(u64, u64)>,
    pub method: String,
    pub accept_encoding: Option<Vec<u8>>,
    pub use_parts: bool,
    pub ops: Vec<Op>,
    pub class: String,
}

struct IdWaker {
    id: u64,
    log: Arc<Mutex<Vec<u64>>>,
}
impl Wake for IdWaker {
    fn wake(self: Arc<Self>) {
        self.log.lock().unwrap().push(self.id);
    }
}

fn hint_val(h: &http_body::SizeHint) -> Val {
    Val::L(vec![Val::N(h.lower()), Val::opt(h.upper().map(Val::N))])
}

pub struct StreamOutcome {
    pub input: Val,
    pub obs: Val,
}

#[derive(Debug)]
struct AbortError;
impl std::fmt::Display for AbortError {
    fn fmt(&self, f: &mut std::fmt::Formatter<'_>) -> std::fmt::Result {
        write!(f, "aborted by the harness")
    }
}
impl std::error::Error for AbortError {}

pub fn run(case: &StreamCase) -> StreamOutcome {
    let mut rb = http::Request::builder().method(case.method.as_str());
    if let Some(ae) = &case.accept_encoding {
        rb = rb.header("accept-encoding", http::HeaderValue::from_bytes(ae).unwrap());
    }
    let req = rb.body(()).unwrap();
    let built = catch_unwind(AssertUnwindSafe(|| {
        let pre = |mut b: http_serve::StreamingBodyBuilder| {
            for (k, x) in &case.pre_calls {
                b = if *k == 0 { b.with_chunk_size(*x as usize) } else { b.with_gzip_level(*x as u32) };
            }
            b
        };
        if case.use_parts {
            let (parts, _) = req.into_parts();
            pre(http_serve::streaming_body(&parts)).with_chunk_size(case.cap).with_gzip_level(case.gz_level).build::<Bytes, BoxError>()
        } else {
            pre(http_serve::streaming_body(&req)).with_chunk_size(case.cap).with_gzip_level(case.gz_level).build::<Bytes, BoxError>()
        }
    }));
    let (resp, writer) = match built {
        Ok(x) => x,
        Err(_) => {
            return StreamOutcome { input: input_val(case, &[], vec![]), obs: Val::L(vec![Val::bytes(b"PANIC")]) };
        }
    };
    let (parts, body) = resp.into_parts();
    let mut hdrs: Vec<(Vec<u8>, Vec<u8>)> = parts.headers.iter().map(|(k, v)| (k.as_str().as_bytes().to_vec(), v.as_bytes().to_vec())).collect();
    hdrs.sort();
    let has_writer = writer.is_some();
    let mut writer = writer;
    let mut body = Some(Box::pin(body));
    let log = Arc::new(Mutex::new(Vec::<u64>::new()));
    let mut wakers: std::collections::HashMap<u64, Waker> = Default::default();
    let mut executed: Vec<Op> = vec![];
    let mut results: Vec<Val> = vec![];

    let sample = |body: &Option<Pin<Box<http_serve::Body<Bytes, BoxError>>>>| -> (Val, Val) {
        match body {
            Some(b) => (hint_val(&b.size_hint()), Val::boolean(b.is_end_stream())),
            None => (Val::L(vec![]), Val::L(vec![])),
        }
    };
    let (h0, e0) = sample(&body);

    // A shadow gzip encoder (the same flate2 construction over a Vec): what GzEncoder hands to its sink, call
    // by call, for the same calls. The extracted model of BodyWriter(Gzipped) (Model/GzWriter.v, which is
    // stated over an abstract encoder) is run with exactly these emissions and must then reproduce every
    // result and every frame of the real body.
    let is_gzip = hdrs.iter().any(|(k, v)| k == b"content-encoding" && v == b"gzip");
    let mut shadow: Option<(flate2::write::GzEncoder<Vec<u8>>, usize)> =
        if is_gzip && has_writer { Some((flate2::write::GzEncoder::new(Vec::new(), flate2::Compression::new(case.gz_level)), 0)) } else { None };
    let mut script: Vec<Val> = vec![];
    fn emitted(sh: &mut (flate2::write::GzEncoder<Vec<u8>>, usize)) -> Vec<u8> {
        let v = sh.0.get_ref();
        let out = v[sh.1..].to_vec();
        sh.1 = v.len();
        out
    }

    let mut queue: std::collections::VecDeque<Op> = case.ops.iter().cloned().collect();
    let mut guard = 0;
    while let Some(op) = queue.pop_front() {
        guard += 1;
        if guard > 100_000 {
            break;
        }
        log.lock().unwrap().clear();
        let mut requeue_drain: Option<u64> = None;
        let op_exec = match &op {
            Op::Drain(w) => Op::Poll(*w),
            o => o.clone(),
        };
        let r = catch_unwind(AssertUnwindSafe(|| -> Val {
            match &op_exec {
                Op::Write(d) => match writer.as_mut() {
                    Some(w) => match w.write(d) {
                        Ok(n) => Val::L(vec![Val::N(0), Val::N(n as u64)]),
                        Err(_) => Val::L(vec![Val::N(1)]),
                    },
                    None => Val::L(vec![Val::N(1)]),
                },
                Op::WriteV(ds) => match writer.as_mut() {
                    Some(w) => {
                        let slices: Vec<std::io::IoSlice<'_>> = ds.iter().map(|d| std::io::IoSlice::new(d)).collect();
                        match w.write_vectored(&slices) {
                            Ok(n) => Val::L(vec![Val::N(0), Val::N(n as u64)]),
                            Err(_) => Val::L(vec![Val::N(1)]),
                        }
                    }
                    None => Val::L(vec![Val::N(1)]),
                },
                Op::WriteAll(d) => match writer.as_mut() {
                    Some(w) => match w.write_all(d) {
                        Ok(()) => Val::L(vec![Val::N(2)]),
                        Err(_) => Val::L(vec![Val::N(3)]),
                    },
                    None => Val::L(vec![Val::N(3)]),
                },
                Op::Flush => match writer.as_mut() {
                    Some(w) => match w.flush() {
                        Ok(()) => Val::L(vec![Val::N(2)]),
                        Err(_) => Val::L(vec![Val::N(3)]),
                    },
                    None => Val::L(vec![Val::N(3)]),
                },
                Op::Abort => {
                    if let Some(w) = writer.as_mut() {
                        w.abort(Box::new(AbortError));
                    }
                    Val::N(0)
                }
                Op::DropWriter => {
                    writer = None;
                    Val::N(0)
                }
                Op::DropReader => {
                    if body.is_some() {
                        body = None;
                        Val::N(0)
                    } else {
                        Val::L(vec![Val::N(7)])
                    }
                }
                Op::Poll(wid) => match body.as_mut() {
                    None => Val::L(vec![Val::N(7)]),
                    Some(b) => {
                        let waker = wakers.entry(*wid).or_insert_with(|| Waker::from(Arc::new(IdWaker { id: *wid, log: log.clone() }))).clone();
                        let mut cx = Context::from_waker(&waker);
                        match b.as_mut().poll_frame(&mut cx) {
                            Poll::Pending => Val::L(vec![Val::N(4)]),
                            Poll::Ready(None) => Val::L(vec![Val::N(5)]),
                            Poll::Ready(Some(Err(_))) => Val::L(vec![Val::N(6)]),
                            Poll::Ready(Some(Ok(f))) => match f.into_data() {
                                Ok(d) => Val::B(d.to_vec()),
                                Err(_) => Val::L(vec![Val::N(8)]),
                            },
                        }
                    }
                },
                Op::Drain(_) => unreachable!(),
            }
        }));
        let rv = match r {
            Ok(v) => v,
            Err(_) => Val::L(vec![Val::N(9)]),
        };
        if let Op::Drain(w) = &op {
            // keep draining while data keeps coming
            if matches!(rv, Val::B(_)) {
                requeue_drain = Some(*w);
            }
        }
        if is_gzip && has_writer {
            let failed = |rv: &Val| matches!(rv, Val::L(l) if l.len() == 1 && (l[0] == Val::N(1) || l[0] == Val::N(3)));
            let one_write = |shadow: &mut Option<(flate2::write::GzEncoder<Vec<u8>>, usize)>, d: &[u8]| -> Val {
                match shadow.as_mut() {
                    Some(sh) => {
                        let n = sh.0.write(d).unwrap_or(0);
                        Val::L(vec![Val::N(0), Val::N(n as u64), Val::B(emitted(sh))])
                    }
                    None => Val::L(vec![Val::N(0), Val::N(0), Val::B(vec![])]),
                }
            };
            let entry = match &op_exec {
                Op::Write(d) => one_write(&mut shadow, d),
                Op::WriteV(ds) => {
                    let first = ds.iter().find(|d| !d.is_empty()).cloned().unwrap_or_default();
                    one_write(&mut shadow, &first)
                }
                Op::WriteAll(d) => {
                    let mut calls = vec![];
                    if let Some(sh) = shadow.as_mut() {
                        let mut rest: &[u8] = d;
                        while !rest.is_empty() {
                            let n = sh.0.write(rest).unwrap_or(0);
                            calls.push(Val::L(vec![Val::N(n as u64), Val::B(emitted(sh))]));
                            if n == 0 {
                                break;
                            }
                            rest = &rest[n..];
                        }
                    }
                    Val::L(vec![Val::N(1), Val::L(calls), Val::N(d.len() as u64)])
                }
                Op::Flush => match shadow.as_mut() {
                    Some(sh) => {
                        let _ = sh.0.flush();
                        let e1 = emitted(sh);
                        let _ = sh.0.flush();
                        let e2 = emitted(sh);
                        Val::L(vec![Val::N(2), Val::B(e1), Val::B(e2)])
                    }
                    None => Val::L(vec![Val::N(2), Val::B(vec![]), Val::B(vec![])]),
                },
                Op::DropWriter => {
                    let e = match shadow.as_mut() {
                        Some(sh) => {
                            let _ = sh.0.try_finish();
                            emitted(sh)
                        }
                        None => vec![],
                    };
                    shadow = None;
                    Val::L(vec![Val::N(4), Val::B(e)])
                }
                Op::Abort => {
                    shadow = None;
                    Val::L(vec![Val::N(3)])
                }
                Op::Poll(w) => Val::L(vec![Val::N(5), Val::N(*w)]),
                Op::DropReader => Val::L(vec![Val::N(6)]),
                Op::Drain(_) => unreachable!(),
            };
            // a failed write or flush kills the BodyWriter: its encoder is gone
            if matches!(op_exec, Op::Write(_) | Op::WriteV(_) | Op::WriteAll(_) | Op::Flush) && failed(&rv) {
                shadow = None;
            }
            script.push(entry);
        }
        let woken: Vec<Val> = log.lock().unwrap().iter().map(|w| Val::N(*w)).collect();
        let (h, e) = sample(&body);
        results.push(Val::L(vec![rv.clone(), Val::L(woken), h, e]));
        executed.push(op_exec);
        if let Some(w) = requeue_drain {
            queue.push_front(Op::Drain(w));
        }
        if matches!(rv, Val::L(ref l) if l.len() == 1 && l[0] == Val::N(9)) {
            break;
        }
    }
    let obs = Val::L(vec![
        Val::L(hdrs.into_iter().map(|(k, v)| Val::L(vec![Val::B(k), Val::B(v)])).collect()),
        Val::boolean(has_writer),
        h0,
        e0,
        Val::L(results),
    ]);
    StreamOutcome { input: input_val(case, &executed, script), obs }
}

fn op_val(o: &Op) -> Val {
    match o {
        Op::Write(d) => Val::L(vec![Val::N(0), Val::bytes(d)]),
        Op::WriteAll(d) => Val::L(vec![Val::N(1), Val::bytes(d)]),
        Op::Flush => Val::L(vec![Val::N(2)]),
        Op::Abort => Val::L(vec![Val::N(3)]),
        Op::DropWriter => Val::L(vec![Val::N(4)]),
        Op::Poll(w) => Val::L(vec![Val::N(5), Val::N(*w)]),
        Op::DropReader => Val::L(vec![Val::N(6)]),
        Op::Drain(w) => Val::L(vec![Val::N(7), Val::N(*w)]),
        Op::WriteV(ds) => Val::L(vec![Val::N(8), Val::L(ds.iter().map(|d| Val::bytes(d)).collect())]),
    }
}

fn input_val(case: &StreamCase, executed: &[Op], script: Vec<Val>) -> Val {
    Val::L(vec![
        Val::N(case.cap as u64),
        Val::N(case.gz_level as u64),
        Val::bytes(case.method.as_bytes()),
        Val::opt(case.accept_encoding.as_ref().map(|a| Val::bytes(a))),
        Val::boolean(case.use_parts),
        Val::L(executed.iter().map(op_val).collect()),
        // what the crate's own should_gzip says about this Accept-Encoding (C17 is stated relative to it;
        // the function itself is C16's subject): 0 false, 1 true, 2 panic
        Val::N(crate::negot::run_should_gzip(&case.accept_encoding)),
        Val::L(case.pre_calls.iter().map(|(k, x)| Val::L(vec![Val::N(*k), Val::N(*x)])).collect()),
        // gzip bodies: what the encoder handed to its sink, call by call (see `shadow` above)
        Val::L(script),
    ])
}

pub fn case_of_input(v: &Val) -> Option<StreamCase> {
    let l = v.as_list()?;
    let mut ops = vec![];
    for o in l[5].as_list()? {
        let o = o.as_list()?;
        ops.push(match o[0].as_n()? {
            0 => Op::Write(o[1].as_b()?.clone()),
            1 => Op::WriteAll(o[1].as_b()?.clone()),
            2 => Op::Flush,
            3 => Op::Abort,
            4 => Op::DropWriter,
            5 => Op::Poll(o[1].as_n()?),
            6 => Op::DropReader,
            7 => Op::Drain(o[1].as_n()?),
            8 => Op::WriteV(o[1].as_list()?.iter().map(|d| d.as_b().cloned()).collect::<Option<Vec<_>>>()?),
            _ => return None,
        });
    }
    Some(StreamCase {
        cap: l[0].as_n()? as usize,
        gz_level: l[1].as_n()? as u32,
        method: String::from_utf8(l[2].as_b()?.clone()).ok()?,
        accept_encoding: l[3].as_opt()?.map(|v| v.as_b().cloned()).flatten(),
        use_parts: l[4].as_n()? != 0,
        pre_calls: match l.get(7).and_then(|v| v.as_list()) {
            Some(cs) => cs.iter().filter_map(|c| { let c = c.as_list()?; Some((c[0].as_n()?, c[1].as_n()?)) }).collect(),
            None => vec![],
        },
        ops,
        class: "replay".into(),
    })
}

// ---------------------------------------------------------------------------------------------
// Polls made from inside Waker::wake (an executor that polls the woken task inline, or another
// thread that reacts before the producer's call has returned): the consumer's polls then fall
// BETWEEN the steps of one producer call (abort = publish the error + wake, then drop the chunk
// writer; drop = flush the tail + wake). Harness-level check of C20 / C12 / C11 on the merged,
// real-time-ordered sequence of poll results.
// ---------------------------------------------------------------------------------------------
type SBody = Pin<Box<http_serve::Body<Bytes, BoxError>>>;
#[derive(Clone, Debug, PartialEq)]
enum PollEv {
    Data(usize),
    Err,
    End,
    Pending,
}
struct InlineState {
    body: Mutex<Option<SBody>>,
    /// (result, is_end_stream() right after the poll, made from inside wake())
    events: Mutex<Vec<(PollEv, bool, bool)>>,
}
struct InlineWaker(Arc<InlineState>);
impl std::task::Wake for InlineWaker {
    fn wake(self: Arc<Self>) {
        poll_shared(&self.0, None, true);
    }
}
fn poll_shared(st: &Arc<InlineState>, waker: Option<Waker>, inline: bool) {
    // try_lock: a wake() that arrives while a poll is in progress is simply not followed by an inline poll
    let Ok(mut g) = st.body.try_lock() else { return };
    let Some(body) = g.as_mut() else { return };
    let w = waker.unwrap_or_else(crate::serve_engine::noop_waker);
    let mut cx = Context::from_waker(&w);
    let ev = match body.as_mut().poll_frame(&mut cx) {
        Poll::Pending => PollEv::Pending,
        Poll::Ready(None) => PollEv::End,
        Poll::Ready(Some(Err(_))) => PollEv::Err,
        Poll::Ready(Some(Ok(f))) => PollEv::Data(f.into_data().map(|d| d.len()).unwrap_or(0)),
    };
    let eos = body.is_end_stream();
    drop(g);
    st.events.lock().unwrap().push((ev, eos, inline));
}

pub fn inline_wake_checks() -> Vec<String> {
    let mut fails: Vec<String> = vec![];
    for gzip in [false, true] {
        for cap in [4usize, 4096] {
            for scenario in 0..6 {
                let mut rb = http::Request::builder().method("GET");
                if gzip {
                    rb = rb.header("accept-encoding", "gzip");
                }
                let req = rb.body(()).unwrap();
                let (resp, writer) = http_serve::streaming_body(&req).with_chunk_size(cap).build::<Bytes, BoxError>();
                let mut writer = writer;
                let st = Arc::new(InlineState { body: Mutex::new(Some(Box::pin(resp.into_body()))), events: Mutex::new(vec![]) });
                let arm = |st: &Arc<InlineState>| {
                    // polls that register the inline waker: until the body parks (nothing queued)
                    for _ in 0..16 {
                        let w = Waker::from(Arc::new(InlineWaker(st.clone())));
                        poll_shared(st, Some(w), false);
                        if matches!(st.events.lock().unwrap().last(), Some((PollEv::Pending, _, _)) | Some((PollEv::End, _, _)) | Some((PollEv::Err, _, _))) {
                            break;
                        }
                    }
                };
                let r = catch_unwind(AssertUnwindSafe(|| {
                    arm(&st);
                    let w = writer.as_mut().unwrap();
                    match scenario {
                        0 => {
                            let _ = w.write(b"ab");
                            w.abort(Box::new(AbortError));
                        }
                        1 => {
                            let _ = w.write(b"ab");
                            let _ = w.flush();
                            arm(&st);
                            let _ = w.write(b"cd");
                            w.abort(Box::new(AbortError));
                        }
                        2 => w.abort(Box::new(AbortError)),
                        3 => {
                            let _ = w.write(b"ab");
                        }
                        4 => {
                            let _ = w.write_all(&vec![7u8; 3 * cap + 1]);
                            arm(&st);
                            w.abort(Box::new(AbortError));
                        }
                        _ => {
                            let _ = w.write(b"ab");
                            let _ = w.flush();
                            arm(&st);
                            w.abort(Box::new(AbortError));
                            w.abort(Box::new(AbortError));
                        }
                    }
                    writer = None; // the drop (after an abort: of a dead writer)
                    for _ in 0..6 {
                        poll_shared(&st, None, false);
                    }
                }));
                let tag = format!("gzip={} cap={} scenario={}", gzip, cap, scenario);
                if r.is_err() {
                    fails.push(format!("poll-from-wake-panicked({})", tag));
                    continue;
                }
                let evs = st.events.lock().unwrap().clone();
                let mut terminal = false;
                let mut flagged = false;
                for (ev, eos, _inline) in &evs {
                    let loud = matches!(ev, PollEv::Data(_) | PollEv::Err);
                    if terminal && loud {
                        fails.push(format!("data-or-error-after-a-terminal-event-with-polls-from-wake({})", tag));
                        break;
                    }
                    if flagged && loud {
                        fails.push(format!("data-or-error-after-end-of-stream-flag-with-polls-from-wake({})", tag));
                        break;
                    }
                    if matches!(ev, PollEv::Err | PollEv::End) {
                        terminal = true;
                    }
                    flagged = flagged || *eos;
                }
                // an abort must reach the consumer as an error (scenarios with an abort), a drop as a clean end
                let aborted = scenario != 3;
                let saw_err = evs.iter().any(|e| e.0 == PollEv::Err);
                if aborted && !saw_err {
                    fails.push(format!("abort-not-seen-as-error-with-polls-from-wake({})", tag));
                }
                if !aborted && (saw_err || !evs.iter().any(|e| e.0 == PollEv::End)) {
                    fails.push(format!("drop-not-seen-as-clean-end-with-polls-from-wake({})", tag));
                }
            }
        }
    }
    fails
}

/// The writer dropped while its thread is unwinding from a panic (a producer closure that panics while it
/// owns the BodyWriter): the drop must still publish the staged tail, mark the end and wake the parked
/// consumer (C10: "woken ... after the writer is dropped"; "never sleeps forever while ... the termination
/// is pending"). Harness-level checks.
pub fn unwind_drop_checks() -> Vec<String> {
    struct Counting(std::sync::atomic::AtomicUsize);
    impl std::task::Wake for Counting {
        fn wake(self: Arc<Self>) {
            self.0.fetch_add(1, std::sync::atomic::Ordering::SeqCst);
        }
    }
    let mut fails = vec![];
    for gzip in [false, true] {
        for cap in [4usize, 4096] {
            for staged in [false, true] {
                let mut rb = http::Request::builder().method("GET");
                if gzip {
                    rb = rb.header("accept-encoding", "gzip");
                }
                let req = rb.body(()).unwrap();
                let (resp, writer) = http_serve::streaming_body(&req).with_chunk_size(cap).build::<Bytes, BoxError>();
                let mut body: SBody = Box::pin(resp.into_body());
                let counter = Arc::new(Counting(std::sync::atomic::AtomicUsize::new(0)));
                let waker = Waker::from(counter.clone());
                let mut cx = Context::from_waker(&waker);
                let tag = format!("gzip={} cap={} staged={}", gzip, cap, staged);
                // park the consumer: poll until nothing more is queued (a body may hold bytes from the start,
                // e.g. a gzip header written at construction)
                let mut parked = false;
                for _ in 0..16 {
                    if matches!(body.as_mut().poll_frame(&mut cx), Poll::Pending) {
                        parked = true;
                        break;
                    }
                }
                if !parked {
                    continue;
                }
                // the producer panics while it owns the writer
                let _ = catch_unwind(AssertUnwindSafe(move || {
                    let mut w = writer.unwrap();
                    if staged {
                        let _ = w.write(b"ab");
                    }
                    std::panic::resume_unwind(Box::new("producer failed"));
                }));
                if counter.0.load(std::sync::atomic::Ordering::SeqCst) == 0 {
                    fails.push(format!("consumer-not-woken-after-the-writer-was-dropped-while-unwinding({})", tag));
                }
                let mut ended = false;
                let mut got = 0usize;
                for _ in 0..12 {
                    match body.as_mut().poll_frame(&mut cx) {
                        Poll::Pending => break,
                        Poll::Ready(None) => {
                            ended = true;
                            break;
                        }
                        Poll::Ready(Some(Err(_))) => break,
                        Poll::Ready(Some(Ok(f))) => got += f.into_data().map(|d| d.len()).unwrap_or(0),
                    }
                }
                if !ended {
                    fails.push(format!("no-end-after-the-writer-was-dropped-while-unwinding({})", tag));
                }
                if !gzip && staged && got != 2 {
                    fails.push(format!("staged-bytes-lost-when-the-writer-was-dropped-while-unwinding({})", tag));
                }
            }
        }
    }
    fails
}

/// A consumer that polls only when it has been woken, behind a producer that queued MANY chunks and is then
/// done (dropped) or idle: it must get every queued chunk and, if the writer is gone, the end -- it may not
/// be left parked while chunks or the termination are pending (C10). Harness-level checks.
pub fn long_queue_checks() -> Vec<String> {
    struct Flag(std::sync::atomic::AtomicUsize);
    impl std::task::Wake for Flag {
        fn wake(self: Arc<Self>) {
            self.0.fetch_add(1, std::sync::atomic::Ordering::SeqCst);
        }
    }
    let mut fails = vec![];
    for (cap, total) in [(1usize, 300usize), (2, 520), (1, 1000), (3, 4000), (4096, 3_000_000)] {
        for drop_writer in [true, false] {
            let req = http::Request::builder().method("GET").body(()).unwrap();
            let (resp, writer) = http_serve::streaming_body(&req).with_chunk_size(cap).build::<Bytes, BoxError>();
            let mut body: SBody = Box::pin(resp.into_body());
            let mut w = writer.unwrap();
            let data: Vec<u8> = (0..total).map(|i| (i % 251) as u8).collect();
            let tag = format!("cap={} bytes={} writer-dropped={}", cap, total, drop_writer);
            if w.write_all(&data).is_err() || w.flush().is_err() {
                fails.push(format!("write-to-live-body-failed({})", tag));
                continue;
            }
            let keep = if drop_writer {
                drop(w);
                None
            } else {
                Some(w)
            };
            let flag = Arc::new(Flag(std::sync::atomic::AtomicUsize::new(0)));
            let waker = Waker::from(flag.clone());
            let mut cx = Context::from_waker(&waker);
            let mut got = 0usize;
            let mut ended = false;
            let mut rounds = 0;
            // poll until Pending; poll again only if woken in the meantime (the producer does nothing more)
            loop {
                rounds += 1;
                let before = flag.0.load(std::sync::atomic::Ordering::SeqCst);
                let mut pending = false;
                for _ in 0..(total + 16) {
                    match body.as_mut().poll_frame(&mut cx) {
                        Poll::Pending => {
                            pending = true;
                            break;
                        }
                        Poll::Ready(None) => {
                            ended = true;
                            break;
                        }
                        Poll::Ready(Some(Err(_))) => {
                            ended = true;
                            break;
                        }
                        Poll::Ready(Some(Ok(f))) => got += f.into_data().map(|d| d.len()).unwrap_or(0),
                    }
                }
                if ended || !pending || rounds > 64 {
                    break;
                }
                if flag.0.load(std::sync::atomic::Ordering::SeqCst) == before {
                    break; // parked and not woken: nobody will poll it again
                }
            }
            if got != total {
                fails.push(format!("consumer-parked-while-chunks-are-queued({} got={})", tag, got));
            } else if drop_writer && !ended {
                fails.push(format!("consumer-parked-while-the-termination-is-pending({})", tag));
            }
            drop(keep);
        }
    }
    fails
}

/// A consumer whose data type's From<Vec<u8>> conversion panics (user code of the generic D): the panicking
/// task's body is dropped, and the writer must then be TOLD -- errors from write / flush, not a panic of its
/// own (C11: "once the response body has been dropped ... `flush` and any chunk-completing `write` return an
/// error"). Harness-level checks.
pub fn poisoning_consumer_checks() -> Vec<String> {
    use std::sync::atomic::{AtomicBool, Ordering};
    static BLOW: AtomicBool = AtomicBool::new(false);
    struct Pooled(Bytes);
    impl From<Vec<u8>> for Pooled {
        fn from(v: Vec<u8>) -> Self {
            if BLOW.load(Ordering::SeqCst) {
                std::panic::resume_unwind(Box::new("conversion failed"));
            }
            Pooled(Bytes::from(v))
        }
    }
    impl From<&'static [u8]> for Pooled {
        fn from(v: &'static [u8]) -> Self {
            Pooled(Bytes::from_static(v))
        }
    }
    impl bytes::Buf for Pooled {
        fn remaining(&self) -> usize {
            self.0.remaining()
        }
        fn chunk(&self) -> &[u8] {
            self.0.chunk()
        }
        fn advance(&mut self, n: usize) {
            self.0.advance(n)
        }
    }
    let mut fails = vec![];
    for gzip in [false, true] {
        BLOW.store(false, Ordering::SeqCst);
        let mut rb = http::Request::builder().method("GET");
        if gzip {
            rb = rb.header("accept-encoding", "gzip");
        }
        let req = rb.body(()).unwrap();
        let (resp, writer) = http_serve::streaming_body(&req).with_chunk_size(4).build::<Pooled, BoxError>();
        let mut w = writer.unwrap();
        let mut body = Box::pin(resp.into_body());
        let waker = crate::serve_engine::noop_waker();
        let mut cx = Context::from_waker(&waker);
        let tag = format!("gzip={}", gzip);
        let _ = w.write_all(b"abcdefghijkl");
        let _ = w.flush();
        // one chunk normally, then a conversion that panics, then the task (and its body) is gone
        let _ = body.as_mut().poll_frame(&mut cx);
        BLOW.store(true, Ordering::SeqCst);
        let r = catch_unwind(AssertUnwindSafe(|| {
            let _ = body.as_mut().poll_frame(&mut cx);
        }));
        BLOW.store(false, Ordering::SeqCst);
        if r.is_ok() {
            // the conversion was not reached (nothing queued): nothing to check in this variant
        }
        drop(body);
        let told = catch_unwind(AssertUnwindSafe(|| {
            let a = w.write_all(b"mnopqrstuvwx");
            let b = w.flush();
            let c = w.write_all(b"yz012345");
            let d = w.flush();
            drop(w);
            a.is_err() || b.is_err() || c.is_err() || d.is_err()
        }));
        match told {
            Err(_) => fails.push(format!("writer-panics-after-the-consumer-died-in-its-own-code({})", tag)),
            Ok(false) => fails.push(format!("writer-not-told-after-the-body-was-dropped({})", tag)),
            Ok(true) => {}
        }
    }
    fails
}
