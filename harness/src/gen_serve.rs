//! Structured generators for the serve engine. Every generator builds an AST or an
//! operation list first and renders it; boundary values are explicit.
use crate::entity::{EntityCfg, Op};
use crate::rng::Rng;
use crate::serve_engine::ServeCase;
use crate::val::Val;

pub const U64MAX: u64 = u64::MAX;

pub fn ent(len: u64) -> EntityCfg {
    EntityCfg { len, etag: None, mtime_ns: None, hdrs: vec![], recipes: vec![], default_recipe: vec![Op::RestOrFault] }
}

pub fn case(ent: EntityCfg, method: &str, headers: Vec<(String, Vec<u8>)>, class: String) -> ServeCase {
    let hints = match headers.iter().find(|(k, _)| k == "range") {
        Some((_, v)) => range_hint(v),
        None => Val::L(vec![]),
    };
    ServeCase { ent, method: method.as_bytes().to_vec(), headers, extra_polls: 2, max_polls: 200, class, hints }
}

/// Independent recogniser of RFC 7233 byte-ranges-specifier (OWS tolerated before every
/// element): Some(ast) when grammatical.
pub fn recognise_range(h: &[u8]) -> Option<Vec<(Vec<u8>, Spec)>> {
    let rest = h.strip_prefix(b"bytes=")?;
    let digits = |s: &[u8]| !s.is_empty() && s.iter().all(|c| c.is_ascii_digit());
    let st = |s: &[u8]| String::from_utf8(s.to_vec()).unwrap();
    let mut out = vec![];
    for el in rest.split(|c| *c == b',') {
        let i = el.iter().take_while(|c| **c == b' ' || **c == b'\t').count();
        let (ws, body) = el.split_at(i);
        let pos = body.iter().position(|c| *c == b'-')?;
        let (left, right) = (&body[..pos], &body[pos + 1..]);
        let spec = if left.is_empty() {
            if !digits(right) {
                return None;
            }
            Spec::Suffix(st(right))
        } else {
            if !digits(left) {
                return None;
            }
            if right.is_empty() {
                Spec::From(st(left))
            } else if digits(right) {
                Spec::FromTo(st(left), st(right))
            } else {
                return None;
            }
        };
        out.push((ws.to_vec(), spec));
    }
    Some(out)
}

pub fn range_hint(h: &[u8]) -> Val {
    match recognise_range(h) {
        None => Val::L(vec![Val::L(vec![Val::N(1)])]),
        Some(ast) => Val::L(vec![Val::L(vec![
            Val::N(0),
            Val::L(ast
                .iter()
                .map(|(ws, sp)| {
                    Val::L(vec![
                        Val::bytes(ws),
                        match sp {
                            Spec::FromTo(a, b) => Val::L(vec![Val::N(0), Val::bytes(a.as_bytes()), Val::bytes(b.as_bytes())]),
                            Spec::From(a) => Val::L(vec![Val::N(1), Val::bytes(a.as_bytes())]),
                            Spec::Suffix(n) => Val::L(vec![Val::N(2), Val::bytes(n.as_bytes())]),
                        },
                    ])
                })
                .collect()),
        ])]),
    }
}

#[derive(Clone, Debug)]
pub enum Spec {
    FromTo(String, String),
    From(String),
    Suffix(String),
}
impl Spec {
    pub fn render(&self) -> String {
        match self {
            Spec::FromTo(a, b) => format!("{}-{}", a, b),
            Spec::From(a) => format!("{}-", a),
            Spec::Suffix(n) => format!("-{}", n),
        }
    }
}
pub fn render_set(specs: &[(String, Spec)]) -> String {
    // each element carries the OWS that precedes it (after the comma)
    let mut s = String::from("bytes=");
    for (i, (ws, sp)) in specs.iter().enumerate() {
        if i > 0 {
            s.push(',');
        }
        s.push_str(ws);
        s.push_str(&sp.render());
    }
    s
}

fn range_case(len: u64, hdr: Vec<u8>, method: &str, class: String) -> ServeCase {
    case(ent(len), method, vec![("range".into(), hdr)], class)
}

pub fn small_specs(l: u64) -> Vec<Spec> {
    let mut v = vec![];
    for a in 0..=l + 2 {
        v.push(Spec::From(a.to_string()));
        v.push(Spec::Suffix(a.to_string()));
        for b in 0..=l + 2 {
            v.push(Spec::FromTo(a.to_string(), b.to_string()));
        }
    }
    v
}

pub fn boundary_numbers(l: u64) -> Vec<String> {
    let mut v: Vec<String> = vec![0u64, 1, l.wrapping_sub(1), l, l.wrapping_add(1), 1 << 32, 1 << 63, U64MAX - 1, U64MAX]
        .into_iter()
        .map(|x| x.to_string())
        .collect();
    v.push("18446744073709551616".into()); // 2^64: unparseable
    v.push("99999999999999999999999".into());
    v
}

fn rand_spec(rng: &mut Rng, nums: &[String]) -> Spec {
    match rng.below(3) {
        0 => Spec::FromTo(rng.pick(nums).clone(), rng.pick(nums).clone()),
        1 => Spec::From(rng.pick(nums).clone()),
        _ => Spec::Suffix(rng.pick(nums).clone()),
    }
}

const WS: [&str; 4] = ["", " ", "\t", " \t "];

pub fn mutate(rng: &mut Rng, s: &str) -> (Vec<u8>, String) {
    let mut b = s.as_bytes().to_vec();
    let kind = rng.below(12);
    let how;
    match kind {
        0 if !b.is_empty() => {
            let i = rng.below(b.len() as u64) as usize;
            b.remove(i);
            how = "delete";
        }
        1 if !b.is_empty() => {
            let i = rng.below(b.len() as u64) as usize;
            b[i] = *rng.pick(b"+- ,=ab\t0;.");
            how = "substitute";
        }
        2 => {
            let i = rng.below(b.len() as u64 + 1) as usize;
            b.insert(i, b'+');
            how = "insert-plus";
        }
        3 => {
            b = s.replacen("bytes", "Bytes", 1).into_bytes();
            how = "uppercase-unit";
        }
        4 => {
            b = s.replacen("bytes", "items", 1).into_bytes();
            how = "other-unit";
        }
        5 => {
            b.push(b',');
            how = "trailing-comma";
        }
        6 => {
            b = s.replacen("=", "=,", 1).into_bytes();
            how = "leading-comma";
        }
        7 => {
            b = s.replacen(",", ",,", 1).into_bytes();
            how = "double-comma";
        }
        8 => {
            b = s.replacen(",", " ,", 1).into_bytes();
            how = "ws-before-comma";
        }
        9 => {
            b.push(b' ');
            how = "trailing-space";
        }
        10 => {
            let i = rng.below(b.len() as u64 + 1) as usize;
            b.insert(i, 0xe9);
            how = "non-ascii";
        }
        _ => {
            b = s.replacen("-", "--", 1).into_bytes();
            how = "double-hyphen";
        }
    }
    (b, how.to_string())
}

pub fn arbitrary_value(rng: &mut Rng) -> Vec<u8> {
    let n = rng.below(24);
    let mut v = vec![];
    for _ in 0..n {
        let c = match rng.below(10) {
            0 => 0x80 + rng.below(0x80) as u8,
            1 => b'\t',
            2..=4 => *rng.pick(b"bytes=-,0123456789 "),
            _ => 0x20 + rng.below(0x5f) as u8,
        };
        v.push(c);
    }
    // HeaderValue forbids leading/trailing whitespace? (no: it allows it) keep as is.
    v
}

/// C03: a request carrying only a Range header.
pub fn gen_c03(rng: &mut Rng, thorough: bool, emit: &mut dyn FnMut(ServeCase)) {
    // 1. exhaustive small scope
    let lmax = if thorough { 6 } else { 3 };
    for l in 0..=lmax {
        let specs = small_specs(l);
        for s in &specs {
            let h = render_set(&[("".into(), s.clone())]);
            emit(range_case(l, h.clone().into_bytes(), "GET", format!("G:small:1 L={} {}", l, h)));
        }
        for s1 in &specs {
            for s2 in &specs {
                if !thorough && !rng.chance(1, 6) {
                    continue;
                }
                let ws = if thorough { WS[(rng.below(4)) as usize] } else { *rng.pick(&WS) };
                let h = render_set(&[("".into(), s1.clone()), (ws.into(), s2.clone())]);
                emit(range_case(l, h.clone().into_bytes(), "GET", format!("G:small:2 L={} {:?}", l, h)));
            }
        }
    }
    // 2. boundary product
    let lens: Vec<u64> = vec![0, 1, 2, 10, 1000, 1 << 32, 1 << 63, U64MAX - 1, U64MAX];
    let n2 = if thorough { 60000 } else { 4000 };
    for _ in 0..n2 {
        let l = *rng.pick(&lens);
        let nums = boundary_numbers(l);
        let k = rng.range(1, 4);
        let mut specs = vec![];
        for i in 0..k {
            let ws = if i == 0 { if rng.chance(1, 10) { " " } else { "" } } else { *rng.pick(&WS) };
            specs.push((ws.to_string(), rand_spec(rng, &nums)));
        }
        let h = render_set(&specs);
        let m = if rng.chance(1, 8) { "HEAD" } else { "GET" };
        emit(range_case(l, h.clone().into_bytes(), m, format!("G:boundary L={} {:?}", l, h)));
    }
    // 3. several satisfiable ranges around the 80-byte estimate
    let n3 = if thorough { 20000 } else { 2500 };
    for _ in 0..n3 {
        let k = rng.range(2, 5);
        let mut lens_ = vec![];
        let mut total = 0u64;
        for _ in 0..k {
            let li = rng.range(1, 40);
            lens_.push(li);
            total += 80 + li;
        }
        let d = *rng.pick(&[-1i64, 0, 1, 2, 50, 1000, 100000]);
        let big = rng.chance(1, 10);
        let l = if big { *rng.pick(&[1u64 << 32, 1 << 63, U64MAX]) } else { (total as i64 + d) as u64 };
        let mut specs = vec![];
        for (i, li) in lens_.iter().enumerate() {
            let a = if big { rng.below(l - 100) } else { rng.below(l.saturating_sub(*li).max(1)) };
            let sp = match rng.below(6) {
                0 => Spec::Suffix(li.to_string()),
                _ => Spec::FromTo(a.to_string(), (a + li - 1).to_string()),
            };
            let ws = if i == 0 { "" } else { *rng.pick(&WS) };
            specs.push((ws.to_string(), sp));
        }
        let h = render_set(&specs);
        let m = if rng.chance(1, 8) { "HEAD" } else { "GET" };
        emit(range_case(l, h.clone().into_bytes(), m, format!("G:estimate L={} d={} {:?}", l, d, h)));
    }
    // 3b. the 413 corner: two giant ranges on a 2^64-1 entity
    emit(range_case(
        U64MAX,
        b"bytes=0-9223372036854775807,9223372036854775808-18446744073709551450".to_vec(),
        "GET",
        "G:413-corner".into(),
    ));
    // 4. leading zeros and long digit strings
    for h in [
        "bytes=0001-0003",
        "bytes=000000000000000000000000000000001-2",
        "bytes=-0000",
        "bytes=-0005",
        "bytes=00-",
        "bytes=018446744073709551615-",
        "bytes=0-018446744073709551615",
        "bytes=0-18446744073709551615",
        "bytes=0-18446744073709551614",
        "bytes=18446744073709551615-18446744073709551615",
        "bytes=-18446744073709551615",
        "bytes=-18446744073709551616",
        "bytes=-0",
        "bytes=-10",
        "bytes=-11",
        "bytes=+1-2",
        "bytes=1-+2",
        "bytes=-+2",
        "bytes= 1-2",
        "bytes=0-1 ,3-4",
        "bytes=5-2",
    ] {
        for l in [0u64, 1, 10, 1000, U64MAX] {
            emit(range_case(l, h.as_bytes().to_vec(), "GET", format!("G:fixed L={} {:?}", l, h)));
        }
    }
    // 5. near misses
    let n5 = if thorough { 40000 } else { 3000 };
    for _ in 0..n5 {
        let l = *rng.pick(&[0u64, 1, 10, 1000, 1 << 40]);
        let nums: Vec<String> = vec![0u64, 1, 2, 5, 9, 10, 11, 500, 999, 1000].into_iter().map(|x| x.to_string()).collect();
        let k = rng.range(1, 3);
        let mut specs = vec![];
        for i in 0..k {
            let ws = if i == 0 { "" } else { *rng.pick(&WS) };
            specs.push((ws.to_string(), rand_spec(rng, &nums)));
        }
        let h = render_set(&specs);
        let (b, how) = mutate(rng, &h);
        if http::HeaderValue::from_bytes(&b).is_err() {
            continue;
        }
        emit(range_case(l, b.clone(), "GET", format!("N:{} L={} {:?}", how, l, String::from_utf8_lossy(&b))));
    }
    // 6. arbitrary bytes
    let n6 = if thorough { 20000 } else { 1500 };
    for _ in 0..n6 {
        let l = *rng.pick(&[0u64, 1, 10, 1 << 40, U64MAX]);
        let b = arbitrary_value(rng);
        if http::HeaderValue::from_bytes(&b).is_err() {
            continue;
        }
        emit(range_case(l, b.clone(), "GET", format!("A L={} {:?}", l, String::from_utf8_lossy(&b))));
    }
}
