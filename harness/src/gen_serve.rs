//! Structured generators for the serve engine. Every generator builds an AST or an
//! operation list first and renders it; boundary values are explicit.
use crate::entity::{EntityCfg, Op};
use crate::rng::Rng;
use crate::serve_engine::ServeCase;
use crate::val::Val;

pub const U64MAX: u64 = u64::MAX;

pub fn ent(len: u64) -> EntityCfg {
    EntityCfg { len, etag: None, mtime_ns: None, hdrs: vec![], recipes: vec![], default_recipe: vec![Op::RestOrFault], split: false, mtime_before_epoch: false, volatile_hdrs: false, slow_etag_ms: 0 }
}

pub fn case(ent: EntityCfg, method: &str, headers: Vec<(String, Vec<u8>)>, class: String) -> ServeCase {
    let mut hints = vec![];
    if let Some((_, v)) = headers.iter().find(|(k, _)| k == "range") {
        hints.push(range_hint(v));
    }
    // every other case: the entity hands its chunks over as two non-contiguous pieces (hint 8)
    static COUNTER: std::sync::atomic::AtomicU64 = std::sync::atomic::AtomicU64::new(0);
    if COUNTER.fetch_add(1, std::sync::atomic::Ordering::Relaxed) % 2 == 1 {
        hints.push(Val::L(vec![Val::N(8), Val::N(1)]));
    }
    // one case in four: an entity whose add_headers answers differently every time it is asked (hint 11)
    static HCOUNTER: std::sync::atomic::AtomicU64 = std::sync::atomic::AtomicU64::new(0);
    if HCOUNTER.fetch_add(1, std::sync::atomic::Ordering::Relaxed) % 4 == 2 {
        hints.push(Val::L(vec![Val::N(11), Val::N(1)]));
    }
    // two cases in five: the request is not an HTTP/1.1 request (hint 10: 0 = HTTP/0.9, 1 = 1.0, 2 = 2, 3 = 3);
    // nothing in serve() may depend on the version
    static VCOUNTER: std::sync::atomic::AtomicU64 = std::sync::atomic::AtomicU64::new(0);
    let vc = VCOUNTER.fetch_add(1, std::sync::atomic::Ordering::Relaxed);
    if vc % 5 >= 3 {
        hints.push(Val::L(vec![Val::N(10), Val::N((vc / 5 + vc % 5) % 4)]));
    }
    ServeCase { ent, method: method.as_bytes().to_vec(), headers, extra_polls: 2, max_polls: 400, class, hints: Val::L(hints) }
}

pub fn add_hint(c: &mut ServeCase, key: u64, v: Val) {
    if let Val::L(l) = &mut c.hints {
        l.push(Val::L(vec![Val::N(key), v]));
    }
}

#[derive(Clone, Debug)]
pub enum Spec {
    FromTo(String, String),
    From(String),
    Suffix(String),
}
impl Spec {
    pub fn render(&self) -> String {
        match self {
            Spec::FromTo(a, b) => format!("{}-{}", a, b),
            Spec::From(a) => format!("{}-", a),
            Spec::Suffix(n) => format!("-{}", n),
        }
    }
}
pub fn render_set(specs: &[(String, Spec)]) -> String {
    // each element carries the OWS that precedes it (after the comma)
    let mut s = String::from("bytes=");
    for (i, (ws, sp)) in specs.iter().enumerate() {
        if i > 0 {
            s.push(',');
        }
        s.push_str(ws);
        s.push_str(&sp.render());
    }
    s
}

/// Independent recogniser of RFC 7233 byte-ranges-specifier (OWS tolerated before every
/// element): Some(ast) when grammatical.
pub fn recognise_range(h: &[u8]) -> Option<Vec<(Vec<u8>, Spec)>> {
    let rest = h.strip_prefix(b"bytes=")?;
    let digits = |s: &[u8]| !s.is_empty() && s.iter().all(|c| c.is_ascii_digit());
    let st = |s: &[u8]| String::from_utf8(s.to_vec()).unwrap();
    let mut out = vec![];
    for el in rest.split(|c| *c == b',') {
        let i = el.iter().take_while(|c| **c == b' ' || **c == b'\t').count();
        let (ws, body) = el.split_at(i);
        let pos = body.iter().position(|c| *c == b'-')?;
        let (left, right) = (&body[..pos], &body[pos + 1..]);
        let spec = if left.is_empty() {
            if !digits(right) {
                return None;
            }
            Spec::Suffix(st(right))
        } else {
            if !digits(left) {
                return None;
            }
            if right.is_empty() {
                Spec::From(st(left))
            } else if digits(right) {
                Spec::FromTo(st(left), st(right))
            } else {
                return None;
            }
        };
        out.push((ws.to_vec(), spec));
    }
    Some(out)
}

pub fn range_hint(h: &[u8]) -> Val {
    match recognise_range(h) {
        None => Val::L(vec![Val::N(1), Val::L(vec![])]),
        Some(ast) => Val::L(vec![
            Val::N(0),
            Val::L(ast
                .iter()
                .map(|(ws, sp)| {
                    Val::L(vec![
                        Val::bytes(ws),
                        match sp {
                            Spec::FromTo(a, b) => Val::L(vec![Val::N(0), Val::bytes(a.as_bytes()), Val::bytes(b.as_bytes())]),
                            Spec::From(a) => Val::L(vec![Val::N(1), Val::bytes(a.as_bytes())]),
                            Spec::Suffix(n) => Val::L(vec![Val::N(2), Val::bytes(n.as_bytes())]),
                        },
                    ])
                })
                .collect()),
        ]),
    }
}

fn range_case(len: u64, hdr: Vec<u8>, method: &str, class: String) -> ServeCase {
    case(ent(len), method, vec![("range".into(), hdr)], class)
}

pub fn small_specs(l: u64) -> Vec<Spec> {
    let mut v = vec![];
    for a in 0..=l + 2 {
        v.push(Spec::From(a.to_string()));
        v.push(Spec::Suffix(a.to_string()));
        for b in 0..=l + 2 {
            v.push(Spec::FromTo(a.to_string(), b.to_string()));
        }
    }
    v
}

pub fn boundary_numbers(l: u64) -> Vec<String> {
    let mut v: Vec<String> = vec![0u64, 1, l.wrapping_sub(1), l, l.wrapping_add(1), 1 << 32, 1 << 63, U64MAX - 1, U64MAX]
        .into_iter()
        .map(|x| x.to_string())
        .collect();
    v.push("18446744073709551616".into()); // 2^64: unparseable
    v.push("99999999999999999999999".into());
    v
}

fn rand_spec(rng: &mut Rng, nums: &[String]) -> Spec {
    match rng.below(3) {
        0 => Spec::FromTo(rng.pick(nums).clone(), rng.pick(nums).clone()),
        1 => Spec::From(rng.pick(nums).clone()),
        _ => Spec::Suffix(rng.pick(nums).clone()),
    }
}

const WS: [&str; 4] = ["", " ", "\t", " \t "];

pub fn mutate(rng: &mut Rng, s: &str) -> (Vec<u8>, String) {
    let mut b = s.as_bytes().to_vec();
    let kind = rng.below(12);
    let how;
    match kind {
        0 if !b.is_empty() => {
            let i = rng.below(b.len() as u64) as usize;
            b.remove(i);
            how = "delete";
        }
        1 if !b.is_empty() => {
            let i = rng.below(b.len() as u64) as usize;
            b[i] = *rng.pick(b"+- ,=ab\t0;.");
            how = "substitute";
        }
        2 => {
            let i = rng.below(b.len() as u64 + 1) as usize;
            b.insert(i, b'+');
            how = "insert-plus";
        }
        3 => {
            b = s.replacen("bytes", "Bytes", 1).into_bytes();
            how = "uppercase-unit";
        }
        4 => {
            b = s.replacen("bytes", "items", 1).into_bytes();
            how = "other-unit";
        }
        5 => {
            b.push(b',');
            how = "trailing-comma";
        }
        6 => {
            b = s.replacen("=", "=,", 1).into_bytes();
            how = "leading-comma";
        }
        7 => {
            b = s.replacen(",", ",,", 1).into_bytes();
            how = "double-comma";
        }
        8 => {
            b = s.replacen(",", " ,", 1).into_bytes();
            how = "ws-before-comma";
        }
        9 => {
            b.push(b' ');
            how = "trailing-space";
        }
        10 => {
            let i = rng.below(b.len() as u64 + 1) as usize;
            b.insert(i, 0xe9);
            how = "non-ascii";
        }
        _ => {
            b = s.replacen("-", "--", 1).into_bytes();
            how = "double-hyphen";
        }
    }
    (b, how.to_string())
}

pub fn arbitrary_value(rng: &mut Rng) -> Vec<u8> {
    let n = rng.below(24);
    let mut v = vec![];
    for _ in 0..n {
        let c = match rng.below(10) {
            0 => 0x80 + rng.below(0x80) as u8,
            1 => b'\t',
            2..=4 => *rng.pick(b"bytes=-,0123456789 "),
            _ => 0x20 + rng.below(0x5f) as u8,
        };
        v.push(c);
    }
    // HeaderValue forbids leading/trailing whitespace? (no: it allows it) keep as is.
    v
}

/// C03: a request carrying only a Range header.
pub fn gen_c03(rng: &mut Rng, thorough: bool, emit: &mut dyn FnMut(ServeCase)) {
    // 1. exhaustive small scope
    let lmax = if thorough { 6 } else { 3 };
    for l in 0..=lmax {
        let specs = small_specs(l);
        for s in &specs {
            let h = render_set(&[("".into(), s.clone())]);
            emit(range_case(l, h.clone().into_bytes(), "GET", format!("G:small:1 L={} {}", l, h)));
        }
        for s1 in &specs {
            for s2 in &specs {
                if !thorough && !rng.chance(1, 6) {
                    continue;
                }
                let ws = if thorough { WS[(rng.below(4)) as usize] } else { *rng.pick(&WS) };
                let h = render_set(&[("".into(), s1.clone()), (ws.into(), s2.clone())]);
                emit(range_case(l, h.clone().into_bytes(), "GET", format!("G:small:2 L={} {:?}", l, h)));
            }
        }
    }
    // 1b. many tiny ranges around the point where 80 bytes of overhead each reach the entity length
    // (the complete 200 from there on), distinct, repeated, and with one big range at the end
    for l in [160u64, 200, 1000, 1001, 1079, 4000] {
        let c = l / 80;
        for n in [c.saturating_sub(1).max(2), c.max(2), c + 1, c + 2, 3 * c + 7, 300] {
            for shape in 0..3 {
                let mut parts: Vec<String> = vec![];
                for i in 0..n {
                    let p = match shape {
                        0 => (i * 3) % l,
                        _ => 5,
                    };
                    parts.push(format!("{}-{}", p, p));
                }
                if shape == 2 {
                    parts.pop();
                    parts.push(format!("0-{}", l - 1));
                }
                let h = format!("bytes={}", parts.join(","));
                for m in ["GET", "HEAD"] {
                    if n == 300 && m == "GET" && l > 200 {
                        continue;
                    }
                    let mut cs = range_case(l, h.clone().into_bytes(), m, format!("G:many-tiny-ranges L={} n={} shape={} {}", l, n, shape, m));
                    cs.max_polls = 1000;
                    emit(cs);
                }
            }
        }
    }
    // 2. boundary product
    let lens: Vec<u64> = vec![0, 1, 2, 10, 1000, 1 << 32, 1 << 63, U64MAX - 1, U64MAX];
    let n2 = if thorough { 60000 } else { 4000 };
    for _ in 0..n2 {
        let l = *rng.pick(&lens);
        let nums = boundary_numbers(l);
        let k = rng.range(1, 4);
        let mut specs = vec![];
        for i in 0..k {
            let ws = if i == 0 { if rng.chance(1, 10) { " " } else { "" } } else { *rng.pick(&WS) };
            specs.push((ws.to_string(), rand_spec(rng, &nums)));
        }
        let h = render_set(&specs);
        let m = if rng.chance(1, 8) { "HEAD" } else { "GET" };
        emit(range_case(l, h.clone().into_bytes(), m, format!("G:boundary L={} {:?}", l, h)));
    }
    // 3. several satisfiable ranges around the 80-byte estimate
    let n3 = if thorough { 20000 } else { 2500 };
    for _ in 0..n3 {
        let k = rng.range(2, 5);
        let mut lens_ = vec![];
        let mut total = 0u64;
        for _ in 0..k {
            let li = rng.range(1, 40);
            lens_.push(li);
            total += 80 + li;
        }
        let d = *rng.pick(&[-1i64, 0, 1, 2, 50, 1000, 100000]);
        let big = rng.chance(1, 10);
        let l = if big { *rng.pick(&[1u64 << 32, 1 << 63, U64MAX]) } else { (total as i64 + d) as u64 };
        let mut specs = vec![];
        for (i, li) in lens_.iter().enumerate() {
            let a = if big { rng.below(l - 100) } else { rng.below(l.saturating_sub(*li).max(1)) };
            let sp = match rng.below(6) {
                0 => Spec::Suffix(li.to_string()),
                _ => Spec::FromTo(a.to_string(), (a + li - 1).to_string()),
            };
            let ws = if i == 0 { "" } else { *rng.pick(&WS) };
            specs.push((ws.to_string(), sp));
        }
        let h = render_set(&specs);
        let m = if rng.chance(1, 8) { "HEAD" } else { "GET" };
        emit(range_case(l, h.clone().into_bytes(), m, format!("G:estimate L={} d={} {:?}", l, d, h)));
    }
    // 3c. small ranges on small entities whose own headers are long: the decision between multipart
    // and the complete 200 is made on the 80-byte estimate, not on what the parts really cost
    for hs in ehdr_sets() {
        for n in 2..=6u64 {
            for l in [81 * n, 81 * n + 1, 100 * n, 162 * n, 162 * n + 1, 162 * n + 40, 400 * n] {
                let specs: Vec<(String, Spec)> = (0..n)
                    .map(|i| {
                        let a = if i + 1 == n { l - 1 } else { i * (l / n) };
                        ((if i == 0 { "" } else { " " }).to_string(), Spec::FromTo(a.to_string(), a.to_string()))
                    })
                    .collect();
                let h = render_set(&specs);
                let mut c = range_case(l, h.clone().into_bytes(), "GET", format!("G:estimate-with-headers L={} n={} ehdrs={} {:?}", l, n, hs.len(), h));
                c.ent.hdrs = hs.clone();
                emit(c);
            }
        }
    }
    // 3b. the 413 corner: two giant ranges on a 2^64-1 entity
    emit(range_case(
        U64MAX,
        b"bytes=0-9223372036854775807,9223372036854775808-18446744073709551450".to_vec(),
        "GET",
        "G:413-corner".into(),
    ));
    // 4. leading zeros and long digit strings
    for h in [
        "bytes=0001-0003",
        "bytes=000000000000000000000000000000001-2",
        "bytes=-0000",
        "bytes=-0005",
        "bytes=00-",
        "bytes=018446744073709551615-",
        "bytes=0-018446744073709551615",
        "bytes=0-18446744073709551615",
        "bytes=0-18446744073709551614",
        "bytes=18446744073709551615-18446744073709551615",
        "bytes=-18446744073709551615",
        "bytes=-18446744073709551616",
        "bytes=-0",
        "bytes=-10",
        "bytes=-11",
        "bytes=+1-2",
        "bytes=1-+2",
        "bytes=-+2",
        "bytes= 1-2",
        "bytes=0-1 ,3-4",
        "bytes=5-2",
    ] {
        for l in [0u64, 1, 10, 1000, U64MAX] {
            emit(range_case(l, h.as_bytes().to_vec(), "GET", format!("G:fixed L={} {:?}", l, h)));
        }
    }
    // 5. near misses
    let n5 = if thorough { 40000 } else { 3000 };
    for _ in 0..n5 {
        let l = *rng.pick(&[0u64, 1, 10, 1000, 1 << 40]);
        let nums: Vec<String> = vec![0u64, 1, 2, 5, 9, 10, 11, 500, 999, 1000].into_iter().map(|x| x.to_string()).collect();
        let k = rng.range(1, 3);
        let mut specs = vec![];
        for i in 0..k {
            let ws = if i == 0 { "" } else { *rng.pick(&WS) };
            specs.push((ws.to_string(), rand_spec(rng, &nums)));
        }
        let h = render_set(&specs);
        let (b, how) = mutate(rng, &h);
        if http::HeaderValue::from_bytes(&b).is_err() {
            continue;
        }
        emit(range_case(l, b.clone(), "GET", format!("N:{} L={} {:?}", how, l, String::from_utf8_lossy(&b))));
    }
    // 6. arbitrary bytes
    let n6 = if thorough { 20000 } else { 1500 };
    for _ in 0..n6 {
        let l = *rng.pick(&[0u64, 1, 10, 1 << 40, U64MAX]);
        let b = arbitrary_value(rng);
        if http::HeaderValue::from_bytes(&b).is_err() {
            continue;
        }
        emit(range_case(l, b.clone(), "GET", format!("A L={} {:?}", l, String::from_utf8_lossy(&b))));
    }
}

// ======================================================================================
// building blocks shared by the other serve-family generators
// ======================================================================================

#[derive(Clone, Debug, PartialEq)]
pub struct Tag {
    pub weak: bool,
    pub opaque: Vec<u8>,
}
impl Tag {
    pub fn render(&self) -> Vec<u8> {
        let mut v = vec![];
        if self.weak {
            v.extend_from_slice(b"W/");
        }
        v.push(b'"');
        v.extend_from_slice(&self.opaque);
        v.push(b'"');
        v
    }
    pub fn val(&self) -> Val {
        Val::L(vec![Val::N(self.weak as u64), Val::bytes(&self.opaque)])
    }
}
#[derive(Clone, Debug)]
pub enum TagList {
    Star,
    List(Vec<(String, Tag)>),
}
impl TagList {
    pub fn render(&self) -> Vec<u8> {
        match self {
            TagList::Star => b"*".to_vec(),
            TagList::List(l) => {
                let mut v = vec![];
                for (i, (ws, t)) in l.iter().enumerate() {
                    if i > 0 {
                        v.push(b',');
                        v.extend_from_slice(ws.as_bytes());
                    }
                    v.extend_from_slice(&t.render());
                }
                v
            }
        }
    }
    pub fn val(&self) -> Val {
        match self {
            TagList::Star => Val::L(vec![Val::N(0)]),
            TagList::List(l) => {
                let mut items = vec![l[0].1.val()];
                for (ws, t) in &l[1..] {
                    items.push(Val::L(vec![Val::bytes(ws.as_bytes()), t.val()]));
                }
                Val::L(vec![Val::N(1), Val::L(items)])
            }
        }
    }
}

pub const T0: u64 = 784_111_777; // Sun, 06 Nov 1994 08:49:37 GMT
pub fn http_date(secs: u64) -> Vec<u8> {
    httpdate::fmt_http_date(std::time::UNIX_EPOCH + std::time::Duration::from_secs(secs)).into_bytes()
}
pub fn now_secs() -> u64 {
    std::time::SystemTime::now().duration_since(std::time::UNIX_EPOCH).unwrap().as_secs()
}

pub fn etag_variants() -> Vec<Option<Tag>> {
    vec![
        None,
        Some(Tag { weak: false, opaque: b"abc".to_vec() }),
        Some(Tag { weak: true, opaque: b"abc".to_vec() }),
        Some(Tag { weak: false, opaque: b"a, b".to_vec() }),
        Some(Tag { weak: false, opaque: b"caf\xe9".to_vec() }),
        Some(Tag { weak: false, opaque: b"v1\\".to_vec() }),
    ]
}
pub fn mtime_variants() -> Vec<Option<u64>> {
    // whole second, mid-second, and 1 ns before the next second (where a float or rounding
    // truncation would land on the wrong second)
    vec![None, Some(T0 * 1_000_000_000), Some(T0 * 1_000_000_000 + 500_000_000), Some(T0 * 1_000_000_000 + 999_999_999)]
}
/// the first second of the year 10000 (no HTTP-date exists for it) and a time far beyond, in ns:
/// legal SystemTimes an entity may report (a garbage file timestamp); u64 ns reach the year 2554 only,
/// so these are given in seconds and the entity adds them as a Duration
pub const FAR_FUTURE_SECS: [u64; 2] = [253_402_300_800, 1 << 50];
pub fn ehdr_sets() -> Vec<Vec<(String, Vec<u8>)>> {
    vec![
        vec![],
        vec![("content-type".into(), b"text/plain".to_vec())],
        vec![("content-type".into(), b"application/octet-stream".to_vec()), ("x-ent-a".into(), vec![b'v'; 1])],
        vec![("x-long".into(), vec![b'z'; 200]), ("content-language".into(), b"en".to_vec()), ("x-ent-b".into(), b"two words".to_vec())],
        // a value with bytes >= 0x80 that are not UTF-8 (an ISO-8859-1 file name) and an empty value
        vec![("content-disposition".into(), b"attachment; filename=\"caf\xe9.txt\"".to_vec()), ("x-empty".into(), vec![])],
        // a multi-valued header name (HeaderMap::append twice, another name in between)
        vec![("vary".into(), b"accept-encoding".to_vec()), ("cache-control".into(), b"max-age=3600".to_vec()), ("vary".into(), b"accept-language".to_vec())],
    ]
}

pub fn ent_with(len: u64, etag: &Option<Tag>, mtime: Option<u64>, hdrs: Vec<(String, Vec<u8>)>) -> EntityCfg {
    let mut e = ent(len);
    e.etag = etag.as_ref().map(|t| t.render());
    e.mtime_ns = mtime.map(|m| m as u128);
    e.hdrs = hdrs;
    e
}
fn hint_etag(c: &mut ServeCase, etag: &Option<Tag>) {
    add_hint(c, 4, Val::opt(etag.as_ref().map(|t| t.val())));
}

/// Honest chunkings of a range: the entity may split it anywhere, add empty chunks and Pendings.
pub fn honest_recipe(rng: &mut Rng, style: u64) -> Vec<Op> {
    match style {
        0 => vec![Op::RestOrFault],
        1 => {
            // every byte its own chunk (up to 64), then the rest
            let mut v: Vec<Op> = (0..64).map(|_| Op::Chunk(1)).collect();
            // Chunk(1) past the end would be dishonest: the caller only uses style 1 for ranges >= 64 or uses exact()
            v.push(Op::RestOrFault);
            v
        }
        _ => {
            let mut v = vec![];
            let n = rng.range(0, 5);
            for _ in 0..n {
                match rng.below(4) {
                    0 => v.push(Op::Pending),
                    1 => v.push(Op::Chunk(0)),
                    _ => v.push(Op::Chunk(rng.range(1, 3))),
                }
            }
            v.push(Op::RestOrFault);
            if rng.chance(1, 3) {
                v.push(Op::Chunk(0));
            }
            if rng.chance(1, 4) {
                v.push(Op::Pending);
            }
            v
        }
    }
}

/// An honest chunking for a range of exactly `len` bytes: explicit chunk sizes that sum to len.
pub fn exact_recipe(rng: &mut Rng, len: u64, style: u64) -> Vec<Op> {
    let mut v = vec![];
    let mut left = len;
    match style {
        0 => {
            if left > 0 {
                v.push(Op::Chunk(left));
            }
        }
        1 => {
            while left > 0 {
                v.push(Op::Chunk(1));
                left -= 1;
            }
        }
        _ => {
            while left > 0 {
                match rng.below(5) {
                    0 => v.push(Op::Pending),
                    1 => v.push(Op::Chunk(0)),
                    _ => {
                        let n = rng.range(1, left.min(7));
                        v.push(Op::Chunk(n));
                        left -= n;
                    }
                }
            }
            if rng.chance(1, 3) {
                v.push(Op::Chunk(0));
            }
            if rng.chance(1, 4) {
                v.push(Op::Pending);
            }
        }
    }
    v
}

fn tag_pool(etag: &Option<Tag>) -> Vec<Tag> {
    let mut v = vec![
        Tag { weak: false, opaque: b"abc".to_vec() },
        Tag { weak: true, opaque: b"abc".to_vec() },
        Tag { weak: false, opaque: b"xyz".to_vec() },
        Tag { weak: true, opaque: b"xyz".to_vec() },
        Tag { weak: false, opaque: b"a, b".to_vec() },
        Tag { weak: true, opaque: b"a, b".to_vec() },
        Tag { weak: false, opaque: b"".to_vec() },
        Tag { weak: false, opaque: b"ab".to_vec() },
        Tag { weak: false, opaque: b"abcd".to_vec() },
        Tag { weak: false, opaque: b"ABC".to_vec() },
        Tag { weak: false, opaque: b"W/".to_vec() },
        Tag { weak: false, opaque: b"x,y ,z".to_vec() },
        // obs-text: bytes >= 0x80 that are not UTF-8 (a Latin-1 tag) and ones that are
        Tag { weak: false, opaque: b"caf\xe9".to_vec() },
        Tag { weak: true, opaque: b"caf\xe9".to_vec() },
        Tag { weak: false, opaque: b"caf\xc3\xa9".to_vec() },
        // a backslash is an ordinary etagc (RFC 7232 has no escaping): the tag ends at the next quote
        Tag { weak: false, opaque: b"a\\".to_vec() },
        Tag { weak: true, opaque: b"b\\\\".to_vec() },
    ];
    if let Some(t) = etag {
        v.push(t.clone());
        v.push(Tag { weak: !t.weak, opaque: t.opaque.clone() });
    }
    v
}
fn rand_tag_list(rng: &mut Rng, etag: &Option<Tag>) -> TagList {
    if rng.chance(1, 8) {
        return TagList::Star;
    }
    let pool = tag_pool(etag);
    let n = rng.range(1, 4);
    let mut l = vec![];
    for _ in 0..n {
        let ws = *rng.pick(&["", " ", "\t", "  "]);
        l.push((ws.to_string(), rng.pick(&pool).clone()));
    }
    TagList::List(l)
}

const MALFORMED_LISTS: [&str; 20] = [
    "\"foo\", bar", "\"unterminated", "W/", "abc", "\"a\" \"b\"", "\"a\",, \"b\"", " \"a\"", "\"a\";",
    "\"abc\" ", "\"abc\"\t", "\"xyz\", W/\"abc\" \t ", "\"abc\" , \"xyz\"", "\"abc\" ,\"xyz\"", "\"abc\",", "\"abc\", ", ",\"abc\"", " ", "", "*, \"abc\"", "\"abc\", *",
];
/// a grammatical list with one or two byte-level edits (anywhere, both ends included)
fn mutate_list(rng: &mut Rng, l: &TagList) -> Vec<u8> {
    let mut b = l.render();
    for _ in 0..rng.range(1, 3) {
        match rng.below(4) {
            0 if !b.is_empty() => {
                let i = rng.below(b.len() as u64) as usize;
                b.remove(i);
            }
            1 if !b.is_empty() => {
                let i = rng.below(b.len() as u64) as usize;
                b[i] = *rng.pick(b"\", \tW/*a");
            }
            2 => {
                let i = rng.below(b.len() as u64 + 1) as usize;
                b.insert(i, *rng.pick(b"\", \tW/*a\xe9"));
            }
            _ => b.push(*rng.pick(b" \t,")),
        }
    }
    b
}
const MALFORMED_DATES: [&str; 6] = ["yesterday", "", "Sun, 06 Nov 1994 08:49:37", "1994-11-06", "Sun, 06 Nov 1994 08:49:37 GMT ", "0"];

/// conditional-header mix used by several generators; returns headers plus (im, inm) ASTs when grammatical
fn rand_conditionals(rng: &mut Rng, etag: &Option<Tag>, mtime: Option<u64>, c: &mut Vec<(String, Vec<u8>)>, hints: &mut Vec<(u64, Val)>, malformed_ok: bool) {
    let lm_s = mtime.map(|m| m / 1_000_000_000).unwrap_or(T0);
    for (name, key) in [("if-match", 2u64), ("if-none-match", 3u64)] {
        if rng.chance(1, 2) {
            continue;
        }
        if malformed_ok && rng.chance(1, 10) {
            c.push((name.into(), rng.pick(&MALFORMED_LISTS).as_bytes().to_vec()));
        } else if malformed_ok && rng.chance(1, 8) {
            let l = rand_tag_list(rng, etag);
            c.push((name.into(), mutate_list(rng, &l)));
        } else {
            let l = rand_tag_list(rng, etag);
            c.push((name.into(), l.render()));
            hints.push((key, l.val()));
        }
    }
    for name in ["if-modified-since", "if-unmodified-since"] {
        if rng.chance(1, 2) {
            continue;
        }
        if malformed_ok && rng.chance(1, 10) {
            c.push((name.into(), rng.pick(&MALFORMED_DATES).as_bytes().to_vec()));
        } else {
            let d = *rng.pick(&[-86400i64, -1, 0, 1, 86400]);
            c.push((name.into(), http_date((lm_s as i64 + d).max(0) as u64)));
        }
    }
}

fn finish_case(mut c: ServeCase, etag: &Option<Tag>, hints: Vec<(u64, Val)>) -> ServeCase {
    hint_etag(&mut c, etag);
    for (k, v) in hints {
        add_hint(&mut c, k, v);
    }
    c
}

/// C04: the categorical product of validators and conditional headers.
pub fn gen_c04(rng: &mut Rng, thorough: bool, emit: &mut dyn FnMut(ServeCase)) {
    let dates: Vec<Option<i64>> = vec![None, Some(-86400), Some(-1), Some(0), Some(1)];
    let n_lists = if thorough { 40 } else { 3 };
    // modification times: the usual ones and one an hour ahead of the clock (dates between the clock
    // and the modification time must still be compared with the modification time itself)
    let mut mtimes = mtime_variants();
    mtimes.push(Some((now_secs() + 3600) * 1_000_000_000 + 250_000_000));
    for etag in etag_variants() {
        for mtime in mtimes.clone() {
            let lm_s = mtime.map(|m| m / 1_000_000_000).unwrap_or(T0) as i64;
            for ims in &dates {
                for ius in &dates {
                    for m in ["GET", "HEAD"] {
                        // list choices: absent / star / sampled lists
                        let mut list_choices: Vec<Option<TagList>> = vec![None, Some(TagList::Star)];
                        for _ in 0..n_lists {
                            list_choices.push(Some(rand_tag_list(rng, &etag)));
                        }
                        for im in &list_choices {
                            for inm in &list_choices {
                                if !thorough && m == "HEAD" && !rng.chance(1, 4) {
                                    continue;
                                }
                                let mut h = vec![];
                                let mut hints = vec![];
                                if let Some(l) = im {
                                    h.push(("if-match".to_string(), l.render()));
                                    hints.push((2, l.val()));
                                }
                                if let Some(l) = inm {
                                    h.push(("if-none-match".to_string(), l.render()));
                                    hints.push((3, l.val()));
                                }
                                if let Some(d) = ims {
                                    h.push(("if-modified-since".into(), http_date((lm_s + d) as u64)));
                                }
                                if let Some(d) = ius {
                                    h.push(("if-unmodified-since".into(), http_date((lm_s + d) as u64)));
                                }
                                // a Range header rides along now and then: satisfiable, or selecting nothing
                                // (412 / 304 come before range selection, also before a 416)
                                match rng.below(9) {
                                    0 => h.push(("range".into(), b"bytes=1-3".to_vec())),
                                    1 => h.push(("range".into(), b"bytes=500-".to_vec())),
                                    2 => h.push(("range".into(), b"bytes=1-3, 500-600".to_vec())),
                                    _ => {}
                                }
                                let class = format!(
                                    "G:c04 etag={:?} mtime={:?} {}",
                                    etag.as_ref().map(|t| String::from_utf8_lossy(&t.render()).to_string()),
                                    mtime,
                                    h.iter().map(|(k, v)| format!("{}: {}", k, String::from_utf8_lossy(v))).collect::<Vec<_>>().join(" | ")
                                );
                                let c = case(ent_with(240, &etag, mtime, vec![]), m, h, class);
                                emit(finish_case(c, &etag, hints));
                            }
                        }
                    }
                }
            }
        }
    }
    // malformed lists and dates: totality and the 400 paths (no claim from the C04 oracle, compared with the model)
    let n = if thorough { 20000 } else { 1500 };
    for _ in 0..n {
        let etag = rng.pick(&etag_variants()).clone();
        let mtime = *rng.pick(&mtime_variants());
        let mut h = vec![];
        let mut hints = vec![];
        rand_conditionals(rng, &etag, mtime, &mut h, &mut hints, true);
        let class = format!("N:c04 {}", h.iter().map(|(k, v)| format!("{}: {}", k, String::from_utf8_lossy(v))).collect::<Vec<_>>().join(" | "));
        let c = case(ent_with(240, &etag, mtime, vec![]), if rng.chance(1, 5) { "HEAD" } else { "GET" }, h, class);
        emit(finish_case(c, &etag, hints));
    }
}

/// C05: If-Range against every kind of validator.
pub fn gen_c05(rng: &mut Rng, thorough: bool, emit: &mut dyn FnMut(ServeCase)) {
    let ranges: Vec<&str> = vec!["bytes=1-3", "bytes=0-1, 5-6", "bytes=500-", "bytes=abc", "bytes=-5", "bytes=0-1,3-4,9-9", "bytes=0-100, 120-239"];
    for etag in etag_variants() {
        for mtime in mtime_variants() {
            let lm_s = mtime.map(|m| m / 1_000_000_000).unwrap_or(T0);
            let mut ifr: Vec<(String, Vec<u8>)> = vec![];
            if let Some(t) = &etag {
                let r = t.render();
                ifr.push(("same".into(), r.clone()));
                ifr.push(("same-opaque-other-strength".into(), Tag { weak: !t.weak, opaque: t.opaque.clone() }.render()));
                ifr.push(("prefix".into(), r[..r.len() - 1].to_vec()));
                ifr.push(("suffix".into(), r[1..].to_vec()));
                ifr.push(("upper".into(), r.to_ascii_uppercase()));
                ifr.push(("lower".into(), r.to_ascii_lowercase()));
                let mut x = r.clone();
                x.push(b' ');
                ifr.push(("trailing-space".into(), x));
                let mut y = r.clone();
                y.extend_from_slice(b", \"other\"");
                ifr.push(("list".into(), y));
            }
            ifr.push(("different".into(), b"\"zzz\"".to_vec()));
            ifr.push(("different-weak".into(), b"W/\"zzz\"".to_vec()));
            ifr.push(("date-before".into(), http_date(lm_s - 1)));
            ifr.push(("date-equal".into(), http_date(lm_s)));
            ifr.push(("date-after".into(), http_date(lm_s + 1)));
            ifr.push(("garbage".into(), b"garbage".to_vec()));
            ifr.push(("star".into(), b"*".to_vec()));
            ifr.push(("empty".into(), b"".to_vec()));
            ifr.push(("quote".into(), b"\"".to_vec()));
            ifr.push(("wslash".into(), b"W/".to_vec()));
            ifr.push(("non-ascii".into(), vec![b'"', 0xe9, b'"']));
            for _ in 0..(if thorough { 30 } else { 4 }) {
                ifr.push(("arbitrary".into(), arbitrary_value(rng)));
            }
            for (how, v) in &ifr {
                if http::HeaderValue::from_bytes(v).is_err() {
                    continue;
                }
                for r in &ranges {
                    for m in ["GET", "HEAD"] {
                        for with_other in [false, true] {
                            if with_other && !rng.chance(1, 4) {
                                continue;
                            }
                            let mut h = vec![("range".to_string(), r.as_bytes().to_vec()), ("if-range".to_string(), v.clone())];
                            let mut hints = vec![];
                            if with_other {
                                rand_conditionals(rng, &etag, mtime, &mut h, &mut hints, false);
                            }
                            let class = format!("G:c05 etag={:?} if-range={}:{:?} {} {}", etag.as_ref().map(|t| String::from_utf8_lossy(&t.render()).to_string()), how, String::from_utf8_lossy(v), r, m);
                            let c = case(ent_with(240, &etag, mtime, ehdr_sets()[1].clone()), m, h, class);
                            emit(finish_case(c, &etag, hints));
                        }
                    }
                }
            }
            // no If-Range at all: Range is honoured
            for r in &ranges {
                let c = case(ent_with(240, &etag, mtime, vec![]), "GET", vec![("range".to_string(), r.as_bytes().to_vec())], format!("G:c05 no-if-range {}", r));
                emit(finish_case(c, &etag, vec![]));
            }
        }
    }
}

fn digits_lens() -> Vec<u64> {
    vec![300, 1000, 100_000, (1u64 << 32) + 7, 1u64 << 63, U64MAX]
}

/// C06: multipart bodies: 2..8 satisfiable ranges, many digit widths and header sets.
pub fn gen_c06(rng: &mut Rng, thorough: bool, emit: &mut dyn FnMut(ServeCase)) {
    let n = if thorough { 30000 } else { 2500 };
    for k in 0..n {
        let l = *rng.pick(&digits_lens());
        let nr = rng.range(2, 8);
        let hs = rng.pick(&ehdr_sets()).clone();
        let hs_len: u64 = hs.iter().map(|(a, b)| (a.len() + b.len() + 4) as u64).sum();
        // keep the 80-byte estimate under L: tiny ranges on small entities
        let maxlen = if l <= 1000 { 1 + (l / (nr * 120)).min(3) } else { 40 };
        let mut specs: Vec<(String, Spec)> = vec![];
        let mut prev: Option<(u64, u64)> = None;
        for i in 0..nr {
            let li = rng.range(1, maxlen.max(1));
            let (a, b) = match (rng.below(8), prev) {
                (0, Some(p)) => p,                                                // duplicate
                (1, Some((_, pb))) if pb.checked_add(li).map_or(false, |x| x < l) => (pb + 1, pb + li),          // adjacent
                (2, Some((pa, _))) if pa.checked_add(li).map_or(false, |x| x < l) => (pa, pa + li - 1),          // overlapping
                (3, _) => (l - li, l - 1),                                        // at the very end
                (4, _) => (0, li - 1),
                _ => {
                    let a = rng.below(l - li);
                    (a, a + li - 1)
                }
            };
            prev = Some((a, b));
            let sp = match rng.below(10) {
                0 if b == l - 1 => Spec::From(a.to_string()),
                1 if b == l - 1 => Spec::Suffix((b - a + 1).to_string()),
                2 => Spec::FromTo(a.to_string(), if b == l - 1 { U64MAX.to_string() } else { b.to_string() }),
                _ => Spec::FromTo(a.to_string(), b.to_string()),
            };
            let ws = if i == 0 { "" } else { *rng.pick(&WS) };
            specs.push((ws.to_string(), sp));
        }
        let h = render_set(&specs);
        let etag = Some(Tag { weak: false, opaque: b"abc".to_vec() });
        let mut headers = vec![("range".to_string(), h.clone().into_bytes())];
        let with_if_range = rng.chance(1, 3);
        if with_if_range {
            headers.push(("if-range".into(), etag.as_ref().unwrap().render()));
        }
        let mut e = ent_with(l, &etag, if rng.chance(1, 2) { Some(T0 * 1_000_000_000) } else { None }, hs);
        let style = k % 3;
        e.default_recipe = honest_recipe(rng, if style == 1 { 2 } else { style });
        let m = if rng.chance(1, 10) { "HEAD" } else { "GET" };
        let class = format!("G:c06 L={} n={} ehdr_bytes={} if-range={} {:?}", l, nr, hs_len, with_if_range, h);
        emit(finish_case(case(e, m, headers, class), &etag, vec![]));
    }
}

fn compositions(n: u64, max_parts: usize) -> Vec<Vec<u64>> {
    // all ways to write n as an ordered sum of 1..max_parts positive parts
    fn go(n: u64, parts: usize, cur: &mut Vec<u64>, out: &mut Vec<Vec<u64>>) {
        if n == 0 {
            out.push(cur.clone());
            return;
        }
        if parts == 0 {
            return;
        }
        for k in 1..=n {
            cur.push(k);
            go(n - k, parts - 1, cur, out);
            cur.pop();
        }
    }
    let mut out = vec![];
    go(n, max_parts, &mut vec![], &mut out);
    out
}

/// Fault scripts for one range of `len` bytes split as `chunks`: (name, recipe).
fn fault_scripts(chunks: &[u64]) -> Vec<(String, Vec<Op>)> {
    let mut out = vec![];
    let n = chunks.len();
    let base: Vec<Op> = chunks.iter().map(|c| Op::Chunk(*c)).collect();
    out.push(("honest".into(), base.clone()));
    for pos in 0..=n {
        // early end before chunk `pos` (pos = n is the honest stream)
        if pos < n {
            out.push((format!("early-end@{}", pos), base[..pos].to_vec()));
            let mut v = base[..pos].to_vec();
            v.push(Op::Err(7));
            out.push((format!("error@{}", pos), v));
            // a stream that keeps failing when polled again after its failure (as ChunkedReadFile does
            // on a truncated file)
            let mut v = base[..pos].to_vec();
            v.push(Op::Err(7));
            v.push(Op::Err(8));
            v.push(Op::Pending);
            v.push(Op::Err(9));
            out.push((format!("error-and-again@{}", pos), v));
            let mut v = base[..pos].to_vec();
            v.push(Op::Pending);
            v.push(Op::Err(7));
            out.push((format!("pending-then-error@{}", pos), v));
            let mut v = base[..pos].to_vec();
            v.push(Op::Pending);
            out.push((format!("pending-then-early-end@{}", pos), v));
            // chunk pos one byte short (and then the stream ends), one byte long
            if chunks[pos] > 1 {
                let mut v = base[..pos].to_vec();
                v.push(Op::Chunk(chunks[pos] - 1));
                v.extend_from_slice(&base[pos + 1..]);
                out.push((format!("one-byte-short@{}", pos), v));
            }
            let mut v = base[..pos].to_vec();
            v.push(Op::Chunk(chunks[pos] + 1));
            v.extend_from_slice(&base[pos + 1..]);
            out.push((format!("one-extra-byte@{}", pos), v));
            // a chunk that overshoots what is still owed, followed by chunks that would have fitted:
            // after the too-long error nothing of them may be passed on
            let owed: u64 = chunks[pos..].iter().sum();
            let mut v = base[..pos].to_vec();
            v.push(Op::Chunk(owed + 1));
            v.push(Op::Chunk(1));
            v.push(Op::Chunk(owed));
            out.push((format!("one-overshoot-then-more@{}", pos), v));
        }
        // an empty chunk / a Pending inserted at pos (harmless)
        let mut v = base[..pos].to_vec();
        v.push(Op::Chunk(0));
        v.extend_from_slice(&base[pos..]);
        out.push((format!("empty-chunk@{}", pos), v));
        let mut v = base[..pos].to_vec();
        v.push(Op::Pending);
        v.extend_from_slice(&base[pos..]);
        out.push((format!("pending@{}", pos), v));
    }
    let mut v = base.clone();
    v.push(Op::Chunk(1));
    out.push(("one-extra-chunk".into(), v));
    let mut v = base.clone();
    v.push(Op::Chunk(0));
    v.push(Op::Chunk(2));
    out.push(("empty-then-extra-chunk".into(), v));
    let mut v = base.clone();
    v.push(Op::Err(7));
    out.push(("error-after-complete".into(), v));
    out
}

/// C07 (and C20): every fault position x kind x response shape, exhaustive for streams of <= 4 chunks.
pub fn gen_c07(rng: &mut Rng, thorough: bool, emit: &mut dyn FnMut(ServeCase)) {
    let _ = rng;
    let range_len = 4u64;
    let comps = compositions(range_len, if thorough { 4 } else { 3 });
    // shapes: (class, L, Range header, number of get_range calls, index of the faulty call)
    let mut shapes: Vec<(String, u64, Option<String>, usize, usize)> = vec![
        ("200".into(), range_len, None, 1, 0),
        ("single-206".into(), 10, Some("bytes=3-6".into()), 1, 0),
    ];
    for n in 2..=3usize {
        for j in 0..n {
            let hdr = (0..n).map(|i| format!("{}-{}", 100 * i + 1, 100 * i + 4)).collect::<Vec<_>>().join(",");
            shapes.push((format!("multipart-part-{}-of-{}", j + 1, n), 1000, Some(format!("bytes={}", hdr)), n, j));
        }
    }
    for (sname, l, hdr, ncalls, faulty) in &shapes {
        for comp in &comps {
            for (fname, recipe) in fault_scripts(comp) {
                for extra in [1u32, 4] {
                    if extra == 4 && !thorough && !(fname.starts_with("error") || fname.starts_with("early") || fname.starts_with("one-")) {
                        continue;
                    }
                    let mut e = ent(*l);
                    e.hdrs = vec![("content-type".into(), b"text/plain".to_vec())];
                    e.default_recipe = vec![Op::RestOrFault];
                    e.recipes = (0..*ncalls).map(|k| if k == *faulty { recipe.clone() } else { vec![Op::RestOrFault] }).collect();
                    let headers = match hdr {
                        Some(h) => vec![("range".to_string(), h.as_bytes().to_vec())],
                        None => vec![],
                    };
                    let mut c = case(e, "GET", headers, format!("F:{} chunks={:?} fault={} extra={}", sname, comp, fname, extra));
                    c.extra_polls = extra;
                    emit(c);
                }
            }
        }
    }
}

fn rand_method(rng: &mut Rng) -> &'static str {
    match rng.below(20) {
        0 => "POST",
        1 => "PUT",
        2 => "DELETE",
        3 => "OPTIONS",
        4 => "PATCH",
        5 => "get",
        6 => "PROPFIND",
        7 => "X-CUSTOM_M!",
        8..=10 => "HEAD",
        _ => "GET",
    }
}

fn rand_range_value(rng: &mut Rng, l: u64) -> Vec<u8> {
    match rng.below(10) {
        0 => arbitrary_value(rng),
        1 | 2 => {
            let nums = boundary_numbers(l);
            let k = rng.range(1, 3);
            let specs: Vec<(String, Spec)> = (0..k).map(|i| ((if i == 0 { "" } else { *rng.pick(&WS) }).to_string(), rand_spec(rng, &nums))).collect();
            let h = render_set(&specs);
            if rng.chance(1, 3) { mutate(rng, &h).0 } else { h.into_bytes() }
        }
        _ => {
            // small satisfiable ranges
            let k = rng.range(1, 4);
            let mut specs = vec![];
            for i in 0..k {
                let li = rng.range(1, 6);
                let a = rng.below(l.saturating_sub(li).max(1));
                let sp = match rng.below(6) {
                    0 => Spec::Suffix(li.to_string()),
                    1 if l > 0 && l - a <= 4096 => Spec::From(a.to_string()),
                    _ => Spec::FromTo(a.to_string(), (a + li - 1).to_string()),
                };
                specs.push(((if i == 0 { "" } else { *rng.pick(&WS) }).to_string(), sp));
            }
            render_set(&specs).into_bytes()
        }
    }
}

/// A request/entity mix over all dimensions (C01, C02, C12, C13, C15, C20 draw from it with different weights).
pub fn gen_mixed(rng: &mut Rng, n: u64, profile: &str, emit: &mut dyn FnMut(ServeCase)) {
    let lens: Vec<u64> = vec![0, 1, 2, 79, 80, 81, 239, 240, 241, 1000, 4095, 4096, 4097, 65535, 65536, 65537, 1 << 32, 1 << 63, U64MAX];
    for _ in 0..n {
        let l = if profile == "c02" { *rng.pick(&[1u64, 2, 10, 240, 241, 1000, 4096, 65537, 1 << 32, U64MAX]) } else { *rng.pick(&lens) };
        let etag = rng.pick(&etag_variants()).clone();
        let mtime = match rng.below(8) {
            0 => Some(0),
            1 => Some(T0 * 1_000_000_000 + 1_000_000),
            2 => Some(T0 * 1_000_000_000 + 999_999_999),
            3 => Some((now_secs() + 86400) * 1_000_000_000),
            _ => *rng.pick(&mtime_variants()),
        };
        let hs = rng.pick(&ehdr_sets()).clone();
        let mut e = ent_with(l, &etag, mtime, hs);
        let method = if profile == "c13" { rand_method(rng) } else if rng.chance(1, 6) { "HEAD" } else if profile == "c01" && rng.chance(1, 12) { "POST" } else { "GET" };
        let mut h: Vec<(String, Vec<u8>)> = vec![];
        let mut hints = vec![];
        let p_range = if profile == "c02" { 9 } else { 6 };
        if rng.below(10) < p_range {
            h.push(("range".into(), rand_range_value(rng, l)));
        }
        let p_cond = if profile == "c02" { 1 } else if profile == "c13" { 6 } else { 3 };
        if rng.below(10) < p_cond {
            let malformed_ok = profile == "c13" || rng.chance(1, 4);
            rand_conditionals(rng, &etag, mtime, &mut h, &mut hints, malformed_ok);
        }
        if rng.chance(1, if profile == "c13" { 3 } else { 8 }) {
            let v = match (rng.below(4), &etag) {
                (0, Some(t)) => t.render(),
                (1, _) => http_date(T0),
                (2, _) => b"\"zzz\"".to_vec(),
                _ => arbitrary_value(rng),
            };
            h.push(("if-range".into(), v));
        }
        if profile == "c13" {
            // arbitrary bytes in any header, repeated header lines
            if rng.chance(1, 3) {
                let name = *rng.pick(&["range", "if-range", "if-match", "if-none-match", "if-modified-since", "if-unmodified-since"]);
                h.push((name.into(), arbitrary_value(rng)));
            }
            if rng.chance(1, 4) && !h.is_empty() {
                let (k, _) = rng.pick(&h).clone();
                h.push((k, arbitrary_value(rng)));
            }
            if rng.chance(1, 4) {
                rng_shuffle(rng, &mut h);
            }
        }
        h.retain(|(_, v)| http::HeaderValue::from_bytes(v).is_ok());
        // grammatical hints are only valid for the first value of a name and when not malformed: drop hints if a name repeats
        let mut names: Vec<&String> = h.iter().map(|(k, _)| k).collect();
        names.sort();
        let dup = names.windows(2).any(|w| w[0] == w[1]);
        if dup {
            hints.clear();
        }
        // chunking
        let style = rng.below(4);
        e.default_recipe = if profile == "c20" || (profile != "c02" && rng.chance(1, 6)) {
            // faulty streams
            match rng.below(5) {
                0 => vec![Op::Chunk(1), Op::Err(3)],
                1 => vec![Op::Chunk(2)],
                2 => vec![Op::RestOrFault, Op::Chunk(1)],
                3 => vec![Op::Pending, Op::Chunk(1), Op::Pending, Op::Err(4)],
                _ => vec![],
            }
        } else {
            honest_recipe(rng, if style == 1 { 2 } else { style })
        };
        let class = format!(
            "M:{} L={} {} etag={:?} mtime={:?} | {}",
            profile,
            l,
            method,
            etag.as_ref().map(|t| String::from_utf8_lossy(&t.render()).to_string()),
            mtime,
            h.iter().map(|(k, v)| format!("{}: {}", k, String::from_utf8_lossy(v))).collect::<Vec<_>>().join(" | ")
        );
        let mut c = case(e, method, h.clone(), class);
        if dup {
            c.hints = Val::L(vec![]);
        }
        c.extra_polls = rng.range(1, 4) as u32;
        emit(finish_case(c, &etag, hints));
    }
}

fn rng_shuffle<T>(rng: &mut Rng, v: &mut Vec<T>) {
    for i in (1..v.len()).rev() {
        let j = rng.below(i as u64 + 1) as usize;
        v.swap(i, j);
    }
}

/// Small-range chunkings, exhaustive: every split of ranges of <= 6 bytes (C01/C02).
pub fn gen_chunkings(rng: &mut Rng, thorough: bool, emit: &mut dyn FnMut(ServeCase)) {
    let maxlen = if thorough { 6 } else { 5 };
    for len in 1..=maxlen {
        for comp in compositions(len, len as usize) {
            for shape in 0..3 {
                let recipe: Vec<Op> = comp.iter().map(|c| Op::Chunk(*c)).collect();
                let (l, headers, ncalls) = match shape {
                    0 => (len, vec![], 1),
                    1 => (100, vec![("range".to_string(), format!("bytes=7-{}", 7 + len - 1).into_bytes())], 1),
                    _ => (2000, vec![("range".to_string(), format!("bytes=7-{}, 1000-{}", 7 + len - 1, 1000 + len - 1).into_bytes())], 2),
                };
                let mut e = ent(l);
                e.recipes = (0..ncalls).map(|_| recipe.clone()).collect();
                emit(case(e, "GET", headers, format!("X:chunking shape={} split={:?}", shape, comp)));
            }
        }
    }
    // random chunkings with empty chunks and Pendings
    let n = if thorough { 20000 } else { 1500 };
    for _ in 0..n {
        let len = rng.range(1, 300);
        let a = rng.below(1000);
        let l = *rng.pick(&[a + len, a + len + 1, 100_000, U64MAX]);
        let mut e = ent(l);
        let style = rng.below(3);
        e.default_recipe = exact_recipe(rng, len, style);
        let hdr = if l == a + len && rng.chance(1, 2) { format!("bytes={}-", a) } else { format!("bytes={}-{}", a, a + len - 1) };
        emit(case(e, "GET", vec![("range".to_string(), hdr.clone().into_bytes())], format!("X:chunking-random L={} {} style={}", l, hdr, style)));
    }
}

/// The corner where the true multipart length reaches 2^64 although the 80-byte estimate is below
/// Entities whose modification time has no HTTP-date (the year 10000 and beyond: a garbage file
/// timestamp; the Entity documentation allows future times): every kind of answer must still come
/// out -- Last-Modified is the clock then, the conditional dates are compared with the time itself.
pub fn gen_far_future(emit: &mut dyn FnMut(ServeCase)) {
    let now = now_secs();
    let last = 253_402_300_799u64; // 9999-12-31 23:59:59, the last HTTP-date there is
    for secs in FAR_FUTURE_SECS {
        for sub in [0u128, 1, 500_000_000] {
            for etag in [None, Some(Tag { weak: false, opaque: b"abc".to_vec() })] {
                for m in ["GET", "HEAD"] {
                    let mut sets: Vec<Vec<(String, Vec<u8>)>> = vec![vec![]];
                    for d in [http_date(now - 86400), http_date(now + 86400), http_date(last)] {
                        sets.push(vec![("if-modified-since".into(), d.clone())]);
                        sets.push(vec![("if-unmodified-since".into(), d.clone())]);
                        sets.push(vec![("if-modified-since".into(), d.clone()), ("if-unmodified-since".into(), d.clone())]);
                        sets.push(vec![("range".into(), b"bytes=1-3".to_vec()), ("if-range".into(), d.clone())]);
                        sets.push(vec![("if-none-match".into(), b"\"xyz\"".to_vec()), ("if-modified-since".into(), d.clone())]);
                        sets.push(vec![("if-match".into(), b"\"abc\"".to_vec()), ("if-unmodified-since".into(), d)]);
                    }
                    sets.push(vec![("if-none-match".into(), b"\"abc\"".to_vec())]);
                    sets.push(vec![("if-match".into(), b"\"xyz\"".to_vec())]);
                    sets.push(vec![("range".into(), b"bytes=1-3".to_vec())]);
                    sets.push(vec![("range".into(), b"bytes=1-3, 500-600".to_vec())]);
                    sets.push(vec![("range".into(), b"bytes=5000-".to_vec())]);
                    sets.push(vec![("range".into(), b"bytes=1-3".to_vec()), ("if-range".into(), b"\"abc\"".to_vec())]);
                    for h in sets {
                        let mut e = ent_with(1000, &etag, None, ehdr_sets()[1].clone());
                        e.mtime_ns = Some(secs as u128 * 1_000_000_000 + sub);
                        let c = case(e, m, h, format!("G:far-future-mtime secs={} sub={}", secs, sub));
                        emit(finish_case(c, &etag, vec![]));
                    }
                }
            }
        }
    }
}

/// the entity length: astronomically large entity, one near-total range plus tiny ones, entity
/// headers of every length (they decide whether the part header pushes the sum over the limit).
/// Both sides of the boundary: 413 just above, multipart 206 just below.
pub fn gen_overflow_corner(rng: &mut Rng, thorough: bool, emit: &mut dyn FnMut(ServeCase)) {
    let l = U64MAX;
    let deltas: Vec<u64> = if thorough { (0..400).collect() } else { vec![0, 1, 2, 40, 56, 57, 58, 80, 90, 94, 95, 100, 140, 160, 161, 162, 163, 164, 200, 250, 300, 390] };
    for hs in ehdr_sets() {
        for tail in ["0-0", "5-5,7-7", "-1"] {
            let ntail = tail.matches(',').count() as u64 + 1;
            for with_if_range in [false, true] {
              // besides the sampled deltas: the 16 consecutive ones around the point where the true
              // multipart length (computed here independently, in u128) crosses 2^64 -- with and without
              // the 9-byte closing delimiter
              let each: u128 = if with_if_range { 0 } else { hs.iter().map(|(a, b)| (a.len() + b.len() + 4) as u128).sum() };
              let total_at = |d: u64| -> u128 {
                  let big_end = l - 1 - 80 * (ntail + 1) - ntail - d;
                  let mut rs: Vec<(u64, u64)> = vec![(0, big_end)];
                  match tail { "0-0" => rs.push((0, 0)), "5-5,7-7" => { rs.push((5, 5)); rs.push((7, 7)) } _ => rs.push((l - 1, l - 1)) }
                  let digits = |n: u64| n.to_string().len() as u128;
                  rs.iter().map(|(a, b)| 7 + 21 + digits(*a) + 1 + digits(*b) + 1 + digits(l) + 2 + each + 2 + (*b as u128 - *a as u128 + 1)).sum::<u128>() + 9
              };
              let mut ds = deltas.clone();
              let over = total_at(0).saturating_sub(1u128 << 64);
              if over < 100_000 {
                  let d0 = over as u64;
                  for k in 0..16u64 {
                      let d = (d0 + 12).saturating_sub(k);
                      if !ds.contains(&d) { ds.push(d); }
                  }
              }
              for &d in &ds {
                // the estimate is (ntail + 1) * 80 + lens; keep it just below L and move the big range's end
                let big_end = l - 1 - 80 * (ntail + 1) - ntail - d;
                {
                    if !thorough && with_if_range && !rng.chance(1, 3) && deltas.contains(&d) {
                        continue;
                    }
                    let etag = Some(Tag { weak: false, opaque: b"abc".to_vec() });
                    let mut h = vec![("range".to_string(), format!("bytes=0-{},{}", big_end, tail).into_bytes())];
                    if with_if_range {
                        h.push(("if-range".into(), etag.as_ref().unwrap().render()));
                    }
                    for m in ["GET", "HEAD"] {
                        if m == "HEAD" && !rng.chance(1, 3) {
                            continue;
                        }
                        let mut e = ent_with(l, &etag, None, hs.clone());
                        e.default_recipe = vec![Op::Chunk(3), Op::Err(9)];
                        let hs_len: usize = hs.iter().map(|(a, b)| a.len() + b.len() + 4).sum();
                        let c = case(e, m, h.clone(), format!("G:overflow-corner ehdr_bytes={} tail={} delta={} if-range={} {}", hs_len, tail, d, with_if_range, m));
                        emit(finish_case(c, &etag, vec![]));
                    }
                }
              }
            }
        }
    }
}
