//! `Body::empty()` and the four `Body::from` conversions, polled by hand: size hint and
//! end-of-stream flag before the first and after every poll, extra polls after the end.
use crate::val::Val;
use bytes::Bytes;
use http_body::Body as _;
use std::panic::{catch_unwind, AssertUnwindSafe};
use std::pin::Pin;
use std::task::{Context, Poll};

type BoxError = Box<dyn std::error::Error + Send + Sync>;
type B = http_serve::Body<Bytes, BoxError>;

#[derive(Clone, Debug)]
pub struct OnceCase {
    /// 0 empty(), 1 From<&'static [u8]>, 2 From<&'static str>, 3 From<Vec<u8>>, 4 From<String>
    pub kind: u64,
    pub data: Vec<u8>,
    pub polls: u32,
    pub class: String,
}

fn hint_val(b: &B) -> Val {
    let h = b.size_hint();
    match h.upper() {
        Some(u) if u == h.lower() => Val::N(u),
        u => Val::L(vec![Val::N(h.lower()), Val::opt(u.map(Val::N))]),
    }
}

pub fn run(case: &OnceCase) -> Val {
    let input = Val::L(vec![Val::N(case.kind), Val::bytes(&case.data)]);
    let data = case.data.clone();
    let kind = case.kind;
    let built = catch_unwind(AssertUnwindSafe(move || -> B {
        match kind {
            0 => B::empty(),
            1 => B::from(&*Box::leak(data.into_boxed_slice())),
            2 => B::from(&*Box::leak(String::from_utf8(data).expect("text").into_boxed_str())),
            3 => B::from(data),
            _ => B::from(String::from_utf8(data).expect("text")),
        }
    }));
    let body = match built {
        Ok(b) => b,
        Err(_) => return Val::L(vec![input, Val::L(vec![Val::bytes(b"PANIC")])]),
    };
    let mut body = Box::pin(body);
    let hint0 = hint_val(&body);
    let eos0 = body.is_end_stream();
    let waker = crate::serve_engine::noop_waker();
    let mut cx = Context::from_waker(&waker);
    let mut polls = vec![];
    for _ in 0..case.polls {
        let r = catch_unwind(AssertUnwindSafe(|| Pin::as_mut(&mut body).poll_frame(&mut cx)));
        let rv = match r {
            Err(_) => {
                polls.push(Val::L(vec![Val::N(2), Val::N(0), Val::N(0)]));
                break;
            }
            Ok(Poll::Pending) => Val::N(0),
            Ok(Poll::Ready(None)) => Val::N(1),
            Ok(Poll::Ready(Some(Ok(f)))) => match f.into_data() {
                Ok(d) => Val::B(d.to_vec()),
                Err(_) => Val::L(vec![Val::N(8)]),
            },
            Ok(Poll::Ready(Some(Err(_)))) => Val::L(vec![Val::N(9), Val::N(0)]),
        };
        polls.push(Val::L(vec![rv, hint_val(&body), Val::boolean(body.is_end_stream())]));
    }
    Val::L(vec![input, Val::L(vec![hint0, Val::boolean(eos0), Val::L(polls)])])
}

pub fn case_of_input(v: &Val) -> Option<OnceCase> {
    let l = v.as_list()?;
    Some(OnceCase { kind: l[0].as_n()?, data: l[1].as_b()?.clone(), polls: 5, class: "replay".into() })
}

/// all five constructors x lengths {0, 1, 2, 255, 4096, 65537} (text for the str/String kinds)
pub fn gen(emit: &mut dyn FnMut(OnceCase)) {
    for kind in 0..=4u64 {
        for len in [0usize, 1, 2, 255, 4096, 65537] {
            if kind == 0 && len > 0 {
                continue;
            }
            // text kinds: valid UTF-8 with blanks at both ends, a line break and multi-byte characters;
            // byte kinds: every byte value including NUL and 0xff
            let data: Vec<u8> = if kind == 2 || kind == 4 {
                let alphabet = [" ", "a", "\u{e9}", "\n", "Z", "\u{4e16}", "\t", "0"];
                let mut s = String::new();
                let mut i = 0usize;
                while s.len() < len {
                    let piece = alphabet[(i * 5 + i / 8) % alphabet.len()];
                    if s.len() + piece.len() > len {
                        s.push_str(if len - s.len() >= 1 { " " } else { "" });
                    } else {
                        s.push_str(piece);
                    }
                    i += 1;
                }
                s.into_bytes()
            } else {
                (0..len).map(|i| ((i * 37 + i / 256) % 256) as u8).collect()
            };
            for polls in [1u32, 2, 5] {
                emit(OnceCase { kind, data: data.clone(), polls, class: format!("O:kind={} len={} polls={}", kind, len, polls) });
            }
        }
    }
}
