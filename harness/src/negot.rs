//! should_gzip engine: structured Accept-Encoding generation and execution.
use crate::rng::Rng;
use crate::val::Val;
use std::panic::{catch_unwind, AssertUnwindSafe};

#[derive(Clone, Debug)]
pub enum Weight {
    /// "0" [ "." digits ]: digits (0..=3 of them), and whether a bare "." is written
    Zero(Vec<u8>, bool),
    /// "1" [ "." zeros ]
    One(usize, bool),
}
impl Weight {
    pub fn render(&self) -> String {
        match self {
            Weight::Zero(ds, dot) => {
                if ds.is_empty() {
                    if *dot { "0.".into() } else { "0".into() }
                } else {
                    format!("0.{}", ds.iter().map(|d| (b'0' + d) as char).collect::<String>())
                }
            }
            Weight::One(z, dot) => {
                if *z == 0 {
                    if *dot { "1.".into() } else { "1".into() }
                } else {
                    format!("1.{}", "0".repeat(*z))
                }
            }
        }
    }
    fn val(&self) -> Val {
        match self {
            Weight::Zero(ds, dot) => Val::L(vec![Val::N(0), Val::L(ds.iter().map(|d| Val::N(*d as u64)).collect()), Val::N(*dot as u64)]),
            Weight::One(z, dot) => Val::L(vec![Val::N(1), Val::N(*z as u64), Val::N(*dot as u64)]),
        }
    }
}

#[derive(Clone, Debug)]
pub struct Elem {
    pub pre: String,
    pub coding: String,
    pub w: Option<(String, String, Weight)>,
    pub post: String,
}
impl Elem {
    pub fn render(&self) -> String {
        let mut s = format!("{}{}", self.pre, self.coding);
        if let Some((w1, w2, w)) = &self.w {
            s.push_str(&format!("{};{}q={}", w1, w2, w.render()));
        }
        s.push_str(&self.post);
        s
    }
    fn val(&self) -> Val {
        Val::L(vec![
            Val::bytes(self.pre.as_bytes()),
            Val::bytes(self.coding.as_bytes()),
            Val::opt(self.w.as_ref().map(|(a, b, w)| Val::L(vec![Val::bytes(a.as_bytes()), Val::bytes(b.as_bytes()), w.val()]))),
            Val::bytes(self.post.as_bytes()),
        ])
    }
}
pub fn render_list(l: &[Elem]) -> String {
    l.iter().map(|e| e.render()).collect::<Vec<_>>().join(",")
}

pub struct NegotCase {
    pub header: Option<Vec<u8>>,
    pub ast: Option<Vec<Elem>>,
    /// further Accept-Encoding header lines (HeaderMap::append), each rendered from an AST
    pub more: Vec<Vec<Elem>>,
    pub class: String,
}

pub fn run_should_gzip_lines(first: &Option<Vec<u8>>, more: &[Vec<u8>]) -> u64 {
    let mut h = http::HeaderMap::new();
    if let Some(v) = first {
        h.insert(http::header::ACCEPT_ENCODING, http::HeaderValue::from_bytes(v).expect("valid header value"));
    }
    for v in more {
        h.append(http::header::ACCEPT_ENCODING, http::HeaderValue::from_bytes(v).expect("valid header value"));
    }
    match catch_unwind(AssertUnwindSafe(|| http_serve::should_gzip(&h))) {
        Ok(b) => b as u64,
        Err(_) => 2,
    }
}

pub fn run_should_gzip(header: &Option<Vec<u8>>) -> u64 {
    let mut h = http::HeaderMap::new();
    if let Some(v) = header {
        h.insert(http::header::ACCEPT_ENCODING, http::HeaderValue::from_bytes(v).expect("valid header value"));
    }
    match catch_unwind(AssertUnwindSafe(|| http_serve::should_gzip(&h))) {
        Ok(b) => b as u64,
        Err(_) => 2,
    }
}

pub fn case_line(id: &str, c: &NegotCase) -> String {
    let more_bytes: Vec<Vec<u8>> = c.more.iter().map(|l| render_list(l).into_bytes()).collect();
    let obs = run_should_gzip_lines(&c.header, &more_bytes);
    let hint = match &c.ast {
        Some(l) => Val::L(vec![Val::L(l.iter().map(|e| e.val()).collect())]),
        None => Val::L(vec![]),
    };
    // each further line: its bytes and the AST it was rendered from
    let more = Val::L(c.more.iter().zip(more_bytes.iter()).map(|(l, b)| Val::L(vec![Val::bytes(b), Val::L(l.iter().map(|e| e.val()).collect())])).collect());
    let v = Val::L(vec![Val::L(vec![Val::opt(c.header.as_ref().map(|h| Val::bytes(h))), hint, more]), Val::N(obs)]);
    format!("negot {} {}", id, v.to_string())
}

pub const CODINGS: [&str; 6] = ["gzip", "identity", "*", "br", "deflate", "x-gzip"];

/// The weights of the property's quantifier, plus digit counts that cross.
pub fn weights() -> Vec<Option<Weight>> {
    let z = |ds: &[u8]| Some(Weight::Zero(ds.to_vec(), true));
    vec![
        None,
        Some(Weight::Zero(vec![], false)), // 0
        Some(Weight::Zero(vec![], true)),  // 0.
        z(&[0]),                           // 0.0
        z(&[0, 0, 0]),                     // 0.000
        z(&[0, 0, 1]),                     // 0.001
        z(&[5]),                           // 0.5
        z(&[9, 9, 9]),                     // 0.999
        Some(Weight::One(0, false)),       // 1
        Some(Weight::One(0, true)),        // 1.
        Some(Weight::One(3, true)),        // 1.000
        // digit counts that cross: a wrong scale factor flips a comparison
        z(&[0, 5]),                        // 0.05
        z(&[4, 5]),                        // 0.45
        z(&[4, 9]),                        // 0.49
        z(&[0, 5, 1]),                     // 0.051
        z(&[1, 0]),                        // 0.10
        z(&[1, 0, 0]),                     // 0.100
        z(&[1]),                           // 0.1
        Some(Weight::One(1, true)),        // 1.0
        Some(Weight::One(2, true)),        // 1.00
    ]
}

const OWS: [&str; 4] = ["", " ", "\t", "  "];

fn mk_elem(rng: &mut Rng, coding: &str, w: &Option<Weight>, canonical_ws: bool) -> Elem {
    let ws = |rng: &mut Rng| if canonical_ws { "".to_string() } else { rng.pick(&OWS).to_string() };
    Elem {
        pre: if canonical_ws { "".into() } else { ws(rng) },
        coding: coding.into(),
        w: w.as_ref().map(|w| (ws(rng), ws(rng), w.clone())),
        post: ws(rng),
    }
}

pub fn gen_c16(rng: &mut Rng, thorough: bool, emit: &mut dyn FnMut(NegotCase)) {
    gen_multiline(rng, emit);
    emit(NegotCase { header: None, ast: None, more: vec![], class: "absent".into() });
    emit(NegotCase { header: Some(vec![]), ast: None, more: vec![], class: "empty".into() });
    let ws_all = weights();
    let nw = if thorough { ws_all.len() } else { 11 + 6 };
    let ws_ = &ws_all[..nw];
    // exhaustive: all lists of <= 2 (quick) / 3 (thorough) elements with canonical whitespace;
    // longer lists sampled
    let maxlen = if thorough { 3 } else { 2 };
    let mut idx: Vec<(usize, usize)> = vec![];
    fn rec(depth: usize, maxlen: usize, nw: usize, cur: &mut Vec<(usize, usize)>, out: &mut Vec<Vec<(usize, usize)>>) {
        if !cur.is_empty() {
            out.push(cur.clone());
        }
        if depth == maxlen {
            return;
        }
        for c in 0..CODINGS.len() {
            for w in 0..nw {
                cur.push((c, w));
                rec(depth + 1, maxlen, nw, cur, out);
                cur.pop();
            }
        }
    }
    let mut all = vec![];
    rec(0, maxlen, if thorough { 11 } else { nw }, &mut idx, &mut all);
    for combo in &all {
        if thorough && combo.len() == 3 && !rng.chance(1, 4) {
            continue; // 3-element lists: a quarter, seed-dependent (the full 287k are covered over seeds)
        }
        let l: Vec<Elem> = combo.iter().map(|(c, w)| mk_elem(rng, CODINGS[*c], &ws_all[*w], true)).collect();
        let h = render_list(&l);
        emit(NegotCase { header: Some(h.clone().into_bytes()), ast: Some(l), more: vec![], class: format!("G:exhaustive {:?}", h) });
    }
    // sampled: up to 4 elements, whitespace variants, duplicate codings
    let n = if thorough { 200000 } else { 6000 };
    for _ in 0..n {
        let k = rng.range(1, 4);
        let l: Vec<Elem> = (0..k)
            .map(|_| {
                let c = *rng.pick(&CODINGS);
                let w = rng.pick(ws_).clone();
                mk_elem(rng, c, &w, false)
            })
            .collect();
        // one case in three: empty list elements (RFC 7230 section 7: a recipient must accept and ignore them)
        // at random positions -- an element with an empty coding and no weight, with or without blanks
        let mut l = l;
        if rng.chance(1, 3) {
            for _ in 0..rng.range(1, 2) {
                let at = rng.below(l.len() as u64 + 1) as usize;
                l.insert(at, mk_elem(rng, "", &None, false));
            }
        }
        let h = render_list(&l);
        emit(NegotCase { header: Some(h.clone().into_bytes()), ast: Some(l), more: vec![], class: format!("G:sampled {:?}", h) });
    }
    // the same, fixed: an empty element in front of, between and behind elements that decide the outcome
    for (a, b) in [("*", "gzip;q=0"), ("gzip;q=0.5", "identity"), ("identity;q=0.5", "gzip"), ("gzip", "identity;q=0"), ("identity;q=0", "*;q=0"), ("br", "gzip")] {
        let parse = |t: &str| -> Elem {
            match t.split_once(";q=") {
                None => Elem { pre: "".into(), coding: t.into(), w: None, post: "".into() },
                Some((c, q)) => {
                    let w = weights().into_iter().flatten().find(|w| w.render() == q).expect("a weight of the table");
                    Elem { pre: "".into(), coding: c.into(), w: Some(("".into(), "".into(), w)), post: "".into() }
                }
            }
        };
        let empty = |ws: &str| Elem { pre: ws.into(), coding: "".into(), w: None, post: "".into() };
        for shape in 0..5 {
            let l = match shape {
                0 => vec![empty(""), parse(a), parse(b)],
                1 => vec![parse(a), empty(" "), parse(b)],
                2 => vec![parse(a), parse(b), empty("")],
                3 => vec![parse(a), empty(""), empty("\t"), parse(b)],
                _ => vec![empty(" "), parse(b), empty(""), parse(a)],
            };
            let h = render_list(&l);
            emit(NegotCase { header: Some(h.clone().into_bytes()), ast: Some(l), more: vec![], class: format!("G:empty-elements {:?}", h) });
        }
    }
    // every pair of adjacent three-digit weights, gzip one thousandth below identity and the other way round
    // (a weight read through a float lands on the wrong side for a handful of them)
    for k in 1..1000u32 {
        let w3 = |v: u32| Weight::Zero(vec![(v / 100) as u8, (v / 10 % 10) as u8, (v % 10) as u8], true);
        for (gz, id) in [(k - 1, k), (k, k - 1)] {
            for star in [false, true] {
                if star && k % 7 != 0 {
                    continue;
                }
                let l = vec![
                    Elem { pre: "".into(), coding: "gzip".into(), w: Some(("".into(), "".into(), w3(gz))), post: "".into() },
                    Elem { pre: " ".into(), coding: if star { "*".into() } else { "identity".into() }, w: Some(("".into(), "".into(), w3(id))), post: "".into() },
                ];
                let h = render_list(&l);
                emit(NegotCase { header: Some(h.clone().into_bytes()), ast: Some(l), more: vec![], class: format!("G:adjacent-weights {:?}", h) });
            }
        }
    }
    // near misses and arbitrary bytes: no-panic clause, compared with the model
    for h in [
        "gzip;q=0.+5", "gzip;q=0.0000", "gzip;q=1.001", "gzip;q=2", "gzip;q=", "gzip;q", "gzip;", ";q=1", ",", ",,", "gzip,", ",gzip",
        "gzip;q=1;x=y", "gzip; q=1 ; x", "GZIP", "gzip;Q=1", "identity=q=0, *", "gzip;q=0.9999", "gzip;q=0.99a", "gzip;q=-0.5", "gzip;q=+1",
        "gzip;q=0.+99", "gzip;q=0.-1", "gzip ;q= 1", "gzip;q=1 0", "*;q=0", "*", "identity;q=0", "gzip;q=0.001", "gzip;q=65536",
        "gzip;q=0.65536", "gzip;q=0.655", "gz ip", " ", "\t", "gzip\t;\tq=0.5\t,\tidentity\t;\tq=0.4",
    ] {
        emit(NegotCase { header: Some(h.as_bytes().to_vec()), ast: None, more: vec![], class: format!("N:fixed {:?}", h) });
    }
    let n = if thorough { 100000 } else { 4000 };
    for _ in 0..n {
        let len = rng.below(30);
        let mut v = vec![];
        for _ in 0..len {
            let c = match rng.below(12) {
                0 => 0x80 + rng.below(0x80) as u8,
                1 => b'\t',
                2..=7 => *rng.pick(b"gzipdentyq=;,.0159* +-"),
                _ => 0x20 + rng.below(0x5f) as u8,
            };
            v.push(c);
        }
        if http::HeaderValue::from_bytes(&v).is_err() {
            continue;
        }
        emit(NegotCase { header: Some(v.clone()), ast: None, more: vec![], class: format!("A {:?}", String::from_utf8_lossy(&v)) });
    }
}

/// Several Accept-Encoding lines in one request (a client or proxy that repeats the header): pairs and
/// triples of one-element lines over the codings and a few weights.
pub fn gen_multiline(rng: &mut Rng, emit: &mut dyn FnMut(NegotCase)) {
    let ws_all = weights();
    let wsel = [0usize, 1, 6, 8, 5]; // none, 0, 0.5, 1, 0.001
    let mut lines: Vec<Vec<Elem>> = vec![];
    for c in ["gzip", "identity", "*", "br"] {
        for w in wsel {
            lines.push(vec![mk_elem(rng, c, &ws_all[w], true)]);
        }
    }
    for a in &lines {
        for b in &lines {
            let h = render_list(a);
            emit(NegotCase { header: Some(h.clone().into_bytes()), ast: Some(a.clone()), more: vec![b.clone()],
                             class: format!("G:two-lines {:?} + {:?}", h, render_list(b)) });
        }
    }
    for _ in 0..300 {
        let a = rng.pick(&lines).clone();
        let b = rng.pick(&lines).clone();
        let c = rng.pick(&lines).clone();
        let h = render_list(&a);
        emit(NegotCase { header: Some(h.clone().into_bytes()), ast: Some(a), more: vec![b.clone(), c.clone()],
                         class: format!("G:three-lines {:?} + {:?} + {:?}", h, render_list(&b), render_list(&c)) });
    }
}
