//! Progress reporting and resumption for `gen-run`, so that the driver (vcheck) can notice a case
//! on which the implementation does not return (or kills the process), record it, and resume after it.
//! Every generated case has a global index (order of generation, a function of property, tier and
//! seed only). Before a case is executed the worker prints `@ <index> <class>` on stdout.
use std::io::Write;
use std::sync::atomic::{AtomicU64, Ordering};
use std::sync::Mutex;

static IDX: AtomicU64 = AtomicU64::new(0);
static FROM: AtomicU64 = AtomicU64::new(0);
static ONLY: AtomicU64 = AtomicU64::new(u64::MAX);
static HUNG: Mutex<Vec<u64>> = Mutex::new(Vec::new());
/// milliseconds since start at which the current case was announced (0 = none running)
static STARTED_MS: AtomicU64 = AtomicU64::new(0);
static T0: Mutex<Option<std::time::Instant>> = Mutex::new(None);
/// exit status of a worker that gave up on a case by itself
pub const EXIT_STALLED: i32 = 86;

fn now_ms() -> u64 {
    let mut g = T0.lock().unwrap();
    let t0 = g.get_or_insert_with(std::time::Instant::now);
    t0.elapsed().as_millis() as u64 + 1
}
/// In-process watchdog: a case that has been running for `limit_s` seconds ends the worker with
/// EXIT_STALLED (the driver then records the case and resumes after it). The driver's own, longer
/// stall timeout is the backstop if this thread is starved.
pub fn start_watchdog(limit_s: u64) {
    std::thread::spawn(move || loop {
        std::thread::sleep(std::time::Duration::from_millis(250));
        let s = STARTED_MS.load(Ordering::SeqCst);
        if s != 0 && now_ms().saturating_sub(s) > limit_s * 1000 {
            eprintln!("watchdog: case {} has not returned within {} s", IDX.load(Ordering::SeqCst).saturating_sub(1), limit_s);
            std::process::exit(EXIT_STALLED);
        }
    });
}
/// called when the worker has finished all cases
pub fn done() {
    STARTED_MS.store(0, Ordering::SeqCst);
}
/// a long-running case (a schedule exploration) reports that it is alive
pub fn tick() {
    STARTED_MS.store(now_ms(), Ordering::SeqCst);
    let out = std::io::stdout();
    let mut o = out.lock();
    let _ = writeln!(o, "@ {} .", IDX.load(Ordering::SeqCst).saturating_sub(1));
    let _ = o.flush();
}

pub fn init(from: u64, only: Option<u64>, hung: Vec<u64>) {
    FROM.store(from, Ordering::SeqCst);
    ONLY.store(only.unwrap_or(u64::MAX), Ordering::SeqCst);
    *HUNG.lock().unwrap() = hung;
}
pub fn resumed() -> bool {
    FROM.load(Ordering::SeqCst) > 0
}
fn announce(idx: u64, class: &str) {
    STARTED_MS.store(now_ms(), Ordering::SeqCst);
    let out = std::io::stdout();
    let mut o = out.lock();
    let _ = writeln!(o, "@ {} {}", idx, class.replace('\n', " "));
    let _ = o.flush();
}
/// Independent cases: Some(index) = execute and write this case; None = skip it entirely.
pub fn gate(class: &str) -> Option<u64> {
    let idx = IDX.fetch_add(1, Ordering::SeqCst);
    let only = ONLY.load(Ordering::SeqCst);
    if only != u64::MAX {
        if idx != only {
            return None;
        }
    } else if idx < FROM.load(Ordering::SeqCst) {
        return None;
    }
    announce(idx, class);
    Some(idx)
}
/// Cases that later cases of the same history depend on: (index, execute?, write?). A case already
/// written by an earlier worker is executed again (its response feeds the next request) but not
/// written; a case on which an earlier worker hung is not executed.
pub fn gate_history(class: &str) -> (u64, bool, bool) {
    let idx = IDX.fetch_add(1, Ordering::SeqCst);
    if HUNG.lock().unwrap().contains(&idx) {
        return (idx, false, false);
    }
    let only = ONLY.load(Ordering::SeqCst);
    let write = if only != u64::MAX { idx == only } else { idx >= FROM.load(Ordering::SeqCst) };
    if write || only != u64::MAX && idx <= only {
        announce(idx, class);
    }
    (idx, true, write)
}
