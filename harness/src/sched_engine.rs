//! Deterministic exploration of producer/consumer interleavings of the real chunker, at
//! critical-section and wake granularity, using the `verif-hooks` mutex callback.
//! Two OS threads (producer P, consumer C) run under a baton: exactly one runs at a time and
//! the controller decides who continues at every yield point.
use crate::val::Val;
use bytes::Bytes;
use http_body::Body as _;
use std::cell::Cell;
use std::io::Write;
use std::sync::{Arc, Condvar, Mutex};
use std::task::{Context, Poll, Wake, Waker};

type BoxError = Box<dyn std::error::Error + Send + Sync>;

#[derive(Clone, Debug)]
pub enum POp {
    Write(Vec<u8>),
    Flush,
    WaitParked,
    Abort,
    Drop,
}

#[derive(Clone, Debug)]
pub struct SchedCase {
    pub cap: usize,
    pub program: Vec<POp>,
    pub fresh_waker: bool,
    pub spurious: u32,
    /// the consumer drops the body after this many polls (None: polls until the end)
    pub drop_after: Option<u32>,
    /// probe mode: the producer also yields while it HOLDS the lock, so that the consumer can be
    /// scheduled inside a producer critical section. Code that waits for the lock (the unchanged
    /// code) just blocks there and nothing new happens; code that does not wait (try_lock, or no
    /// lock at all) shows what it does when it loses that race.
    pub probe_held: bool,
    /// the consumer samples size_hint() before every poll (trace event [6 lower upper]); a sampling that
    /// takes the lock more than once lets the producer run in between
    pub sample_hints: bool,
    pub class: String,
}

#[derive(Clone, Copy, PartialEq, Eq, Debug)]
enum Who {
    P,
    C,
}

#[derive(Clone, Debug, PartialEq)]
enum PStatus {
    Ready(usize),
    PostUnlock(usize),
    /// (probe mode) inside a critical section of operation k, holding the lock
    Holding(usize),
    Finished,
}
#[derive(Clone, Debug, PartialEq)]
enum CStatus {
    Ready,
    /// inside a poll (or the drop), about to take the lock again after having released it
    MidPoll,
    /// waiting for the lock the producer holds
    Blocked,
    Parked(u64),
    Done,
}

struct St {
    turn: Option<Who>,
    p: PStatus,
    c: CStatus,
    woken: Vec<u64>,
    trace: Vec<Val>,
    spurious_left: u32,
    p_locks_held: i32,
    wake_while_locked: bool,
    aborted: bool,
    abandon: bool,
    arrived: u32,
    data_pending_at_end: bool,
}

struct Sched {
    st: Mutex<St>,
    cv: Condvar,
}

thread_local! {
    static ROLE: Cell<u8> = const { Cell::new(0) }; // 0 none, 1 P, 2 C
    static CUR_OP: Cell<usize> = const { Cell::new(0) };
    static LOCKS: Cell<u32> = const { Cell::new(0) };
    static C_LOCKS: Cell<u32> = const { Cell::new(0) };
    static C_WID: Cell<u64> = const { Cell::new(0) };
}

impl Sched {
    /// first check-in of a thread: wait for the first turn without touching the baton
    fn arrive(&self, who: Who) {
        let mut g = self.st.lock().unwrap();
        g.arrived += 1;
        self.cv.notify_all();
        while g.turn != Some(who) && !g.abandon {
            g = self.cv.wait(g).unwrap();
        }
    }
    /// the calling thread hands the baton back and waits until it is chosen again
    fn yield_back(&self, who: Who, f: impl FnOnce(&mut St)) {
        let mut g = self.st.lock().unwrap();
        f(&mut g);
        g.turn = None;
        self.cv.notify_all();
        while g.turn != Some(who) && !g.abandon {
            g = self.cv.wait(g).unwrap();
        }
    }
}

struct SchedWaker {
    id: u64,
    sched: Arc<Sched>,
}
impl Wake for SchedWaker {
    fn wake(self: Arc<Self>) {
        let mut g = self.sched.st.lock().unwrap();
        if !g.woken.contains(&self.id) {
            g.woken.push(self.id);
        }
        if g.p_locks_held > 0 {
            g.wake_while_locked = true;
        }
        g.trace.push(Val::L(vec![Val::N(1), Val::N(self.id)]));
    }
}

pub struct RunResult {
    pub trace: Vec<Val>,
    /// decision points: (index in choice sequence, alternatives not taken)
    pub decisions: Vec<(usize, Vec<u8>)>,
    pub choices: Vec<u8>,
    pub stuck: bool,          // consumer parked and unwoken at the end although something was pending
    pub timeout: bool,
    pub wake_while_locked: bool,
}

/// One execution following `prefix`, then always the first enabled choice (P before C).
pub fn run_one(case: &SchedCase, prefix: &[u8]) -> RunResult {
    let sched = Arc::new(Sched {
        st: Mutex::new(St {
            turn: None,
            p: PStatus::Ready(0),
            c: CStatus::Ready,
            woken: vec![],
            trace: vec![],
            spurious_left: case.spurious,
            p_locks_held: 0,
            wake_while_locked: false,
            aborted: false,
            abandon: false,
            arrived: 0,
            data_pending_at_end: false,
        }),
        cv: Condvar::new(),
    });
    let req = http::Request::builder().method("GET").body(()).unwrap();
    let (resp, writer) = http_serve::streaming_body(&req).with_chunk_size(case.cap).build::<Bytes, BoxError>();
    let mut writer = writer;
    let body = resp.into_body();

    // the hook: P yields right after releasing the lock (between its critical section and its wake)
    let s2 = sched.clone();
    let probe_held = case.probe_held;
    http_serve::verif_hooks::set_callback(Some(Arc::new(move |e| {
        let role = ROLE.with(|r| r.get());
        if role == 1 {
            match e {
                http_serve::verif_hooks::Event::AfterLock => {
                    LOCKS.with(|l| l.set(l.get() + 1));
                    s2.st.lock().unwrap().p_locks_held += 1;
                    if probe_held {
                        let k = CUR_OP.with(|c| c.get());
                        s2.yield_back(Who::P, |st| st.p = PStatus::Holding(k));
                    }
                }
                http_serve::verif_hooks::Event::AfterUnlock => {
                    let k = CUR_OP.with(|c| c.get());
                    s2.yield_back(Who::P, |st| {
                        st.p_locks_held -= 1;
                        st.p = PStatus::PostUnlock(k);
                        st.trace.push(Val::L(vec![Val::N(0), Val::N(k as u64)]));
                    });
                }
                _ => {}
            }
        } else if role == 2 {
            // the consumer: a poll of the unchanged code is one critical section, so there is no
            // yield inside it; if a poll takes the lock a second time, the producer may run in between
            match e {
                http_serve::verif_hooks::Event::BeforeLock => {
                    if C_LOCKS.with(|l| l.get()) > 0 {
                        let wid = C_WID.with(|w| w.get());
                        s2.yield_back(Who::C, |st| {
                            st.c = CStatus::MidPoll;
                            st.trace.push(Val::L(vec![Val::N(5), Val::N(wid)]));
                        });
                    }
                    // a lock() while the producer holds the lock waits for it (try_lock does not: BeforeTryLock)
                    while s2.st.lock().unwrap().p_locks_held > 0 && !s2.st.lock().unwrap().abandon {
                        s2.yield_back(Who::C, |st| st.c = CStatus::Blocked);
                    }
                }
                http_serve::verif_hooks::Event::AfterLock => C_LOCKS.with(|l| l.set(l.get() + 1)),
                _ => {}
            }
        }
    })));

    let program = case.program.clone();
    let sp = sched.clone();
    let pt = std::thread::spawn(move || {
        ROLE.with(|r| r.set(1));
        sp.arrive(Who::P);
        for (k, op) in program.iter().enumerate() {
            if sp.st.lock().unwrap().abandon {
                break;
            }
            CUR_OP.with(|c| c.set(k));
            LOCKS.with(|l| l.set(0));
            let res = match op {
                POp::Write(d) => match writer.as_mut() {
                    Some(w) => match w.write(d) {
                        Ok(n) => Val::L(vec![Val::N(0), Val::N(n as u64)]),
                        Err(_) => Val::L(vec![Val::N(1)]),
                    },
                    None => Val::L(vec![Val::N(1)]),
                },
                POp::Flush => match writer.as_mut() {
                    Some(w) => match w.flush() {
                        Ok(()) => Val::L(vec![Val::N(2)]),
                        Err(_) => Val::L(vec![Val::N(3)]),
                    },
                    None => Val::L(vec![Val::N(3)]),
                },
                POp::WaitParked => Val::N(0),
                POp::Abort => {
                    if let Some(w) = writer.as_mut() {
                        w.abort(Box::new(std::io::Error::new(std::io::ErrorKind::Other, "abort")));
                    }
                    sp.st.lock().unwrap().aborted = true;
                    Val::N(0)
                }
                POp::Drop => {
                    writer = None;
                    Val::N(0)
                }
            };
            let nlocks = LOCKS.with(|l| l.get());
            let next = if k + 1 < program.len() { PStatus::Ready(k + 1) } else { PStatus::Finished };
            sp.yield_back(Who::P, |st| {
                st.trace.push(Val::L(vec![Val::N(2), Val::N(k as u64), res.clone(), Val::N(nlocks as u64)]));
                st.p = next.clone();
            });
        }
        // the writer (if still there) stays alive until the end of the run: its drop is an explicit op
        let mut g = sp.st.lock().unwrap();
        g.p = PStatus::Finished;
        g.turn = None;
        sp.cv.notify_all();
        drop(g);
        writer
    });

    let sc = sched.clone();
    let fresh = case.fresh_waker;
    let drop_after = case.drop_after;
    let sample_hints = case.sample_hints;
    let ct = std::thread::spawn(move || {
        ROLE.with(|r| r.set(2));
        let mut body = Some(Box::pin(body));
        sc.arrive(Who::C);
        let mut npolls = 0u32;
        let mut wid = 1u64;
        let mut wakers: std::collections::HashMap<u64, Waker> = Default::default();
        loop {
            if sc.st.lock().unwrap().abandon {
                break;
            }
            if let Some(n) = drop_after {
                if npolls >= n {
                    C_LOCKS.with(|l| l.set(0));
                    C_WID.with(|w| w.set(0));
                    body = None;
                    sc.yield_back(Who::C, |st| {
                        st.trace.push(Val::L(vec![Val::N(4)]));
                        st.c = CStatus::Done;
                    });
                    break;
                }
            }
            if fresh {
                wid += 1;
            }
            let waker = wakers.entry(wid).or_insert_with(|| Waker::from(Arc::new(SchedWaker { id: wid, sched: sc.clone() }))).clone();
            {
                let mut g = sc.st.lock().unwrap();
                g.woken.retain(|w| *w != wid);
            }
            let mut cx = Context::from_waker(&waker);
            if sample_hints {
                C_LOCKS.with(|l| l.set(0));
                C_WID.with(|w| w.set(wid));
                let h = body.as_ref().unwrap().size_hint();
                let ev = Val::L(vec![Val::N(6), Val::N(h.lower()), Val::opt(h.upper().map(Val::N))]);
                sc.st.lock().unwrap().trace.push(ev);
            }
            C_LOCKS.with(|l| l.set(0));
            C_WID.with(|w| w.set(wid));
            let r = body.as_mut().unwrap().as_mut().poll_frame(&mut cx);
            npolls += 1;
            let (rv, next) = match r {
                Poll::Pending => (Val::L(vec![Val::N(4)]), CStatus::Parked(wid)),
                Poll::Ready(None) => (Val::L(vec![Val::N(5)]), CStatus::Done),
                Poll::Ready(Some(Err(_))) => (Val::L(vec![Val::N(6)]), CStatus::Done),
                Poll::Ready(Some(Ok(f))) => (Val::B(f.into_data().map(|d| d.to_vec()).unwrap_or_default()), CStatus::Ready),
            };
            let done = next == CStatus::Done;
            sc.yield_back(Who::C, |st| {
                st.trace.push(Val::L(vec![Val::N(3), Val::N(wid), rv.clone()]));
                st.c = next.clone();
            });
            if done {
                break;
            }
        }
        ROLE.with(|r| r.set(0));
        let mut g = sc.st.lock().unwrap();
        if let (CStatus::Parked(_), Some(b)) = (&g.c, body.as_ref()) {
            // asleep at the end of a maximal schedule: is anything queued for it?
            g.data_pending_at_end = b.size_hint().lower() > 0;
        }
        g.turn = None;
        sc.cv.notify_all();
        drop(g);
        body
    });

    // controller
    let mut choices: Vec<u8> = vec![];
    let mut decisions = vec![];
    let mut timeout = false;
    let mut stuck = false;
    // wait for both threads to arrive at their first yield
    let deadline = std::time::Instant::now() + std::time::Duration::from_secs(5);
    {
        let mut g = sched.st.lock().unwrap();
        while g.arrived < 2 {
            g = sched.cv.wait(g).unwrap();
        }
    }
    loop {
        let mut g = sched.st.lock().unwrap();
        // each yield_back sets turn=None; we grant turns one at a time
        let p_en = match &g.p {
            PStatus::Ready(k) => match case.program.get(*k) {
                Some(POp::WaitParked) => matches!(g.c, CStatus::Parked(_)) || g.c == CStatus::Done,
                Some(_) => true,
                None => false,
            },
            PStatus::PostUnlock(_) | PStatus::Holding(_) => true,
            PStatus::Finished => false,
        };
        let c_en = match &g.c {
            CStatus::Ready | CStatus::MidPoll => true,
            CStatus::Blocked => g.p_locks_held == 0,
            CStatus::Parked(w) => g.woken.contains(w) || g.spurious_left > 0,
            CStatus::Done => false,
        };
        let mut enabled = vec![];
        if p_en {
            enabled.push(0u8);
        }
        if c_en {
            enabled.push(1u8);
        }
        if enabled.is_empty() {
            // maximal schedule: is the consumer asleep although something is pending?
            if let CStatus::Parked(_) = g.c {
                let writer_gone = case.program.iter().any(|o| matches!(o, POp::Drop | POp::Abort));
                if writer_gone && g.p == PStatus::Finished {
                    stuck = true;
                }
            }
            break;
        }
        let idx = choices.len();
        let pick = if idx < prefix.len() && enabled.contains(&prefix[idx]) { prefix[idx] } else { enabled[0] };
        let alts: Vec<u8> = enabled.iter().cloned().filter(|e| *e != pick).collect();
        if idx >= prefix.len() && !alts.is_empty() {
            decisions.push((idx, alts));
        }
        choices.push(pick);
        let who = if pick == 0 { Who::P } else { Who::C };
        if who == Who::C {
            if let CStatus::Parked(w) = &g.c {
                if !g.woken.contains(w) {
                    g.spurious_left -= 1;
                }
            }
        }
        g.turn = Some(who);
        sched.cv.notify_all();
        // wait until the chosen thread yields back
        while g.turn.is_some() {
            let (g2, to) = sched.cv.wait_timeout(g, std::time::Duration::from_secs(2)).unwrap();
            g = g2;
            if to.timed_out() && g.turn.is_some() {
                timeout = true;
                break;
            }
        }
        if timeout || std::time::Instant::now() > deadline {
            timeout = true;
            break;
        }
    }
    // let the threads finish
    {
        let mut g = sched.st.lock().unwrap();
        g.abandon = true;
        sched.cv.notify_all();
    }
    http_serve::verif_hooks::set_callback(None);
    if !timeout {
        let _w = pt.join();
        let _b = ct.join();
    }
    let (wake_while_locked, trace) = {
        let g = sched.st.lock().unwrap();
        if let CStatus::Parked(w) = &g.c {
            if g.data_pending_at_end && !g.woken.contains(w) {
                stuck = true;
            }
        }
        (g.wake_while_locked, g.trace.clone())
    };
    RunResult { trace, decisions, choices, stuck, timeout, wake_while_locked }
}

fn pop_val(o: &POp) -> Val {
    match o {
        POp::Write(d) => Val::L(vec![Val::N(0), Val::bytes(d)]),
        POp::Flush => Val::L(vec![Val::N(2)]),
        POp::WaitParked => Val::L(vec![Val::N(8)]),
        POp::Abort => Val::L(vec![Val::N(3)]),
        POp::Drop => Val::L(vec![Val::N(4)]),
    }
}

pub fn case_line(id: &str, case: &SchedCase, r: &RunResult) -> String {
    let input = Val::L(vec![
        Val::N(case.cap as u64),
        Val::L(case.program.iter().map(pop_val).collect()),
        Val::L(r.trace.clone()),
        Val::L(r.choices.iter().map(|c| Val::N(*c as u64)).collect()),
        Val::boolean(case.fresh_waker),
        Val::N(case.spurious as u64),
        Val::opt(case.drop_after.map(|d| Val::N(d as u64))),
        Val::boolean(case.probe_held),
        Val::boolean(case.sample_hints),
    ]);
    let obs = Val::L(vec![Val::boolean(r.stuck), Val::boolean(r.timeout), Val::boolean(r.wake_while_locked)]);
    format!("sched {} {}", id, Val::L(vec![input, obs]).to_string())
}

/// Stateless DFS over schedules of one program; returns (#schedules, exhausted?).
pub fn explore(case: &SchedCase, max_runs: usize, emit: &mut dyn FnMut(&RunResult)) -> (usize, bool) {
    let mut stack: Vec<Vec<u8>> = vec![vec![]];
    let mut runs = 0;
    while let Some(prefix) = stack.pop() {
        if runs >= max_runs {
            return (runs, false);
        }
        let r = run_one(case, &prefix);
        runs += 1;
        for (idx, alts) in &r.decisions {
            for a in alts {
                let mut p = r.choices[..*idx].to_vec();
                p.push(*a);
                stack.push(p);
            }
        }
        emit(&r);
    }
    (runs, true)
}

/// Rebuilds (case, schedule) from a recorded input value (replay).
pub fn case_of_input(v: &Val) -> Option<(SchedCase, Vec<u8>)> {
    let l = v.as_list()?;
    let mut program = vec![];
    for o in l[1].as_list()? {
        let o = o.as_list()?;
        program.push(match o[0].as_n()? {
            0 => POp::Write(o[1].as_b()?.clone()),
            2 => POp::Flush,
            3 => POp::Abort,
            4 => POp::Drop,
            8 => POp::WaitParked,
            _ => return None,
        });
    }
    let choices: Vec<u8> = l[3].as_list()?.iter().filter_map(|c| c.as_n().map(|n| n as u8)).collect();
    Some((
        SchedCase {
            cap: l[0].as_n()? as usize,
            program,
            fresh_waker: l[4].as_n()? != 0,
            spurious: l[5].as_n()? as u32,
            drop_after: l[6].as_opt()?.and_then(|d| d.as_n()).map(|d| d as u32),
            probe_held: l.get(7).and_then(|v| v.as_n()).map(|n| n != 0).unwrap_or(false),
            sample_hints: l.get(8).and_then(|v| v.as_n()).map(|n| n != 0).unwrap_or(false),
            class: "replay".into(),
        },
        choices,
    ))
}
