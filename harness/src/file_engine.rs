//! ChunkedReadFile on real temporary files: exact bytes, truncation between polls, validators.
use crate::entity::content;
use crate::rng::Rng;
use crate::val::Val;
use bytes::Bytes;
use futures_core::Stream;
use http_serve::Entity;
use std::io::Write;
use std::os::unix::fs::MetadataExt;
use std::pin::Pin;

type BoxError = Box<dyn std::error::Error + Send + Sync>;
type Crf = http_serve::ChunkedReadFile<Bytes, BoxError>;

pub struct FileCase {
    pub kind: u64, // 0 regular, 1 directory, 2 /dev/null
    pub size: u64,
    pub a: u64,
    pub e: u64,
    /// (before poll index, new length)
    pub truncs: Vec<(usize, u64)>,
    /// a second stream of the same entity (another range), alive at the same time and polled alternately
    pub companion: Option<(u64, u64)>,
    pub class: String,
}

/// Sets the modification time explicitly after the last write, so that the inode change time and the
/// modification time differ (also below the second), as they do after a chmod, rename or utimes.
fn set_mtime(p: &std::path::Path, size: u64) {
    let f = std::fs::OpenOptions::new().write(true).open(p).unwrap();
    f.set_modified(std::time::SystemTime::UNIX_EPOCH + std::time::Duration::new(1_600_000_000 + size % 1000, 123_456_789)).unwrap();
}

/// a SystemTime as (before the epoch?, distance from the epoch in ns)
fn signed_ns(t: std::time::SystemTime) -> (bool, u64) {
    match t.duration_since(std::time::UNIX_EPOCH) {
        Ok(d) => (false, d.as_secs() * 1_000_000_000 + d.subsec_nanos() as u64),
        Err(e) => {
            let d = e.duration();
            (true, d.as_secs() * 1_000_000_000 + d.subsec_nanos() as u64)
        }
    }
}

fn write_file(p: &std::path::Path, size: u64) {
    let mut f = std::io::BufWriter::new(std::fs::File::create(p).unwrap());
    let mut off = 0u64;
    let mut buf = Vec::with_capacity(65536);
    while off < size {
        buf.clear();
        let n = (size - off).min(65536);
        for i in 0..n {
            buf.push(content(off + i));
        }
        f.write_all(&buf).unwrap();
        off += n;
    }
    f.flush().unwrap();
}

pub fn run(rt: &tokio::runtime::Runtime, dir: &std::path::Path, c: &FileCase, checks: &mut Vec<String>) -> String {
    let path = dir.join("f");
    let (file, meta) = match c.kind {
        1 => {
            let f = std::fs::File::open(dir).unwrap();
            let m = f.metadata().unwrap();
            (f, m)
        }
        2 => {
            let f = std::fs::File::open("/dev/null").unwrap();
            let m = f.metadata().unwrap();
            (f, m)
        }
        3 => {
            // a sparse file: real content in the first 6 MiB (polling stops after 4 MiB), then a hole
            write_file(&path, c.size.min(6 << 20));
            let mut f = std::fs::OpenOptions::new().write(true).open(&path).unwrap();
            f.set_len(c.size).unwrap();
            // real content also around the 4 GiB mark (positions whose high 32 bits are not zero)
            if c.size > (1u64 << 32) {
                use std::io::Seek;
                let from = (1u64 << 32) - 200_000;
                f.seek(std::io::SeekFrom::Start(from)).unwrap();
                let buf: Vec<u8> = (from..c.size).map(content).collect();
                f.write_all(&buf).unwrap();
            }
            drop(f);
            set_mtime(&path, c.size);
            let f = std::fs::File::open(&path).unwrap();
            let m = f.metadata().unwrap();
            (f, m)
        }
        4 => {
            // a regular file dated before 1970 (a restored or mis-dated file), with a sub-second part:
            // tv_sec = -(size % 1000) - 31_536_000, tv_nsec = 250_000_000 (or a whole second for odd sizes)
            write_file(&path, c.size);
            let back = std::time::Duration::new(31_536_000 + c.size % 1000, if c.size % 2 == 0 { 0 } else { 750_000_000 });
            let f = std::fs::OpenOptions::new().write(true).open(&path).unwrap();
            f.set_modified(std::time::SystemTime::UNIX_EPOCH - back).unwrap();
            drop(f);
            let f = std::fs::File::open(&path).unwrap();
            let m = f.metadata().unwrap();
            (f, m)
        }
        _ => {
            write_file(&path, c.size);
            if (c.size + c.a + c.e) % 2 == 0 {
                set_mtime(&path, c.size);
            }
            let f = std::fs::File::open(&path).unwrap();
            let m = f.metadata().unwrap();
            (f, m)
        }
    };
    let (mtime_neg, mtime_ns) = signed_ns(meta.modified().unwrap());
    let ino = meta.ino();
    let size = meta.len();
    let crf = std::panic::catch_unwind(std::panic::AssertUnwindSafe(|| Crf::new(file, http::HeaderMap::new())));
    let mut flens: Vec<Val> = vec![];
    let mut shorts: Vec<Val> = vec![];
    let mut npolls = 0u64;
    let obs = match crf {
        Err(_) => Val::L(vec![Val::N(9)]),
        Ok(Err(_)) => Val::L(vec![Val::N(0)]),
        Ok(Ok(crf)) => {
            let crf = std::sync::Arc::new(crf);
            let etag = match std::panic::catch_unwind(std::panic::AssertUnwindSafe(|| crf.etag())) {
                Ok(e) => e.map(|e| e.as_bytes().to_vec()).unwrap_or_default(),
                Err(_) => {
                    checks.push("C18:etag-panics-for-a-regular-file".into());
                    vec![]
                }
            };
            let len0 = crf.len();
            let lm0 = crf.last_modified().map(signed_ns);
            let (a, e) = (c.a, c.e);
            let truncs = c.truncs.clone();
            let p2 = path.clone();
            let crf2 = crf.clone();
            let companion = c.companion;
            let (polls, companion_ok): (Vec<(Val, u64, u64)>, bool) = rt.block_on(async move {
                tokio::spawn(async move {
                    let mut out = vec![];
                    let mut stream: Pin<Box<dyn Stream<Item = Result<Bytes, BoxError>> + Send + Sync>> = crf2.get_range(a..e);
                    // the companion: "cheap to clone and reuse for many requests" -- two bodies of one entity
                    let mut comp: Option<(Pin<Box<dyn Stream<Item = Result<Bytes, BoxError>> + Send + Sync>>, u64, u64)> =
                        companion.map(|(b, f)| (crf2.get_range(b..f), b, f));
                    let mut comp_ok = true;
                    let mut cur = a;
                    let mut after_terminal = 0;
                    let mut k = 0usize;
                    loop {
                        for (j, t) in &truncs {
                            if *j == k {
                                let f = std::fs::OpenOptions::new().write(true).open(&p2).unwrap();
                                f.set_len(*t).unwrap();
                            }
                        }
                        let flen = std::fs::metadata(&p2).map(|m| m.len()).unwrap_or(0);
                        let r = std::future::poll_fn(|cx| stream.as_mut().poll_next(cx)).await;
                        // one poll of the companion after each poll of the stream under observation
                        let mut comp_done = false;
                        if let Some((cs, pos, end)) = comp.as_mut() {
                            match std::future::poll_fn(|cx| cs.as_mut().poll_next(cx)).await {
                                None => {
                                    comp_ok &= *pos == *end;
                                    comp_done = true;
                                }
                                Some(Ok(d)) => {
                                    comp_ok &= !d.is_empty() && d.iter().enumerate().all(|(i, b)| *b == content(*pos + i as u64));
                                    *pos += d.len() as u64;
                                    comp_ok &= *pos <= *end;
                                }
                                Some(Err(_)) => {
                                    comp_ok = false;
                                    comp_done = true;
                                }
                            }
                        }
                        if comp_done {
                            comp = None;
                        }
                        k += 1;
                        let ended = r.is_none();
                        let (v, short, terminal) = match r {
                            None => (Val::L(vec![Val::N(2)]), 0, true),
                            Some(Ok(d)) => {
                                let ok = d.iter().enumerate().all(|(i, b)| *b == content(cur + i as u64));
                                let n = d.len() as u64;
                                cur += n;
                                (Val::L(vec![Val::N(0), Val::N(n), Val::boolean(ok)]), n, false)
                            }
                            Some(Err(e)) => {
                                let eof = e.downcast_ref::<std::io::Error>().map(|e| e.kind() == std::io::ErrorKind::UnexpectedEof).unwrap_or(false);
                                (if eof { Val::L(vec![Val::N(1)]) } else { Val::L(vec![Val::N(3)]) }, 0, true)
                            }
                        };
                        out.push((v, flen, short));
                        if terminal {
                            after_terminal += 1;
                        }
                        // futures' unfold panics when polled after it returned None ("must not be polled
                        // after it returned Poll::Ready(None)"): stop at the end; errors may be re-polled
                        // at most 16 polls, and (sparse files) at most 4 MiB whatever the read size
                        if ended || after_terminal >= 2 || k >= 16 || cur - a >= (4 << 20) {
                            break;
                        }
                    }
                    (out, comp_ok)
                })
                .await
                .unwrap()
            });
            if !companion_ok {
                checks.push("C18:second-stream-of-the-same-entity-does-not-yield-its-range".into());
            }
            // metadata is that of construction time, whatever happened to the file since
            if crf.len() != len0 || crf.len() != size {
                checks.push("C18:len-not-that-of-construction".into());
            }
            if lm0 != Some((mtime_neg, mtime_ns)) || crf.last_modified().map(signed_ns) != lm0 {
                checks.push("C18:mtime-not-that-of-construction".into());
            }
            npolls = polls.len() as u64;
            for (_, fl, sh) in &polls {
                flens.push(Val::N(*fl));
                shorts.push(Val::N(*sh));
            }
            Val::L(vec![Val::N(1), Val::B(etag), Val::N(len0), match lm0 { Some((true, n)) => Val::L(vec![Val::N(1), Val::N(n)]), Some((false, n)) => Val::N(n), None => Val::N(0) }, Val::L(polls.into_iter().map(|p| p.0).collect())])
        }
    };
    let input = Val::L(vec![Val::N(c.kind), Val::N(ino), Val::N(size), Val::N(mtime_ns), Val::N(c.a), Val::N(c.e), Val::L(flens), Val::L(shorts), Val::N(npolls), Val::N(mtime_neg as u64)]);
    Val::L(vec![input, obs]).to_string()
}

/// Validators across instances: same tag on an unmodified file, different after append / touch / replace.
pub fn validator_checks(dir: &std::path::Path) -> Vec<String> {
    let mut checks = vec![];
    let p = dir.join("v");
    write_file(&p, 1000);
    let tag = |p: &std::path::Path| Crf::new(std::fs::File::open(p).unwrap(), http::HeaderMap::new()).unwrap().etag().unwrap().as_bytes().to_vec();
    let t1 = tag(&p);
    let t2 = tag(&p);
    if t1 != t2 {
        checks.push("C18:etag-differs-on-unmodified-file".into());
    }
    {
        let mut f = std::fs::OpenOptions::new().append(true).open(&p).unwrap();
        f.write_all(b"more").unwrap();
    }
    let t3 = tag(&p);
    if t3 == t1 {
        checks.push("C18:etag-unchanged-after-append".into());
    }
    // touch: same length, different mtime
    let f = std::fs::OpenOptions::new().write(true).open(&p).unwrap();
    f.set_modified(std::time::SystemTime::UNIX_EPOCH + std::time::Duration::new(1_600_000_000, 123_456_789)).unwrap();
    drop(f);
    let t4 = tag(&p);
    if t4 == t3 {
        checks.push("C18:etag-unchanged-after-mtime-change".into());
    }
    // modification times that differ only below a microsecond, and only in the seconds
    let set = |ns: u32, secs: u64| {
        let f = std::fs::OpenOptions::new().write(true).open(&p).unwrap();
        f.set_modified(std::time::SystemTime::UNIX_EPOCH + std::time::Duration::new(secs, ns)).unwrap();
    };
    set(123_456_100, 1_600_000_000);
    let ta = tag(&p);
    set(123_456_800, 1_600_000_000);
    let tb = tag(&p);
    if ta == tb {
        checks.push("C18:etag-unchanged-after-sub-microsecond-mtime-change".into());
    }
    set(123_456_800, 1_600_000_001);
    let tc = tag(&p);
    if tc == tb {
        checks.push("C18:etag-unchanged-after-one-second-mtime-change".into());
    }
    // mirror images around the epoch, less than a second from it: the side of the epoch must show in the tag
    {
        let f = std::fs::OpenOptions::new().write(true).open(&p).unwrap();
        f.set_modified(std::time::SystemTime::UNIX_EPOCH - std::time::Duration::new(0, 250_000_000)).unwrap();
        drop(f);
        let before = tag(&p);
        let f = std::fs::OpenOptions::new().write(true).open(&p).unwrap();
        f.set_modified(std::time::SystemTime::UNIX_EPOCH + std::time::Duration::new(0, 250_000_000)).unwrap();
        drop(f);
        let after = tag(&p);
        if before == after {
            checks.push("C18:etag-unchanged-between-mirror-times-around-the-epoch".into());
        }
    }
    set(123_456_789, 1_600_000_000);
    // replace: same length and mtime, different inode
    let q = dir.join("v2");
    std::fs::copy(&p, &q).unwrap();
    let f = std::fs::OpenOptions::new().write(true).open(&q).unwrap();
    f.set_modified(std::time::SystemTime::UNIX_EPOCH + std::time::Duration::new(1_600_000_000, 123_456_789)).unwrap();
    drop(f);
    let t5 = tag(&q);
    if t5 == t4 {
        checks.push("C18:etag-unchanged-after-replacement".into());
    }
    checks
}

/// One entity used for several reads while the file changes in between (the type is documented as reusable
/// for many requests): every read must see the file as it is then -- rewritten bytes, or a failure once it
/// has been truncated below the range.
pub fn reuse_checks(rt: &tokio::runtime::Runtime, dir: &std::path::Path) -> Vec<String> {
    let mut checks = vec![];
    for size in [10u64, 5000, 70_000] {
        let p = dir.join("r");
        write_file(&p, size);
        let crf = std::sync::Arc::new(Crf::new(std::fs::File::open(&p).unwrap(), http::HeaderMap::new()).unwrap());
        let read = |crf: std::sync::Arc<Crf>, a: u64, e: u64| -> Result<Vec<u8>, ()> {
            rt.block_on(async move {
                tokio::spawn(async move {
                    let mut st: Pin<Box<dyn Stream<Item = Result<Bytes, BoxError>> + Send + Sync>> = crf.get_range(a..e);
                    let mut out = vec![];
                    for _ in 0..64 {
                        match std::future::poll_fn(|cx| st.as_mut().poll_next(cx)).await {
                            None => return Ok(out),
                            Some(Ok(d)) => out.extend_from_slice(&d),
                            Some(Err(_)) => return Err(()),
                        }
                    }
                    Err(())
                })
                .await
                .unwrap()
            })
        };
        let want: Vec<u8> = (0..size).map(content).collect();
        if read(crf.clone(), 0, size) != Ok(want) {
            checks.push(format!("C18:first-read-of-a-reused-entity(size={})", size));
        }
        // rewritten in place, same length
        {
            use std::io::{Seek, Write as _};
            let mut f = std::fs::OpenOptions::new().write(true).open(&p).unwrap();
            f.seek(std::io::SeekFrom::Start(0)).unwrap();
            let nb: Vec<u8> = (0..size).map(|i| content(i) ^ 0x5a).collect();
            f.write_all(&nb).unwrap();
        }
        let want2: Vec<u8> = (0..size).map(|i| content(i) ^ 0x5a).collect();
        if read(crf.clone(), 0, size) != Ok(want2.clone()) {
            checks.push(format!("C18:reused-entity-yields-stale-bytes-after-the-file-was-rewritten(size={})", size));
        }
        if size > 4 && read(crf.clone(), 1, 4) != Ok(want2[1..4].to_vec()) {
            checks.push(format!("C18:reused-entity-yields-stale-bytes-for-a-sub-range(size={})", size));
        }
        // truncated below the range end
        {
            let f = std::fs::OpenOptions::new().write(true).open(&p).unwrap();
            f.set_len(size / 2).unwrap();
        }
        if read(crf.clone(), 0, size).is_ok() {
            checks.push(format!("C18:reused-entity-does-not-fail-after-truncation(size={})", size));
        }
    }
    checks
}

/// The same entities served through `serve` with Range headers.
pub fn serve_checks(rt: &tokio::runtime::Runtime, dir: &std::path::Path) -> Vec<String> {
    use http_body::Body as _;
    let mut checks = vec![];
    let p = dir.join("s");
    write_file(&p, 200_001);
    for (hdr, a, e) in [("bytes=0-0", 0u64, 1u64), ("bytes=65535-65536", 65535, 65537), ("bytes=-1", 200_000, 200_001), ("bytes=131071-200000", 131_071, 200_001), ("bytes=10-75000", 10, 75_001)] {
        let crf = Crf::new(std::fs::File::open(&p).unwrap(), http::HeaderMap::new()).unwrap();
        let req = http::Request::builder().header("range", hdr).body(()).unwrap();
        let body: Vec<u8> = rt.block_on(async move {
            tokio::spawn(async move {
                let resp = http_serve::serve(crf, &req);
                let mut body = Box::pin(resp.into_body());
                let mut out = vec![];
                loop {
                    match std::future::poll_fn(|cx| body.as_mut().poll_frame(cx)).await {
                        None => break,
                        Some(Ok(f)) => out.extend_from_slice(&f.into_data().unwrap()),
                        Some(Err(_)) => {
                            out.clear();
                            break;
                        }
                    }
                }
                out
            })
            .await
            .unwrap()
        });
        let expect: Vec<u8> = (a..e).map(content).collect();
        if body != expect {
            checks.push(format!("C18:serve-range-mismatch({})", hdr));
        }
    }
    checks
}

pub fn gen_c18(rng: &mut Rng, thorough: bool, emit: &mut dyn FnMut(FileCase)) {
    let sizes: Vec<u64> = vec![0, 1, 65535, 65536, 65537, 131072, 200001];
    for &size in &sizes {
        // range shapes: start/end on, just before and just after 64 KiB boundaries; empty; whole
        let mut marks: Vec<u64> = vec![0, 1, size / 2, size.saturating_sub(1), size];
        for b in [65536u64, 131072] {
            for d in [-1i64, 0, 1] {
                let m = b as i64 + d;
                if m >= 0 && (m as u64) <= size {
                    marks.push(m as u64);
                }
            }
        }
        marks.sort();
        marks.dedup();
        let mut ranges = vec![];
        for &a in &marks {
            for &e in &marks {
                if a <= e {
                    ranges.push((a, e));
                }
            }
        }
        for (a, e) in ranges {
            if !thorough && !rng.chance(1, 2) && !(a == 0 && e == size) {
                continue;
            }
            emit(FileCase { kind: 0, size, a, e, truncs: vec![], companion: None, class: format!("G:intact size={} range={}..{}", size, a, e) });
            if e > a {
                // truncation to every interesting length, before each of the first polls
                let mut ts: Vec<u64> = vec![0, a, a + 1, (a + e) / 2, e - 1, e, a + 65536, a + 65535, a + 65537];
                ts.retain(|t| *t <= size);
                ts.sort();
                ts.dedup();
                for t in ts {
                    for j in 0..3usize {
                        if !thorough && !rng.chance(1, 3) {
                            continue;
                        }
                        emit(FileCase { kind: 0, size, a, e, truncs: vec![(j, t)], companion: None, class: format!("F:truncate size={} range={}..{} to={} before-poll={}", size, a, e, t, j) });
                    }
                }
            }
        }
    }
    // two streams of one entity alive at once, polled alternately (the type is documented as cheap to
    // clone and reuse for many requests; every stream must still yield its own range)
    for (size, a, e, b, f) in [(200001u64, 0u64, 150000u64, 100000u64, 200001u64), (200001, 65536, 200001, 0, 131072), (131072, 0, 131072, 0, 131072), (200001, 1, 70000, 5, 9), (200001, 5, 9, 1, 140000)] {
        emit(FileCase { kind: 0, size, a, e, truncs: vec![], companion: Some((b, f)), class: format!("G:two-streams size={} range={}..{} companion={}..{}", size, a, e, b, f) });
    }
    // a sparse file longer than 4 GiB: ranges whose length is, or passes through, a multiple of 2^32
    // (a 32-bit read size would be 0 there); only the first polls are made
    let big: u64 = (1u64 << 32) + 131079;
    for (a, e) in [(0u64, 1u64 << 32), (0, (1 << 32) + 5), (5, (1 << 32) + 5), (70000, (1 << 32) + 70000), (0, big), (65536, (1u64 << 32) + 65536 + 65536), (1, 1 << 32),
                   // ranges that start just below, at and beyond 4 GiB (the position itself needs more than 32 bits)
                   ((1 << 32) - 100_000, (1 << 32) + 100_000), ((1 << 32) - 1, (1 << 32) + 1), (1 << 32, (1 << 32) + 65536), ((1 << 32) + 5, big), (big - 100, big)] {
        emit(FileCase { kind: 3, size: big, a, e, truncs: vec![], companion: None, class: format!("G:sparse size={} range={}..{}", big, a, e) });
    }
    // regular files dated before 1970, whole-second and with a sub-second part
    for (size, a, e) in [(1000u64, 0u64, 1000u64), (1001, 10, 20), (70001, 0, 70001), (4, 1, 3)] {
        emit(FileCase { kind: 4, size, a, e, truncs: vec![], companion: None, class: format!("G:pre-1970 size={} range={}..{}", size, a, e) });
    }
    emit(FileCase { kind: 1, size: 0, a: 0, e: 0, truncs: vec![], companion: None, class: "N:directory".into() });
    emit(FileCase { kind: 2, size: 0, a: 0, e: 0, truncs: vec![], companion: None, class: "N:dev-null".into() });
}
