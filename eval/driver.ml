(* Driver around the extracted model: reads "engine id value" lines, prints "id value". *)
open Hs_model

let rec pos_of_int64 (x : int64) : positive =
  (* x > 0, treated as unsigned *)
  if Int64.equal x 1L then XH
  else
    let rest = Int64.shift_right_logical x 1 in
    if Int64.equal (Int64.logand x 1L) 1L then XI (pos_of_int64 rest) else XO (pos_of_int64 rest)

let n_of_int64 (x : int64) : n = if Int64.equal x 0L then N0 else Npos (pos_of_int64 x)

let rec int64_of_pos (p : positive) (depth : int) : int64 =
  if depth > 64 then failwith "number exceeds 64 bits" else
  match p with
  | XH -> 1L
  | XO q -> Int64.shift_left (int64_of_pos q (depth + 1)) 1
  | XI q -> Int64.logor (Int64.shift_left (int64_of_pos q (depth + 1)) 1) 1L

let rec pos_bits = function XH -> 1 | XO q | XI q -> 1 + pos_bits q

let string_of_n (x : n) : Stdlib.String.t =
  match x with
  | N0 -> "0"
  | Npos p ->
      if pos_bits p <= 64 then Printf.sprintf "%Lu" (int64_of_pos p 1)
      else begin
        (* slow path: decimal by repeated doubling on a digit array *)
        let digits = ref [0] in
        let double_add carry0 =
          let carry = ref carry0 in
          let r = Stdlib.List.map (fun d -> let v = d * 2 + !carry in carry := v / 10; v mod 10) !digits in
          digits := if !carry > 0 then r @ [!carry] else r in
        let rec bits = function XH -> [1] | XO q -> 0 :: bits q | XI q -> 1 :: bits q in
        Stdlib.List.iter (fun b -> double_add b) (Stdlib.List.rev (bits p));
        Stdlib.String.concat "" (Stdlib.List.rev_map string_of_int !digits)
      end

let byte_table : n array = Stdlib.Array.init 256 (fun i -> n_of_int64 (Int64.of_int i))

let n_of_decimal (s : Stdlib.String.t) : n =
  if Stdlib.String.length s <= 18 then n_of_int64 (Int64.of_string s)
  else
    try n_of_int64 (Int64.of_string ("0u" ^ s))
    with _ ->
      (* bigger than 2^64: build by Horner with extracted arithmetic *)
      let ten = byte_table.(10) in
      let acc = ref N0 in
      Stdlib.String.iter (fun c -> acc := N.add (N.mul !acc ten) byte_table.(Stdlib.Char.code c - 48)) s;
      !acc

let hexval c =
  match c with
  | '0' .. '9' -> Stdlib.Char.code c - 48
  | 'a' .. 'f' -> Stdlib.Char.code c - 87
  | 'A' .. 'F' -> Stdlib.Char.code c - 55
  | _ -> failwith "bad hex"

let bytes_of_hex (s : Stdlib.String.t) (off : int) : n list =
  let len = (Stdlib.String.length s - off) / 2 in
  let rec go i acc =
    if i < 0 then acc
    else go (i - 1) (byte_table.(hexval s.[off + 2 * i] * 16 + hexval s.[off + 2 * i + 1]) :: acc) in
  go (len - 1) []

let bytes_of_string (s : Stdlib.String.t) : n list = Stdlib.List.init (Stdlib.String.length s) (fun i -> byte_table.(Stdlib.Char.code s.[i]))

let int_of_n (x : n) : int = match x with N0 -> 0 | Npos p -> Int64.to_int (int64_of_pos p 1)

(* tokens -> val *)
let parse_val (toks : Stdlib.String.t array) (start : int) : val0 * int =
  let rec one i =
    let t = toks.(i) in
    if t = "(" then begin
      let items = ref [] in
      let j = ref (i + 1) in
      while toks.(!j) <> ")" do
        let v, k = one !j in
        items := v :: !items; j := k
      done;
      (VL (Stdlib.List.rev !items), !j + 1)
    end
    else if t.[0] = 'x' then (VB (bytes_of_hex t 1), i + 1)
    else (VN (n_of_decimal t), i + 1)
  in
  one start

let buf = Buffer.create 65536
let rec print_val (v : val0) : unit =
  match v with
  | VN x -> Buffer.add_string buf (string_of_n x)
  | VB b ->
      Buffer.add_char buf 'x';
      Stdlib.List.iter (fun x -> Buffer.add_string buf (Printf.sprintf "%02x" (int_of_n x))) b
  | VL l ->
      Buffer.add_string buf "(";
      Stdlib.List.iter (fun x -> Buffer.add_char buf ' '; print_val x) l;
      Buffer.add_string buf " )"

let () =
  try
    while true do
      let line = input_line stdin in
      if Stdlib.String.length line > 0 then begin
        let toks = Stdlib.Array.of_list (Stdlib.List.filter (fun s -> s <> "") (Stdlib.String.split_on_char ' ' line)) in
        let engine = toks.(0) and id = toks.(1) in
        Buffer.clear buf;
        (try
           let v, _ = parse_val toks 2 in
           let r = run_case (bytes_of_string engine) v in
           print_val r
         with e -> Buffer.add_string buf ("( ( x424144 x" ^ (Stdlib.String.concat "" (Stdlib.List.map (fun c -> Printf.sprintf "%02x" (Stdlib.Char.code c)) (Stdlib.List.of_seq (Stdlib.String.to_seq (Printexc.to_string e))))) ^ " ( ) ( ) ) )"));
        print_string id; print_char ' '; print_string (Buffer.contents buf); print_newline ()
      end
    done
  with End_of_file -> ()
