#!/bin/sh
# Builds the evaluator from the extracted model (coq/Extract.v must have been compiled).
set -e
cd "$(dirname "$0")"
ocamlfind ocamlopt -O2 -w -a -package str hs_model.mli hs_model.ml driver.ml -o eval 2>/dev/null || \
ocamlfind ocamlopt -w -a hs_model.mli hs_model.ml driver.ml -o eval
