#!/bin/bash
# Developer tool: run the checks against a stored harmless change (benign/<name>/patch.diff) on /repo and undo it.
#   benigntool.sh run <name> [properties...]   (default: all 20)
set -u
cmd=$1; shift
case $cmd in
run)
  name=$1; shift
  props="$@"; [ -z "$props" ] && props="C01 C02 C03 C04 C05 C06 C07 C08 C09 C10 C11 C12 C13 C14 C15 C16 C17 C18 C19 C20"
  cd /repo && git apply /verif/benign/$name/patch.diff || { echo "$name: patch does not apply"; exit 2; }
  suite=$(cargo test --workspace --no-fail-fast --offline --features dir 2>&1 | grep -E "^test result" | grep -vc "ok\.")
  cd /verif
  out=""
  for p in $props; do
    o=$(./vcheck $p 2>&1); rc=$?
    r=$(echo "$o" | grep -E "VIOLATION" | sed -e 's/replay=[^ ]*//' | tr '\n' ' ')
    [ $rc -ne 0 ] && [ -z "$r" ] && r="$p exit=$rc without a VIOLATION line"
    [ -n "$r" ] && out="$out [$r]"
  done
  git -C /repo checkout -- . ; git -C /verif checkout -- evidence
  echo "$name suite_failures=$suite alarms:${out:- none}"
  ;;
esac
