#!/bin/bash
# Developer tool: every stored seeded change against the check of its own property, on the private copy
# given by SEEDW (default /root/scratch/seedw2). One line per change.
export SEEDW=${SEEDW:-/root/scratch/seedw2}
cd ${VSRC:-/verif}
for d in ${SEED_GLOB:-seeded/*/}; do
  name=$(basename $d)
  prop=$(python3 -c "import json;print(json.load(open('$d/meta.json'))['property'].split(',')[0].strip())")
  /verif/seedcopy.sh seeded $name $prop 2>&1 | grep -E "CONCRETE|MISSED|DIVERGENCE|patch does not" | cut -c1-150
done
