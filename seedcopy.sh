#!/bin/bash
# Developer tool: run checks against a stored seeded (or benign) change on a private copy of /repo and
# /verif under /root/scratch/seedw, so that /repo itself stays untouched (usable while something else
# is reading /repo).   seedcopy.sh <seeded|benign> <name> <property>...
kind=$1; name=$2; shift 2
W=${SEEDW:-/root/scratch/seedw}
V=${VSRC:-/verif}   # VSRC: a snapshot of /verif to test (so that /verif can be edited meanwhile)
mkdir -p $W
rsync -a --delete --exclude target --exclude .git /repo/ $W/repo/
rsync -a --exclude work --exclude harness/target --exclude harness/target-nohooks --exclude .git --exclude seeded --exclude benign --exclude evidence $V/ $W/verif/
sed -i "s|path = \"/repo\"|path = \"$W/repo\"|" $W/verif/harness/Cargo.toml
mkdir -p $W/verif/evidence
( cd $W/repo && patch -p1 -s < $V/$kind/$name/patch.diff ) || { echo "patch does not apply"; exit 2; }
cd $W/verif
for p in "$@"; do
  r=$(./vcheck $p 2>&1 | grep -E "VIOLATION|quick:" | tr '\n' ' ' | sed -e 's/replay=[^ ]*//')
  case "$r" in
    *no-failing-input-found*) v="DIVERGENCE-ONLY";;
    *VIOLATION*) v="CONCRETE";;
    *) v="MISSED";;
  esac
  echo "$name $p $v | $r"
done
