#!/bin/bash
# Developer tool: all stored harmless changes against the checks of the properties anchored in the files
# they touch (plus neighbours), on the private copy used by seedcopy.sh. Prints one line per change.
cd ${VSRC:-/verif}
for d in ${BENIGN_GLOB:-benign/*/}; do
  name=$(basename $d)
  files=$(grep '^+++ b/src/' $d/patch.diff | sed 's|+++ b/src/||' | tr '\n' ' ')
  props=""
  for f in $files; do
    case $f in
      range.rs) props="$props C03 C02 C13";;
      etag.rs) props="$props C04 C05 C13 C14";;
      serving.rs) props="$props C01 C02 C03 C04 C05 C06 C07 C12 C13 C14 C15 C20";;
      body.rs) props="$props C01 C02 C07 C12 C20";;
      chunker.rs) props="$props C08 C09 C10 C11 C12";;
      gzip.rs) props="$props C08 C09 C11 C17";;
      lib.rs) props="$props C13 C15 C16 C17";;
      file.rs|platform.rs) props="$props C18";;
      dir.rs) props="$props C19";;
    esac
  done
  props=$(echo $props | tr ' ' '\n' | sort -u | tr '\n' ' ')
  r=$(/verif/seedcopy.sh benign $name $props 2>&1 | grep -E "CONCRETE|DIVERGENCE|patch does not" | cut -c1-160 | tr '\n' ';')
  echo "$name [$files] alarms: ${r:-none}"
done
