#!/bin/bash
# Developer tool: confirm a seeded change made by a sub-agent in a scratch worktree, store it under
# /verif/seeded/<name>/, run the checks against it on /repo and undo it.
#   seedtool.sh confirm <worktree> <name> <property> [cargo-features]
#   seedtool.sh run <name> [properties...]
set -u
cmd=$1; shift
case $cmd in
confirm)
  wt=$1; name=$2; prop=$3; feat=${4:-}
  out=/verif/seeded/$name; mkdir -p $out
  cd $wt || exit 2
  git diff -- src > $out/patch.diff
  [ -s $out/patch.diff ] || { echo "no src change in $wt"; exit 2; }
  cp tests/seeded_demo.rs $out/seeded_demo.rs || exit 2
  fl=""; [ -n "$feat" ] && fl="--features $feat"
  echo "== build"; cargo build --offline 2>&1 | tail -1
  echo "== existing suite with the change"
  suite=$(cargo test --workspace --no-fail-fast --offline 2>&1 | grep -E "^test result|FAILED|panicked" | grep -v seeded_demo)
  mv tests/seeded_demo.rs /tmp/seeded_demo_$name.rs
  suite=$(cargo test --workspace --no-fail-fast --offline 2>&1 | grep -E "^test result" | tr '\n' ';')
  mv /tmp/seeded_demo_$name.rs tests/seeded_demo.rs
  echo "$suite"
  echo "== demo with the change (must fail)"
  cargo test --offline $fl --test seeded_demo 2>&1 | grep -E "^test result|error(\[|:)" | head -3
  with=$(cargo test --offline $fl --test seeded_demo 2>&1 | grep -cE "^test result: FAILED")
  git diff -- src > /tmp/seedtool_$name.patch; git checkout -q -- src
  echo "== demo without the change (must pass)"
  cargo test --offline $fl --test seeded_demo 2>&1 | grep -E "^test result|error(\[|:)" | head -3
  without=$(cargo test --offline $fl --test seeded_demo 2>&1 | grep -cE "^test result: ok")
  git apply /tmp/seedtool_$name.patch
  echo "with_change_failed=$with without_change_passed=$without"
  python3 - <<PY
import json
json.dump({"property":"$prop","name":"$name","confirmed_fails_with_change":bool($with),"confirmed_passes_without":bool($without),
 "existing_suite":"""$suite""","cargo_features":"$feat","needs":"","ran":["cargo build --offline","cargo test --workspace --no-fail-fast --offline","cargo test --offline $fl --test seeded_demo (with and without the src change)"]},open("$out/meta.json","w"),indent=1)
PY
  ;;
run)
  name=$1; shift
  cd /repo && git apply /verif/seeded/$name/patch.diff || { echo "patch does not apply"; exit 2; }
  cd /verif
  for p in "$@"; do
    r=$(./vcheck $p 2>&1 | grep -E "VIOLATION|quick:" | tr '\n' ' ')
    echo "$name $p: $r"
  done
  git -C /repo checkout -- . ; git -C /repo status --short | head -2
  git -C /verif checkout -- evidence   # evidence written while a seeded change was applied is not evidence about /repo
  ;;
matrix)
  # every stored seeded change against the check of its own property (regression test of the checks)
  for d in /verif/seeded/*/; do
    name=$(basename $d); prop=$(python3 -c "import json;print(json.load(open('$d/meta.json'))['property'])")
    cd /repo && git apply $d/patch.diff || { echo "$name: patch does not apply"; continue; }
    cd /verif
    r=$(./vcheck $prop 2>&1 | grep -E "VIOLATION|quick:" | tr '\n' ' ' | sed -e 's/replay=[^ ]*//')
    git -C /repo checkout -- .
    case "$r" in
      *no-failing-input-found*) v="DIVERGENCE-ONLY";;
      *VIOLATION*) v="CONCRETE";;
      *) v="MISSED";;
    esac
    echo "$name $v | $r"
  done
  git -C /repo status --short | head -2
  git -C /verif checkout -- evidence
  ;;
esac
