#!/bin/sh
# Builds the framework from files on disk only (offline): Coq development (full .vo),
# extracted evaluator, correspondence harness (debug + release).
set -e
cd "$(dirname "$0")"
export CARGO_NET_OFFLINE=true
cd coq
python3 - <<'PY'
import glob, os, subprocess
vs = sorted(os.path.relpath(f, '.') for f in glob.glob('**/*.v', recursive=True))
subprocess.check_call(['coq_makefile', '-f', '_CoqProject'] + vs + ['-o', 'Makefile'])
open('.filelist', 'w').write('\n'.join(vs))
PY
timeout 3000 make -j16
cd ..
sh eval/build.sh
cd harness
timeout 3000 cargo build --offline --quiet
timeout 3000 cargo build --offline --quiet --release
echo setup done
