"""Per-property configuration and exploration drivers for vcheck."""
import os, glob, hashlib, subprocess

COMMON_TB = [
    'Coq 8.16.1 kernel (coqc; coqchk in the thorough tier); no native_compute; vm_compute only in finite-family lemmas',
    'no axioms: Print Assumptions of every theorem must be "Closed under the global context"',
    'extraction: ExtrOcamlBasic only (bool/option/unit/list/prod/sumbool/sumor Extract Inductive, andb/orb inlined); N, positive, nat stay inductive; OCaml 4.13.1; eval/driver.ml (parsing/printing of case lines)',
    'correspondence harness (Rust, /verif/harness): generators, executors, canonicalisation; vcheck/vprops.py aggregation',
    'the model is a hand transliteration of the Rust source; the correspondence check on every run is what ties it to /repo',
]
SERVE_TB = COMMON_TB + [
    'modelled, not verified: http::HeaderMap/HeaderValue (first-value get, to_str), httpdate (parse/fmt oracle, round trip sampled every run), SystemTime::now (read back from the Date header)',
]

SERVE_ASSUME = [
    'entity length < 2^64; entity mtime within httpdate\'s formatting range',
    'HeaderMap::get returns the first value of a name; HeaderValue::to_str admits exactly HT, SP..~',
    'httpdate::parse_http_date(fmt_http_date(t)) = t on whole seconds (checked on the timestamps of every case)',
]

PROPS = {
    'C03': dict(
        engine='serve',
        fields=['status', 'hdr:content-range', 'hdr:content-type', 'calls', 'shape', 'polls'],
        trivial_tags=['200:full'],
        rule='structured generation from RFC 7233 ASTs: exhaustive small scope (all 1- and 2-spec sets over positions 0..L+2, L<=3 quick / <=6 thorough), boundary product over {0,1,L-1,L,L+1,2^32,2^63,2^64-2,2^64-1,2^64}, sets around the 80-byte estimate, near-miss mutations, arbitrary bytes. Non-trivial = the model does not take the plain "no usable Range -> 200 full" branch; distinct = distinct (entity length, header bytes, method).',
        trusted_base=SERVE_TB, assumptions=SERVE_ASSUME,
    ),
}

def known_class(prop, specfail, known_here):
    """Returns the known-finding entry whose class contains this failing case, if any."""
    for k in known_here:
        f = KNOWN_CLASSES.get(k['key'])
        if f and f(specfail):
            return k
    return None

KNOWN_CLASSES = {}

def relevant(field, patterns):
    for p in patterns:
        if p.endswith('*'):
            if field.startswith(p[:-1]):
                return True
        elif field == p:
            return True
    return False

def explore(prop, cfg, tier, seed, work, result, T):
    if cfg['engine'] == 'serve':
        return explore_lines(prop, cfg, tier, seed, work, result, T)
    raise RuntimeError('unknown engine')

def explore_lines(prop, cfg, tier, seed, work, result, T):
    """Engines whose cases are independent lines: corpus first, then generated cases."""
    ROOT = T['ROOT']
    cases = os.path.join(work, 'all.cases')
    meta = {}
    with open(cases, 'w') as out:
        # corpus of minimised past failures runs first
        corpus = sorted(glob.glob(os.path.join(ROOT, 'corpus', prop, '*.case')))
        if corpus:
            lines = []
            for f in corpus:
                for l in open(f):
                    l = l.strip()
                    if l and not l.startswith('#'):
                        lines.append(l)
            rc, o = T['run']([T['harness_bin'](), 'run'], stdin='\n'.join(lines) + '\n')
            for k, l in enumerate(o.split('\n')):
                if l:
                    eng, cid, rest = l.split(' ', 2)
                    cid = 'corpus-%d' % k
                    meta[cid] = ('corpus', '')
                    out.write('%s %s %s\n' % (eng, cid, rest))
        profiles = ['debug'] + (['release'] if tier == 'thorough' else [])
        for prof in profiles:
            base = os.path.join(work, 'run-' + prof)
            rc, o = T['run']([T['harness_bin'](prof), 'gen-run', '--property', prop, '--tier', tier, '--seed', str(seed), '--out', base], timeout=3000)
            if rc != 0:
                raise RuntimeError('harness failed: ' + o[-2000:])
            for l in open(base + '.meta'):
                p = l.rstrip('\n').split('\t')
                meta[prof[0] + p[0]] = (p[1], p[2] if len(p) > 2 else '')
            for l in open(base + '.cases'):
                eng, cid, rest = l.split(' ', 2)
                out.write('%s %s%s %s' % (eng, prof[0], cid, rest))
    n = T['evaluate'](cases, os.path.join(work, 'all.out'))
    result['evaluations'] = n
    res = T['read_results'](os.path.join(work, 'all.out'))
    wanted = {}
    trivial = set(cfg.get('trivial_tags', []))
    interesting = {}
    for cid, findings in res.items():
        tag = ''
        for f in findings:
            kind = f[0].decode()
            field = f[1].decode(errors='replace')
            if kind == 'TAG':
                tag = field
                result['tags'][field] = result['tags'].get(field, 0) + 1
            elif kind == 'DIV':
                if relevant(field, cfg['fields']):
                    wanted.setdefault(cid, []).append(('div', field, T['show'](f[2]), T['show'](f[3])))
                else:
                    result['drift'][field] = result['drift'].get(field, 0) + 1
            elif kind == 'SPEC':
                if field.startswith(prop + ':'):
                    wanted.setdefault(cid, []).append(('spec', field, '', ''))
            elif kind == 'BAD':
                result['bad'].append(cid)
        interesting[cid] = tag
        chk = meta.get(cid, ('', ''))[1]
        if chk:
            result['oracle_checks'].append('%s: %s' % (cid, chk))
    # one pass over the case file: hashes for distinctness, lines for replays, samples
    nsamples = 0
    for l in open(cases):
        eng, cid, rest = l.rstrip('\n').split(' ', 2)
        tag = interesting.get(cid, '')
        if tag and tag not in trivial:
            # the input is the first element of the case value: hash up to the observation is enough
            result['nontrivial'].add(hashlib.sha1(input_part(rest).encode()).hexdigest())
        if nsamples < 12 and cid in meta and (nsamples < 4 or tag not in trivial):
            if nsamples % 1 == 0:
                result['samples'].append({'id': cid, 'class': meta[cid][0], 'model_branch': tag})
                nsamples += 1
        if cid in wanted:
            for kind, field, m, i in wanted[cid]:
                rec = {'id': cid, 'line': l.rstrip('\n'), 'class': meta.get(cid, ('', ''))[0], 'field': field, 'model': m, 'impl': i, 'clause': field}
                (result['divergences'] if kind == 'div' else result['specfails']).append(rec)

def input_part(rest):
    """Text of the input value (first element of the top-level list)."""
    toks = rest.split()
    depth = 0
    for i, t in enumerate(toks):
        if t == '(':
            depth += 1
        elif t == ')':
            depth -= 1
            if depth == 1 and i > 1:
                return ' '.join(toks[1:i + 1])
    return rest
